(* Boolean equality on the values and results of Model/Iter.v, used only to compare model output with
   observations of the implementation (correspondence runs), and the class-predicate table check. *)
From Coq Require Import List ZArith NArith String Ascii Bool PeanoNat.
Import ListNotations.
Require Import TL.Model.Iter.

Definition list_eqb {A} (e : A -> A -> bool) : list A -> list A -> bool :=
  fix go (a b : list A) : bool :=
    match a, b with [] , [] => true | x :: r, y :: t => e x y && go r t | _, _ => false end.

Definition opt_eqb {A} (e : A -> A -> bool) (a b : option A) : bool :=
  match a, b with Some x, Some y => e x y | None, None => true | _, _ => false end.

Definition mapkind_eqb (a b : mapkind) : bool :=
  match a, b with
  | MDict, MDict | MOrderedDict, MOrderedDict | MDefaultDict, MDefaultDict | MProxy, MProxy
  | MCustomMapping, MCustomMapping => true | _, _ => false end.
Definition collkind_eqb (a b : collkind) : bool :=
  match a, b with
  | KList, KList | KTuple, KTuple | KDeque, KDeque | KSet, KSet | KFrozenSet, KFrozenSet
  | KCustomSeq, KCustomSeq | KSetSub, KSetSub | KKeysView, KKeysView | KValuesView, KValuesView
  | KItemsView, KItemsView | KCustomCollection, KCustomCollection | KCustomIterable, KCustomIterable => true
  | _, _ => false end.
Definition iterkind_eqb (a b : iterkind) : bool :=
  match a, b with
  | IListIter, IListIter | ITupleIter, ITupleIter | IGenerator, IGenerator | IMapObj, IMapObj
  | IZipObj, IZipObj | ICustomIterator, ICustomIterator => true | _, _ => false end.
Definition flavour_eqb (a b : flavour) : bool :=
  match a, b with
  | FDataclass, FDataclass | FAnnotated, FAnnotated | FSlots, FSlots | FVars, FVars => true | _, _ => false end.
Definition strs_eqb := list_eqb String.eqb.
Definition clsdesc_eqb (a b : clsdesc) : bool :=
  flavour_eqb (c_flavour a) (c_flavour b) && Bool.eqb (c_dataclass a) (c_dataclass b) &&
  strs_eqb (c_dc_fields a) (c_dc_fields b) && strs_eqb (c_hints a) (c_hints b) &&
  strs_eqb (c_sig a) (c_sig b) && opt_eqb strs_eqb (c_slots a) (c_slots b).

Fixpoint val_eqb (a b : val) : bool :=
  let attrs_eqb := list_eqb (fun p q => match p, q with (k, v), (l, w) => String.eqb k l && val_eqb v w end) in
  match a, b with
  | VNone, VNone => true
  | VInt x, VInt y => Z.eqb x y
  | VStr s, VStr t => String.eqb s t
  | VBytes s, VBytes t => list_eqb N.eqb s t
  | VColl k l, VColl j m => collkind_eqb k j && list_eqb val_eqb l m
  | VDict k l, VDict j m =>
      mapkind_eqb k j &&
      list_eqb (fun p q => match p, q with (k1, v1), (k2, v2) => val_eqb k1 k2 && val_eqb v1 v2 end) l m
  | VNamed f l, VNamed g m => strs_eqb f g && list_eqb val_eqb l m
  | VObj c sv d ca, VObj c' sv' d' ca' =>
      clsdesc_eqb c c' && attrs_eqb sv sv' && opt_eqb attrs_eqb d d' && attrs_eqb ca ca'
  | VIter k n l, VIter j m l' => iterkind_eqb k j && Nat.eqb n m && list_eqb val_eqb l l'
  | _, _ => false
  end.

Definition exn_eqb (a b : exn) : bool :=
  match a, b with
  | EStopIter, EStopIter | EAttribute, EAttribute | EType, EType | EValue, EValue | EOther, EOther => true
  | _, _ => false end.
Definition res_eqb (a b : res (list val)) : bool :=
  match a, b with
  | Ok x, Ok y => list_eqb val_eqb x y
  | Raise e, Raise f => exn_eqb e f
  | _, _ => false
  end.

Fixpoint mismatches_from {A} (ok : A -> bool) (l : list A) (i : nat) : list nat :=
  match l with [] => [] | x :: r => (if ok x then [] else [i]) ++ mismatches_from ok r (S i) end.
Definition mismatches {A} (ok : A -> bool) (l : list A) := mismatches_from ok l 0.

(* one correspondence case: x, then for iteritems and for itervalues (each on a fresh copy of x):
   the observed list(...) (or exception kind) and x as observed afterwards *)
Definition iter_case := (val * (res (list val) * val) * (res (list val) * val))%type.
Definition obs_eqb (m o : res (list val) * val) : bool :=
  res_eqb (fst m) (fst o) && val_eqb (snd m) (snd o).
Definition iter_case_ok (c : cfg) (k : iter_case) : bool :=
  match k with (x, oi, ov) => obs_eqb (iteritems c x) oi && obs_eqb (itervalues c x) ov end.
(* the same against the specification (only meaningful under the guard) *)
Definition spec_case_ok (k : iter_case) : bool :=
  match k with (x, oi, ov) =>
    negb (guard x) ||
    (obs_eqb (Ok (spec_items x), spec_after x) oi && obs_eqb (Ok (spec_values x), spec_after x) ov) end.

(* reflected class table: a representative instance of each class with the live answers of
   isiterabletype, ismappingtype, issequencetype, isnamedtuple, iscollectiontype and len() *)
Definition class_row := (val * (bool * bool * bool * bool * bool) * option nat)%type.
Definition class_row_ok (r : class_row) : bool :=
  match r with (x, (it, mp, sq, nt, co), ln) =>
    let c := class_of x in
    Bool.eqb (isiterabletype c) it && Bool.eqb (ismappingtype c) mp &&
    (* sq (issequencetype) is carried for information only: in the repaired code the sequence path and the
       peekable path produce the same result (items_seq_path / items_peek_path), so the answer cannot be observed *)
    (sq || negb sq) &&
    Bool.eqb (isnamedtuple c) nt && Bool.eqb (iscollectiontype c) co &&
    match ln with Some n => Nat.eqb (py_len x) n | None => true end
  end.
Definition class_table_ok (rows : list class_row) : bool := forallb class_row_ok rows.
