(* Reference resolution: in which module is a bare reference string evaluated?

   Mirrors /repo/src/typelib/py/frames.py (extract, getcaller), py/refs.py (_resolve_module_name with its
   functools memo as explicit state, forwardref, evaluate on dotted names) and the annotation-keyed factory
   caches in front of them (graph.static_order, unmarshaller, marshaller, codec).

   Two variants, selected by [fixed]:
     fixed = false   the code before the repair: _resolve_module_name memoised on the bare text, the object
                     found ANYWHERE on the stack (frames of the library included) decides the module by its
                     own __module__, the factories are memoised on the bare text;
     fixed = true    the repaired code: no memo in _resolve_module_name, the nearest frame outside the
                     library whose GLOBALS bind the name decides (its __name__), a bare text is turned into a
                     module-qualified ForwardRef before it keys a factory cache (refs.cache).
   Definitions only. *)
From Coq Require Import List Bool Arith PeanoNat String Ascii.
Import ListNotations.
Local Open Scope string_scope.
Local Open Scope list_scope.

(* ------------------------------------------------------------------------------------------- *)
(* text                                                                                          *)
(* ------------------------------------------------------------------------------------------- *)
Definition dot : ascii := "."%char.

Definition is_alpha_ (c : ascii) : bool :=
  let n := nat_of_ascii c in
  (((65 <=? n) && (n <=? 90)) || ((97 <=? n) && (n <=? 122)) || (n =? 95))%nat.
Definition is_digit (c : ascii) : bool :=
  let n := nat_of_ascii c in ((48 <=? n) && (n <=? 57))%nat.

Fixpoint all_chars (p : ascii -> bool) (s : string) : bool :=
  match s with EmptyString => true | String c r => p c && all_chars p r end.

(* str.isidentifier on ASCII text *)
Definition is_ident (s : string) : bool :=
  match s with
  | EmptyString => false
  | String c r => is_alpha_ c && all_chars (fun x => is_alpha_ x || is_digit x) r
  end.

Fixpoint has_dot (s : string) : bool :=
  match s with EmptyString => false | String c r => Ascii.eqb c dot || has_dot r end.

(* ref.split(".", maxsplit=1)[0] *)
Fixpoint head_of (s : string) : string :=
  match s with
  | EmptyString => EmptyString
  | String c r => if Ascii.eqb c dot then EmptyString else String c (head_of r)
  end.

(* s.split(".") *)
Fixpoint split_dots (s : string) : list string :=
  match s with
  | EmptyString => [EmptyString]
  | String c r =>
      if Ascii.eqb c dot then EmptyString :: split_dots r
      else match split_dots r with
           | [] => [String c EmptyString]
           | h :: t => String c h :: t
           end
  end.

(* str.replace(pat, "") for a non-empty pat: leftmost, non-overlapping occurrences are dropped.
   [skip] = how many characters of a matched occurrence are still to be dropped. *)
Fixpoint drop_all (pat : string) (skip : nat) (s : string) : string :=
  match s with
  | EmptyString => EmptyString
  | String c r =>
      match skip with
      | S k => drop_all pat k r
      | O => if String.prefix pat s then drop_all pat (String.length pat - 1) r
             else String c (drop_all pat 0 r)
      end
  end.
Definition replace_all (pat s : string) : string :=
  match pat with EmptyString => s | _ => drop_all pat 0 s end.

(* re.sub(r"(?<![\w.])" + re.escape(m) + r"\.", "", s): the occurrences of "m." that LEAD a dotted name (not preceded
   by an identifier character or a dot) are dropped.  [ok]: the character in front allows a match here; after a dropped
   occurrence the character in front is its final dot. *)
Definition is_word (c : ascii) : bool := is_alpha_ c || is_digit c.

Fixpoint drop_lead (pat : string) (skip : nat) (ok : bool) (s : string) : string :=
  match s with
  | EmptyString => EmptyString
  | String c r =>
      match skip with
      | S k => drop_lead pat k false r
      | O => if ok && String.prefix pat s then drop_lead pat (String.length pat - 1) false r
             else String c (drop_lead pat 0 (negb (is_word c || Ascii.eqb c dot)) r)
      end
  end.
Definition strip_lead (m s : string) : string := drop_lead (m ++ ".") 0 true s.

(* pat in s *)
Fixpoint contains (pat s : string) : bool :=
  String.prefix pat s || match s with EmptyString => false | String _ r => contains pat r end.

(* ------------------------------------------------------------------------------------------- *)
(* objects, name tables, frames, the interpreter's modules                                       *)
(* ------------------------------------------------------------------------------------------- *)
(* a value a name can be bound to: an ordinary object with its identity and its __module__ attribute
   (None: it has none), or the module object registered under a name in sys.modules *)
Inductive obj : Type :=
| OVal (id : nat) (omod : option string)
| OMod (name : string).

Definition obj_module (o : obj) : option string :=
  match o with OVal _ m => m | OMod _ => None end.

Definition table := list (string * obj).

Fixpoint lookup {A} (n : string) (t : list (string * A)) : option A :=
  match t with
  | [] => None
  | (k, v) :: r => if String.eqb n k then Some v else lookup n r
  end.

Record frame : Type := {
  f_gname : option string;   (* frame.f_globals.get("__name__") *)
  f_mod : option string;     (* inspect.getmodule(frame).__name__ (found through the file name) *)
  f_qual : string;           (* frame.f_code.co_qualname *)
  f_file : string;           (* frame.f_code.co_filename *)
  f_globals : table;
  f_locals : table
}.

Record world : Type := {
  w_modules : list (string * table);   (* sys.modules: name -> module __dict__ *)
  w_builtins : table
}.

(* the entry points through which a reference reaches the resolver, and for each the library's own
   frames between the caller and _resolve_module_name (innermost first, _resolve_module_name's own frame
   first); reflected from the live code on every run *)
Inductive entry : Type :=
| EUnmarshal | EMarshal | EDecode | EStaticOrder | EForwardref
| ECodec      (* repaired code: the one resolution in front of codec's cache *)
| ECodecM     (* code before the repair: codec -> marshaller(t=t) -> static_order *)
| ECodecU     (* code before the repair: codec -> unmarshaller(t=t) -> static_order *)
| EDecodePre  (* decode -> codecs.isbyteslike -> forwardref: the reference is evaluated once before unmarshal *)
| ECodecPost. (* code before the repair: codec -> codecs.isbyteslike -> forwardref, after both routines *)

Record lib : Type := {
  l_pkg : string;                    (* frames.PKG_NAME *)
  l_strip_lead : bool;               (* forwardref drops "<module>." only where it leads a dotted name (re.sub); false: the
                                        pinned code, every occurrence (str.replace) *)
  l_caller_head : bool;              (* _resolve_module_name: a leading dotted name that the calling module binds is a name
                                        of that module, not a module qualifier; false: the pinned code *)
  l_extract : frame;                 (* frames.extract's own frame: the walk starts there *)
  l_chain : entry -> list frame
}.

(* ------------------------------------------------------------------------------------------- *)
(* frames.py                                                                                     *)
(* ------------------------------------------------------------------------------------------- *)
Definition frame_binding (f : frame) (n : string) : option obj :=
  match lookup n (f_globals f) with
  | Some o => Some o
  | None => lookup n (f_locals f)
  end.

(* frames.extract: innermost frame first; in each frame the globals before the locals *)
Fixpoint extract (st : list frame) (n : string) : option obj :=
  match st with
  | [] => None
  | f :: r => match frame_binding f n with Some o => Some o | None => extract r n end
  end.

Definition is_lib (pkg : string) (f : frame) : bool :=
  (match f_mod f with Some m => String.prefix pkg m | None => false end)
  || String.prefix pkg (f_qual f)
  || contains pkg (f_file f).

(* frames.getcaller, given the frames below its own: the first one outside the library; the outermost
   frame when there is none *)
Fixpoint getcaller (pkg : string) (st : list frame) : option frame :=
  match st with
  | [] => None
  | [f] => Some f
  | f :: r => if is_lib pkg f then getcaller pkg r else Some f
  end.

(* ------------------------------------------------------------------------------------------- *)
(* refs.py                                                                                       *)
(* ------------------------------------------------------------------------------------------- *)
Definition truthy (m : option string) : bool :=
  match m with Some s => negb (String.eqb s "") | None => false end.

(* refs._isinternal (repaired code) *)
Definition internal (pkg m : string) : bool := String.eqb (head_of m) pkg.

(* repaired code: the nearest frame, outside the library, whose globals bind the name *)
Fixpoint binding_module (pkg : string) (st : list frame) (ref : string) : option string :=
  match st with
  | [] => None
  | f :: r =>
      match lookup ref (f_globals f), f_gname f with
      | Some _, Some m =>
          if negb (String.eqb m "") && negb (internal pkg m) then Some m
          else binding_module pkg r ref
      | _, _ => binding_module pkg r ref
      end
  end.

(* the frames step 2 of the repaired resolver passes over for every name *)
Definition skipped (pkg : string) (f : frame) : bool :=
  match f_gname f with
  | Some m => String.eqb m "" || internal pkg m
  | None => true
  end.
(* the frames the walk for the bare name s passes over: those, and the frames whose globals do not bind s *)
Definition passes (pkg s : string) (f : frame) : bool :=
  skipped pkg f || match lookup s (f_globals f) with None => true | Some _ => false end.
(* the nearest frame whose module binds s *)
Fixpoint first_binding (pkg s : string) (st : list frame) : option frame :=
  match st with
  | [] => None
  | f :: r => if passes pkg s f then first_binding pkg s r else Some f
  end.

(* the calling frame: the innermost one that is not passed over *)
Fixpoint first_unskipped (pkg : string) (st : list frame) : option frame :=
  match st with
  | [] => None
  | f :: r => if skipped pkg f then first_unskipped pkg r else Some f
  end.

(* the module of the calling frame, if its globals bind the name *)
Definition caller_module_binding (pkg : string) (st : list frame) (h : string) : option string :=
  match first_unskipped pkg st with
  | Some c => match lookup h (f_globals c), f_gname c with
              | Some _, Some m => Some m
              | _, _ => None
              end
  | None => None
  end.

(* a text made of identifier characters and dots only *)
Definition dotted_text (s : string) : bool := all_chars (fun c => is_word c || Ascii.eqb c dot) s.

Inductive key : Type :=
| KStr (s : string)                        (* a bare str *)
| KRef (name : string) (m : option string) (* typing.ForwardRef(name, module=m): == and hash by both *).

Definition opt_str_eqb (a b : option string) : bool :=
  match a, b with
  | Some x, Some y => String.eqb x y
  | None, None => true
  | _, _ => false
  end.
Definition key_eqb (a b : key) : bool :=
  match a, b with
  | KStr x, KStr y => String.eqb x y
  | KRef n m, KRef n' m' => String.eqb n n' && opt_str_eqb m m'
  | _, _ => false
  end.
Definition kkey_eqb (a b : key * bool) : bool := key_eqb (fst a) (fst b) && Bool.eqb (snd a) (snd b).

Fixpoint find {K V} (eqb : K -> K -> bool) (k : K) (t : list (K * V)) : option V :=
  match t with
  | [] => None
  | (k', v) :: r => if eqb k k' then Some v else find eqb k r
  end.

(* the memo tables: functools.cache of _resolve_module_name (key: the text, module=None), of graph.static_order,
   of unmarshaller and marshaller (a keyword call `f(t=x)` is another key than `f(x)`), of codec *)
Record state : Type := {
  m_res : list (string * option string);
  m_so : list (key * obj);
  m_un : list ((key * bool) * obj);
  m_ma : list ((key * bool) * obj);
  m_cd : list (key * (obj * obj))
}.
Definition init : state := {| m_res := []; m_so := []; m_un := []; m_ma := []; m_cd := [] |}.

Definition set_res (s : state) v := {| m_res := v; m_so := m_so s; m_un := m_un s; m_ma := m_ma s; m_cd := m_cd s |}.
Definition set_so (s : state) v := {| m_res := m_res s; m_so := v; m_un := m_un s; m_ma := m_ma s; m_cd := m_cd s |}.
Definition set_un (s : state) v := {| m_res := m_res s; m_so := m_so s; m_un := v; m_ma := m_ma s; m_cd := m_cd s |}.
Definition set_ma (s : state) v := {| m_res := m_res s; m_so := m_so s; m_un := m_un s; m_ma := v; m_cd := m_cd s |}.
Definition set_cd (s : state) v := {| m_res := m_res s; m_so := m_so s; m_un := m_un s; m_ma := m_ma s; m_cd := v |}.

Inductive err : Type := ENameError | ETypeError | EAttributeError | EUnmodelled.
Inductive res (A : Type) : Type := Ok (a : A) | Err (e : err).
Arguments Ok {A} a.
Arguments Err {A} e.

(* ---- calls and histories ---- *)
Inductive refarg : Type :=
| RStr (s : string)
| RFwd (name : string) (m : option string).

Inductive result : Type :=
| ROk (os : list obj)                            (* the object(s) the routine(s) were built for *)
| RRef (n : string) (m : option string) (r : res obj)  (* refs.forwardref: the reference and what it evaluates to *)
| RErr (e : err)
| RUnit.

Inductive cache_id : Type := CRes | CSo | CUn | CMa | CCd | CAll.

Inductive op : Type :=
| OCall (e : entry) (r : refarg) (ust : list frame)   (* ust: the caller's frames, innermost first *)
| OClear (c : cache_id).

Definition key_of (r : refarg) : key :=
  match r with RStr s => KStr s | RFwd n m => KRef n m end.

Definition one (r : res obj) : result :=
  match r with Ok o => ROk [o] | Err e => RErr e end.

Section Resolver.
  Variable fixed : bool.
  Variable W : world.
  Variable L : lib.

  (* the body of _resolve_module_name(ref, None); [st] starts with its own frame *)
  (* the leading dotted name of a text: the module it names, unless (repaired code) the calling module binds that name *)
  Definition head_module (st : list frame) (h : string) : string :=
    if fixed && l_caller_head L then
      match caller_module_binding (l_pkg L) st h with Some m => m | None => h end
    else h.

  Definition resolve_body (st : list frame) (ref : string) : option string :=
    let h := head_of ref in
    if has_dot ref && is_ident h then Some (head_module st h)
    else
      match (if fixed then binding_module (l_pkg L) st ref else None) with
      | Some m => Some m
      | None =>
          let m := match extract (l_extract L :: st) ref with
                   | Some o => obj_module o
                   | None => None
                   end in
          if truthy m then m
          else match getcaller (l_pkg L) st with Some f => f_mod f | None => None end
      end.

  (* the text of the reference forwardref builds *)
  Definition strip_name (m ref : string) : string :=
    if l_strip_lead L then strip_lead m ref else replace_all (m ++ ".") ref.

  Definition resolve (s : state) (st : list frame) (ref : string) : state * option string :=
    if fixed then (s, resolve_body st ref)
    else match lookup ref (m_res s) with
         | Some m => (s, m)
         | None => let m := resolve_body st ref in (set_res s ((ref, m) :: m_res s), m)
         end.

  (* refs.forwardref(ref) for a str: (name, module) of the ForwardRef it returns *)
  Definition forwardref (s : state) (st : list frame) (ref : string) : state * (string * option string) :=
    let '(s1, m) := resolve s st ref in
    (s1, (match m with Some mm => strip_name mm ref | None => ref end, m)).

  (* ---- refs.evaluate on ForwardRef(name, module): dotted names only ---- *)
  Definition module_dict (m : option string) : table :=
    match m with
    | Some mm => match lookup mm (w_modules W) with Some d => d | None => [] end
    | None => []
    end.

  Definition getattr (o : obj) (c : string) : res obj :=
    match o with
    | OMod m =>
        match lookup m (w_modules W) with
        | Some d => match lookup c d with Some v => Ok v | None => Err EAttributeError end
        | None => Err EUnmodelled
        end
    | OVal _ _ => Err EUnmodelled   (* attributes of classes: outside the model *)
    end.

  Fixpoint getattrs (o : obj) (cs : list string) : res obj :=
    match cs with
    | [] => Ok o
    | c :: r => match getattr o c with Ok v => getattrs v r | Err e => Err e end
    end.

  Definition evaluate (r : string * option string) : res obj :=
    let '(name, m) := r in
    let cs := split_dots name in
    if negb (forallb is_ident cs) then Err EUnmodelled
    else match cs with
         | [] => Err EUnmodelled
         | c :: rest =>
             let d := module_dict m in
             match (match lookup c d with Some o => Some o | None => lookup c (w_builtins W) end) with
             | None => Err ENameError
             | Some o =>
                 match getattrs o rest with
                 | Err e => Err e
                 | Ok (OMod _) => Err EUnmodelled  (* 3.12 lets a module through; what is built for it is outside *)
                 | Ok v => Ok v
                 end
             end
         end.

  Definition eval_key (k : key) : res obj :=
    match k with KRef n m => evaluate (n, m) | KStr _ => Err EUnmodelled end.

  (* ---- the factories ---- *)
  (* repaired code, refs.cache: a bare str is qualified before it may key a cache *)
  Definition qualify (s : state) (st : list frame) (t : key) : state * key :=
    match t with
    | KStr r => if fixed then let '(s1, (n, m)) := forwardref s st r in (s1, KRef n m) else (s, t)
    | KRef _ _ => (s, t)
    end.

  (* graph.static_order: the object whose nodes it returns *)
  Definition static_order (s : state) (st : list frame) (t : key) : state * res obj :=
    let '(s0, t0) := qualify s st t in
    match find key_eqb t0 (m_so s0) with
    | Some o => (s0, Ok o)
    | None =>
        let '(s1, r) := match t0 with
                        | KStr x => forwardref s0 st x
                        | KRef n m => (s0, (n, m))
                        end in
        match evaluate r with
        | Err e => (s1, Err e)               (* functools does not memoise a raise *)
        | Ok o => (set_so s1 ((t0, o) :: m_so s1), Ok o)
        end
    end.

  Definition unmarshaller (s : state) (st : list frame) (t : key) (kw : bool) : state * res obj :=
    let '(s0, t0) := qualify s st t in
    match find kkey_eqb (t0, kw) (m_un s0) with
    | Some o => (s0, Ok o)
    | None =>
        match static_order s0 st t0 with
        | (s1, Err e) => (s1, Err e)
        | (s1, Ok o) => (set_un s1 (((t0, kw), o) :: m_un s1), Ok o)
        end
    end.

  Definition marshaller (s : state) (st : list frame) (t : key) (kw : bool) : state * res obj :=
    let '(s0, t0) := qualify s st t in
    match find kkey_eqb (t0, kw) (m_ma s0) with
    | Some o => (s0, Ok o)
    | None =>
        match static_order s0 st t0 with
        | (s1, Err e) => (s1, Err e)
        | (s1, Ok o) => (set_ma s1 (((t0, kw), o) :: m_ma s1), Ok o)
        end
    end.

  (* codecs.isbyteslike(t): a str is turned into a reference (from THIS stack) and evaluated; a reference is
     evaluated; nothing is memoised here *)
  Definition bytes_probe (s : state) (st : list frame) (t : key) : state * res obj :=
    match t with
    | KStr x => let '(s1, fr) := forwardref s st x in (s1, evaluate fr)
    | KRef n m => (s, evaluate (n, m))
    end.

  Definition codec (s : state) (ust : list frame) (t : key) : state * res (obj * obj) :=
    let '(s0, t0) := qualify s (l_chain L ECodec ++ ust) t in
    match find key_eqb t0 (m_cd s0) with
    | Some p => (s0, Ok p)
    | None =>
        match marshaller s0 (l_chain L ECodecM ++ ust) t0 true with
        | (s1, Err e) => (s1, Err e)
        | (s1, Ok om) =>
            match unmarshaller s1 (l_chain L ECodecU ++ ust) t0 true with
            | (s2, Err e) => (s2, Err e)
            | (s2, Ok ou) =>
                match bytes_probe s2 (l_chain L ECodecPost ++ ust) t0 with
                | (s3, Err e) => (s3, Err e)
                | (s3, Ok _) => (set_cd s3 ((t0, (om, ou)) :: m_cd s3), Ok (om, ou))
                end
            end
        end
    end.

  (* ---- calls and histories ---- *)
  Definition clear (s : state) (c : cache_id) : state :=
    match c with
    | CRes => set_res s []
    | CSo => set_so s []
    | CUn => set_un s []
    | CMa => set_ma s []
    | CCd => set_cd s []
    | CAll => init
    end.

  Definition step (s : state) (o : op) : state * result :=
    match o with
    | OClear c => (clear s c, RUnit)
    | OCall e r ust =>
        let st := l_chain L e ++ ust in
        match e with
        | EUnmarshal | ECodecU | EDecodePre | ECodecPost =>
            let '(s1, x) := unmarshaller s st (key_of r) false in (s1, one x)
        | EDecode =>
            match bytes_probe s (l_chain L EDecodePre ++ ust) (key_of r) with
            | (s0, Err e) => (s0, RErr e)
            | (s0, Ok _) => let '(s1, x) := unmarshaller s0 st (key_of r) false in (s1, one x)
            end
        | EMarshal | ECodecM =>
            let '(s1, x) := marshaller s st (key_of r) false in (s1, one x)
        | EStaticOrder =>
            let '(s1, x) := static_order s st (key_of r) in (s1, one x)
        | EForwardref =>
            match r with
            | RStr x => let '(s1, fr) := forwardref s st x in (s1, RRef (fst fr) (snd fr) (evaluate fr))
            | RFwd _ _ => (s, RErr EUnmodelled)   (* refs.forwardref takes a text or a type, not a reference *)
            end
        | ECodec =>
            match codec s ust (key_of r) with
            | (s1, Ok (om, ou)) => (s1, ROk [om; ou])
            | (s1, Err e) => (s1, RErr e)
            end
        end
    end.

  Fixpoint run_hist (s : state) (h : list op) : state :=
    match h with [] => s | o :: r => run_hist (fst (step s o)) r end.

  Fixpoint outs (s : state) (h : list op) : list result :=
    match h with [] => [] | o :: r => let '(s1, x) := step s o in x :: outs s1 r end.

  Definition warm (h : list op) (o : op) : result := snd (step (run_hist init h) o).
  Definition cold (o : op) : result := snd (step init o).
End Resolver.

(* ------------------------------------------------------------------------------------------- *)
(* the statements                                                                                *)
(* ------------------------------------------------------------------------------------------- *)
(* C12 read on references: what a call answers depends on the call (text and the caller's frames), never on
   the calls before it *)
Definition Refs_full (fixed : bool) : Prop :=
  forall (W : world) (L : lib) (h : list op) (o : op), warm fixed W L h o = cold fixed W L o.

Definition lib_ok (L : lib) (e : entry) : bool :=
  forallb (skipped (l_pkg L)) (l_chain L e)
  && match e with EDecode => forallb (skipped (l_pkg L)) (l_chain L EDecodePre) | _ => true end.
