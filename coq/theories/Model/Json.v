(* Model/Json.v -- the JSON wire layer of C02, character by character.  DEFINITIONS ONLY.

   What typelib hands to / takes from the JSON backend (src/typelib/py/compat.py: `orjson` when
   importable, else the standard `json`; typelib passes no options, so the writer is
   `orjson.dumps(w)` resp. `json.dumps(w)` with their defaults):

   1. [jv]: wire values (None, bool, int, float, str, list, dict with str keys).  A float is its
      literal text (the token the backend prints / the token a reader scanned): the conversion
      float <-> shortest repr is the interpreter's business and stays outside the model.
   2. [utf8_enc] / [utf8_dec]: UTF-8, the decoder with the overlong / range / surrogate checks of
      CPython's `bytes.decode('utf-8')` ([surr = true]: error handler 'surrogatepass', which is what
      `json.loads` applies to a byte string).
   3. [wr]: the WRITER on code points, parametrised by a [style]:
        orjson_style  compact separators, non-ASCII characters raw (orjson.dumps)
        stdlib_style  ", " and ": ", every character outside ' '..'~' as \uXXXX, astral characters as
                      a surrogate pair of escapes (json.dumps: ensure_ascii=True)
      both escape the double quote, the backslash and the control characters the same way (\b \t \n \f \r, else \u00xx
      in lowercase hex) and do not escape '/'.  [json_write st w] = the bytes.
   4. [pval] / [parse_text]: an independent recursive-descent READER of RFC 8259 text (whitespace,
      all escapes, surrogate pairs of escapes, number grammar without leading zeros), on explicit
      fuel.  [strict = false] is `json.loads` (accepts NaN / Infinity / -Infinity, keeps a lone
      surrogate escape as a lone surrogate); [strict = true] is RFC-strict like `orjson.loads`
      (no constants, no lone surrogates).  [json_read] = json.loads on UTF-8 bytes,
      [json_read_strict] = the strict reader.
   5. [std_utf8_branch]: the condition under which `json.detect_encoding` reads a byte string as
      UTF-8 (no UTF-16/32 byte-order mark, no NUL pattern); [std_loads] strips the UTF-8 signature.
   6. guards: [cp_ok] (Unicode scalar value), [float_tok_ok], [jv_ok]; the encoder's own domain
      [orjson_dom] (ints in [-2^63, 2^64), which is where orjson.dumps raises instead). *)
From Coq Require Import List ZArith NArith Bool Decimal DecimalN.
Import ListNotations.
Open Scope N_scope.

Inductive jv :=
| JNull
| JBool (b : bool)
| JInt (z : Z)
| JFloat (tok : list N)
| JStr (s : list N)
| JList (l : list jv)
| JDict (d : list (list N * jv)).

(* ---------------------------------------------------------------- UTF-8 *)
Definition utf8_enc1 (c : N) : list N :=
  if c <? 128 then [c]
  else if c <? 2048 then [192 + c / 64; 128 + c mod 64]
  else if c <? 65536 then [224 + c / 4096; 128 + (c / 64) mod 64; 128 + c mod 64]
  else [240 + c / 262144; 128 + (c / 4096) mod 64; 128 + (c / 64) mod 64; 128 + c mod 64].
Definition utf8_enc (s : list N) : list N := flat_map utf8_enc1 s.

Definition cont (b : N) : bool := (128 <=? b) && (b <? 192).
Definition is_surr (c : N) : bool := (55296 <=? c) && (c <? 57344).
Definition ocons {A B} (a : A) (o : option (list A * B)) : option (list A * B) :=
  match o with Some (l, r) => Some (a :: l, r) | None => None end.
Definition ocons1 {A} (a : A) (o : option (list A)) : option (list A) :=
  match o with Some l => Some (a :: l) | None => None end.

Fixpoint utf8_dec (surr : bool) (b : list N) : option (list N) :=
  match b with
  | [] => Some []
  | b0 :: r =>
    if b0 <? 128 then ocons1 b0 (utf8_dec surr r)
    else if b0 <? 194 then None                       (* continuation byte or overlong C0 C1 *)
    else if b0 <? 224 then
      match r with
      | b1 :: r' => if cont b1 then ocons1 ((b0 - 192) * 64 + (b1 - 128)) (utf8_dec surr r') else None
      | _ => None end
    else if b0 <? 240 then
      match r with
      | b1 :: b2 :: r' =>
        let c := (b0 - 224) * 4096 + (b1 - 128) * 64 + (b2 - 128) in
        if cont b1 && cont b2 && (2048 <=? c) && (surr || negb (is_surr c))
        then ocons1 c (utf8_dec surr r') else None
      | _ => None end
    else if b0 <? 245 then
      match r with
      | b1 :: b2 :: b3 :: r' =>
        let c := (b0 - 240) * 262144 + (b1 - 128) * 4096 + (b2 - 128) * 64 + (b3 - 128) in
        if cont b1 && cont b2 && cont b3 && (65536 <=? c) && (c <? 1114112)
        then ocons1 c (utf8_dec surr r') else None
      | _ => None end
    else None
  end.

(* ---------------------------------------------------------------- decimal integers (Python's str(int)) *)
Fixpoint show_uint (u : uint) : list N :=
  match u with
  | Nil => [] | D0 r => 48 :: show_uint r | D1 r => 49 :: show_uint r | D2 r => 50 :: show_uint r
  | D3 r => 51 :: show_uint r | D4 r => 52 :: show_uint r | D5 r => 53 :: show_uint r
  | D6 r => 54 :: show_uint r | D7 r => 55 :: show_uint r | D8 r => 56 :: show_uint r
  | D9 r => 57 :: show_uint r end.
Definition show_nat (n : N) : list N := show_uint (N.to_uint n).
Definition show_int (z : Z) : list N :=
  if (z <? 0)%Z then 45 :: show_nat (Z.to_N (- z)) else show_nat (Z.to_N z).

Definition is_digit (c : N) : bool := (48 <=? c) && (c <=? 57).
Definition dcon (c : N) : uint -> uint :=
  if c =? 48 then D0 else if c =? 49 then D1 else if c =? 50 then D2 else if c =? 51 then D3
  else if c =? 52 then D4 else if c =? 53 then D5 else if c =? 54 then D6 else if c =? 55 then D7
  else if c =? 56 then D8 else D9.
Fixpoint uint_of (s : list N) : uint := match s with [] => Nil | c :: r => dcon c (uint_of r) end.
Definition digits_val (s : list N) : N := N.of_uint (uint_of s).

(* ---------------------------------------------------------------- the writer *)
Record style := { st_ascii : bool;       (* escape everything outside ' '..'~' *)
                  st_sp : list N }.      (* what follows ',' and ':' *)
Definition orjson_style : style := {| st_ascii := false; st_sp := [] |}.
Definition stdlib_style : style := {| st_ascii := true; st_sp := [32] |}.

Definition hexd (d : N) : N := if d <? 10 then 48 + d else 87 + d.           (* lowercase hex digit *)
Definition u4 (c : N) : list N :=
  [92; 117; hexd (c / 4096); hexd ((c / 256) mod 16); hexd ((c / 16) mod 16); hexd (c mod 16)].
Definition esc (ascii : bool) (c : N) : list N :=
  if c =? 34 then [92; 34]
  else if c =? 92 then [92; 92]
  else if c =? 8 then [92; 98]
  else if c =? 9 then [92; 116]
  else if c =? 10 then [92; 110]
  else if c =? 12 then [92; 102]
  else if c =? 13 then [92; 114]
  else if c <? 32 then u4 c
  else if ascii && (127 <=? c) then
    (if c <? 65536 then u4 c
     else u4 (55296 + (c - 65536) / 1024) ++ u4 (56320 + (c - 65536) mod 1024))
  else [c].
Definition wr_str (st : style) (s : list N) : list N := 34 :: flat_map (esc (st_ascii st)) s ++ [34].

Definition wr_items (sp : list N) (f : jv -> list N) (l : list jv) : list N :=
  match l with
  | [] => []
  | x :: r => f x ++ flat_map (fun y => 44 :: sp ++ f y) r
  end.
Definition wr_member (st : style) (f : jv -> list N) (kx : list N * jv) : list N :=
  wr_str st (fst kx) ++ 58 :: st_sp st ++ f (snd kx).
Definition wr_members (st : style) (f : jv -> list N) (d : list (list N * jv)) : list N :=
  match d with
  | [] => []
  | kx :: r => wr_member st f kx ++ flat_map (fun ky => 44 :: st_sp st ++ wr_member st f ky) r
  end.

Fixpoint wr (st : style) (w : jv) : list N :=
  match w with
  | JNull => [110; 117; 108; 108]
  | JBool true => [116; 114; 117; 101]
  | JBool false => [102; 97; 108; 115; 101]
  | JInt z => show_int z
  | JFloat t => t
  | JStr s => wr_str st s
  | JList l => 91 :: wr_items (st_sp st) (wr st) l ++ [93]
  | JDict d => 123 :: wr_members st (wr st) d ++ [125]
  end.

Definition json_write (st : style) (w : jv) : list N := utf8_enc (wr st w).

(* ---------------------------------------------------------------- the reader *)
Definition is_ws (c : N) : bool := (c =? 32) || (c =? 9) || (c =? 10) || (c =? 13).
Fixpoint skip_ws (s : list N) : list N :=
  match s with c :: r => if is_ws c then skip_ws r else s | [] => [] end.

(* literal prefix *)
Fixpoint lit (p s : list N) : option (list N) :=
  match p with
  | [] => Some s
  | a :: p' => match s with b :: s' => if a =? b then lit p' s' else None | [] => None end
  end.

(* numbers: optional minus; 0 or a nonzero digit and more digits; optional fraction (dot, one or
   more digits); optional exponent (e or E, optional sign, one or more digits) *)
Fixpoint span_digits (s : list N) : list N * list N :=
  match s with
  | c :: r => if is_digit c then let (d, r') := span_digits r in (c :: d, r') else ([], s)
  | [] => ([], [])
  end.
Definition scan_int (s : list N) : option (list N * list N) :=
  match s with
  | c :: r => if c =? 48 then Some ([48], r)
              else if is_digit c then let (d, r') := span_digits r in Some (c :: d, r')
              else None
  | [] => None
  end.
Definition scan_frac (s : list N) : list N * list N :=
  match s with
  | c :: d :: r => if (c =? 46) && is_digit d then let (ds, r') := span_digits r in (c :: d :: ds, r')
                   else ([], s)
  | _ => ([], s)
  end.
Definition is_e (c : N) : bool := (c =? 101) || (c =? 69).
Definition is_sign (c : N) : bool := (c =? 43) || (c =? 45).
Definition scan_exp (s : list N) : list N * list N :=
  match s with
  | e :: d :: r =>
    if is_e e then
      if is_digit d then let (ds, r') := span_digits r in (e :: d :: ds, r')
      else if is_sign d then
        match r with
        | d2 :: r2 => if is_digit d2 then let (ds, r') := span_digits r2 in (e :: d :: d2 :: ds, r')
                      else ([], s)
        | [] => ([], s)
        end
      else ([], s)
    else ([], s)
  | _ => ([], s)
  end.
Definition is_nil {A} (l : list A) : bool := match l with [] => true | _ => false end.
Definition pnum (s : list N) : option (jv * list N) :=
  let '(neg, s1) := match s with c :: r => if c =? 45 then (true, r) else (false, s) | [] => (false, s) end in
  match scan_int s1 with
  | None => None
  | Some (ip, s2) =>
    let '(fr, s3) := scan_frac s2 in
    let '(ex, s4) := scan_exp s3 in
    if is_nil fr && is_nil ex
    then Some (JInt (if neg then (- Z.of_N (digits_val ip))%Z else Z.of_N (digits_val ip)), s4)
    else Some (JFloat ((if neg then [45] else []) ++ ip ++ fr ++ ex), s4)
  end.

(* strings: the text after the opening quote -> (code points, text after the closing quote) *)
Definition hexv (c : N) : option N :=
  if (48 <=? c) && (c <=? 57) then Some (c - 48)
  else if (97 <=? c) && (c <=? 102) then Some (c - 87)
  else if (65 <=? c) && (c <=? 70) then Some (c - 55)
  else None.
Definition hex4 (a b c d : N) : option N :=
  match hexv a, hexv b, hexv c, hexv d with
  | Some x, Some y, Some z, Some w => Some (((x * 16 + y) * 16 + z) * 16 + w)
  | _, _, _, _ => None
  end.
Definition is_high (c : N) : bool := (55296 <=? c) && (c <? 56320).
Definition is_low (c : N) : bool := (56320 <=? c) && (c <? 57344).
Definition simple_esc (e : N) : option N :=
  if e =? 34 then Some 34 else if e =? 92 then Some 92 else if e =? 47 then Some 47
  else if e =? 98 then Some 8 else if e =? 102 then Some 12 else if e =? 110 then Some 10
  else if e =? 114 then Some 13 else if e =? 116 then Some 9 else None.

Section Reader.
Variable strict : bool.

(* a \uXXXX escape that is a surrogate and not the first half of a pair of escapes *)
Definition lone (u : N) (k : option (list N * list N)) : option (list N * list N) :=
  if strict then None else ocons u k.

Fixpoint pstr (s : list N) : option (list N * list N) :=
  match s with
  | [] => None
  | c :: r =>
    if c =? 34 then Some ([], r)
    else if c =? 92 then
      match r with
      | [] => None
      | e :: r1 =>
        if e =? 117 then
          match r1 with
          | h1 :: h2 :: h3 :: h4 :: r2 =>
            match hex4 h1 h2 h3 h4 with
            | None => None
            | Some u =>
              if is_high u then
                match r2 with
                | b :: v :: g1 :: g2 :: g3 :: g4 :: r3 =>
                  if (b =? 92) && (v =? 117) then
                    match hex4 g1 g2 g3 g4 with
                    | None => None
                    | Some u2 =>
                      if is_low u2
                      then ocons (65536 + (u - 55296) * 1024 + (u2 - 56320)) (pstr r3)
                      else lone u (pstr r2)
                    end
                  else lone u (pstr r2)
                | _ => lone u (pstr r2)
                end
              else if is_low u then lone u (pstr r2)
              else ocons u (pstr r2)
            end
          | _ => None
          end
        else match simple_esc e with Some x => ocons x (pstr r1) | None => None end
      end
    else if c <? 32 then None
    else if strict && is_surr c then None
    else ocons c (pstr r)
  end.

Definition NaN_t : list N := [78; 97; 78].
Definition Inf_t : list N := [73; 110; 102; 105; 110; 105; 116; 121].

Fixpoint pval (n : nat) (s : list N) {struct n} : option (jv * list N) :=
  match n with
  | O => None
  | S n' =>
    match skip_ws s with
    | [] => None
    | c :: r =>
      if c =? 34 then match pstr r with Some (cs, r') => Some (JStr cs, r') | None => None end
      else if c =? 91 then
        match skip_ws r with
        | c2 :: r2 => if c2 =? 93 then Some (JList [], r2)
                      else match pelems n' r with Some (l, r') => Some (JList l, r') | None => None end
        | [] => None
        end
      else if c =? 123 then
        match skip_ws r with
        | c2 :: r2 => if c2 =? 125 then Some (JDict [], r2)
                      else match pmembers n' r with Some (d, r') => Some (JDict d, r') | None => None end
        | [] => None
        end
      else if c =? 110 then match lit [117; 108; 108] r with Some r' => Some (JNull, r') | None => None end
      else if c =? 116 then match lit [114; 117; 101] r with Some r' => Some (JBool true, r') | None => None end
      else if c =? 102 then match lit [97; 108; 115; 101] r with Some r' => Some (JBool false, r') | None => None end
      else if negb strict && (c =? 78) then
        match lit NaN_t (c :: r) with Some r' => Some (JFloat NaN_t, r') | None => None end
      else if negb strict && (c =? 73) then
        match lit Inf_t (c :: r) with Some r' => Some (JFloat Inf_t, r') | None => None end
      else if negb strict && (c =? 45) && (match r with i :: _ => i =? 73 | [] => false end) then
        match lit Inf_t r with Some r' => Some (JFloat (45 :: Inf_t), r') | None => None end
      else pnum (c :: r)
    end
  end
with pelems (n : nat) (s : list N) {struct n} : option (list jv * list N) :=
  match n with
  | O => None
  | S n' =>
    match pval n' s with
    | None => None
    | Some (x, r) =>
      match skip_ws r with
      | c :: r' =>
        if c =? 93 then Some ([x], r')
        else if c =? 44 then match pelems n' r' with Some (xs, r'') => Some (x :: xs, r'') | None => None end
        else None
      | [] => None
      end
    end
  end
with pmembers (n : nat) (s : list N) {struct n} : option (list (list N * jv) * list N) :=
  match n with
  | O => None
  | S n' =>
    match skip_ws s with
    | q :: r0 =>
      if q =? 34 then
        match pstr r0 with
        | None => None
        | Some (k, r1) =>
          match skip_ws r1 with
          | c :: r2 =>
            if c =? 58 then
              match pval n' r2 with
              | None => None
              | Some (x, r3) =>
                match skip_ws r3 with
                | c' :: r4 =>
                  if c' =? 125 then Some ([(k, x)], r4)
                  else if c' =? 44 then
                    match pmembers n' r4 with Some (d, r5) => Some ((k, x) :: d, r5) | None => None end
                  else None
                | [] => None
                end
              end
            else None
          | [] => None
          end
        end
      else None
    | [] => None
    end
  end.

(* a complete text: one value, whitespace around it, nothing else.  Along every chain of calls two
   consecutive calls consume at least one character, so this fuel is never the reason for None on a
   text that has a value (for the writer's output this is part of the theorem). *)
Definition parse_text (s : list N) : option jv :=
  match pval (S (S (2 * length s))) s with
  | Some (v, r) => if is_nil (skip_ws r) then Some v else None
  | None => None
  end.
End Reader.

Definition json_read_gen (strict surr : bool) (b : list N) : option jv :=
  match utf8_dec surr b with Some t => parse_text strict t | None => None end.
Definition json_read : list N -> option jv := json_read_gen false true.          (* json.loads *)
Definition json_read_strict : list N -> option jv := json_read_gen true false.   (* RFC-strict, orjson.loads *)

(* json.detect_encoding (json/__init__.py): UTF-16/32 by byte-order mark or by the position of NUL
   bytes among the first four; otherwise UTF-8, with an optional signature EF BB BF *)
Definition starts (p b : list N) : bool := match lit p b with Some _ => true | None => false end.
Definition utf8_sig (b : list N) : bool := starts [239; 187; 191] b.
Definition std_utf8_branch (b : list N) : bool :=
  if starts [255; 254] b || starts [254; 255] b || starts [0; 0; 254; 255] b then false
  else match b with
       | [b0; b1] => negb (b0 =? 0) && negb (b1 =? 0)
       | b0 :: b1 :: _ :: _ :: _ => negb (b0 =? 0) && negb (b1 =? 0)
       | _ => true
       end.
Definition std_loads (b : list N) : option jv :=
  if utf8_sig b then json_read (skipn 3 b) else json_read b.

(* ---------------------------------------------------------------- guards *)
Definition cp_ok (c : N) : bool := (c <? 55296) || ((57344 <=? c) && (c <? 1114112)).
Definition str_ok (s : list N) : bool := forallb cp_ok s.
Definition float_tok_ok (t : list N) : bool :=
  match pnum t with Some (JFloat _, []) => true | _ => false end.
Fixpoint jv_ok (w : jv) : bool :=
  match w with
  | JFloat t => float_tok_ok t
  | JStr s => str_ok s
  | JList l => forallb jv_ok l
  | JDict d => forallb (fun kx => str_ok (fst kx) && jv_ok (snd kx)) d
  | _ => true
  end.

(* where orjson.dumps does not raise: 64-bit integers (signed or unsigned) *)
Fixpoint orjson_dom (w : jv) : bool :=
  match w with
  | JInt z => ((- 9223372036854775808 <=? z) && (z <? 18446744073709551616))%Z
  | JList l => forallb orjson_dom l
  | JDict d => forallb (fun kx => orjson_dom (snd kx)) d
  | _ => true
  end.

(* fuel measure: one per value and one per element / member *)
Fixpoint sz (w : jv) : nat :=
  match w with
  | JList l => S (fold_right (fun x a => S (sz x + a)) O l)
  | JDict d => S (fold_right (fun kx a => S (sz (snd kx) + a)) O d)
  | _ => 1%nat
  end.
