(* Comparison of model answers with observations of the implementation (correspondence runs only). *)
From Coq Require Import List NArith ZArith String Bool.
Import ListNotations.
Require Import TL.Model.Inspect TL.Model.InspectCache.

Inductive fn := F_origin | F_args | F_name | F_qualname | F_unwrap | F_resolve_supertype | F_pred (p : pred).
Inductive obs := OBool (b : bool) | OTy (t : ity) | OTys (l : list ity) | OStr (s : string) | ORaise (e : exn).

Definition of_res (r : res bool) : obs := match r with Ok b => OBool b | Raise e => ORaise e end.
Definition run_fn (T : tables) (f : fn) (t : ity) : obs :=
  match f with
  | F_origin => OTy (origin T t)
  | F_args => OTys (args t)
  | F_name => OStr (name T t)
  | F_qualname => OStr (qualname T t)
  | F_unwrap => match unwrap T t with Ok x => OTy x | Raise e => ORaise e end
  | F_resolve_supertype => OTy (resolve_supertype t)
  | F_pred p => of_res (run_pred T p t)
  end.
Definition exn_eqb (a b : exn) : bool :=
  match a, b with EType, EType | EAttribute, EAttribute | EOther, EOther => true | _, _ => false end.
Definition obs_eqb (a b : obs) : bool :=
  match a, b with
  | OBool x, OBool y => Bool.eqb x y
  | OTy x, OTy y => ity_eqb x y
  | OTys x, OTys y => itys_eqb x y
  | OStr x, OStr y => String.eqb x y
  | ORaise x, ORaise y => exn_eqb x y
  | _, _ => false
  end.

Definition bT := OBool true.
Definition bF := OBool false.
Definition rT : obs := ORaise EType.
Definition rA : obs := ORaise EAttribute.

(* a shard: one list of functions, many (annotation, observations) rows *)
Definition case := (ity * list obs)%type.
Fixpoint bad_fns (T : tables) (t : ity) (fs : list fn) (os : list obs) (j : nat) : list nat :=
  match fs, os with
  | f :: fr, o :: r => (if obs_eqb (run_fn T f t) o then [] else [j]) ++ bad_fns T t fr r (S j)
  | [], [] => []
  | _, _ => [j]
  end.
Fixpoint mismatches_from (T : tables) (fs : list fn) (cs : list case) (i : nat) : list (nat * nat) :=
  match cs with
  | [] => []
  | (t, l) :: r => map (fun j => (i, j)) (bad_fns T t fs l 0) ++ mismatches_from T fs r (S i)
  end.
Definition mismatches (T : tables) (fs : list fn) (cs : list case) := mismatches_from T fs cs 0.
(* what the model says, for diagnostics *)
Definition model_says (T : tables) (fs : list fn) (t : ity) : list obs := map (fun f => run_fn T f t) fs.

(* call histories of one predicate without clearing its cache in between *)
Definition hist_case := (pred * list ity * list obs)%type.
Fixpoint obs_list_eqb (a b : list obs) : bool :=
  match a, b with [], [] => true | x :: r, y :: s => obs_eqb x y && obs_list_eqb r s | _, _ => false end.
Definition hist_ok (T : tables) (c : hist_case) : bool :=
  match c with (p, h, os) => obs_list_eqb (map of_res (pred_history T p h)) os end.
Fixpoint hist_mismatches_from (T : tables) (cs : list hist_case) (i : nat) : list nat :=
  match cs with [] => [] | c :: r => (if hist_ok T c then [] else [i]) ++ hist_mismatches_from T r (S i) end.
Definition hist_mismatches (T : tables) (cs : list hist_case) := hist_mismatches_from T cs 0.

(* histories of the accessor args(), which carries no cache: every call gets the cold answer *)
Definition args_hist_case := (list ity * list (list ity))%type.
Fixpoint ll_eqb (a b : list (list ity)) : bool :=
  match a, b with [], [] => true | x :: r, y :: s => itys_eqb x y && ll_eqb r s | _, _ => false end.
Definition args_hist_ok (c : args_hist_case) : bool := ll_eqb (map args (fst c)) (snd c).
Fixpoint args_hist_mismatches_from (cs : list args_hist_case) (i : nat) : list nat :=
  match cs with [] => [] | c :: r => (if args_hist_ok c then [] else [i]) ++ args_hist_mismatches_from r (S i) end.
Definition args_hist_mismatches (cs : list args_hist_case) := args_hist_mismatches_from cs 0.
