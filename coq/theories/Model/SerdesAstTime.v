(* Target language of the SOURCE TRANSLATOR tie for typelib/serdes.py, part 3: the isinstance ladders of
   isoformat / unixtime against Model/Temporal.v (C04).  Definitions only.
   Descriptor: the temporal kind of the value (Temporal.tkind), or None for any other class. *)
From Coq Require Import List Bool ZArith String.
Import ListNotations.
Require Import TL.Model.Duration TL.Model.Temporal.

Definition kdesc := option tkind.
Definition kind_of (v : val) : kdesc :=
  match v with
  | VDate _ _ _ => Some KDate | VDateTime _ => Some KDateTime | VTime _ => Some KTime
  | VTimeDelta _ _ _ => Some KTimeDelta | _ => None
  end.
Definition all_kdesc : list kdesc := [None; Some KDate; Some KDateTime; Some KTime; Some KTimeDelta].

(* datetime.date / datetime.datetime / datetime.time / datetime.timedelta; datetime IS a date *)
Inductive dcls := DDate | DDateTime | DTime | DTimeDelta.
Definition dinst (c : dcls) (k : tkind) : bool :=
  match c, k with
  | DDate, (KDate | KDateTime) | DDateTime, KDateTime | DTime, KTime | DTimeDelta, KTimeDelta => true
  | _, _ => false
  end.
Inductive qguard := QInst (cs : list dcls) | QNot (g : qguard) | QAnd (a b : qguard) | QOr (a b : qguard).
Fixpoint eval_q (g : qguard) (d : kdesc) : bool :=
  match g with
  | QInst cs => match d with Some k => existsb (fun c => dinst c k) cs | None => false end
  | QNot a => negb (eval_q a d)
  | QAnd a b => eval_q a d && eval_q b d
  | QOr a b => eval_q a d || eval_q b d
  end.
Definition q_equiv (a b : qguard) : bool := forallb (fun d => Bool.eqb (eval_q a d) (eval_q b d)) all_kdesc.

(* ---------------------------------------------------------------- isoformat *)
Inductive iaction :=
| IOwn         (* return dt.isoformat() *)
| IDuration.   (* return _isoduration(dt) *)
Definition iaction_eqb (a b : iaction) : bool := match a, b with IOwn, IOwn | IDuration, IDuration => true | _, _ => false end.
Definition qladder (A : Type) := list (qguard * A).
Fixpoint qselect {A} (l : qladder A) (dflt : A) (d : kdesc) : A :=
  match l with [] => dflt | (g, a) :: r => if eval_q g d then a else qselect r dflt d end.
Fixpoint qselect_ix {A} (l : qladder A) (d : kdesc) : nat :=
  match l with [] => 0 | (g, _) :: r => if eval_q g d then 0 else S (qselect_ix r d) end.

Definition run_iaction (rt : Runtime) (a : iaction) (v : val) : option string :=
  match a with
  | IOwn => Some (canon_text rt v)
  | IDuration => match v with VTimeDelta d s us => Some (iso_duration (d, s, us)) | _ => None end
  end.
Definition isoformat_src (l : qladder iaction) (dflt : iaction) (rt : Runtime) (v : val) : option string :=
  run_iaction rt (qselect l dflt (kind_of v)) v.
Definition model_iaction (d : kdesc) : iaction := match d with Some KTimeDelta => IDuration | _ => IOwn end.
Definition temporal_kdesc : list kdesc := [Some KDate; Some KDateTime; Some KTime; Some KTimeDelta].
Definition iladder_ok (l : qladder iaction) (dflt : iaction) : bool :=
  forallb (fun d => iaction_eqb (qselect l dflt d) (model_iaction d)) temporal_kdesc.
Definition iladder_diag (l : qladder iaction) (dflt : iaction) : list (kdesc * nat * iaction * iaction) :=
  flat_map (fun d => if iaction_eqb (qselect l dflt d) (model_iaction d) then []
                     else [(d, qselect_ix l d, qselect l dflt d, model_iaction d)]) temporal_kdesc.

(* ---------------------------------------------------------------- unixtime *)
Inductive uconv :=
| CNowReplace     (* dt = datetime.datetime.now(tz=dt.tzinfo).replace(hour=.., minute=.., second=.., microsecond=..) *)
| CMidnightUTC.   (* dt = datetime.datetime(year=dt.year, month=dt.month, day=dt.day, tzinfo=datetime.timezone.utc) *)
Inductive ustep :=
| UReturnTotal (g : qguard)            (* if g: return dt.total_seconds() *)
| URebind (g : qguard) (c : uconv).    (* if g: dt = <c> *)
(* the body: the steps in source order, then `return dt.timestamp()` *)
Definition uconv_eqb (a b : uconv) : bool :=
  match a, b with CNowReplace, CNowReplace | CMidnightUTC, CMidnightUTC => true | _, _ => false end.
Definition ustep_equiv (a b : ustep) : bool :=
  match a, b with
  | UReturnTotal g, UReturnTotal h => q_equiv g h
  | URebind g c, URebind h d => q_equiv g h && uconv_eqb c d
  | _, _ => false
  end.
Fixpoint usteps_equiv (a b : list ustep) : bool :=
  match a, b with
  | [], [] => true
  | x :: r, y :: s => ustep_equiv x y && usteps_equiv r s
  | _, _ => false
  end.
Fixpoint usteps_diff (a b : list ustep) : nat :=
  match a, b with x :: r, y :: s => if ustep_equiv x y then S (usteps_diff r s) else 0 | _, _ => 0 end.

Fixpoint run_usteps (rt : Runtime) (steps : list ustep) (v : val) : res tok :=
  match steps with
  | [] => match v with VDateTime d => timestamp rt d | _ => Unmodelled end
  | UReturnTotal g :: r =>
      if eval_q g (kind_of v)
      then match v with VTimeDelta d s us => Ok (td_total_seconds rt (d, s, us)) | _ => Unmodelled end
      else run_usteps rt r v
  | URebind g c :: r =>
      if eval_q g (kind_of v)
      then match c, v with
           | CMidnightUTC, VDate y m d => run_usteps rt r (VDateTime (midnight_utc y m d))
           | _, _ => Unmodelled            (* now() is outside the model *)
           end
      else run_usteps rt r v
  end.

Definition canonical_unixtime : list ustep :=
  [UReturnTotal (QInst [DTimeDelta]); URebind (QInst [DTime]) CNowReplace;
   URebind (QAnd (QInst [DDate]) (QNot (QInst [DDateTime]))) CMidnightUTC].
