(* Executable instance of Model/Union.v used only to compare the model with observations of the
   implementation (correspondence runs).  Values are tokens (nat), None is token 0.  A member routine
   is a script; in the runs with real members the script is the member's own observed outcome on the
   input of the case (`SConst`), measured by calling the member's routine from a fresh factory. *)
From Coq Require Import List Bool Arith PeanoNat.
Import ListNotations.
Require Import TL.Model.Union.

Definition tok_none : nat := 0.
Definition tok_is_none (x : nat) : bool := Nat.eqb x 0.

Inductive script :=
| SConst (r : res nat)               (* same outcome whatever the input *)
| SNoneType                          (* the library's NoneTypeUnmarshaller (decode = identity on tokens) *)
| SNoneOr (e : exn) (y : nat)        (* rejects None with e, answers y otherwise *)
| SOnlyNone (y : nat) (e : exn)      (* answers y on None, rejects everything else with e *)
| SEcho.                             (* returns its input (NoOp) *)

Definition run_script (s : script) : routine nat :=
  match s with
  | SConst r => fun _ => r
  | SNoneType => none_unm tok_none tok_is_none (fun x => Ok x)
  | SNoneOr e y => fun x => if tok_is_none x then Raise e else Ok y
  | SOnlyNone y e => fun x => if tok_is_none x then Ok y else Raise e
  | SEcho => fun x => Ok x
  end.

Definition mk_member (p : bool * script) : member nat :=
  {| m_none := fst p; m_run := run_script (snd p) |}.

Definition res_eqb (a b : res nat) : bool :=
  match a, b with
  | Ok x, Ok y => Nat.eqb x y
  | Raise e, Raise f => exn_eqb e f
  | _, _ => false
  end.

Fixpoint mismatches_from {A} (ok : A -> bool) (l : list A) (i : nat) : list nat :=
  match l with [] => [] | x :: r => (if ok x then [] else [i]) ++ mismatches_from ok r (S i) end.
Definition mismatches {A} (ok : A -> bool) (l : list A) := mismatches_from ok l 0.

(* one case: declared members (isnonetype flag, script), input token, observed outcome *)
Definition ucase := (list (bool * script) * nat * res nat)%type.

Definition unm_case_ok (sup : exn -> bool) (c : ucase) : bool :=
  match c with (ms, x, obs) => res_eqb (unm_union sup (map mk_member ms) x) obs end.
Definition mar_case_ok (sup : exn -> bool) (c : ucase) : bool :=
  match c with (ms, x, obs) => res_eqb (mar_union tok_is_none sup (map mk_member ms) x) obs end.

(* constructor only: which declared member (by index) sits at each position of ordered_routines *)
Definition order_case := (list bool * list nat)%type.
Fixpoint tag_from (l : list bool) (i : nat) : list (member nat) :=
  match l with [] => [] | b :: r => {| m_none := b; m_run := fun _ => Ok i |} :: tag_from r (S i) end.
Definition order_of (l : list bool) : list nat :=
  map (fun m => match m_run m 0 with Ok i => i | Raise _ => 0 end) (stack_u (tag_from l 0)).
Fixpoint nats_eqb (a b : list nat) : bool :=
  match a, b with [], [] => true | x :: r, y :: t => Nat.eqb x y && nats_eqb r t | _, _ => false end.
Definition order_case_ok (c : order_case) : bool :=
  match c with (flags, obs) => nats_eqb (order_of flags) obs end.
