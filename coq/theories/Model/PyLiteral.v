(* Model/PyLiteral.v -- Python-literal text, character by character (property C14).  DEFINITIONS ONLY.

   serdes._strload (src/typelib/serdes.py) tries the JSON decoder first and then
   `ast.literal_eval(decode(val))`.  Model/Serdes.v keeps `literal_eval` and `repr` abstract (fields of the
   Runtime record); here they are concrete, like the JSON layer of Model/Json.v:

   1. [pyv]: the values `ast.literal_eval` can return, as far as the wire universe needs them: None, bool,
      int (any size), float (its literal text -- the float <-> shortest-repr conversion is the interpreter's
      business, as in Model/Json.v), str (code points, lone surrogates included), list, tuple, dict (any hashable
      key), set (elements in iteration order).  No bytes, complex, Ellipsis: outside the wire universe.
   2. [py_repr pr]: the WRITER, CPython's `repr` of such a value (measured on CPython 3.12.1: separators comma-space and
      colon-space, the one-tuple (a,) and set() for the empty set, and unicode_repr's rule for str: the quote is the double quote only
      when the text has an apostrophe and no double quote; the quote and the backslash get a backslash; \t \n \r; other characters
      below 0x20 and 0x7f as \xhh; 0x20..0x7e raw; from 0x80 raw when `str.isprintable`, else \xhh / \uhhhh /
      \Uhhhhhhhh in lowercase hex).  [pr] = `str.isprintable` on code points from 0x7f: a table of the Unicode
      database, re-read from the interpreter on every run ([pr_of]); the theorems need one law of it only.
   3. [literal_read]: an independent READER of the subset of Python source text `ast.literal_eval` accepts:
        whole text: no NUL and no surrogate code point anywhere (the parser's checks);
                    literal_eval strips leading spaces / tabs; the tokenizer reads \r\n and \r as \n;
        lines     : blank lines before and after the expression; the expression starts in column 0
                    (space / tab advance the column, form feed resets it: IndentationError otherwise); a last
                    line of blanks without a newline is an error unless it ends in column 0;
        depth 0   : space, tab, form feed between tokens; a bare tuple `1, 2` / `1,`;
        brackets  : newlines are blanks too; trailing commas; `()`, `(a)` = a, `(a,)`; `[..]`; `{k: v}`;
                    `{a, b}`; `set()`; unhashable dict keys / set elements are rejected (TypeError);
        atoms     : None True False; decimal integers (zeros only may start with 0); floats
                    (digits '.' digits, '.' digits, digits '.', exponent); one unary + or - in front of a number
                    that may sit in parentheses, `-(1)`; strings in apostrophes or in double quotes with every escape of the language
                    (backslash, both quotes, \a \b \f \n \r \t \v, 1-3 octal digits, \xhh, \uhhhh, \Uhhhhhhhh below 0x110000,
                    backslash-newline = nothing, an unknown escape keeps its backslash).
      REJECTED although CPython accepts them (outside the modelled subset; the tie counts and skips such texts):
      comments, backslash continuation lines, string prefixes (r u b f), triple quotes, implicit concatenation
      of adjacent strings, \N{name}, '_' in numbers, 0x / 0o / 0b, imaginary and complex numbers, `...`. *)
From Coq Require Import List ZArith NArith Bool.
Import ListNotations.
Require Import TL.Model.Json.
Open Scope N_scope.

Inductive pyv :=
| YNone
| YBool (b : bool)
| YInt (z : Z)
| YFloat (tok : list N)
| YStr (s : list N)
| YList (l : list pyv)
| YTuple (l : list pyv)
| YDict (d : list (pyv * pyv))
| YSet (l : list pyv).

(* ---------------------------------------------------------------- the writer: repr *)
Definition x2 (c : N) : list N := [92; 120; hexd (c / 16); hexd (c mod 16)].
Definition h4 (c : N) : list N := [hexd (c / 4096); hexd ((c / 256) mod 16); hexd ((c / 16) mod 16); hexd (c mod 16)].
Definition U8 (c : N) : list N := 92 :: 85 :: h4 (c / 65536) ++ h4 (c mod 65536).

Section Writer.
Variable pr : N -> bool.

Definition pesc (q c : N) : list N :=
  if (c =? q) || (c =? 92) then [92; c]
  else if c =? 9 then [92; 116]
  else if c =? 10 then [92; 110]
  else if c =? 13 then [92; 114]
  else if (c <? 32) || (c =? 127) then x2 c
  else if c <? 127 then [c]
  else if pr c then [c]
  else if c <? 256 then x2 c
  else if c <? 65536 then u4 c
  else U8 c.

Definition has (x : N) (s : list N) : bool := existsb (N.eqb x) s.
Definition quote_of (s : list N) : N := if has 39 s && negb (has 34 s) then 34 else 39.
Definition wr_pystr (s : list N) : list N := let q := quote_of s in q :: flat_map (pesc q) s ++ [q].

Definition sep_items {A} (f : A -> list N) (l : list A) : list N :=
  match l with
  | [] => []
  | x :: r => f x ++ flat_map (fun y => 44 :: 32 :: f y) r
  end.

Definition t_None : list N := [78; 111; 110; 101].
Definition t_True : list N := [84; 114; 117; 101].
Definition t_False : list N := [70; 97; 108; 115; 101].
Definition t_set : list N := [115; 101; 116; 40; 41].

Fixpoint py_repr (w : pyv) : list N :=
  match w with
  | YNone => t_None
  | YBool true => t_True
  | YBool false => t_False
  | YInt z => show_int z
  | YFloat t => t
  | YStr s => wr_pystr s
  | YList l => 91 :: sep_items py_repr l ++ [93]
  | YTuple l =>
      match l with
      | [x] => 40 :: py_repr x ++ [44; 41]
      | _ => 40 :: sep_items py_repr l ++ [41]
      end
  | YDict d => 123 :: sep_items (fun kx => py_repr (fst kx) ++ 58 :: 32 :: py_repr (snd kx)) d ++ [125]
  | YSet l =>
      match l with
      | [] => t_set
      | _ => 123 :: sep_items py_repr l ++ [125]
      end
  end.
End Writer.

(* str.isprintable from a table of the non-printable ranges at and above 0x7f (inclusive bounds) *)
Definition in_ranges (c : N) (tbl : list (N * N)) : bool :=
  existsb (fun ab => (fst ab <=? c) && (c <=? snd ab)) tbl.
Definition pr_of (tbl : list (N * N)) (c : N) : bool := cp_ok c && negb (in_ranges c tbl).
(* the one law the theorems need: a printable code point is a Unicode scalar value *)
Definition pr_law (pr : N -> bool) : Prop := forall c, pr c = true -> cp_ok c = true.

(* ---------------------------------------------------------------- the reader *)
Definition is_hws (c : N) : bool := (c =? 32) || (c =? 9) || (c =? 12).
Definition is_bws (c : N) : bool := is_hws c || (c =? 10).
Definition wsp (br : bool) (c : N) : bool := if br then is_bws c else is_hws c.
Fixpoint skip (br : bool) (s : list N) : list N :=
  match s with c :: r => if wsp br c then skip br r else s | [] => [] end.

(* strings: the text after the opening quote q -> (code points, text after the closing quote) *)
Definition is_oct (c : N) : bool := (48 <=? c) && (c <=? 55).
Definition hex2 (a b : N) : option N :=
  match hexv a, hexv b with Some x, Some y => Some (x * 16 + y) | _, _ => None end.
Definition simple_pesc (e : N) : option N :=
  if e =? 92 then Some 92 else if e =? 39 then Some 39 else if e =? 34 then Some 34
  else if e =? 97 then Some 7 else if e =? 98 then Some 8 else if e =? 102 then Some 12
  else if e =? 110 then Some 10 else if e =? 114 then Some 13 else if e =? 116 then Some 9
  else if e =? 118 then Some 11 else None.

Fixpoint lstr (q : N) (s : list N) : option (list N * list N) :=
  match s with
  | [] => None
  | c :: r =>
    if c =? q then Some ([], r)
    else if c =? 10 then None
    else if c =? 92 then
      match r with
      | [] => None
      | e :: r1 =>
        if e =? 10 then lstr q r1
        else
          match simple_pesc e with
          | Some x => ocons x (lstr q r1)
          | None =>
            if is_oct e then
              match r1 with
              | o2 :: r2 =>
                if is_oct o2 then
                  match r2 with
                  | o3 :: r3 =>
                    if is_oct o3 then ocons (((e - 48) * 8 + (o2 - 48)) * 8 + (o3 - 48)) (lstr q r3)
                    else ocons ((e - 48) * 8 + (o2 - 48)) (lstr q r2)
                  | [] => ocons ((e - 48) * 8 + (o2 - 48)) (lstr q r2)
                  end
                else ocons (e - 48) (lstr q r1)
              | [] => ocons (e - 48) (lstr q r1)
              end
            else if e =? 120 then
              match r1 with
              | a :: b :: r2 => match hex2 a b with Some v => ocons v (lstr q r2) | None => None end
              | _ => None
              end
            else if e =? 117 then
              match r1 with
              | a :: b :: c' :: d :: r2 =>
                match hex4 a b c' d with Some v => ocons v (lstr q r2) | None => None end
              | _ => None
              end
            else if e =? 85 then
              match r1 with
              | a :: b :: c' :: d :: a2 :: b2 :: c2 :: d2 :: r2 =>
                match hex4 a b c' d, hex4 a2 b2 c2 d2 with
                | Some hi, Some lo =>
                  if hi * 65536 + lo <? 1114112 then ocons (hi * 65536 + lo) (lstr q r2) else None
                | _, _ => None
                end
              | _ => None
              end
            else if e =? 78 then None
            else ocons 92 (ocons e (lstr q r1))
          end
      end
    else ocons c (lstr q r)
  end.

(* numbers (no sign) *)
Definition int_ok (ip : list N) : bool :=
  match ip with c :: _ => negb (c =? 48) || forallb (N.eqb 48) ip | [] => false end.
Definition pnum_nodot (ip s1 : list N) : option (pyv * list N) :=
  if is_nil ip then None
  else
    let '(ex, s4) := scan_exp s1 in
    if is_nil ex then (if int_ok ip then Some (YInt (Z.of_N (digits_val ip)), s1) else None)
    else Some (YFloat (ip ++ ex), s4).
Definition pnumber (s : list N) : option (pyv * list N) :=
  let '(ip, s1) := span_digits s in
  match s1 with
  | c :: s2 =>
    if c =? 46 then
      let '(fr, s3) := span_digits s2 in
      if is_nil ip && is_nil fr then None
      else let '(ex, s4) := scan_exp s3 in Some (YFloat (ip ++ 46 :: fr ++ ex), s4)
    else pnum_nodot ip s1
  | [] => pnum_nodot ip s1
  end.

Definition negate (v : pyv) : pyv :=
  match v with YInt z => YInt (- z) | YFloat t => YFloat (45 :: t) | _ => v end.

(* the operand of a unary sign: a number, possibly in parentheses (which vanish in the syntax tree) *)
Fixpoint poperand (n : nat) (br : bool) (s : list N) {struct n} : option (pyv * list N) :=
  match n with
  | O => None
  | S n' =>
    match skip br s with
    | c :: r =>
      if c =? 40 then
        match poperand n' true r with
        | Some (v, r1) =>
          match skip true r1 with
          | c1 :: r2 => if c1 =? 41 then Some (v, r2) else None
          | [] => None
          end
        | None => None
        end
      else pnumber (c :: r)
    | [] => None
    end
  end.

Fixpoint hashable (v : pyv) : bool :=
  match v with
  | YList _ | YDict _ | YSet _ => false
  | YTuple l => forallb hashable l
  | _ => true
  end.

Fixpoint pexpr (n : nat) (br : bool) (s : list N) {struct n} : option (pyv * list N) :=
  match n with
  | O => None
  | S n' =>
    match skip br s with
    | [] => None
    | c :: r =>
      if (c =? 39) || (c =? 34) then
        match lstr c r with Some (cs, r') => Some (YStr cs, r') | None => None end
      else if c =? 91 then
        match ptail n' 93 r with Some (l, r') => Some (YList l, r') | None => None end
      else if c =? 40 then
        match skip true r with
        | c2 :: r2 =>
          if c2 =? 41 then Some (YTuple [], r2)
          else
            match pexpr n' true r with
            | Some (x, r1) =>
              match skip true r1 with
              | c3 :: r3 =>
                if c3 =? 41 then Some (x, r3)
                else if c3 =? 44 then
                  match ptail n' 41 r3 with Some (xs, r4) => Some (YTuple (x :: xs), r4) | None => None end
                else None
              | [] => None
              end
            | None => None
            end
        | [] => None
        end
      else if c =? 123 then
        match skip true r with
        | c2 :: r2 =>
          if c2 =? 125 then Some (YDict [], r2)
          else
            match pexpr n' true r with
            | Some (k, r1) =>
              match skip true r1 with
              | c3 :: r3 =>
                if c3 =? 58 then
                  match pexpr n' true r3 with
                  | Some (v, r4) =>
                    match pdrest n' r4 with
                    | Some (d, r5) =>
                      if forallb (fun kx => hashable (fst kx)) ((k, v) :: d)
                      then Some (YDict ((k, v) :: d), r5) else None
                    | None => None
                    end
                  | None => None
                  end
                else if c3 =? 125 then (if hashable k then Some (YSet [k], r3) else None)
                else if c3 =? 44 then
                  match ptail n' 125 r3 with
                  | Some (xs, r4) => if forallb hashable (k :: xs) then Some (YSet (k :: xs), r4) else None
                  | None => None
                  end
                else None
              | [] => None
              end
            | None => None
            end
        | [] => None
        end
      else if c =? 78 then match lit [111; 110; 101] r with Some r' => Some (YNone, r') | None => None end
      else if c =? 84 then match lit [114; 117; 101] r with Some r' => Some (YBool true, r') | None => None end
      else if c =? 70 then match lit [97; 108; 115; 101] r with Some r' => Some (YBool false, r') | None => None end
      else if c =? 115 then
        match lit [101; 116] r with
        | Some r1 =>
          match skip br r1 with
          | c1 :: r2 =>
            if c1 =? 40 then
              match skip true r2 with
              | c2 :: r3 => if c2 =? 41 then Some (YSet [], r3) else None
              | [] => None
              end
            else None
          | [] => None
          end
        | None => None
        end
      else if (c =? 45) || (c =? 43) then
        match poperand n' br r with
        | Some (v, r1) => Some (if c =? 45 then negate v else v, r1)
        | None => None
        end
      else pnumber (c :: r)
    end
  end
(* after an opening bracket or a comma: the items up to [close], a trailing comma allowed *)
with ptail (n : nat) (close : N) (s : list N) {struct n} : option (list pyv * list N) :=
  match n with
  | O => None
  | S n' =>
    match skip true s with
    | [] => None
    | c :: r =>
      if c =? close then Some ([], r)
      else
        match pexpr n' true s with
        | Some (x, r1) =>
          match skip true r1 with
          | c1 :: r2 =>
            if c1 =? close then Some ([x], r2)
            else if c1 =? 44 then
              match ptail n' close r2 with Some (xs, r3) => Some (x :: xs, r3) | None => None end
            else None
          | [] => None
          end
        | None => None
        end
    end
  end
(* after a dict value: the closing brace, or a comma and then the closing brace or key ':' value and so on *)
with pdrest (n : nat) (s : list N) {struct n} : option (list (pyv * pyv) * list N) :=
  match n with
  | O => None
  | S n' =>
    match skip true s with
    | [] => None
    | c :: r =>
      if c =? 125 then Some ([], r)
      else if c =? 44 then
        match skip true r with
        | c2 :: r2 =>
          if c2 =? 125 then Some ([], r2)
          else
            match pexpr n' true r with
            | Some (k, r1) =>
              match skip true r1 with
              | c3 :: r3 =>
                if c3 =? 58 then
                  match pexpr n' true r3 with
                  | Some (v, r4) =>
                    match pdrest n' r4 with Some (d, r5) => Some ((k, v) :: d, r5) | None => None end
                  | None => None
                  end
                else None
              | [] => None
              end
            | None => None
            end
        | [] => None
        end
      else None
    end
  end.

(* depth 0: one expression, or a bare tuple (at least one comma) *)
Fixpoint ptoptail (n : nat) (s : list N) {struct n} : option (list pyv * list N) :=
  match n with
  | O => None
  | S n' =>
    match skip false s with
    | [] => Some ([], [])
    | c :: r =>
      if c =? 10 then Some ([], c :: r)
      else
        match pexpr n' false s with
        | Some (x, r1) =>
          match skip false r1 with
          | c1 :: r2 =>
            if c1 =? 44 then
              match ptoptail n' r2 with Some (xs, r3) => Some (x :: xs, r3) | None => None end
            else Some ([x], r1)
          | [] => Some ([x], r1)
          end
        | None => None
        end
    end
  end.
Definition ptop (n : nat) (s : list N) : option (pyv * list N) :=
  match pexpr n false s with
  | Some (x, r) =>
    match skip false r with
    | c :: r1 =>
      if c =? 44 then
        match ptoptail n r1 with Some (xs, r2) => Some (YTuple (x :: xs), r2) | None => None end
      else Some (x, r)
    | [] => Some (x, r)
    end
  | None => None
  end.

(* the whole text *)
Definition src_ok (c : N) : bool := negb (c =? 0) && negb (is_surr c).
Fixpoint lstrip (s : list N) : list N :=
  match s with c :: r => if (c =? 32) || (c =? 9) then lstrip r else s | [] => [] end.
Fixpoint norm_nl (s : list N) : list N :=
  match s with
  | [] => []
  | c :: r =>
    if c =? 13 then
      10 :: match r with
            | d :: r' => if d =? 10 then norm_nl r' else norm_nl r
            | [] => []
            end
    else c :: norm_nl r
  end.
(* blank lines, then the first token in column 0; [col] = "the column is not 0" *)
Fixpoint lead (col : bool) (s : list N) : option (list N) :=
  match s with
  | [] => None
  | c :: r =>
    if (c =? 32) || (c =? 9) then lead true r
    else if (c =? 12) || (c =? 10) then lead false r
    else if col then None else Some s
  end.
Fixpoint blank_lines (col : bool) (s : list N) : bool :=
  match s with
  | [] => negb col
  | c :: r =>
    if (c =? 32) || (c =? 9) then blank_lines true r
    else if (c =? 12) || (c =? 10) then blank_lines false r
    else false
  end.
Definition trail (s : list N) : bool :=
  match skip false s with
  | [] => true
  | c :: r => if c =? 10 then blank_lines false r else false
  end.

(* Along every chain of calls two consecutive calls consume at least one character, so this fuel is never
   the reason for None on a text that has a value (for the writer's output this is part of the theorem). *)
Definition literal_read (text : list N) : option pyv :=
  if forallb src_ok text then
    match lead false (norm_nl (lstrip text)) with
    | Some s =>
      match ptop (S (S (2 * length s))) s with
      | Some (v, r) => if trail r then Some v else None
      | None => None
      end
    | None => None
    end
  else None.

(* ---------------------------------------------------------------- guards *)
(* every string consists of code points (below 0x110000; lone surrogates allowed), every float literal is a JSON
   number with a fraction or an exponent (true of repr of every finite float), dict keys and set elements are
   hashable *)
Definition pystr_ok (s : list N) : bool := forallb (fun c => c <? 1114112) s.
Fixpoint pyv_ok (w : pyv) : bool :=
  match w with
  | YFloat t => float_tok_ok t
  | YStr s => pystr_ok s
  | YList l => forallb pyv_ok l
  | YTuple l => forallb pyv_ok l
  | YDict d => forallb (fun kx => hashable (fst kx) && pyv_ok (fst kx) && pyv_ok (snd kx)) d
  | YSet l => forallb (fun x => hashable x && pyv_ok x) l
  | _ => true
  end.

(* every string (keys included) consists of Unicode scalar values: no lone surrogate.  Needed where the JSON reader
   is compared: it joins an escaped high and low surrogate into one character, a Python literal keeps two. *)
Fixpoint pyv_scalar (w : pyv) : bool :=
  match w with
  | YStr s => str_ok s
  | YList l | YTuple l | YSet l => forallb pyv_scalar l
  | YDict d => forallb (fun kx => pyv_scalar (fst kx) && pyv_scalar (snd kx)) d
  | _ => true
  end.
(* does repr text start like a JSON value at all: numbers, lists, dicts and non-empty sets (a brace), str in double quotes *)
Definition json_head (w : pyv) : bool :=
  match w with
  | YInt _ | YFloat _ | YList _ | YDict _ => true
  | YStr s => quote_of s =? 34
  | YSet l => negb (is_nil l)
  | _ => false
  end.

(* fuel measure *)
Fixpoint psz (w : pyv) : nat :=
  match w with
  | YList l => S (S (fold_right (fun x a => S (psz x + a)) O l))
  | YTuple l => S (S (fold_right (fun x a => S (psz x + a)) O l))
  | YDict d => S (S (fold_right (fun kx a => S (S (psz (fst kx) + psz (snd kx) + a))) O d))
  | YSet l => S (S (fold_right (fun x a => S (psz x + a)) O l))
  | _ => 2%nat
  end.

(* ---------------------------------------------------------------- JSON data as Python values *)
Fixpoint of_json (j : jv) : pyv :=
  match j with
  | JNull => YNone
  | JBool b => YBool b
  | JInt z => YInt z
  | JFloat t => YFloat t
  | JStr s => YStr s
  | JList l => YList (map of_json l)
  | JDict d => YDict (map (fun kx => (YStr (fst kx), of_json (snd kx))) d)
  end.

(* what serdes._strload does with a str: the JSON decoder first (the configured one is RFC-strict), then
   literal_eval, then the text itself *)
Inductive loaded := LVal (v : pyv) | LText (t : list N).
Definition strload_text (strict : bool) (t : list N) : loaded :=
  match parse_text strict t with
  | Some j => LVal (of_json j)
  | None => match literal_read t with Some v => LVal v | None => LText t end
  end.
(* ... with a bytes-like input (bytearray / memoryview are normalised to bytes by strload): decode first
   (None = UnicodeDecodeError raised), then the same on the text -- /repo HEAD 1534a4b *)
Definition strload_bytes (strict : bool) (b : list N) : option loaded :=
  match utf8_dec false b with
  | Some t => Some (strload_text strict t)
  | None => None
  end.
