(* Context bridge: the two models of typelib.ctx.TypeContext.

     Model/Build.v   ctx = association list keyed by Core.ty (newest first), find_key, ctx_set, and the PURE
                     lookup getitem with the three routes of __missing__ (direct hit; unwrap k; fref k);
                     annotations are MODULE-BLIND: TRef c is every ForwardRef naming class c, whatever module it
                     was written in
                     -- used by build_node / build_loop and by every routing proof (C05 C07 C11 C15);
     Model/Ctx.v     C16's executable state machine of the real class (dict + __missing__ WITH its memo
                     write + get + in), parametric in a key family, proved to refine a write-once
                     specification and tied to the live class by exhaustive sequence trees.

   This file instantiates C16's key family with Core annotations and translates between the two states.
   Definitions only (proofs: Proofs/CtxBridge.v, theorems: Props/C16Bridge.v). *)
From Coq Require Import List Arith Bool.
Import ListNotations.
Require Import TL.Model.Ctx.
Require Import TL.Model.Core TL.Model.Build.

(* refs.forwardref as a total function: Build.fref is None for annotations whose reference cannot be a key of
   a context (generics, unions, None ...); the real function still builds SOME ForwardRef, which is then
   missed.  TRefTo k stands for that reference; keys_wf below says no context stores such a key. *)
Definition fref_tot (k : ty) : ty := match fref k with Some r => r | None => TRefTo k end.

(* ctx._refers_to(r, k): the stored reference r evaluates to k (Build.evaluate = refs.evaluate) *)
Definition names_ty (r k : ty) : bool := ty_eqb (evaluate r) k.

(* C16's model at the key family (ty, ty_eqb, is_ref, unwrap E, fref_tot, names_ty), values = routines.
   inspection.unwrap goes through the alias objects of the environment E (Build.unwrap), so the family is per environment. *)
Definition cst : Type := Ctx.st ty routine.
Definition cop : Type := Ctx.op ty routine.
Definition cout : Type := Ctx.out routine.
Definition cfind : cst -> ty -> option routine := Ctx.find ty routine ty_eqb.
Definition cset : cst -> ty -> routine -> cst := Ctx.set ty routine ty_eqb.
Definition cgetitem (E : env) : nat -> cst -> ty -> Ctx.res routine * cst := Ctx.getitem ty routine ty_eqb is_ref (unwrap E) fref_tot names_ty.
Definition cstep (E : env) : nat -> cst -> cop -> cout * cst := Ctx.step ty routine ty_eqb is_ref (unwrap E) fref_tot names_ty.
Definition crun (E : env) : nat -> cst -> list cop -> list cout := Ctx.run ty routine ty_eqb is_ref (unwrap E) fref_tot names_ty.
Definition cspec_lookup (E : env) : cst -> ty -> option routine := Ctx.spec_lookup ty routine ty_eqb is_ref (unwrap E) fref_tot names_ty.
Definition cspec_run (E : env) : cst -> list cop -> list cout := Ctx.spec_run ty routine ty_eqb is_ref (unwrap E) fref_tot names_ty.
Definition cspec_final (E : env) : cst -> list cop -> cst := Ctx.spec_final ty routine ty_eqb is_ref (unwrap E) fref_tot names_ty.
Definition cops_ok (E : env) : cst -> list cop -> bool := Ctx.ops_ok ty routine ty_eqb is_ref (unwrap E) fref_tot names_ty.

(* ---- translation of states and histories ---- *)
(* a Build context (newest binding first, older bindings of a key shadowed) as the dict it denotes *)
Fixpoint state_of (cx : ctx) : cst :=
  match cx with [] => [] | (k, r) :: rest => cset (state_of rest) k r end.
(* ... and as the history of insertions that produced it: each ctx_set k r is OSet k r *)
Definition sets_of (cx : ctx) : list cop := map (fun e => OSet (fst e) (snd e)) (rev cx).
(* the Build context of a history: its insertions (lookups leave a Build context unchanged: no memo) *)
Fixpoint ctx_of (ops : list cop) (acc : ctx) : ctx :=
  match ops with
  | [] => acc
  | OSet k v :: r => ctx_of r (ctx_set k v acc)
  | _ :: r => ctx_of r acc
  end.

(* every reference key of the context is THE reference refs.forwardref builds for the key it evaluates to.
   Build.v cannot say more: being module-blind it has one reference per named type, so the scan over the stored
   references that the real __missing__ runs after missing forwardref(key) can only meet that same reference
   again.  (TRefTo (TName c) -- a second spelling of TRef c -- is what this excludes.) *)
Definition ref_wf (t : ty) : bool :=
  if is_ref t then match fref (evaluate t) with Some r => ty_eqb r t | None => false end else true.
Definition keys_wf (cx : ctx) : bool := forallb (fun e => ref_wf (fst e)) cx.

(* what context[k] / context.get(k, d) show, from the Build side *)
Definition out_item (r : Core.res routine) : cout :=
  match r with Core.Ok v => OVal v | Core.Raise _ => OKeyError | _ => OOther end.
Definition out_get (o : option routine) (d : routine) : cout := OVal (match o with Some v => v | None => d end).
