(* C06 -- marshalled output is plain JSON-compatible data, freshly built.
   Definitions only (the proofs are in Proofs/CoreC06.v, the theorems in Props/C06.v).

   Everything here sits on the shared core value model Model/Core.v.

   marG nm     : a copy of Core.mar in which the routine of the NoneType member is a parameter nm.
                   marG none_echo  is the PINNED routine (NoOpMarshaller for NoneType: echoes every input),
                                   kept only for the witnesses of the repaired defect;
                   marG none_m     is the routine since /repo ae6ba7e (None is emitted, the rest rejected).
                 mar_fixed := marG none_m is convertible with Core.mar (Proofs/CoreC06.v: mar_is_marG, by
                 reflexivity), so every theorem about it is a theorem about Core.mar.
   is_wire     : None / bool / int / float / str atoms of the exact builtin classes, list, dict with
                 primitive keys -- nothing else.
   robust_ty   : the routine of the annotation returns wire data on EVERY input it accepts
   fa_ty       : "fully annotated" -- the routine returns wire data on every VALID input
   valid       : a valid instance of the annotation, member-wise. *)
From Coq Require Import List Arith Bool PeanoNat.
Import ListNotations.
Require Import TL.Model.Core.

Section MarG.
Variable rt : runtime.
Variable E : env.
Variable nm : pv -> res pv.             (* the routine registered for NoneType *)

(* one step of the field loop of StructuredTypeMarshaller.__call__; f = the member routines *)
Definition kw_step (f : ty -> pv -> res pv) (cd : classdef)
  (acc : res (list (nat * pv))) (kv : pv * pv) : res (list (nat * pv)) :=
  bind acc (fun kw =>
    match fst kv with
    | PKey g => match field_ty cd g with
                | Some ft => bind (f ft (snd kv)) (fun v' => Ok (kw_set g v' kw))
                | None => Ok kw end
    | k => if unhashable rt k then Raise EType else Ok kw
    end).

Definition map_step (f : ty -> pv -> res pv) (kt vt : ty) (kv : pv * pv) : res (pv * pv) :=
  bind (f kt (fst kv)) (fun k' => bind (f vt (snd kv)) (fun v' => Ok (k', v'))).

Fixpoint marG (fuel : nat) (t : ty) (x : pv) {struct fuel} : res pv :=
  match fuel with
  | 0 => OutOfFuel
  | S n =>
    match t with
    | TLeaf s | TRefLeaf s => leaf_m rt s x
    | TNone => nm x
    | TSeq k a => bind (itervalues rt x) (fun vs => bind (mapM (marG n a) vs) (fun rs => Ok (PSeq KList rs)))
    | TMap k kt vt =>
        bind (iteritems rt E x) (fun kvs =>
        bind (mapM (hashing rt fst (map_step (marG n) kt vt)) kvs) (fun rs => construct_map rt KDict rs))
    | TTuple ts =>
        bind (itervalues rt x) (fun vs =>
        bind (mapM (fun tv => marG n (fst tv) (snd tv)) (zip_trunc ts vs)) (fun rs => Ok (PSeq KList rs)))
    | TUnion ts =>
        if isoptional ts && is_none_val rt x then Ok x
        else first_ok rt (map (marG n) ts) x
    | TName c | TRef c | TAliasStr _ c =>
        match E c with
        | None => Raise EOther
        | Some (NType t') => marG n t' x
        | Some (NClass cd) =>
            bind (iteritems rt E x) (fun kvs =>
            bind (fold_left (kw_step (marG n) cd) kvs (Ok []))
                 (fun kw => Ok (PDict KDict (map (fun fv => (PKey (fst fv), snd fv)) kw))))
        end
    | TNewType _ t' | TAlias _ t' | TFinal t' | TClassVar t' | TRefTo t' => marG n t' x
    end
  end.

End MarG.

(* NoneTypeMarshaller: None is emitted as it is, anything else is rejected with ValueError *)
Definition none_m (rt : runtime) (x : pv) : res pv := if is_none_val rt x then Ok x else Raise EValue.
(* Core.mar in the shape of marG (Proofs/CoreC06.v: mar_is_marG) *)
Definition mar_fixed (rt : runtime) (E : env) : nat -> ty -> pv -> res pv := marG rt E (none_m rt).
(* the pinned NoneType routine (NoOpMarshaller), for the witnesses C06_pinned_* only *)
Definition none_echo (x : pv) : res pv := Ok x.

Section Wire.
Variable rt : runtime.
Variable E : env.
Variable prim_atom : nat -> bool.       (* atom a is a None / bool / int / float / str object of the exact builtin class *)

Definition is_prim (v : pv) : bool :=
  match v with PAtom a => prim_atom a | PKey _ => true | _ => false end.

Fixpoint is_wire (v : pv) : bool :=
  match v with
  | PAtom a => prim_atom a
  | PKey _ => true
  | PSeq KList l => forallb is_wire l
  | PDict KDict l => forallb (fun kv : pv * pv => let (k, w) := kv in is_prim k && is_wire w) l
  | _ => false
  end.

(* ---- annotations ---- *)
Variable robust_leaf : nat -> bool.     (* the marshal routine of leaf s returns wire data on every input it accepts *)
Variable wire_leaf : nat -> bool.       (* ... on every valid input *)
Variable none_ok : bool.                (* the NoneType routine returns wire data on every input it accepts *)
Variable R : nat -> bool.               (* names whose definitions are robust (a self-consistent set, see env_robust) *)
Variable F : nat -> bool.               (* names whose definitions are fully annotated (see env_fa) *)

Fixpoint robust_ty (t : ty) : bool :=
  match t with
  | TLeaf s | TRefLeaf s => robust_leaf s
  | TNone => none_ok
  | TSeq _ a => robust_ty a
  | TMap _ kt vt => robust_ty kt && robust_ty vt
  | TTuple ts | TUnion ts => forallb robust_ty ts
  | TName c | TRef c | TAliasStr _ c => R c
  | TNewType _ t' | TAlias _ t' | TFinal t' | TClassVar t' | TRefTo t' => robust_ty t'
  end.

(* fully annotated: no leaf that passes contents through (Any, bare list, bare dict, bytes are not
   wire leaves); a union hands its input to members the input is NOT valid for, so union members are robust *)
Fixpoint fa_ty (t : ty) : bool :=
  match t with
  | TLeaf s | TRefLeaf s => wire_leaf s
  | TNone => true
  | TSeq _ a => fa_ty a
  | TMap _ kt vt => fa_ty kt && fa_ty vt
  | TTuple ts => forallb fa_ty ts
  | TUnion ts => forallb robust_ty ts
  | TName c | TRef c | TAliasStr _ c => F c
  | TNewType _ t' | TAlias _ t' | TFinal t' | TClassVar t' | TRefTo t' => fa_ty t'
  end.

Definition def_ok (ok : ty -> bool) (d : ndef) : bool :=
  match d with
  | NClass cd => forallb (fun f => ok (fty f)) (cfields cd)
  | NType t => ok t
  end.
(* every definition named by R is robust, every definition named by F is fully annotated (recursive and mutually
   recursive classes are fine: the sets only have to be closed under "mentions") *)
Definition env_robust : Prop := forall c d, R c = true -> E c = Some d -> def_ok robust_ty d = true.
Definition env_fa : Prop := forall c d, F c = true -> E c = Some d -> def_ok fa_ty d = true.
Definition fully_annotated (t : ty) : Prop := env_robust /\ env_fa /\ fa_ty t = true.

(* ---- valid instances ---- *)
Variable leaf_valid : nat -> pv -> bool.   (* v is a valid instance of leaf type s (subclass instances included) *)

Definition item_valid (val : ty -> pv -> bool) (cd : classdef) (kv : pv * pv) : bool :=
  match fst kv with
  | PKey g => match field_ty cd g with Some ft => val ft (snd kv) | None => true end
  | _ => true
  end.

(* permissive on container classes (a deque / OrderedDict / subclass instance is accepted where the annotation
   names the base), exact on members: a larger set of valid values makes the theorems stronger *)
Fixpoint valid (fuel : nat) (t : ty) (v : pv) {struct fuel} : bool :=
  match fuel with
  | 0 => false
  | S n =>
    match t with
    | TLeaf s | TRefLeaf s => leaf_valid s v
    | TNone => is_none_val rt v
    | TSeq _ a => match v with PSeq _ l => forallb (valid n a) l | _ => false end
    | TMap _ kt vt =>
        match v with
        | PDict _ l => forallb (fun kv => valid n kt (fst kv) && valid n vt (snd kv)) l
        | _ => false end
    | TTuple ts =>
        match v with
        | PSeq KTuple l => Nat.eqb (length ts) (length l) && forallb (fun tv => valid n (fst tv) (snd tv)) (zip_trunc ts l)
        | _ => false end
    | TUnion ts => existsb (fun t' => valid n t' v) ts
    | TName c | TRef c | TAliasStr _ c =>
        match E c with
        | None => false
        | Some (NType t') => valid n t' v
        | Some (NClass cd) =>
            match v with
            | PObj _ _ | PNamed _ _ | PDict _ _ =>
                match iteritems rt E v with
                | Ok kvs => forallb (item_valid (valid n) cd) kvs
                | _ => false end
            | _ => false end
        end
    | TNewType _ t' | TAlias _ t' | TFinal t' | TClassVar t' | TRefTo t' => valid n t' v
    end
  end.

(* ---- leaf laws (sampled against the implementation on every run) ---- *)
Variable lit_leaf : nat -> bool.            (* leaf s is a Literal type *)
Variable lit_member : nat -> pv -> bool.    (* v is one of its values *)

Record MarshalLaws : Prop := {
  (* the None object is a primitive atom *)
  law_none : exists a, none rt = PAtom a /\ prim_atom a = true;
  (* a robust leaf routine returns wire data whenever it returns (sampled on every recorded leaf call) *)
  law_robust : forall s x w, robust_leaf s = true -> leaf_m rt s x = Ok w -> is_wire w = true;
  (* a wire leaf routine returns wire data on valid inputs *)
  law_wire : forall s x w, wire_leaf s = true -> leaf_valid s x = true -> leaf_m rt s x = Ok w -> is_wire w = true;
  (* LiteralMarshaller: a value that is not a member is rejected with ValueError *)
  law_literal : forall s x, lit_leaf s = true -> lit_member s x = false -> leaf_m rt s x = Raise EValue
}.

(* ---- "freshly built" in a model without object identity ----
   built w : w is a tree of list / dict nodes constructed by the composite routines themselves, whose leaves
   are results of leaf routines, field-name strings, or the None object.  No composite routine ever returns its
   input or a part of it.  (Whether a LEAF routine returns a fresh object is the leaf's business; for wire leaves
   the result is an immutable primitive.)  Sharing by identity is observable only in the tie. *)
Inductive built : pv -> Prop :=
| b_leaf : forall s x w, leaf_m rt s x = Ok w -> built w
| b_none : forall x, is_none_val rt x = true -> built x
| b_key : forall f, built (PKey f)
| b_seq : forall l, Forall built l -> built (PSeq KList l)
| b_dict : forall l, Forall (fun kv => built (fst kv) /\ built (snd kv)) l -> built (PDict KDict l).

(* shape reading of freshness: no container kind of an input-only class survives *)
Fixpoint only_list_dict (v : pv) : bool :=
  match v with
  | PAtom _ | PKey _ => true
  | PSeq KList l => forallb only_list_dict l
  | PDict KDict l => forallb (fun kv : pv * pv => let (k, w) := kv in only_list_dict k && only_list_dict w) l
  | _ => false
  end.

End Wire.
