(* A small concrete runtime for the non-vacuity examples and the refutation witnesses of Props/C06.v.
   Definitions only.

   atoms  0 None   1 int 5   2 str '5'   3 Decimal('1.5')   4 str '1.5'   5 int 1   6 Decimal('1')   7 str '1'
   leaves 0 int (CastMarshaller)   1 Decimal (ToStringMarshaller)   2 Literal[1]   3 Any (NoOpMarshaller) *)
From Coq Require Import List Arith Bool PeanoNat.
Import ListNotations.
Require Import TL.Model.Core.
Require Import TL.Model.CoreC06.

Definition toy_prim (a : nat) : bool :=
  match a with 0 | 1 | 2 | 4 | 5 | 7 => true | _ => false end.

(* lit_eq = true: LiteralMarshaller as pinned (membership by ==, so Decimal('1') passes Literal[1] unchanged);
   lit_eq = false: membership by class and value *)
Definition toy_leaf_m (lit_eq : bool) (s : nat) (x : pv) : res pv :=
  match s, x with
  | 0, PAtom 1 => Ok (PAtom 1) | 0, PAtom 5 => Ok (PAtom 5) | 0, PAtom 3 => Ok (PAtom 5) | 0, PAtom 6 => Ok (PAtom 5)
  | 1, PAtom 3 => Ok (PAtom 4) | 1, PAtom 6 => Ok (PAtom 7) | 1, PAtom 1 => Ok (PAtom 2) | 1, PAtom 5 => Ok (PAtom 7)
  | 2, PAtom 5 => Ok (PAtom 5)
  | 2, PAtom 6 => if lit_eq then Ok (PAtom 6) else Raise EValue
  | 3, _ => Ok x
  | _, _ => Raise EValue
  end.

Definition toy_rt (lit_eq : bool) : runtime :=
  {| leaf_u := fun _ _ => Raise EValue;
     leaf_m := toy_leaf_m lit_eq;
     none_u := fun _ => Raise EValue;
     load_scalar := fun x => Ok x;
     values_scalar := fun _ => Raise EType; unpack_scalar := fun _ => Raise EType;
     items_scalar := fun _ => Raise EType;
     pairlike_scalar := fun _ => false;
     index := fun _ => PAtom 1;
     unhashable_class := fun _ => false;
     atom_eq := fun _ _ => false;
     none := PAtom 0;
     suppressed := fun _ => true |}.

Definition toy_robust (s : nat) : bool := Nat.ltb s 3.
Definition toy_valid (s : nat) (v : pv) : bool :=
  match s, v with
  | 0, PAtom 1 | 0, PAtom 5 | 1, PAtom 3 | 1, PAtom 6 | 2, PAtom 5 => true
  | 3, _ => true
  | _, _ => false
  end.
Definition toy_lit (s : nat) : bool := Nat.eqb s 2.
Definition toy_lit_member (s : nat) (v : pv) : bool := match v with PAtom 5 => true | _ => false end.

(* class 0: dataclass(a: Optional[Decimal] spelled None-first, b: list[int]) *)
Definition toy_E : env := fun c =>
  match c with
  | 0 => Some (NClass {| cflavour := FDataclass;
                         cfields := [ {| fname := 0; fty := TUnion [TNone; TLeaf 1]; fdefault := None |};
                                      {| fname := 1; fty := TSeq KList (TLeaf 0); fdefault := None |} ];
                         crequired := [] |})
  | _ => None
  end.
Definition toy_R (c : nat) : bool := Nat.eqb c 0.
Definition toy_T : ty := TTuple [TName 0; TMap KOrderedDict (TLeaf 1) (TUnion [TLeaf 2; TLeaf 1])].
Definition toy_v : pv :=
  PSeq KTuple [ PObj 0 [(0, PAtom 3); (1, PSeq KDeque [PAtom 1; PAtom 5])];
                PDict KOrderedDict [(PAtom 3, PAtom 6); (PAtom 6, PAtom 5)] ].
Definition toy_w : pv :=
  PSeq KList [ PDict KDict [(PKey 0, PAtom 4); (PKey 1, PSeq KList [PAtom 1; PAtom 5])];
               PDict KDict [(PAtom 4, PAtom 7); (PAtom 7, PAtom 5)] ].

(* the witnesses *)
Definition none_first_T : ty := TUnion [TNone; TLeaf 1].          (* Union[None, Decimal] *)
Definition none_first_seq_T : ty := TUnion [TNone; TSeq KList (TLeaf 0)].   (* Union[None, list[int]] *)
Definition lit_eq_T : ty := TUnion [TLeaf 2; TLeaf 1].            (* Union[Literal[1], Decimal] *)
Definition empty_E : env := fun _ => None.
