(* Dispatch bridge: the first-match dispatch of marshals/api.py and unmarshals/api.py
   (`_get_marshaller` / `_get_unmarshaller` over the ordered table `_HANDLERS`), interpreted by the
   Inspect model's predicates.  Definitions only.

   A handler key is `inspection.X` (PName "X") or `lambda t: inspection.A(t) and inspection.B(t)`
   (PAnd (PName "A") (PName "B")); the two tables are regenerated from /repo on every run
   (GenHandlers.v, harness/dispatchtie.py).  Routine classes are named by the name the table is
   written with; `impl_class` maps such a name to the class an instance of it has
   (`IntegerMarshaller = CastMarshaller[int]`: instances are CastMarshallers). *)
From Coq Require Import List NArith ZArith String Ascii Bool.
Import ListNotations.
Require Import TL.Model.Inspect.
Local Open Scope string_scope.

Inductive hpred := PName (n : string) | PAnd (p q : hpred).
Definition rclass := string.
Definition handlers := list (hpred * rclass).

(* the result of a dispatch: a class, an exception that escapes from a predicate, or (fail closed)
   a handler key that names no modelled predicate *)
Inductive dres (A : Type) := DOk (a : A) | DRaise (e : exn) | DUnknown (n : string).
Arguments DOk {A} a.
Arguments DRaise {A} e.
Arguments DUnknown {A} n.

(* public names of inspection.py -> the predicate of Model/Inspect.v *)
Definition pred_names : list (string * pred) :=
  [ ("isbuiltintype", P_isbuiltintype); ("isstdlibtype", P_isstdlibtype);
    ("isbuiltinsubtype", P_isbuiltinsubtype); ("isstdlibsubtype", P_isstdlibsubtype);
    ("isoptionaltype", P_isoptionaltype); ("isuniontype", P_isuniontype); ("isfinal", P_isfinal);
    ("isliteral", P_isliteral); ("isdatetype", P_isdatetype); ("isdatetimetype", P_isdatetimetype);
    ("istimetype", P_istimetype); ("istimedeltatype", P_istimedeltatype);
    ("isdecimaltype", P_isdecimaltype); ("isfractiontype", P_isfractiontype);
    ("isuuidtype", P_isuuidtype); ("isiterabletype", P_isiterabletype);
    ("isiteratortype", P_isiteratortype); ("istupletype", P_istupletype);
    ("issequencetype", P_issequencetype); ("iscollectiontype", P_iscollectiontype);
    ("issubscriptedcollectiontype", P_issubscriptedcollectiontype); ("ismappingtype", P_ismappingtype);
    ("isenumtype", P_isenumtype); ("isclassvartype", P_isclassvartype);
    ("should_unwrap", P_should_unwrap); ("isfromdictclass", P_isfromdictclass);
    ("isfrozendataclass", P_isfrozendataclass); ("istypeddict", P_istypeddict);
    ("istypedtuple", P_istypedtuple); ("isnamedtuple", P_isnamedtuple);
    ("isfixedtupletype", P_isfixedtupletype); ("isforwardref", P_isforwardref);
    ("isabstract", P_isabstract); ("istexttype", P_istexttype); ("isstringtype", P_isstringtype);
    ("isbytestype", P_isbytestype); ("isnumbertype", P_isnumbertype);
    ("isintegertype", P_isintegertype); ("isfloattype", P_isfloattype);
    ("isstructuredtype", P_isstructuredtype); ("isgeneric", P_isgeneric);
    ("issubscriptedgeneric", P_issubscriptedgeneric); ("iscallable", P_iscallable);
    ("isunresolvable", P_isunresolvable); ("isnonetype", P_isnonetype);
    ("ispatterntype", P_ispatterntype); ("ispathtype", P_ispathtype);
    ("istypealiastype", P_istypealiastype) ].
Fixpoint assoc_str {A} (k : string) (l : list (string * A)) : option A :=
  match l with [] => None | (k', v) :: r => if String.eqb k k' then Some v else assoc_str k r end.
Definition pred_of_name (n : string) : option pred := assoc_str n pred_names.

Section WithTables.
Variable T : tables.

Definition of_res {A} (r : res A) : dres A := match r with Ok a => DOk a | Raise e => DRaise e end.

(* check(node.unwrapped): a plain predicate, or `A(t) and B(t)` (B is not evaluated when A is false;
   whatever either raises escapes) *)
Fixpoint eval_hpred (h : hpred) (t : ity) : dres bool :=
  match h with
  | PName n => match pred_of_name n with Some p => of_res (run_pred T p t) | None => DUnknown n end
  | PAnd p q => match eval_hpred p t with DOk true => eval_hpred q t | r => r end
  end.

(* for check, cls in _HANDLERS.items(): if check(u): return cls(...)   --   return <fallback>(...) *)
Fixpoint first_match (hs : handlers) (fb : rclass) (u : ity) : dres rclass :=
  match hs with
  | [] => DOk fb
  | (h, c) :: r =>
      match eval_hpred h u with
      | DOk true => DOk c
      | DOk false => first_match r fb u
      | DRaise e => DRaise e
      | DUnknown n => DUnknown n
      end
  end.

(* the class _get_unmarshaller / _get_marshaller choose for a non-cyclic node that is not in the
   context yet: first match on node.unwrapped = inspection.unwrap(node.type) *)
Definition dispatch (hs : handlers) (fb : rclass) (t : ity) : dres rclass :=
  match unwrap T t with Ok u => first_match hs fb u | Raise e => DRaise e end.
(* the root node: graph.get_type_graph lets a bare type variable stand for its bound / constraints / Any *)
Definition dispatch_root (hs : handlers) (fb : rclass) (t : ity) : dres rclass :=
  dispatch hs fb (normalize_typevar t).

End WithTables.

(* written name -> class of the instances (reflected: typing.get_origin(cls) or cls) *)
Definition impl_class (m : list (string * string)) (c : rclass) : string :=
  match assoc_str c m with Some i => i | None => c end.
Definition impl_res (m : list (string * string)) (r : dres rclass) : dres string :=
  match r with DOk c => DOk (impl_class m c) | DRaise e => DRaise e | DUnknown n => DUnknown n end.

(* ------------------------------------------------------------------ what the rest of the development assumes *)
(* The head kinds: one per case of Build.construct (KSeq <-> RSeq, KMap <-> RMap, KTuple <-> RTuple,
   KUnion <-> RUnion, KStruct <-> RStruct, KDelayed <-> RDelayed, KNone <-> RNone) and one per leaf
   routine class (Scalars.v / C04: unm_number for int, float, Decimal, Fraction; unm_datetime before
   unm_date; ...).  KNoOp is the pass-through family (Any, object, Callable, type[...]); KBare* are
   containers without parameters; KIterator a parameterised iterator. *)
Inductive kind :=
| KDelayed | KNoOp | KNone | KLiteral | KUnion | KEnum
| KDateTime | KDate | KTime | KTimeDelta | KUUID | KPattern | KPath | KDecimal | KFraction
| KInt | KFloat | KStr | KBytes
| KStruct | KTuple | KMap | KIterator | KSeq | KBareMap | KBareIterator | KBareIter.

(* class of the routine instance, unmarshal side *)
Definition expected_u (k : kind) : string :=
  match k with
  | KDelayed => "DelayedUnmarshaller" | KNoOp => "NoOpUnmarshaller" | KNone => "NoneTypeUnmarshaller"
  | KLiteral => "LiteralUnmarshaller" | KUnion => "UnionUnmarshaller" | KEnum => "EnumUnmarshaller"
  | KDateTime => "DateTimeUnmarshaller" | KDate => "DateUnmarshaller" | KTime => "TimeUnmarshaller"
  | KTimeDelta => "TimeDeltaUnmarshaller" | KUUID => "UUIDUnmarshaller"
  | KPattern => "PatternUnmarshaller" | KPath => "PathUnmarshaller"
  | KDecimal | KFraction | KInt | KFloat => "NumberUnmarshaller"
  | KStr => "StringUnmarshaller" | KBytes => "BytesUnmarshaller"
  | KStruct => "StructuredTypeUnmarshaller" | KTuple => "FixedTupleUnmarshaller"
  | KMap => "SubscriptedMappingUnmarshaller" | KIterator => "SubscriptedIteratorUnmarshaller"
  | KSeq => "SubscriptedIterableUnmarshaller"
  | KBareMap | KBareIter => "CastUnmarshaller" | KBareIterator => "NoOpUnmarshaller"
  end.
(* class of the routine instance, marshal side *)
Definition expected_m (k : kind) : string :=
  match k with
  | KDelayed => "DelayedMarshaller" | KNoOp => "NoOpMarshaller" | KNone => "NoneTypeMarshaller"
  | KLiteral => "LiteralMarshaller" | KUnion => "UnionMarshaller" | KEnum => "EnumMarshaller"
  | KDateTime | KDate | KTime | KTimeDelta => "ToISOTimeMarshaller"
  | KUUID | KPath | KDecimal | KFraction | KStr => "ToStringMarshaller"
  | KPattern => "PatternMarshaller"
  | KInt | KFloat => "CastMarshaller"
  | KBytes => "NoOpMarshaller"
  | KStruct => "StructuredTypeMarshaller" | KTuple => "FixedTupleMarshaller"
  | KMap => "SubscriptedMappingMarshaller" | KIterator | KSeq => "SubscriptedIterableMarshaller"
  | KBareMap => "MappingMarshaller" | KBareIterator | KBareIter => "IterableMarshaller"
  end.
(* the two halves of one pair *)
Definition rcls_pairs (u m : string) : Prop := exists k, u = expected_u k /\ m = expected_m k.

(* the constructor of Build.routine a kind stands for (documentation of the correspondence; the leaf
   kinds are Build's RLeaf, whose runtime functions are the scalar routine classes) *)
Inductive bhead := BLeaf | BNone | BNoOp | BSeq | BMap | BTuple | BUnion | BStruct | BDelayed.
Definition build_head (k : kind) : bhead :=
  match k with
  | KDelayed => BDelayed | KNone => BNone | KUnion => BUnion | KStruct => BStruct | KTuple => BTuple
  | KMap => BMap | KSeq | KIterator => BSeq
  | _ => BLeaf
  end.

(* ------------------------------------------------------------------ the specification of the head kind *)
(* An independent, plain reading of "which routine is meant for this annotation": only issubclass facts of
   the class lattice and the attribute flags; no origin(), no string tests, nothing that can raise. *)
Section Spec.
Variable T : tables.

Definition is_unres_cls (c : cls) : bool := mem_ity (IClass c) (t_unresolvable T).
Definition mapping_like (c : cls) : bool := subclass_any T c (t_mapping_types T) || subclass T c c_Mapping.

(* scalar classes: the most specific meaning first (an Enum with a str mixin is an Enum; datetime is a date) *)
Definition scalar_kind (c : cls) : option kind :=
  if subclass T c c_Enum then Some KEnum
  else if subclass T c c_datetime then Some KDateTime
  else if subclass T c c_date then Some KDate
  else if subclass T c c_time then Some KTime
  else if subclass T c c_timedelta then Some KTimeDelta
  else if subclass T c c_UUID then Some KUUID
  else if subclass T c c_Pattern then Some KPattern
  else if subclass T c c_PurePath then Some KPath
  else if subclass T c c_Decimal then Some KDecimal
  else if subclass T c c_Fraction then Some KFraction
  else if subclass T c c_int then Some KInt
  else if subclass T c c_float then Some KFloat
  else if subclass T c c_str then Some KStr
  else if subclass_any T c [c_bytes; c_bytearray; c_memoryview] then Some KBytes
  else None.

(* a class object *)
Definition class_kind (c : cls) : kind :=
  if is_unres_cls c then KNoOp
  else if N.eqb c c_NoneType then KNone
  else match scalar_kind c with
       | Some k => k
       | None =>
         if (subclass T c c_dict && cflag T ci_total c)
            || (subclass T c c_tuple && (cflag T ci_annots c || cflag T ci_fields c)) then KStruct
         else if mapping_like c then KBareMap
         else if subclass T c c_Iterator then KBareIterator
         else if subclass T c c_Iterable then KBareIter
         else KStruct
       end.

(* a parameterised generic with origin class c; [fixed]: a tuple form that does not end in an Ellipsis *)
Definition tuple_fixed (l : list ity) : bool :=
  match l with [] => true | _ => negb (last_is_ellipsis (map normalize_typevar l)) end.
Definition sub_kind (c : cls) (l : list ity) : kind :=
  if is_unres_cls c then KNoOp
  else match scalar_kind c with
       | Some k => k
       | None =>
         if subclass T c c_tuple && tuple_fixed l then KTuple
         else if mapping_like c then KMap
         else if subclass T c c_Iterator then KIterator
         else if subclass T c c_Iterable then KSeq
         else KStruct
       end.

Definition kind_of (t : ity) : option kind :=
  match t with
  | IClass c => Some (class_kind c)
  | INone => Some KNone
  | ITyping a => if N.eqb a ta_Callable then Some KNoOp else Some (class_kind (ta_origin T a))
  | ITypingSub a l => Some (sub_kind (ta_origin T a) l)
  | IClassSub c l | IUserSub c l => Some (sub_kind c l)
  | IUnion _ _ => Some KUnion
  | ILiteral _ => Some KLiteral
  | IForwardRef _ _ => Some KDelayed
  | ICallable _ _ _ => Some KNoOp
  | _ => None
  end.
End Spec.
