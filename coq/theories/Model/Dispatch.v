(* Dispatch bridge: the first-match dispatch of marshals/api.py and unmarshals/api.py
   (`_get_marshaller` / `_get_unmarshaller` over the ordered table `_HANDLERS`), interpreted by the
   Inspect model's predicates.  Definitions only.

   A handler key is `inspection.X` (PName "X") or `lambda t: inspection.A(t) and inspection.B(t)`
   (PAnd (PName "A") (PName "B")); the two tables are regenerated from /repo on every run
   (GenHandlers.v, harness/dispatchtie.py).  Routine classes are named by the name the table is
   written with; `impl_class` maps such a name to the class an instance of it has
   (`IntegerMarshaller = CastMarshaller[int]`: instances are CastMarshallers). *)
From Coq Require Import List NArith ZArith String Ascii Bool.
Import ListNotations.
Require Import TL.Model.Inspect TL.Model.InspectSpec.
Local Open Scope string_scope.

Inductive hpred := PName (n : string) | PAnd (p q : hpred).
Definition rclass := string.
Definition handlers := list (hpred * rclass).

(* the result of a dispatch: a class, an exception that escapes from a predicate, or (fail closed)
   a handler key that names no modelled predicate *)
Inductive dres (A : Type) := DOk (a : A) | DRaise (e : exn) | DUnknown (n : string).
Arguments DOk {A} a.
Arguments DRaise {A} e.
Arguments DUnknown {A} n.

(* public names of inspection.py -> the predicate of Model/Inspect.v *)
Definition pred_names : list (string * pred) :=
  [ ("isbuiltintype", P_isbuiltintype); ("isstdlibtype", P_isstdlibtype);
    ("isbuiltinsubtype", P_isbuiltinsubtype); ("isstdlibsubtype", P_isstdlibsubtype);
    ("isoptionaltype", P_isoptionaltype); ("isuniontype", P_isuniontype); ("isfinal", P_isfinal);
    ("isliteral", P_isliteral); ("isdatetype", P_isdatetype); ("isdatetimetype", P_isdatetimetype);
    ("istimetype", P_istimetype); ("istimedeltatype", P_istimedeltatype);
    ("isdecimaltype", P_isdecimaltype); ("isfractiontype", P_isfractiontype);
    ("isuuidtype", P_isuuidtype); ("isiterabletype", P_isiterabletype);
    ("isiteratortype", P_isiteratortype); ("istupletype", P_istupletype);
    ("issequencetype", P_issequencetype); ("iscollectiontype", P_iscollectiontype);
    ("issubscriptedcollectiontype", P_issubscriptedcollectiontype); ("ismappingtype", P_ismappingtype);
    ("isenumtype", P_isenumtype); ("isclassvartype", P_isclassvartype);
    ("should_unwrap", P_should_unwrap); ("isfromdictclass", P_isfromdictclass);
    ("isfrozendataclass", P_isfrozendataclass); ("istypeddict", P_istypeddict);
    ("istypedtuple", P_istypedtuple); ("isnamedtuple", P_isnamedtuple);
    ("isfixedtupletype", P_isfixedtupletype); ("isforwardref", P_isforwardref);
    ("isabstract", P_isabstract); ("istexttype", P_istexttype); ("isstringtype", P_isstringtype);
    ("isbytestype", P_isbytestype); ("isnumbertype", P_isnumbertype);
    ("isintegertype", P_isintegertype); ("isfloattype", P_isfloattype);
    ("isstructuredtype", P_isstructuredtype); ("isgeneric", P_isgeneric);
    ("issubscriptedgeneric", P_issubscriptedgeneric); ("iscallable", P_iscallable);
    ("isunresolvable", P_isunresolvable); ("isnonetype", P_isnonetype);
    ("ispatterntype", P_ispatterntype); ("ispathtype", P_ispathtype);
    ("istypealiastype", P_istypealiastype) ].
Fixpoint assoc_str {A} (k : string) (l : list (string * A)) : option A :=
  match l with [] => None | (k', v) :: r => if String.eqb k k' then Some v else assoc_str k r end.
Definition pred_of_name (n : string) : option pred := assoc_str n pred_names.

Section WithTables.
Variable T : tables.

Definition of_res {A} (r : res A) : dres A := match r with Ok a => DOk a | Raise e => DRaise e end.

(* check(node.unwrapped): a plain predicate, or `A(t) and B(t)` (B is not evaluated when A is false;
   whatever either raises escapes) *)
Fixpoint eval_hpred (h : hpred) (t : ity) : dres bool :=
  match h with
  | PName n => match pred_of_name n with Some p => of_res (run_pred T p t) | None => DUnknown n end
  | PAnd p q => match eval_hpred p t with DOk true => eval_hpred q t | r => r end
  end.

(* for check, cls in _HANDLERS.items(): if check(u): return cls(...)   --   return <fallback>(...) *)
Fixpoint first_match (hs : handlers) (fb : rclass) (u : ity) : dres rclass :=
  match hs with
  | [] => DOk fb
  | (h, c) :: r =>
      match eval_hpred h u with
      | DOk true => DOk c
      | DOk false => first_match r fb u
      | DRaise e => DRaise e
      | DUnknown n => DUnknown n
      end
  end.

(* the class _get_unmarshaller / _get_marshaller choose for a non-cyclic node that is not in the
   context yet: first match on node.unwrapped = inspection.unwrap(node.type) *)
Definition dispatch (hs : handlers) (fb : rclass) (t : ity) : dres rclass :=
  match unwrap T t with Ok u => first_match hs fb u | Raise e => DRaise e end.
(* the root node: graph.get_type_graph lets a bare type variable stand for its bound / constraints / Any *)
Definition dispatch_root (hs : handlers) (fb : rclass) (t : ity) : dres rclass :=
  dispatch hs fb (normalize_typevar t).

End WithTables.

(* written name -> class of the instances (reflected: typing.get_origin(cls) or cls) *)
Definition impl_class (m : list (string * string)) (c : rclass) : string :=
  match assoc_str c m with Some i => i | None => c end.
Definition impl_res (m : list (string * string)) (r : dres rclass) : dres string :=
  match r with DOk c => DOk (impl_class m c) | DRaise e => DRaise e | DUnknown n => DUnknown n end.

(* ------------------------------------------------------------------ what the rest of the development assumes *)
(* The head kinds: one per case of Build.construct (KSeq <-> RSeq, KMap <-> RMap, KTuple <-> RTuple,
   KUnion <-> RUnion, KStruct <-> RStruct, KDelayed <-> RDelayed, KNone <-> RNone) and one per leaf
   routine class (Scalars.v / C04: unm_number for int, float, Decimal, Fraction; unm_datetime before
   unm_date; ...).  KNoOp is the pass-through family (Any, object, Callable, type[...]); KBare* are
   containers without parameters; KIterator a parameterised iterator. *)
Inductive kind :=
| KDelayed | KNoOp | KNone | KLiteral | KUnion | KEnum
| KDateTime | KDate | KTime | KTimeDelta | KUUID | KPattern | KPath | KDecimal | KFraction
| KInt | KFloat | KStr | KBytes
| KStruct | KTuple | KMap | KIterator | KSeq | KBareMap | KBareIterator | KBareIter.

(* class of the routine instance, unmarshal side *)
Definition expected_u (k : kind) : string :=
  match k with
  | KDelayed => "DelayedUnmarshaller" | KNoOp => "NoOpUnmarshaller" | KNone => "NoneTypeUnmarshaller"
  | KLiteral => "LiteralUnmarshaller" | KUnion => "UnionUnmarshaller" | KEnum => "EnumUnmarshaller"
  | KDateTime => "DateTimeUnmarshaller" | KDate => "DateUnmarshaller" | KTime => "TimeUnmarshaller"
  | KTimeDelta => "TimeDeltaUnmarshaller" | KUUID => "UUIDUnmarshaller"
  | KPattern => "PatternUnmarshaller" | KPath => "PathUnmarshaller"
  | KDecimal | KFraction | KInt | KFloat => "NumberUnmarshaller"
  | KStr => "StringUnmarshaller" | KBytes => "BytesUnmarshaller"
  | KStruct => "StructuredTypeUnmarshaller" | KTuple => "FixedTupleUnmarshaller"
  | KMap => "SubscriptedMappingUnmarshaller" | KIterator => "SubscriptedIteratorUnmarshaller"
  | KSeq => "SubscriptedIterableUnmarshaller"
  | KBareMap | KBareIter => "CastUnmarshaller" | KBareIterator => "NoOpUnmarshaller"
  end.
(* class of the routine instance, marshal side *)
Definition expected_m (k : kind) : string :=
  match k with
  | KDelayed => "DelayedMarshaller" | KNoOp => "NoOpMarshaller" | KNone => "NoneTypeMarshaller"
  | KLiteral => "LiteralMarshaller" | KUnion => "UnionMarshaller" | KEnum => "EnumMarshaller"
  | KDateTime | KDate | KTime | KTimeDelta => "ToISOTimeMarshaller"
  | KUUID | KPath | KDecimal | KFraction | KStr => "ToStringMarshaller"
  | KPattern => "PatternMarshaller"
  | KInt | KFloat => "CastMarshaller"
  | KBytes => "NoOpMarshaller"
  | KStruct => "StructuredTypeMarshaller" | KTuple => "FixedTupleMarshaller"
  | KMap => "SubscriptedMappingMarshaller" | KIterator | KSeq => "SubscriptedIterableMarshaller"
  | KBareMap => "MappingMarshaller" | KBareIterator | KBareIter => "IterableMarshaller"
  end.
(* the two halves of one pair *)
Definition rcls_pairs (u m : string) : Prop := exists k, u = expected_u k /\ m = expected_m k.

(* the constructor of Build.routine a kind stands for (documentation of the correspondence; the leaf
   kinds are Build's RLeaf, whose runtime functions are the scalar routine classes) *)
Inductive bhead := BLeaf | BNone | BNoOp | BSeq | BMap | BTuple | BUnion | BStruct | BDelayed.
Definition build_head (k : kind) : bhead :=
  match k with
  | KDelayed => BDelayed | KNone => BNone | KUnion => BUnion | KStruct => BStruct | KTuple => BTuple
  | KMap => BMap | KSeq | KIterator => BSeq
  | _ => BLeaf
  end.

(* ------------------------------------------------------------------ the specification of the head kind *)
(* An independent, plain reading of "which routine is meant for this annotation": only issubclass facts of
   the class lattice and the attribute flags; no origin(), no string tests, nothing that can raise. *)
Section Spec.
Variable T : tables.

Definition is_unres_cls (c : cls) : bool := mem_ity (IClass c) (t_unresolvable T).
Definition mapping_like (c : cls) : bool := subclass_any T c (t_mapping_types T) || subclass T c c_Mapping.

(* scalar classes: the most specific meaning first (an Enum with a str mixin is an Enum; datetime is a date) *)
Definition scalar_kind (c : cls) : option kind :=
  if subclass T c c_Enum then Some KEnum
  else if subclass T c c_datetime then Some KDateTime
  else if subclass T c c_date then Some KDate
  else if subclass T c c_time then Some KTime
  else if subclass T c c_timedelta then Some KTimeDelta
  else if subclass T c c_UUID then Some KUUID
  else if subclass T c c_Pattern then Some KPattern
  else if subclass T c c_PurePath then Some KPath
  else if subclass T c c_Decimal then Some KDecimal
  else if subclass T c c_Fraction then Some KFraction
  else if subclass T c c_int then Some KInt
  else if subclass T c c_float then Some KFloat
  else if subclass T c c_str then Some KStr
  else if subclass_any T c [c_bytes; c_bytearray; c_memoryview] then Some KBytes
  else None.

(* a class object *)
Definition class_kind (c : cls) : kind :=
  if is_unres_cls c then KNoOp
  else if N.eqb c c_NoneType then KNone
  else match scalar_kind c with
       | Some k => k
       | None =>
         if (subclass T c c_dict && cflag T ci_total c)
            || (subclass T c c_tuple && (cflag T ci_annots c || cflag T ci_fields c)) then KStruct
         else if mapping_like c then KBareMap
         else if subclass T c c_Iterator then KBareIterator
         else if subclass T c c_Iterable then KBareIter
         else KStruct
       end.

(* a parameterised generic with origin class c; [fixed]: a tuple form that does not end in an Ellipsis *)
Definition tuple_fixed (l : list ity) : bool :=
  match l with [] => true | _ => negb (last_is_ellipsis (map normalize_typevar l)) end.
Definition sub_kind (c : cls) (l : list ity) : kind :=
  if is_unres_cls c then KNoOp
  else match scalar_kind c with
       | Some k => k
       | None =>
         if subclass T c c_tuple && tuple_fixed l then KTuple
         else if mapping_like c then KMap
         else if subclass T c c_Iterator then KIterator
         else if subclass T c c_Iterable then KSeq
         else KStruct
       end.

Definition kind_of (t : ity) : option kind :=
  match t with
  | IClass c => Some (class_kind c)
  | INone => Some KNone
  | ITyping a => Some (class_kind (ta_origin T a))
  | ITypingSub a l => Some (sub_kind (ta_origin T a) l)
  | IClassSub c l | IUserSub c l => Some (sub_kind c l)
  | IUnion _ _ => Some KUnion
  | ILiteral _ => Some KLiteral
  | IForwardRef _ _ => Some KDelayed
  | ICallable _ _ _ => Some KNoOp
  | _ => None
  end.
End Spec.

(* ------------------------------------------------------------------ canonical representatives *)
(* The dispatch of a parameterised annotation depends on its parameters only through: are there any,
   and is the last one (after type variables are normalised) the Ellipsis.  [canon] maps every
   annotation to a representative with the same head and the same two facts; over a finite class
   universe the representatives are finitely many ([reps]), so a statement about ALL annotations
   reduces to a computation on the reflected tables ([all_reps_ok]). *)
Definition canon_args (l : list ity) : list ity :=
  match map normalize_typevar l with
  | [] => []
  | x :: r => if last_is_ellipsis (x :: r) then [IEllipsis] else [INone]
  end.
Definition canon (t : ity) : ity :=
  match t with
  | ITypingSub a l => ITypingSub a (canon_args l)
  | IClassSub c l => IClassSub c (canon_args l)
  | IUserSub c l => IUserSub c (canon_args l)
  | IUnion sp _ => IUnion sp []
  | ILiteral _ => ILiteral []
  | IForwardRef _ _ => IForwardRef "" None
  | ICallable b _ _ => ICallable b None INone
  | _ => t
  end.

(* predicates whose answer on t is the answer on canon t (proved: DispatchLemmas.canon_sound) *)
Definition is_family (p : pred) : bool :=
  match origin_family_bases p, origin_family_tp p, raw_family_bases p with
  | None, None, None =>
      match p with
      | P_istupletype | P_issequencetype | P_iscollectiontype | P_ismappingtype => true
      | _ => false
      end
  | _, _, _ => true
  end.
Definition head_only (p : pred) : bool :=
  is_family p ||
  match p with
  | P_isforwardref | P_isunresolvable | P_isnonetype | P_isliteral | P_isuniontype | P_isfinal
  | P_isclassvartype | P_istypeddict | P_istypedtuple | P_isnamedtuple | P_istypealiastype
  | P_isfromdictclass | P_isfrozendataclass => true
  | _ => false
  end.
Definition vocab (t : ity) (p : pred) : bool :=
  match t with
  | ITypingSub _ _ | IClassSub _ _ | IUserSub _ _ =>
      head_only p || match p with P_isfixedtupletype | P_issubscriptedgeneric => true | _ => false end
  | IUnion _ _ | ILiteral _ => head_only p
  | IForwardRef _ _ =>
      match p with P_isforwardref | P_isnonetype | P_isclassvartype | P_isfinal | P_istypealiastype => true | _ => false end
  | ICallable _ _ _ =>
      match p with
      | P_isforwardref | P_isnonetype | P_isunresolvable | P_isclassvartype | P_isfinal | P_istypealiastype => true
      | _ => false
      end
  | _ => true
  end.

Fixpoint hpred_in (v : pred -> bool) (h : hpred) : bool :=
  match h with
  | PName n => match pred_of_name n with Some p => v p | None => false end
  | PAnd p q => hpred_in v p && hpred_in v q
  end.

Section Guarded.
Variable T : tables.
(* first_match that gives up (DUnknown) when it would have to evaluate a key outside v *)
Fixpoint gmatch (v : pred -> bool) (hs : handlers) (fb : rclass) (u : ity) : dres rclass :=
  match hs with
  | [] => DOk fb
  | (h, c) :: r =>
      if hpred_in v h then
        match eval_hpred T h u with
        | DOk true => DOk c
        | DOk false => gmatch v r fb u
        | DRaise e => DRaise e
        | DUnknown n => DUnknown n
        end
      else DUnknown "outside the head-only vocabulary"
  end.

(* the tables mention only atoms where the proofs need it: no parameterised form is a key of
   GENERIC_TYPE_MAP or a member of _UNRESOLVABLE *)
Definition is_atom (t : ity) : bool :=
  match t with IClass _ | INone | IEllipsis | ISpecial _ | ITyping _ => true | _ => false end.
Definition atoms_ok : bool :=
  forallb is_atom (t_unresolvable T) && forallb (fun kv => is_atom (fst kv)) (t_generic_map T).

Definition arg_reps : list (list ity) := [[]; [IEllipsis]; [INone]].
Definition reps : list ity :=
  [INone; IForwardRef "" None; ILiteral []; ICallable true None INone; ICallable false None INone;
   IUnion UUnion []; IUnion UOptional []; IUnion UPipe []]
  ++ flat_map (fun ci => IClass (fst ci)
                 :: flat_map (fun a => [IClassSub (fst ci) a; IUserSub (fst ci) a]) arg_reps) (t_cls T)
  ++ flat_map (fun al => ITyping (fst al) :: map (ITypingSub (fst al)) arg_reps) (t_talias T).
End Guarded.

(* the constructors unwrap() peels without looking at qualifiers *)
Definition is_wrapper (t : ity) : bool :=
  match t with IAlias _ _ | IAliasStr _ _ | INewType _ _ => true | _ => false end.

Definition dres_eqb (a : dres string) (b : string) : bool :=
  match a with DOk s => String.eqb s b | _ => false end.

(* ------------------------------------------------------------------ both tables of one run, and the finite check *)
Record dtables := {
  d_tbl : tables;
  d_unm : handlers; d_unm_fb : rclass;
  d_mar : handlers; d_mar_fb : rclass;
  d_impl : list (string * string)
}.

Section Check.
Variable D : dtables.

(* class of the instance the first match builds, both directions *)
Definition first_u (u : ity) : dres string := impl_res (d_impl D) (first_match (d_tbl D) (d_unm D) (d_unm_fb D) u).
Definition first_m (u : ity) : dres string := impl_res (d_impl D) (first_match (d_tbl D) (d_mar D) (d_mar_fb D) u).
Definition disp_u (t : ity) : dres string := impl_res (d_impl D) (dispatch (d_tbl D) (d_unm D) (d_unm_fb D) t).
Definition disp_m (t : ity) : dres string := impl_res (d_impl D) (dispatch (d_tbl D) (d_mar D) (d_mar_fb D) t).
Definition gm_u (u : ity) : dres string :=
  impl_res (d_impl D) (gmatch (d_tbl D) (vocab u) (d_unm D) (d_unm_fb D) u).
Definition gm_m (u : ity) : dres string :=
  impl_res (d_impl D) (gmatch (d_tbl D) (vocab u) (d_mar D) (d_mar_fb D) u).

(* Guards on the head class (each shown necessary by a refutation in dyn/Dispatch/Dispatch.v):
   - the class is in the reflected lattice;
   - a numbers.Number that is none of int / float / Decimal / Fraction (complex, the abstract tower) has a
     number routine on one side and the structured fallback on the other;
   - the class types.UnionType itself is taken for a union;
   - GENERIC_TYPE_MAP sends the class to one of another container kind (Hashable -> str: an iterable). *)
Definition map_neutral (c : cls) : bool :=
  let T := d_tbl D in let d := doc_map T c in
  Bool.eqb (mapping_like T d) (mapping_like T c)
  && Bool.eqb (subclass T d c_Iterator) (subclass T c c_Iterator)
  && Bool.eqb (subclass T d c_Iterable) (subclass T c c_Iterable)
  && Bool.eqb (subclass T d c_tuple) (subclass T c c_tuple).
Definition cls_guard (c : cls) : bool :=
  let T := d_tbl D in
  match cinfo T c with Some _ => true | None => false end
  && (negb (subclass T c c_Number) || match scalar_kind T c with Some _ => true | None => false end)
  && negb (N.eqb (doc_map T c) c_UnionType)
  && map_neutral c.
Definition alias_known (a : N) : bool :=
  match assocN a (t_talias (d_tbl D)) with Some _ => true | None => false end.

(* the supported heads (an UNWRAPPED annotation: what node.unwrapped is) *)
Definition supported_head (u : ity) : bool :=
  match u with
  | IClass c | IClassSub c _ | IUserSub c _ => cls_guard c
  | ITyping a | ITypingSub a _ => alias_known a && cls_guard (ta_origin (d_tbl D) a)
  | INone | IUnion _ _ | ILiteral _ | IForwardRef _ _ | ICallable _ _ _ => true
  | _ => false
  end.

Definition rep_ok (u : ity) : bool :=
  implb (supported_head u)
    (match kind_of (d_tbl D) u with
     | Some k => dres_eqb (gm_u u) (expected_u k) && dres_eqb (gm_m u) (expected_m k)
     | None => false
     end
     && negb (isfinal (d_tbl D) u) && negb (isclassvartype u)).
Definition all_reps_ok : bool := forallb rep_ok (reps (d_tbl D)).
End Check.

(* ------------------------------------------------------------------ row surgery (order-sensitivity witnesses) *)
Fixpoint hpred_eqb (a b : hpred) : bool :=
  match a, b with
  | PName x, PName y => String.eqb x y
  | PAnd p q, PAnd p' q' => hpred_eqb p p' && hpred_eqb q q'
  | _, _ => false
  end.
Fixpoint take_row (k : hpred) (hs : handlers) : option ((hpred * rclass) * handlers) :=
  match hs with
  | [] => None
  | (h, c) :: r =>
      if hpred_eqb h k then Some ((h, c), r)
      else match take_row k r with Some (x, r') => Some (x, (h, c) :: r') | None => None end
  end.
Fixpoint insert_before (k : hpred) (x : hpred * rclass) (hs : handlers) : handlers :=
  match hs with
  | [] => [x]
  | (h, c) :: r => if hpred_eqb h k then x :: (h, c) :: r else (h, c) :: insert_before k x r
  end.
Fixpoint insert_after (k : hpred) (x : hpred * rclass) (hs : handlers) : handlers :=
  match hs with
  | [] => [x]
  | (h, c) :: r => if hpred_eqb h k then (h, c) :: x :: r else (h, c) :: insert_after k x r
  end.
(* the table with the row keyed [a] moved immediately before / after the row keyed [b] *)
Definition move_before (a b : hpred) (hs : handlers) : handlers :=
  match take_row a hs with Some (x, r) => insert_before b x r | None => hs end.
Definition move_after (a b : hpred) (hs : handlers) : handlers :=
  match take_row a hs with Some (x, r) => insert_after b x r | None => hs end.
Definition with_unm (D : dtables) (hs : handlers) : dtables :=
  Build_dtables (d_tbl D) hs (d_unm_fb D) (d_mar D) (d_mar_fb D) (d_impl D).
Definition with_mar (D : dtables) (hs : handlers) : dtables :=
  Build_dtables (d_tbl D) (d_unm D) (d_unm_fb D) hs (d_mar_fb D) (d_impl D).

(* ------------------------------------------------------------------ wrapped annotations *)
(* what unwrap() is meant to return: qualifiers, NewTypes and aliases peeled; an alias of a string is the
   forward reference to it *)
Fixpoint peel (t : ity) : ity :=
  match t with
  | INewType _ s | IAlias _ s | IFinal s | IClassVar s => peel s
  | IAliasStr _ s => IForwardRef (fref_name user_module s) (Some user_module)
  | _ => t
  end.
Fixpoint wdepth (t : ity) : nat :=
  match t with INewType _ s | IAlias _ s | IFinal s | IClassVar s => S (wdepth s) | _ => 1 end.
(* NewTypes and aliases only *)
Fixpoint plain (t : ity) : bool :=
  match t with INewType _ s | IAlias _ s => plain s | IFinal _ | IClassVar _ => false | _ => true end.
(* qualifiers outside, NewTypes / aliases inside (a NewType of a qualified type is not a type) *)
Fixpoint wrap_ok (t : ity) : bool :=
  match t with INewType _ _ | IAlias _ _ => plain t | IFinal s | IClassVar s => wrap_ok s | _ => true end.
(* the reflected tables leave typing.Final alone (origin() of Final[X] is typing.Final) *)
Definition wrap_tables_ok (T : tables) : bool := ity_eqb (origin T (IFinal INone)) (ISpecial SFinal).

(* ------------------------------------------------------------------ whole annotations *)
(* member positions of an unwrapped annotation (graph._level: the parameters, type variables normalised, the
   Ellipsis of a variadic tuple skipped) *)
Definition params (u : ity) : list ity :=
  match u with ITypingSub _ l | IClassSub _ l | IUserSub _ l | IUnion _ l => l | _ => [] end.
Definition is_ellipsis (t : ity) : bool := match t with IEllipsis => true | _ => false end.
Definition is_typevar (t : ity) : bool := match t with ITypeVar _ _ _ => true | _ => false end.

Section Whole.
Variable D : dtables.
(* every sub-annotation, at any depth: well wrapped, not deeper than the fuel of the unwrap model, and with a
   supported head once unwrapped *)
Fixpoint supported (t : ity) : bool :=
  match t with
  | INewType _ s | IAlias _ s | IFinal s | IClassVar s =>
      wrap_ok t && Nat.leb (wdepth t) 200 && supported_head D (peel t) && supported s
  | IAliasStr _ _ => true
  | ITypingSub _ l | IClassSub _ l | IUserSub _ l | IUnion _ l =>
      supported_head D t && forallb (fun x => is_ellipsis x || supported x) l
  | ITypeVar _ (Some b) _ => negb (is_typevar b) && supported b
  | ITypeVar _ None [] => supported_head D (IClass c_Any)
  | ITypeVar _ None cs => forallb (fun x => is_ellipsis x || supported x) cs
  | _ => supported_head D t
  end.
End Whole.

(* s is a member of t: a parameter of the unwrapped t that is not the Ellipsis, type variable normalised *)
Inductive member : ity -> ity -> Prop :=
| member_intro t x : In x (params (peel t)) -> is_ellipsis x = false -> member (normalize_typevar x) t.
(* s occurs in t at some depth *)
Inductive occurs : ity -> ity -> Prop :=
| occurs_here t : occurs t t
| occurs_in s m t : member m t -> occurs s m -> occurs s t.
