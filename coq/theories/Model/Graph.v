(* Model of src/typelib/graph.py (get_type_graph, _level, TypeNode, static_order) together with the
   parts of py/inspection.py (unwrap, args, get_type_hints, issubscriptedgeneric, isstdlibtype,
   isstructuredtype, qualname) and py/refs.py (forwardref) it calls, over an annotation type [gty].
   Definitions only; proofs live in Proofs/GraphLemmas.v.

   The model mirrors the code WITH the proposed repair of proposed_fixes/C09-root-unwrapped-visited.diff:
     - the visited set and the root's path are seeded with the root's type AND its unwrapped form.
   A revisited class nested in a class is referred to by its qualified name inside its own module. *)
From Coq Require Import List Arith Bool PeanoNat String Ascii.
Import ListNotations.
Local Open Scope string_scope.
Local Open Scope list_scope.

(* ------------------------------------------------------------------------------------------- *)
(* strings (Python str); only what qualname/forwardref do with them                             *)
(* ------------------------------------------------------------------------------------------- *)
Definition str := string.
Definition sapp (a b : str) : str := String.append a b.
Infix "+++" := sapp (right associativity, at level 60).

Definition dot : ascii := "."%char.
Definition lbr : ascii := "["%char.

Fixpoint has_char (c : ascii) (s : str) : bool :=
  match s with EmptyString => false | String d r => Ascii.eqb c d || has_char c r end.

(* s.split(c, maxsplit=1): None when c does not occur *)
Fixpoint split_first (c : ascii) (s : str) : option (str * str) :=
  match s with
  | EmptyString => None
  | String d r =>
      if Ascii.eqb c d then Some (EmptyString, r)
      else match split_first c r with Some (a, b) => Some (String d a, b) | None => None end
  end.

(* s.split(c, maxsplit=1)[0] *)
Definition before_char (c : ascii) (s : str) : str :=
  match split_first c s with Some (a, _) => a | None => s end.

Fixpoint strip_prefix (p s : str) : option str :=
  match p, s with
  | EmptyString, _ => Some s
  | String a p', String b s' => if Ascii.eqb a b then strip_prefix p' s' else None
  | _, _ => None
  end.

(* PINNED: s.replace(p, "") for non-empty p (left to right, non-overlapping) -- refs.forwardref BEFORE /repo 31a6d65;
   kept only for the witness that the old text function differs (Props/C09.v) *)
Fixpoint remove_all_pinned_fuel (fuel : nat) (p s : str) : str :=
  match fuel with
  | 0 => s
  | S f =>
      match s with
      | EmptyString => EmptyString
      | String c r =>
          match strip_prefix p s with
          | Some rest => remove_all_pinned_fuel f p rest
          | None => String c (remove_all_pinned_fuel f p r)
          end
      end
  end.
Definition remove_all_pinned (p s : str) : str :=
  match p with EmptyString => s | _ => remove_all_pinned_fuel (S (String.length s)) p s end.

(* re.sub(rf"(?<![\w.]){re.escape(p)}", "", s) for a non-empty p (refs.forwardref since /repo 31a6d65, p = module + "."):
   an occurrence of p is dropped only where it LEADS a dotted name -- the character before it in the ORIGINAL text is
   neither a word character nor "."; occurrences are taken left to right, non-overlapping.  [ok]: the lookbehind
   holds at the current position; fuel = length of s + 1.  (Bytes >= 128 count as word characters: the UTF-8
   bytes of non-ASCII letters; generated names are ASCII.) *)
Definition word_char (c : ascii) : bool :=
  let n := nat_of_ascii c in
  (Nat.leb 48 n && Nat.leb n 57) || (Nat.leb 65 n && Nat.leb n 90) || (Nat.leb 97 n && Nat.leb n 122)
  || Nat.eqb n 95 || Nat.leb 128 n.
Definition lead_stop (c : ascii) : bool := word_char c || Ascii.eqb c "."%char.
Fixpoint last_lead_ok (p : str) : bool :=
  match p with
  | EmptyString => true
  | String c EmptyString => negb (lead_stop c)
  | String _ r => last_lead_ok r
  end.
Fixpoint remove_lead_fuel (fuel : nat) (ok : bool) (p s : str) : str :=
  match fuel with
  | O => s
  | S f =>
      match s with
      | EmptyString => EmptyString
      | String c r =>
          match (if ok then strip_prefix p s else None) with
          | Some rest => remove_lead_fuel f (last_lead_ok p) p rest
          | None => String c (remove_lead_fuel f (negb (lead_stop c)) p r)
          end
      end
  end.
Definition remove_lead (p s : str) : str :=
  match p with EmptyString => s | _ => remove_lead_fuel (S (String.length s)) true p s end.

Fixpoint join (sep : str) (l : list str) : str :=
  match l with
  | [] => EmptyString
  | [x] => x
  | x :: r => x +++ sep +++ join sep r
  end.

Definition digit (n : nat) : str :=
  match n with
  | 0 => "0" | 1 => "1" | 2 => "2" | 3 => "3" | 4 => "4" | 5 => "5" | 6 => "6" | 7 => "7" | 8 => "8" | _ => "9"
  end%string.
(* decimal text of n < 100 (tuple arities and literal values are small) *)
Definition show_nat (n : nat) : str :=
  if Nat.ltb n 10 then digit n else digit (n / 10) +++ digit (n mod 10).

(* ------------------------------------------------------------------------------------------- *)
(* annotations                                                                                  *)
(* ------------------------------------------------------------------------------------------- *)
Definition cname := nat.

(* leaf classes: module, qualified name, membership in inspection.STDLIB_TYPES *)
Inductive scalar := SInt | SStr | SFloat | SBool | SBytes | SDecimal | SDatetime | SDate | SUuid
                  | SFraction | SPurePath | SEnum.
Definition scalar_eqb (a b : scalar) : bool :=
  match a, b with
  | SInt, SInt | SStr, SStr | SFloat, SFloat | SBool, SBool | SBytes, SBytes | SDecimal, SDecimal
  | SDatetime, SDatetime | SDate, SDate | SUuid, SUuid | SFraction, SFraction | SPurePath, SPurePath
  | SEnum, SEnum => true
  | _, _ => false
  end.
Definition scalar_module (s : scalar) : str :=
  match s with
  | SInt | SStr | SFloat | SBool | SBytes => "builtins"
  | SDecimal => "decimal" | SDatetime | SDate => "datetime" | SUuid => "uuid"
  | SFraction => "fractions" | SPurePath => "pathlib" | SEnum => "verif_c09_enum"
  end%string.
Definition scalar_name (s : scalar) : str :=
  match s with
  | SInt => "int" | SStr => "str" | SFloat => "float" | SBool => "bool" | SBytes => "bytes"
  | SDecimal => "Decimal" | SDatetime => "datetime" | SDate => "date" | SUuid => "UUID"
  | SFraction => "Fraction" | SPurePath => "PurePath" | SEnum => "Color"
  end%string.
Definition scalar_stdlib (s : scalar) : bool :=
  match s with SFraction | SPurePath | SEnum => false | _ => true end.

(* generic origins, in the spelling that str() prints *)
Inductive gen := GList | GSet | GFrozenset | GDict | GTuple | GDeque | GTList | GTDict | GTSequence.
Definition gen_eqb (a b : gen) : bool :=
  match a, b with
  | GList, GList | GSet, GSet | GFrozenset, GFrozenset | GDict, GDict | GTuple, GTuple | GDeque, GDeque
  | GTList, GTList | GTDict, GTDict | GTSequence, GTSequence => true
  | _, _ => false
  end.
Definition gen_name (g : gen) : str :=
  match g with
  | GList => "list" | GSet => "set" | GFrozenset => "frozenset" | GDict => "dict" | GTuple => "tuple"
  | GDeque => "collections.deque" | GTList => "typing.List" | GTDict => "typing.Dict"
  | GTSequence => "typing.Sequence"
  end%string.
(* the __module__ attribute of the subscripted alias object *)
Definition gen_module (g : gen) : str :=
  match g with
  | GList | GSet | GFrozenset | GDict | GTuple => "builtins"
  | GDeque => "collections"
  | GTList | GTDict | GTSequence => "typing"
  end%string.
Definition gen_is_tuple (g : gen) : bool := match g with GTuple => true | _ => false end.

(* union spellings: typing.Optional[X] (members [X; None]), typing.Union[...], PEP 604 A | B *)
Inductive uspell := UOptional | UUnion | UPipe.
Definition uspell_eqb (a b : uspell) : bool :=
  match a, b with UOptional, UOptional | UUnion, UUnion | UPipe, UPipe => true | _, _ => false end.

Inductive gty :=
| GScalar (s : scalar)
| GNone                                   (* the class NoneType *)
| GEllipsis                               (* the object ... inside tuple[X, ...] *)
| GAny
| GLit (n : nat)                          (* typing.Literal[n] *)
| GGen (g : gen) (args : list gty)        (* list[X], dict[K, V], tuple[A, B], tuple[X, ...] *)
| GUnion (sp : uspell) (ms : list gty)    (* members as typing stores them in __args__ *)
| GClass (c : cname)                      (* structured class, described by the environment *)
| GNewType (m n : str) (t : gty)          (* typing.NewType(n, t) created in module m *)
| GAlias (m n : str) (t : gty)            (* TypeAliasType(n, t) *)
| GAliasStr (m n : str) (body : str)      (* TypeAliasType(n, "body") *)
| GFinal (t : gty)
| GRef (arg : str) (module : option str). (* typing.ForwardRef(arg, module=module) *)

Record classdef := { cmodule : str; cqual : str; cfields : list (str * gty) }.
Definition env := cname -> option classdef.
Fixpoint env_of (l : list (cname * classdef)) : env :=
  fun c => match l with [] => None | (k, d) :: r => if Nat.eqb k c then Some d else env_of r c end.

Definition ostr_eqb (a b : option str) : bool :=
  match a, b with Some x, Some y => String.eqb x y | None, None => true | _, _ => false end.

(* Python == on annotation objects, for cases that keep one spelling per ==-class (so that
   Optional[X] and X | None of the same X never meet): structural equality. *)
Fixpoint gty_eqb (a b : gty) : bool :=
  let fix go (x y : list gty) : bool :=
    match x, y with
    | [], [] => true
    | u :: x', v :: y' => gty_eqb u v && go x' y'
    | _, _ => false
    end in
  match a, b with
  | GScalar s, GScalar t => scalar_eqb s t
  | GNone, GNone | GEllipsis, GEllipsis | GAny, GAny => true
  | GLit n, GLit m => Nat.eqb n m
  | GGen g x, GGen h y => gen_eqb g h && go x y
  | GUnion s x, GUnion t y => uspell_eqb s t && go x y
  | GClass c, GClass d => Nat.eqb c d
  | GNewType m n t, GNewType m' n' t' => String.eqb m m' && String.eqb n n' && gty_eqb t t'
  | GAlias m n t, GAlias m' n' t' => String.eqb m m' && String.eqb n n' && gty_eqb t t'
  | GAliasStr m n s, GAliasStr m' n' s' => String.eqb m m' && String.eqb n n' && String.eqb s s'
  | GFinal t, GFinal t' => gty_eqb t t'
  | GRef s m, GRef s' m' => String.eqb s s' && ostr_eqb m m'
  | _, _ => false
  end.

Definition mem (t : gty) (v : list gty) : bool := existsb (gty_eqb t) v.

(* ------------------------------------------------------------------------------------------- *)
(* inspection                                                                                   *)
(* ------------------------------------------------------------------------------------------- *)

(* inspection.unwrap: Final -> its argument; alias -> its value, a string value gives
   forwardref(value, module=alias.__module__) at once; NewType -> supertype.
   refs.forwardref strips every "module." from the text. *)
Fixpoint unwrap (t : gty) : gty :=
  match t with
  | GFinal x => unwrap x
  | GAlias _ _ x => unwrap x
  | GNewType _ _ x => unwrap x
  | GAliasStr m _ body => GRef (remove_lead (m +++ ".") body) (Some m)
  | _ => t
  end.

(* the text of an annotation as it is printed inside str() of a generic alias or a union *)
Fixpoint show (E : env) (t : gty) : str :=
  match t with
  | GScalar s => if String.eqb (scalar_module s) "builtins" then scalar_name s
                 else scalar_module s +++ "." +++ scalar_name s
  | GNone => "None"
  | GEllipsis => "..."
  | GAny => "typing.Any"
  | GLit n => "typing.Literal[" +++ show_nat n +++ "]"
  | GGen g a => gen_name g +++ "[" +++ join ", " (map (show E) a) +++ "]"
  | GUnion UOptional ms =>
      "typing.Optional[" +++ match ms with x :: _ => show E x | [] => "" end +++ "]"
  | GUnion UUnion ms => "typing.Union[" +++ join ", " (map (show E) ms) +++ "]"
  | GUnion UPipe ms => join " | " (map (show E) ms)
  | GClass c => match E c with Some d => cmodule d +++ "." +++ cqual d | None => "?" end
  | GNewType m n _ => m +++ "." +++ n
  | GAlias _ n _ => n
  | GAliasStr _ n _ => n
  | GFinal x => "typing.Final[" +++ show E x +++ "]"
  | GRef a _ => "ForwardRef('" +++ a +++ "')"
  end%string.

(* '[' in str(t).  For a class str() is <class 'm.Q'>; for a ForwardRef the repr quotes its text. *)
Definition has_bracket (E : env) (t : gty) : bool :=
  match t with
  | GClass _ | GScalar _ | GNone | GEllipsis => false
  | GRef a _ => has_char lbr a
  | _ => has_char lbr (show E t)
  end.
(* inspection.issubscriptedgeneric: (isgeneric(origin) or isgeneric(t)) and '[' in str(t);
   isgeneric(t) already holds when '[' in str(t). *)
Definition is_subscripted := has_bracket.

(* inspection.isstdlibtype.  Optional: all members other than None; other unions: all members
   (None itself is stdlib, so: all members); otherwise membership of resolve_supertype(t) (or of
   type(t)) in STDLIB_TYPES. *)
Fixpoint resolve_super (t : gty) : gty := match t with GNewType _ _ x => resolve_super x | _ => t end.
Definition in_stdlib_set (t : gty) : bool :=
  match t with GScalar s => scalar_stdlib s | GNone => true | _ => false end.
Fixpoint is_stdlib (t : gty) : bool :=
  match t with
  | GUnion _ ms =>
      let fix all (l : list gty) : bool :=
        match l with [] => true | x :: r => is_stdlib x && all r end in
      all ms
  | _ => in_stdlib_set (resolve_super t)
  end.

(* "Only subscripted generics or non-stdlib types can be cyclic." *)
Definition can_be_cyclic (E : env) (u : gty) : bool := is_subscripted E u || negb (is_stdlib u).

(* inspection.isliteral (asked on unwrapped parents): a Literal, or a ForwardRef whose text starts with "Literal" *)
Definition is_literal (t : gty) : bool :=
  match t with
  | GLit _ => true
  | GRef a _ => match strip_prefix "Literal" a with Some _ => true | None => false end
  | _ => false
  end.

(* inspection.args *)
Definition args_of (t : gty) : list gty :=
  match t with GGen _ a => a | GUnion _ ms => ms | _ => [] end.

Definition last_is_ellipsis (a : list gty) : bool :=
  match rev a with GEllipsis :: _ => true | _ => false end.
(* inspection.isfixedtupletype: tuple[()] is the fixed tuple without members (/repo 330087d) *)
Definition is_fixed_tuple (t : gty) : bool :=
  match t with
  | GGen g a => gen_is_tuple g && negb (last_is_ellipsis a)
  | _ => false
  end.

Fixpoint tuple_hints (i : nat) (a : list gty) : list (option str * gty) :=
  match a with [] => [] | x :: r => (Some ("arg" +++ show_nat i)%string, x) :: tuple_hints (S i) r end.

(* inspection.get_type_hints(t, exhaustive=isstructuredtype(t)): the fields of a class; for a fixed
   tuple the parameters arg0.. of tuple_signature (tuple[()]: the one parameter *args: Any, which is dropped like
   every Any hint); nothing for everything else (typing.get_type_hints
   raises TypeError on aliases/unions, leaf classes only have unannotated -> Any parameters). *)
Definition hints (E : env) (t : gty) : list (option str * gty) :=
  match t with
  | GClass c => match E c with Some d => map (fun fd => (Some (fst fd), snd fd)) (cfields d) | None => [] end
  | GGen _ a => if is_fixed_tuple t then tuple_hints 0 a else []
  | _ => []
  end.

(* graph._level: generic arguments (no name), then the type hints (field name) *)
Definition level (E : env) (t : gty) : list (option str * gty) :=
  map (fun x => (@None str, x)) (args_of t) ++ hints E t.

(* children that are dropped: constants.empty, the Ellipsis of a variadic tuple, and typing.Any when it
   is a field hint (var is not None); Any as a generic argument gets a node *)
Definition skip (var : option str) (c : gty) : bool :=
  match c with
  | GEllipsis => true
  | GAny => match var with Some _ => true | None => false end
  | _ => false
  end.

(* inspection.qualname *)
Definition generic_text (s : str) : bool :=
  match strip_prefix "typing." s with Some _ => true | None => has_char lbr s end.
Definition qualname (E : env) (t : gty) : str :=
  match t with
  | GClass c => match E c with Some d => cqual d | None => "?"%string end
  | GScalar s => scalar_name s
  | GNone => "NoneType"%string
  | GEllipsis => "Ellipsis"%string
  | GNewType _ n _ => n
  | GAlias _ n _ => n
  | GAliasStr _ n _ => n
  | GRef a _ => if generic_text a then before_char lbr a else a
  | _ => let s := show E t in if generic_text s then before_char lbr s else s
  end.
(* getattr(t, "__module__", None) *)
Definition module_attr (E : env) (t : gty) : option str :=
  match t with
  | GClass c => match E c with Some d => Some (cmodule d) | None => None end
  | GScalar s => Some (scalar_module s)
  | GNone => Some "builtins"
  | GEllipsis => None
  | GAny | GLit _ | GFinal _ | GRef _ _ => Some "typing"
  | GGen g _ => Some (gen_module g)
  | GUnion UPipe _ => Some "types"
  | GUnion _ _ => Some "typing"
  | GNewType m _ _ | GAlias m _ _ | GAliasStr m _ _ => Some m
  end%string.

(* ------------------------------------------------------------------------------------------- *)
(* nodes                                                                                        *)
(* ------------------------------------------------------------------------------------------- *)
(* nfor is book-keeping of the model only: the annotation a node was made for (for a cyclic node:
   the child it stands for).  TypeNode.__eq__/__hash__ use (type, unwrapped, var, cyclic). *)
Record node := { ntype : gty; nunw : gty; nvar : option str; ncyc : bool; nfor : gty }.
Definition node_eqb (a b : node) : bool :=
  gty_eqb (ntype a) (ntype b) && gty_eqb (nunw a) (nunw b) && ostr_eqb (nvar a) (nvar b)
  && Bool.eqb (ncyc a) (ncyc b).
Definition is_ref (t : gty) : bool := match t with GRef _ _ => true | _ => false end.

Definition mknode (c u : gty) (var : option str) : node :=
  {| ntype := c; nunw := u; nvar := var; ncyc := false; nfor := c |}.

(* a revisited generic / union / qualified annotation, or a member that already is a ForwardRef, is
   deferred as ITSELF, flagged cyclic *)
Definition mkdefer (c u : gty) (var : option str) : node :=
  {| ntype := c; nunw := u; nvar := var; ncyc := true; nfor := c |}.

(* The reference branch of get_type_graph (revisited classes and other named objects):
     qualname = inspection.qualname(child); *rest, refname = qualname.split(".", maxsplit=1)
     module = ".".join(rest) or getattr(child, "__module__", None)
     if inspect.isclass(child) and rest and child.__module__: module, refname = child.__module__, qualname
     ref  = refs.forwardref(refname, module=module)       -- name.replace(module + ".", "")
     uref = refs.forwardref(unwrapped, module=module)     -- qualname(unwrapped), same replace
   None: no module can be named (refs would search the call stack; not modelled). *)
Definition is_class (c : gty) : bool :=
  match c with GClass _ | GScalar _ | GAny | GNone => true | _ => false end.   (* inspect.isclass(child) *)
Definition ref_parts (E : env) (c : gty) : option (str * str) :=
  let q := qualname E c in
  match split_first dot q with
  | Some (m, r) =>
      (* a class with a dotted qualified name (nested in a class; typing.Any) is referred to by that name
         inside its own __module__ *)
      match (if is_class c then module_attr E c else None) with
      | Some m' => Some (m', q)
      | None =>
          match m with
          | EmptyString => match module_attr E c with Some m' => Some (m', r) | None => None end
          | _ => Some (m, r)
          end
      end
  | None => match module_attr E c with Some m => Some (m, q) | None => None end
  end.
Definition mkref (E : env) (c u : gty) (var : option str) : option node :=
  match ref_parts E c with
  | Some (m, refname) =>
      Some {| ntype := GRef (remove_lead (m +++ ".") refname) (Some m);
              nunw := GRef (remove_lead (m +++ ".") (qualname E u)) (Some m);
              nvar := var; ncyc := true; nfor := c |}
  | None => None
  end.

(* ------------------------------------------------------------------------------------------- *)
(* the breadth-first walk                                                                       *)
(* ------------------------------------------------------------------------------------------- *)
Inductive res (A : Type) := Ok (a : A) | OutOfFuel | Unmodelled.
Arguments Ok {A}. Arguments OutOfFuel {A}. Arguments Unmodelled {A}.

Definition revisit (c u : gty) (seen : list gty) : bool := mem c seen || mem u seen.

(* inspection.isuniontype on an unwrapped annotation; inspection.should_unwrap (Final / ClassVar) *)
Definition is_union (u : gty) : bool := match u with GUnion _ _ => true | _ => false end.
(* should_unwrap sees a qualifier behind NewTypes and aliases (isfinal resolves them) *)
Fixpoint should_unwrap (c : gty) : bool :=
  match c with
  | GFinal _ => true
  | GNewType _ _ x | GAlias _ _ x => should_unwrap x
  | _ => false
  end.
Definition is_generic (E : env) (u : gty) : bool := is_subscripted E u || is_union u.

(* A generic (subscripted or union) is looked up among the types on the tree path from the root (it is
   deferred only when it is its own ancestor); everything else in the global visited set. *)
Definition seen_set (E : env) (u : gty) (V path : list gty) : list gty :=
  if is_generic E u then path else V.

(* the walk's memory: the visited set (types) and the set of nodes already pushed ("expanded") *)
Definition state := (list gty * list node)%type.
Definition nmem (n : node) (X : list node) : bool := existsb (node_eqb n) X.

(* is_visited: found in the set it is looked up in; a generic is also "visited" when the node it would
   produce (type, unwrapped, var) has already been pushed elsewhere in the graph *)
Definition visitedb (E : env) (c u : gty) (var : option str) (st : state) (path : list gty) : bool :=
  revisit c u (seen_set E u (fst st) path) || (is_generic E u && nmem (mknode c u var) (snd st)).
Definition push_st (c u : gty) (var : option str) (st : state) : state :=
  (c :: fst st, mknode c u var :: snd st).

(* one parent: the list of predecessor nodes in declaration order and the memory afterwards;
   only node.type of a pushed child is added to visited *)
Fixpoint expand (E : env) (kids : list (option str * gty)) (st : state) (path : list gty) : option (list node * state) :=
  match kids with
  | [] => Some ([], st)
  | (var, c) :: rest =>
      if skip var c then expand E rest st path
      else
        let u := unwrap c in
        if visitedb E c u var st path && can_be_cyclic E u then
          if is_generic E u || should_unwrap c || is_ref c then
            match expand E rest st path with Some (ps, st') => Some (mkdefer c u var :: ps, st') | None => None end
          else
            match mkref E c u var with
            | Some n => match expand E rest st path with Some (ps, st') => Some (n :: ps, st') | None => None end
            | None => None
            end
        else
          match expand E rest (push_st c u var st) path with
          | Some (ps, st') => Some (mknode c u var :: ps, st')
          | None => None
          end
  end.

(* the children that go on the deque, each with path | {node.type} *)
Definition pushed (path : list gty) (preds : list node) : list (node * list gty) :=
  map (fun n => (n, ntype n :: path)) (filter (fun n => negb (ncyc n)) preds).

Definition adjacency := list (node * list node).   (* graph.add(parent, *predecessors), in call order *)

(* fuel = number of parents popped (deque.popleft) *)
Fixpoint bfs (fuel : nat) (E : env) (queue : list (node * list gty)) (st : state) : res adjacency :=
  match queue with
  | [] => Ok []
  | (p, path) :: rest =>
      match fuel with
      | 0 => OutOfFuel
      | S f =>
          let pu := unwrap (ntype p) in
          if is_literal pu then
            match bfs f E rest st with Ok adj => Ok ((p, []) :: adj) | OutOfFuel => OutOfFuel | Unmodelled => Unmodelled end
          else
            match expand E (level E pu) st path with
            | None => Unmodelled
            | Some (preds, st') =>
                match bfs f E (rest ++ pushed path preds) st' with
                | Ok adj => Ok ((p, preds) :: adj)
                | OutOfFuel => OutOfFuel
                | Unmodelled => Unmodelled
                end
            end
      end
  end.

Definition root_node (t : gty) : node := mknode t (unwrap t) None.

(* graph.get_type_graph(t) *)
Definition type_graph (fuel : nat) (E : env) (t : gty) : res adjacency :=
  bfs fuel E [(root_node t, [t; unwrap t])] ([t; unwrap t], [root_node t]).

Definition adj_nodes (a : adjacency) : list node := flat_map (fun e => fst e :: snd e) a.

(* ------------------------------------------------------------------------------------------- *)
(* what a deferred node denotes                                                                 *)
(* ------------------------------------------------------------------------------------------- *)
(* the (module, name) under which an annotation object is bound in its defining module *)
Definition named (E : env) (c : gty) : option (str * str) :=
  match c with
  | GClass k => match E k with Some d => Some (cmodule d, cqual d) | None => None end
  | GScalar s => Some (scalar_module s, scalar_name s)
  | GNewType m n _ | GAlias m n _ | GAliasStr m n _ => Some (m, n)
  | _ => None
  end.
(* guard of C09_denotes: the replaced child is a named object whose reference text is its name: a class
   (module-level or nested in classes: dotted name), leaf class, NewType or alias; no subscripted generic,
   no union; the module's own name followed by a dot must not occur inside the name (forwardref strips it) *)
Definition denotes_guard (E : env) (c : gty) : bool :=
  match named E c with
  | Some (m, n) => (is_class c || negb (has_char dot n)) && String.eqb (remove_lead (m +++ ".") n) n
                   && negb (String.eqb m "")
  | None => false
  end.
