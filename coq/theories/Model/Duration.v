(* Model/Duration.v -- C04, the part typelib owns character by character.

   DEFINITIONS ONLY.

   1. a decimal layer on [list ascii] on top of stdlib [Decimal.uint] (Python's str(int));
   2. [pendulum_duration]: pendulum 3.2's [Duration.__new__] normalisation of
      (days, seconds, microseconds), in exact integer arithmetic (pendulum computes on the float
      total_seconds(); the two agree while that float is exact, see notes/C04.md);
   3. [iso_duration_pinned]: the f-string logic of [serdes.isoformat] for timedelta as on the pinned tree
      (commit b80d764), kept for the refutation theorems (weeks dropped, sign per component, 'PT');
   4. [iso_duration]: the repaired writer ([serdes._isoduration], proposed_fixes/C04-1-duration-writer.diff):
      integer fields of the timedelta, sign-magnitude, total days, no dangling 'T';
   5. [read_iso_duration]: an independent spec-level reader of ISO-8601 durations (PnDTnHnMn.fS with the
      ISO 8601-2 leading sign), returning the normalised (days, seconds, microseconds) of the timedelta;
   6. [iso8601_duration]: a well-formedness recogniser written as a character automaton, independent of 5. *)
From Coq Require Import List ZArith NArith Ascii String Bool Decimal DecimalN.
Import ListNotations.
Open Scope Z_scope.

Definition chars := list ascii.

(* ---------------------------------------------------------------- decimal layer *)
Definition digit_char (d : nat) : ascii := ascii_of_nat (48 + d).
Fixpoint show_uint (u : uint) : chars :=
  match u with
  | Nil => [] | D0 r => digit_char 0 :: show_uint r | D1 r => digit_char 1 :: show_uint r
  | D2 r => digit_char 2 :: show_uint r | D3 r => digit_char 3 :: show_uint r | D4 r => digit_char 4 :: show_uint r
  | D5 r => digit_char 5 :: show_uint r | D6 r => digit_char 6 :: show_uint r | D7 r => digit_char 7 :: show_uint r
  | D8 r => digit_char 8 :: show_uint r | D9 r => digit_char 9 :: show_uint r end.
Definition digit_of (c : ascii) : option (uint -> uint) :=
  match nat_of_ascii c with
  | 48%nat => Some D0 | 49%nat => Some D1 | 50%nat => Some D2 | 51%nat => Some D3 | 52%nat => Some D4
  | 53%nat => Some D5 | 54%nat => Some D6 | 55%nat => Some D7 | 56%nat => Some D8 | 57%nat => Some D9
  | _ => None end.
Definition is_digit (c : ascii) : bool := match digit_of c with Some _ => true | None => false end.
(* the maximal digit prefix *)
Fixpoint read_uint (s : chars) : uint * chars :=
  match s with
  | [] => (Nil, [])
  | c :: r => match digit_of c with
              | Some d => let (u, rest) := read_uint r in (d u, rest)
              | None => (Nil, s) end end.
Definition show_N (n : N) : chars := show_uint (N.to_uint n).
Definition read_N (s : chars) : option (N * chars) :=
  let (u, rest) := read_uint s in match u with Nil => None | _ => Some (N.of_uint u, rest) end.
(* Python's str(int) *)
Definition show_Z (z : Z) : chars :=
  if z <? 0 then "-"%char :: show_N (Z.to_N (- z)) else show_N (Z.to_N z).
(* Python's format(n, '0W') for ints: sign-aware zero padding to total width W *)
Definition zpad (w : nat) (cs : chars) : chars := repeat "0"%char (w - List.length cs) ++ cs.
Definition fmt0 (w : nat) (z : Z) : chars :=
  if z <? 0 then "-"%char :: zpad (w - 1) (show_N (Z.to_N (- z))) else zpad w (show_N (Z.to_N z)).

(* ---------------------------------------------------------------- pendulum.Duration normalisation *)
Record pdur := { p_years : Z; p_months : Z; p_weeks : Z; p_days : Z; p_remaining_days : Z;
                 p_hours : Z; p_minutes : Z; p_seconds : Z; p_remaining_seconds : Z; p_microseconds : Z }.
Definition sgn1 (z : Z) : Z := if z <? 0 then -1 else 1.          (* Duration._sign: +1 for zero *)
Definition pendulum_duration (d s us : Z) : pdur :=
  let total := (d * 86400 + s) * 1000000 + us in                   (* total_seconds(), in microseconds *)
  let m := sgn1 total in
  let T := Z.abs total in
  let isec := T / 1000000 in                                       (* abs(int(total)) *)
  let micro := m * (T mod 1000000) in                              (* round(total % m * 1e6) *)
  let secs := isec mod 86400 * m in
  let days := isec / 86400 * m in
  {| p_years := 0; p_months := 0;
     p_weeks := Z.abs days / 7 * m; p_days := days; p_remaining_days := Z.abs days mod 7 * m;
     p_hours := if 3600 <=? Z.abs secs then Z.abs secs / 3600 mod 24 * sgn1 secs else 0;
     p_minutes := if 60 <=? Z.abs secs then Z.abs secs / 60 mod 60 * sgn1 secs else 0;
     p_seconds := secs; p_remaining_seconds := Z.abs secs mod 60 * sgn1 secs;
     p_microseconds := micro |}.

(* ---------------------------------------------------------------- the pinned writer (defective) *)
Definition piece (p : Z) (d : ascii) : chars := if p =? 0 then [] else show_Z p ++ [d].
Definition iso_duration_pinned_chars (td : Z * Z * Z) : chars :=
  let '(d, s, us) := td in
  let dur := pendulum_duration d s us in
  let datepart := piece (p_years dur) "Y" ++ piece (p_months dur) "M" ++ piece (p_remaining_days dur) "D" in
  let secpiece := if p_microseconds dur =? 0 then piece (p_remaining_seconds dur) "S"
                  else show_Z (p_remaining_seconds dur) ++ "."%char :: fmt0 6 (p_microseconds dur) ++ ["S"%char] in
  let timepart := piece (p_hours dur) "H" ++ piece (p_minutes dur) "M" ++ secpiece in
  "P"%char :: datepart ++ "T"%char :: timepart.
Definition iso_duration_pinned (td : Z * Z * Z) : string := string_of_list_ascii (iso_duration_pinned_chars td).

(* ---------------------------------------------------------------- the repaired writer *)
Definition digitZ (z : Z) : ascii := digit_char (Z.to_nat (z mod 10)).
(* f"{micros:06}" for 0 <= micros < 10^6 *)
Definition pad6 (us : Z) : chars :=
  [digitZ (us / 100000); digitZ (us / 10000); digitZ (us / 1000); digitZ (us / 100); digitZ (us / 10); digitZ us].
Definition sec_piece (sec us : Z) : chars :=
  if us =? 0 then piece sec "S" else show_Z sec ++ "."%char :: pad6 us ++ ["S"%char].
Definition is_nil (s : chars) : bool := match s with [] => true | _ => false end.
Definition iso_duration_chars (td : Z * Z * Z) : chars :=
  let '(d, s, us) := td in
  let total := (d * 86400 + s) * 1000000 + us in
  let neg := total <? 0 in
  let T := if neg then - total else total in
  let seconds0 := T / 1000000 in let micros := T mod 1000000 in
  let minutes0 := seconds0 / 60 in let seconds := seconds0 mod 60 in
  let hours0 := minutes0 / 60 in let minutes := minutes0 mod 60 in
  let days := hours0 / 24 in let hours := hours0 mod 24 in
  let datepart := piece days "D" in
  let timepart := piece hours "H" ++ piece minutes "M" ++ sec_piece seconds micros in
  if is_nil datepart && is_nil timepart then ["P"%char; "T"%char]
  else (if neg then ["-"%char] else []) ++ "P"%char :: datepart
       ++ (if is_nil timepart then [] else "T"%char :: timepart).
Definition iso_duration (td : Z * Z * Z) : string := string_of_list_ascii (iso_duration_chars td).

(* the timedelta's own normal form *)
Definition td_norm (td : Z * Z * Z) : bool :=
  let '(d, s, us) := td in (0 <=? s) && (s <? 86400) && (0 <=? us) && (us <? 1000000).
Definition td_in_range (td : Z * Z * Z) : bool :=
  let '(d, s, us) := td in td_norm td && (-999999999 <=? d) && (d <=? 999999999).
Definition td_nonzero (td : Z * Z * Z) : bool :=
  let '(d, s, us) := td in negb ((d =? 0) && (s =? 0) && (us =? 0)).
Definition td_of_total (total : Z) : Z * Z * Z :=
  (total / 86400000000, total mod 86400000000 / 1000000, total mod 1000000).

(* ---------------------------------------------------------------- the independent reader *)
Definition read_comp (d : ascii) (s : chars) : option N * chars :=
  match read_N s with
  | Some (n, c :: rest) => if Ascii.eqb c d then (Some n, rest) else (None, s)
  | _ => (None, s) end.
Definition digit_val (c : ascii) : option Z :=
  let n := Z.of_nat (nat_of_ascii c) in if (48 <=? n) && (n <=? 57) then Some (n - 48) else None.
(* up to k more fraction digits: (accumulated value, digits still allowed, rest) *)
Fixpoint read_frac (k : nat) (acc : Z) (s : chars) : Z * nat * chars :=
  match k with
  | O => (acc, k, s)
  | S k' => match s with
            | c :: r => match digit_val c with Some v => read_frac k' (acc * 10 + v) r | None => (acc, k, s) end
            | [] => (acc, k, s) end end.
(* the seconds component n[.f{1,6}]S, if present *)
Definition read_secs (s : chars) : option (option (Z * Z) * chars) :=
  match read_N s with
  | None => Some (None, s)
  | Some (n, c :: r) =>
      if Ascii.eqb c "S" then Some (Some (Z.of_N n, 0), r)
      else if Ascii.eqb c "." then
        match read_frac 6 0 r with
        | (acc, k, c' :: r') => if Ascii.eqb c' "S" && Nat.ltb k 6 then Some (Some (Z.of_N n, acc * 10 ^ Z.of_nat k), r') else None
        | _ => None end
      else None
  | Some (_, []) => None end.
Definition oN (o : option N) : Z := match o with Some n => Z.of_N n | None => 0 end.
Definition is_some {A} (o : option A) : bool := match o with Some _ => true | None => false end.
Definition finish (neg : bool) (D H M S us : Z) : Z * Z * Z :=
  let T := (((D * 24 + H) * 60 + M) * 60 + S) * 1000000 + us in
  td_of_total (if neg then - T else T).
Definition read_unsigned (neg : bool) (s0 : chars) : option (Z * Z * Z) :=
  match s0 with
  | c :: s1 =>
    if Ascii.eqb c "P" then
      let '(oD, s2) := read_comp "D" s1 in
      match s2 with
      | [] => if is_some oD then Some (finish neg (oN oD) 0 0 0 0) else None
      | c2 :: s3 =>
        if Ascii.eqb c2 "T" then
          let '(oH, s4) := read_comp "H" s3 in
          let '(oM, s5) := read_comp "M" s4 in
          match read_secs s5 with
          | Some (oS, []) =>
              if is_some oH || is_some oM || is_some oS then
                Some (finish neg (oN oD) (oN oH) (oN oM)
                             (match oS with Some (sv, _) => sv | None => 0 end)
                             (match oS with Some (_, f) => f | None => 0 end))
              else None
          | _ => None end
        else None end
    else None
  | [] => None end.
(* ISO 8601-2 sign prefix *)
Definition read_iso_duration_chars (s : chars) : option (Z * Z * Z) :=
  match s with
  | c :: r => if Ascii.eqb c "-" then read_unsigned true r else read_unsigned false s
  | [] => None end.
Definition read_iso_duration (s : string) : option (Z * Z * Z) := read_iso_duration_chars (list_ascii_of_string s).

(* ---------------------------------------------------------------- well-formedness: a character automaton *)
Inductive dstate :=
| QStart | QSigned | QP | QDnum | QD
| QT (rank : nat) (seen : bool)      (* after 'T' or after a time component; rank = next designator allowed (H=0 M=1 S=2) *)
| QTnum (rank : nat)                 (* inside the digits of a time component *)
| QFrac (k : nat)                    (* k fraction digits read *)
| QEnd | QFail.
Definition dstep (q : dstate) (c : ascii) : dstate :=
  let dg := is_digit c in
  match q with
  | QStart => if Ascii.eqb c "-" then QSigned else if Ascii.eqb c "P" then QP else QFail
  | QSigned => if Ascii.eqb c "P" then QP else QFail
  | QP => if dg then QDnum else if Ascii.eqb c "T" then QT 0 false else QFail
  | QDnum => if dg then QDnum else if Ascii.eqb c "D" then QD else QFail
  | QD => if Ascii.eqb c "T" then QT 0 false else QFail
  | QT r _ => if dg then QTnum r else QFail
  | QTnum r => if dg then QTnum r
               else if Ascii.eqb c "H" && Nat.leb r 0 then QT 1 true
               else if Ascii.eqb c "M" && Nat.leb r 1 then QT 2 true
               else if Ascii.eqb c "S" then QEnd
               else if Ascii.eqb c "." then QFrac 0 else QFail
  | QFrac k => if dg then (if Nat.ltb k 6 then QFrac (S k) else QFail)
               else if Ascii.eqb c "S" && Nat.leb 1 k then QEnd else QFail
  | QEnd => QFail
  | QFail => QFail end.
Definition daccept (q : dstate) : bool :=
  match q with QD => true | QT _ seen => seen | QEnd => true | _ => false end.
Definition drun (q : dstate) (s : chars) : dstate := fold_left dstep s q.
Definition iso8601_duration_chars (s : chars) : bool := daccept (drun QStart s).
Definition iso8601_duration (s : string) : bool := iso8601_duration_chars (list_ascii_of_string s).
