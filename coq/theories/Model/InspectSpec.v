(* C17: the independent oracle ("what the Python runtime says for the class the annotation resolves
   to"), the domain/guard predicates and the spelling relation.  Definitions only. *)
From Coq Require Import List NArith ZArith String Bool.
Import ListNotations.
Require Import TL.Model.Inspect.

Section Spec.
Variable T : tables.

(* the library's documented abstract -> builtin mapping, on classes (GENERIC_TYPE_MAP, not applied to builtins) *)
Definition doc_map (c : cls) : cls :=
  if memN c (t_builtin T) then c
  else match assoc_ity (IClass c) (t_generic_map T) with Some (IClass d) => d | _ => c end.

(* typing origin of an unwrapped class-like annotation *)
Definition head_class (t : ity) : option cls :=
  match t with
  | IClass c => Some c
  | ITyping a | ITypingSub a _ => Some (ta_origin T a)
  | IClassSub c _ | IUserSub c _ => Some c
  | _ => None
  end.
(* NewType and alias resolution, any nesting *)
Fixpoint strip (t : ity) : ity :=
  match t with INewType _ s => strip s | IAlias _ v => strip v | _ => t end.
Definition resolved_class (use_map : bool) (t : ity) : option cls :=
  match head_class (strip t) with
  | Some c => Some (if use_map then doc_map c else c)
  | None => None
  end.

(* the subclass tests the predicates stand for *)
Inductive family :=
| FOrigin (bs : list cls)      (* issubclass(resolved, bs) *)
| FOriginTp (b : cls)          (* issubclass(resolved, typing.X) *)
| FRaw (bs : list cls)         (* issubclass(resolved, bs), abstract->builtin map not applied *)
| FTuple | FSequence | FCollection | FMapping.
Definition family_of (p : pred) : option family :=
  match origin_family_bases p, origin_family_tp p, raw_family_bases p with
  | Some bs, _, _ => Some (FOrigin bs)
  | _, Some b, _ => Some (FOriginTp b)
  | _, _, Some bs => Some (FRaw bs)
  | _, _, _ =>
    match p with
    | P_istupletype => Some FTuple | P_issequencetype => Some FSequence
    | P_iscollectiontype => Some FCollection | P_ismappingtype => Some FMapping
    | _ => None
    end
  end.
Definition uses_map (f : family) : bool := match f with FRaw _ => false | _ => true end.
(* issubclass against the corresponding ABC or base; "includes builtins" (_COLLECTIONS) and the extra
   mapping bases (_MAPPING_TYPES) are the documented definitions of sequence/collection/mapping type *)
Definition says (f : family) (d : cls) : bool :=
  match f with
  | FOrigin bs | FRaw bs => subclass_any T d bs
  | FOriginTp b => subclass_any T d [b]
  | FTuple => subclass_any T d [c_tuple]
  | FSequence => memN d (t_collections T) || subclass_any T d [c_Sequence]
  | FCollection => memN d (t_collections T) || subclass_any T d [c_Collection]
  | FMapping => subclass_any T d (t_mapping_types T) || subclass_any T d [c_Mapping]
  end.
Definition runtime_says (p : pred) (t : ity) : option bool :=
  match family_of p with
  | Some f => match resolved_class (uses_map f) t with Some d => Some (says f d) | None => None end
  | None => None
  end.
Definition in_domain (p : pred) (t : ity) : bool :=
  match runtime_says p t with Some _ => true | None => false end.

(* after the repairs no guard is left for the subclass-test predicates: the domain is the guard *)
Definition c17_guard (p : pred) (t : ity) : bool := in_domain p t.

(* the tail of origin(): generic map unless builtin, then callable => typing.Callable *)
Definition finish (o : ity) : ity :=
  let a4 := if isbuiltintype T o then o else check_generics T o in
  if iscallable T a4 && negb (is_class a4) then ITyping ta_Callable else a4.

(* what the proofs need from the reflected tables; checked by computation on every run *)
Definition tables_ok : bool :=
  forallb (fun kv => is_class (snd kv)) (t_generic_map T)
  && subclass T c_tuple c_tuple
  && forallb (fun a => negb (N.eqb (snd (snd a)) c_NoneType)) (t_talias T)
  && ity_eqb (finish (IClass c_UnionType)) (IClass c_UnionType)
  && ity_eqb (finish (ISpecial SUnion)) (ISpecial SUnion).

(* collection annotations: classes below collections.abc.Collection that are abstract and have no
   concrete image under the documented map *)
Definition is_abstract_cls (c : cls) : bool := cflag T ci_abstract c.
Definition same_kind (d c : cls) : bool := N.eqb d c || subclass T d c.
Definition abstract_unmapped : list cls :=
  map fst (filter (fun ci => let c := fst ci in
                     subclass T c c_Collection
                     && negb (negb (is_abstract_cls (doc_map c)) && same_kind (doc_map c) c))
                  (t_cls T)).

(* same annotation, other spelling *)
Inductive spell : ity -> ity -> Prop :=
| sp_refl t : spell t t
| sp_sub al args args' :
    Forall2 spell args args' -> spell (ITypingSub al args) (IClassSub (ta_origin T al) args')
| sp_bare al : spell (ITyping al) (IClass (ta_origin T al))
| sp_union s s' args args' : Forall2 spell args args' -> spell (IUnion s args) (IUnion s' args')
| sp_newtype nm s s' : spell s s' -> spell (INewType nm s) (INewType nm s')
| sp_alias nm v v' : spell v v' -> spell (IAlias nm v) (IAlias nm v').
End Spec.
