(* Tables and comparison for correspondence runs of Model/Build.v. *)
From Coq Require Import List Arith Bool PeanoNat.
Import ListNotations.
Require Import TL.Model.Core TL.Model.CoreTables TL.Model.Build.

Fixpoint lookup_ty {A} (k : ty) (t : list (ty * A)) : option A :=
  match t with [] => None | (k', a) :: r => if ty_eqb k k' then Some a else lookup_ty k r end.

(* the mechanism (build along the observed node order, then run) against the observed result *)
Definition mech_case_ok (rt : runtime) (E : env) (orders : list (ty * list node)) (fuel : nat) (strict : bool)
  (c : case) : bool :=
  match c with (dir, t, x, obs) =>
    res_sim strict (api_call rt E (fun k => lookup_ty k orders) dir fuel t x) obs end.

(* the routing theorem's conclusion, checked on concrete cases: mechanism = reference semantics *)
Definition mech_spec_agree (rt : runtime) (E : env) (orders : list (ty * list node)) (fuel : nat) (c : case) : bool :=
  match c with (dir, t, x, _) =>
    match api_call rt E (fun k => lookup_ty k orders) dir fuel t x,
          (if dir then unm rt E fuel t x else mar rt E fuel t x) with
    | Ok a, Ok b => pv_sim a b
    | Raise _, Raise _ => true
    | _, _ => false
    end end.
