(* Tables and comparison for correspondence runs of Model/Build.v. *)
From Coq Require Import List Arith Bool PeanoNat.
Import ListNotations.
Require Import TL.Model.Core TL.Model.CoreTables TL.Model.Build TL.Proofs.BuildLemmas TL.Proofs.BuildComplete.

Fixpoint lookup_ty {A} (k : ty) (t : list (ty * A)) : option A :=
  match t with [] => None | (k', a) :: r => if ty_eqb k k' then Some a else lookup_ty k r end.

(* the mechanism (build along the observed node order, then run) against the observed result *)
Definition mech_case_ok (rt : runtime) (E : env) (orders : list (ty * list node)) (fuel : nat) (strict : bool)
  (c : case) : bool :=
  match c with (dir, t, x, obs) =>
    res_sim strict (api_call rt E (fun k => lookup_ty k orders) dir fuel t x) obs end.

(* the routing theorem's conclusion, checked on concrete cases: mechanism = reference semantics *)
Definition mech_spec_agree (rt : runtime) (E : env) (orders : list (ty * list node)) (fuel : nat) (c : case) : bool :=
  match c with (dir, t, x, _) =>
    match api_call rt E (fun k => lookup_ty k orders) dir fuel t x,
          (if dir then unm rt E fuel t x else mar rt E fuel t x) with
    | Ok a, Ok b => pv_sim a b
    | Raise _, Raise _ => true
    | _, _ => false
    end end.

(* the additional hypothesis of the COMPLETENESS theorems (C05_unmarshal_complete / C05_marshal_complete:
   BuildComplete.orders_strict), decided on a table of observed node orders: the last node of the order filed under t is
   t's own expanded node, t is not a reference (orders are filed under evaluated annotations), and whatever an order
   defers -- a cyclic node's type, the reference an expanded node unwraps to -- has an order in the table *)
Definition orders_strict_ok (orders : list (ty * list node)) : bool :=
  forallb (fun p =>
    match rev (snd p) with
    | root :: _ => ty_eqb (ntype root) (fst p) && negb (ncyc root) && negb (is_ref (fst p)) &&
                   forallb (node_closed (fun k => lookup_ty k orders)) (snd p)
    | [] => false
    end) orders.

(* the hypotheses of the routing theorem (C05_build_routes), decided on every observed node order:
   every constructor's lookups succeed, for both directions, and the last node is the annotation's own;
   and (since the completeness theorems) orders_strict_ok: the hypothesis orders_strict of C05_unmarshal_complete /
   C05_marshal_complete / C07_all_depths_complete *)
Definition orders_hyps_ok (E : env) (noops : list nat) (orders : list (ty * list node)) : bool :=
  let nl := fun s => existsb (Nat.eqb s) noops in
  forallb (fun p =>
    order_ok E true nl [] (snd p) && order_ok E false nl [] (snd p) &&
    match rev (snd p) with root :: _ => ty_eqb (norm (ntype root)) (norm (fst p)) | [] => false end) orders
  && orders_strict_ok orders.

