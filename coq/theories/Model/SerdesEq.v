(* Executable comparison of Model/Serdes.v with observations of the implementation
   (correspondence runs).  A case carries its own finite runtime tables, filled by the
   harness from the interpreter primitives (never through typelib); a lookup miss is
   Raise EUnmodelled, which no observation equals.  Definitions only. *)
From Coq Require Import List ZArith NArith Bool.
Import ListNotations.
Require Import TL.Model.Serdes.

Definition ckind_eqb (a b : ckind) : bool :=
  match a, b with
  | CStr, CStr | CBytes, CBytes | CBytearray, CBytearray
  | CMemviewRO, CMemviewRO | CMemviewRW, CMemviewRW => true
  | _, _ => false end.
Definition exn_eqb (a b : exn) : bool :=
  match a, b with
  | EValue, EValue | EUnicode, EUnicode | EType, EType | ESyntax, ESyntax
  | EAttribute, EAttribute | ERecursion, ERecursion | EMemory, EMemory | EOther, EOther => true
  | _, _ => false end.      (* EUnmodelled equals nothing *)

Fixpoint pv_eqb (a b : pv) {struct a} : bool :=
  let fix lst (x y : list pv) {struct x} : bool :=
    match x, y with
    | [], [] => true
    | u :: x', w :: y' => pv_eqb u w && lst x' y'
    | _, _ => false end in
  match a, b with
  | PNone, PNone => true
  | PBool x, PBool y => Bool.eqb x y
  | PInt x, PInt y => Z.eqb x y
  | PFloat m e, PFloat m' e' => Z.eqb m m' && Z.eqb e e'
  | PFloatS n, PFloatS n' => N.eqb n n'
  | PText k p, PText k' p' => ckind_eqb k k' && list_N_eqb p p'
  | PList x, PList y | PTuple x, PTuple y | PSet x, PSet y => lst x y
  | PDict x, PDict y =>
      (fix dct (x y : list (pv * pv)) {struct x} : bool :=
         match x, y with
         | [], [] => true
         | (k1, v1) :: x', (k2, v2) :: y' => pv_eqb k1 k2 && pv_eqb v1 v2 && dct x' y'
         | _, _ => false end) x y
  | POther i, POther j => N.eqb i j
  | _, _ => false
  end.

(* exact comparison (serdes layer): value and exception kind *)
Definition res_eqb (a b : res pv) : bool :=
  match a, b with
  | Ok x, Ok y => pv_eqb x y
  | Raise e, Raise f => exn_eqb e f
  | _, _ => false end.
(* routine layer: the statement says "all reject", so any raise equals any raise *)
Definition res_eqb_coarse (a b : res pv) : bool :=
  match a, b with
  | Ok x, Ok y => pv_eqb x y
  | Raise EUnmodelled, _ | _, Raise EUnmodelled => false
  | Raise _, Raise _ => true
  | _, _ => false end.

(* ---- runtime from per-case tables ---- *)
Fixpoint lookup {A} (t : list (list N * res A)) (k : list N) : res A :=
  match t with
  | [] => Raise EUnmodelled
  | (k', r) :: t' => if list_N_eqb k k' then r else lookup t' k
  end.
Record tabs := { t_utf8 : list (list N * res str); t_jstr : list (list N * res pv);
                 t_jbin : list (list N * res pv); t_lit : list (list N * res pv) }.
Definition rt_of (t : tabs) : Runtime := {|
  utf8_encode := fun s => s;                 (* not used by decode / load / strload / entry *)
  utf8_decode := lookup (t_utf8 t);
  json_loads_str := lookup (t_jstr t);
  json_loads_bin := lookup (t_jbin t);
  literal_eval := lookup (t_lit t);
  json_dumps := fun _ => [];                 (* statements only *)
  py_repr := fun _ => []
|}.

Fixpoint mismatches_from {A} (ok : A -> bool) (l : list A) (i : nat) : list nat :=
  match l with [] => [] | x :: r => (if ok x then [] else [i]) ++ mismatches_from ok r (S i) end.
Definition mismatches {A} (ok : A -> bool) (l : list A) := mismatches_from ok l 0.

(* ---- layer 1: serdes.decode / load / strload ---- *)
Inductive sfn := FDecode | FLoad | FStrload.
Definition serdes_case := (sfn * pv * tabs * res pv)%type.
Definition run_sfn (f : sfn) (t : tabs) (v : pv) : res pv :=
  match f with
  | FDecode => decode (rt_of t) v
  | FLoad => load (rt_of t) v
  | FStrload => match v with PText k p => strload (rt_of t) k p | _ => Raise EUnmodelled end
  end.
Definition serdes_case_ok (c : serdes_case) : bool :=
  match c with (f, v, t, obs) => res_eqb (run_sfn f t v) obs end.

(* ---- layer 2: the first step of each routine, through unmarshal(T, input) ----
   rest table: (head id, first-step value) -> observed unmarshal(T_head, value), asked only at
   values on which the first step is the identity.  POther 0 is the harness's token for
   "this remainder cannot be observed separately" (a str the loader would read again). *)
Definition head_id (h : head) : N :=
  match h with
  | HNoOp => 1 | HBytes => 2 | HNoneType => 3 | HString => 4 | HNumber => 5 | HDate => 6
  | HDateTime => 7 | HTime => 8 | HTimeDelta => 9 | HPattern => 10 | HUUID => 11 | HCast => 12
  | HSubMapping => 13 | HSubIterable => 14 | HSubIterator => 15 | HFixedTuple => 16
  | HStructured => 17 | HLiteral _ => 18 | HUnion _ => 19 | HPath => 20 | HEnum => 21 end%N.
Definition rtab := list (N * pv * res pv).
Fixpoint rlookup (t : rtab) (i : N) (d : pv) : res pv :=
  match t with
  | [] => Raise EUnmodelled
  | (j, d', r) :: t' => if N.eqb i j && pv_eqb d d' then r else rlookup t' i d
  end.
Definition routine_case := (head * pv * tabs * rtab * res pv)%type.
(* supl: the exception kinds the live UnionUnmarshaller was measured to suppress on this run *)
Definition sup_of (supl : list exn) (e : exn) : bool := existsb (exn_eqb e) supl.
Definition run_routine (supl : list exn) (c : routine_case) : res pv :=
  match c with (h, v, t, rt_, _) =>
    entry (rt_of t) (fun h d => rlookup rt_ (head_id h) d) (fun _ _ => Raise EUnmodelled) (sup_of supl) h v end.
Definition is_skip (r : res pv) : bool := match r with Ok (POther 0) => true | _ => false end.
Definition routine_case_ok (supl : list exn) (c : routine_case) : bool :=
  let r := run_routine supl c in
  is_skip r || match c with (_, _, _, _, obs) => res_eqb_coarse r obs end.
Definition routine_case_not_skipped (supl : list exn) (c : routine_case) : bool := negb (is_skip (run_routine supl c)).
