(* Type hints and signatures inside the inspection model (property C17, work package N).  Definitions only.

   inspection.get_type_hints / cached_type_hints / signature / cached_signature / typed_dict_signature /
   tuple_signature / _hints_from_signature / safe_get_params / simple_attributes, as they are composed in
   py/inspection.py (defects included), over a DESCRIPTION of a class that says how its hints arise:

     * the MRO, each class with its module, its OWN __annotations__ (ordered; values are objects, strings to be
       evaluated in that class's module, ForwardRef objects), whether @dataclass was applied to it, which annotated
       names have a value in the class body, the __init__ written in its body, whether it was made by
       typing.NamedTuple / collections.namedtuple;
     * what the interpreter reports for the class itself: _fields, __total__, __required_keys__, hasattr for the
       hint names, __slots__, inspect.getmembers;
     * the NAME TABLE [world]: what a text evaluates to in the namespace of a module (absent: NameError).

   The interpreter's side is modelled too, each piece tied to the live answer on every run (harness/c17_hints.py):
   typing.get_type_hints (annotations merged over the reversed MRO, each evaluated in its own class's module,
   nested references included), the @dataclass transform (dataclasses.fields, the generated __init__), the __new__
   of named tuples, inspect.signature of a class (first __new__/__init__ along the MRO).

   The independent side is [spec_fields]: the member list that dataclasses.fields / NamedTuple._fields +
   __annotations__ / TypedDict.__annotations__ / the annotated __init__ parameters define. *)
From Coq Require Import List NArith ZArith String Ascii Bool.
Import ListNotations.
Require Import TL.Model.Inspect.
Local Open Scope string_scope.

(* ------------------------------------------------------------------ hint values, annotations, parameters *)
(* a value found in a hints dict: an annotation object, the dataclasses.KW_ONLY sentinel, dataclasses.InitVar (bare:
   None) or InitVar[t] *)
Inductive hint := HTy (t : ity) | HKwOnly | HInitVar (o : option ity).
(* what __annotations__ or a Parameter holds: an object, a str, inspect.Parameter.empty *)
Inductive ann := AObj (h : hint) | AStr (s : string) | AEmpty.
Inductive pkind := KPosOnly | KPosOrKw | KVarPos | KKwOnly | KVarKw.
Record param := { p_name : string; p_kind : pkind; p_ann : ann; p_default : bool }.

(* how a class got its __new__: typing.NamedTuple (parameters = own annotations), collections.namedtuple
   (fields without annotations, the last [n] with defaults) *)
Inductive ntmaker := NtNone | NtTyping | NtColl (fields : list string) (ndefaults : nat).

Record klass := {
  k_module : string;
  k_ann : list (string * ann);        (* own __annotations__, in order *)
  k_dc : bool;                        (* @dataclasses.dataclass applied to this very class *)
  k_kwonly : bool;                    (* ... with kw_only=True *)
  k_values : list string;             (* annotated names that have a value in the class body (defaults) *)
  k_init : option (list param);       (* __init__ written in the class body: the parameters after self *)
  k_nt : ntmaker
}.

Inductive flavour := FlDataclass | FlNamedTuple | FlTypedDict | FlPlain.
Inductive mkind := MPlain | MClass | MRoutine | MProperty | MDescriptor.

Record cdesc := {
  c_cls : cls;                        (* the class's row in the inspection tables *)
  c_flavour : flavour;                (* what the class is meant to be: used by the SPEC only *)
  c_mro : list klass;                 (* __mro__, self first; object / tuple / dict / Generic carry nothing and are left out *)
  c_fields : list string;             (* _fields *)
  c_total : bool;                     (* __total__ *)
  c_parts : list (bool * list string);(* TypedDict: totality and declared keys of every base (in order) and of the class body *)
  c_required : list string;           (* __required_keys__ *)
  c_attrs : list string;              (* hint names x with hasattr(cls, x) *)
  c_slots : option (list string);     (* getattr(cls, "__slots__") *)
  c_members : list (string * mkind);  (* inspect.getmembers(cls): sorted by name *)
  c_sigless : bool                    (* no __new__/__init__ along the MRO and inspect.signature raises ValueError *)
}.

(* the name table: (module, text) -> what the text evaluates to there *)
Definition world := list ((string * string) * hint).

(* ------------------------------------------------------------------ helpers *)
Definition memS (x : string) (l : list string) : bool := existsb (String.eqb x) l.
Fixpoint strs_eqb (a b : list string) : bool :=
  match a, b with [] , [] => true | x :: r, y :: s => String.eqb x y && strs_eqb r s | _, _ => false end.
Definition oity_eqb (a b : option ity) : bool :=
  match a, b with Some x, Some y => ity_eqb x y | None, None => true | _, _ => false end.
Definition hint_eqb (a b : hint) : bool :=
  match a, b with
  | HTy x, HTy y => ity_eqb x y
  | HKwOnly, HKwOnly => true
  | HInitVar x, HInitVar y => oity_eqb x y
  | _, _ => false
  end.
Definition is_kwonly (h : hint) : bool := match h with HKwOnly => true | _ => false end.
Definition null {A} (l : list A) : bool := match l with [] => true | _ => false end.

(* dict assignment d[n] = v: an existing key keeps its position *)
Fixpoint upsert {A} (n : string) (v : A) (l : list (string * A)) : list (string * A) :=
  match l with
  | [] => [(n, v)]
  | (n', v') :: r => if String.eqb n n' then (n, v) :: r else (n', v') :: upsert n v r
  end.
(* the dict built by assigning the entries left to right *)
Definition merge {A} (l : list (string * A)) : list (string * A) :=
  fold_left (fun acc e => upsert (fst e) (snd e) acc) l [].
Fixpoint mapO {A B} (f : A -> option B) (l : list A) : option (list B) :=
  match l with
  | [] => Some []
  | x :: r => match f x, mapO f r with Some y, Some t => Some (y :: t) | _, _ => None end
  end.
Fixpoint find_str {A} (n : string) (l : list (string * A)) : option A :=
  match l with [] => None | (n', v) :: r => if String.eqb n n' then Some v else find_str n r end.

Section Hints.
Variable T : tables.
Variable W : world.

(* ------------------------------------------------------------------ evaluation of annotations (the interpreter) *)
Fixpoint lookup_in (w : world) (m s : string) : option hint :=
  match w with
  | [] => None
  | ((m', s'), h) :: r => if String.eqb m m' && String.eqb s s' then Some h else lookup_in r m s
  end.
Definition lookup (m s : string) : option hint := lookup_in W m s.
Definition lookup_ty (m s : string) : option ity :=
  match lookup m s with Some (HTy t) => Some t | _ => None end.

(* typing._eval_type: references nested in generic aliases, unions and qualifiers are evaluated too; a str argument
   of a types.GenericAlias (list["N"]) counts as a reference; a reference with its own module is evaluated there *)
Fixpoint eval_ity (m : string) (t : ity) {struct t} : option ity :=
  let fix evs (l : list ity) {struct l} : option (list ity) :=
    match l with
    | [] => Some []
    | x :: r => match eval_ity m x, evs r with Some y, Some t' => Some (y :: t') | _, _ => None end
    end in
  let fix evs_ga (l : list ity) {struct l} : option (list ity) :=
    match l with
    | [] => Some []
    | x :: r =>
        match (match x with IValue (LStr s) => lookup_ty m s | _ => eval_ity m x end), evs_ga r with
        | Some y, Some t' => Some (y :: t')
        | _, _ => None
        end
    end in
  match t with
  | IForwardRef s mo => lookup_ty (match mo with Some x => x | None => m end) s
  | IClassSub c l => option_map (IClassSub c) (evs_ga l)
  | ITypingSub a l => option_map (ITypingSub a) (evs l)
  | IUserSub c l => option_map (IUserSub c) (evs l)
  | IUnion sp l => option_map (IUnion sp) (evs l)
  | IFinal a => option_map IFinal (eval_ity m a)
  | IClassVar a => option_map IClassVar (eval_ity m a)
  | _ => Some t
  end.

(* one entry of __annotations__ as typing.get_type_hints evaluates it in module m (None: NameError / TypeError) *)
Definition eval_ann (m : string) (a : ann) : option hint :=
  match a with
  | AObj (HTy INone) => Some (HTy (IClass c_NoneType))
  | AObj (HTy (IForwardRef s mo)) => lookup (match mo with Some x => x | None => m end) s
  | AObj (HTy t) => option_map HTy (eval_ity m t)
  | AObj h => Some h
  | AStr s => lookup m s
  | AEmpty => None
  end.

(* every (name, module, annotation) of the reversed MRO: bases first, each class body in order *)
Definition entry := (string * (string * ann))%type.
Definition klass_entries (k : klass) : list entry := map (fun na => (fst na, (k_module k, snd na))) (k_ann k).
Definition entries (mro : list klass) : list entry := flat_map klass_entries (rev mro).
Definition eval_entry (e : entry) : option (string * hint) :=
  match eval_ann (fst (snd e)) (snd (snd e)) with Some h => Some (fst e, h) | None => None end.

(* typing.get_type_hints(cls): None when it raises *)
Definition typing_hints (d : cdesc) : option (list (string * hint)) :=
  option_map merge (mapO eval_entry (entries (c_mro d))).

(* ------------------------------------------------------------------ the @dataclass transform (the interpreter) *)
Inductive dckind := DField | DClassVar | DInitVar.
Inductive dcclass := CSentinel | CKind (k : dckind).
Record dcf := { f_ann : ann; f_module : string; f_kind : dckind; f_default : bool; f_kwonly : bool }.

(* dataclasses._MODULE_IDENTIFIER_RE: the leading [name] or [name.name] of a string annotation *)
Fixpoint take_word (s : string) : string * string :=
  match s with
  | String c r => if word_char c then let (w, t) := take_word r in (String c w, t) else (EmptyString, s)
  | EmptyString => (EmptyString, EmptyString)
  end.
Definition dc_head (s : string) : string :=
  let (w, r) := take_word s in
  match r with
  | String "."%char r' => let (w2, _) := take_word r' in
                          match w2 with EmptyString => w | _ => w +++ "." +++ w2 end
  | _ => w
  end.
(* dataclasses._is_classvar / _is_initvar / _is_kw_only on an annotation of a class of module m: objects by
   identity, strings by what their leading name is bound to *)
Definition dc_classify (m : string) (a : ann) : dcclass :=
  match a with
  | AObj HKwOnly => CSentinel
  | AObj (HInitVar _) => CKind DInitVar
  | AObj (HTy (IClassVar _)) | AObj (HTy (ISpecial SClassVar)) => CKind DClassVar
  | AStr s =>
      match lookup m (dc_head s) with
      | Some HKwOnly => CSentinel
      | Some (HInitVar None) => CKind DInitVar
      | Some (HTy (ISpecial SClassVar)) => CKind DClassVar
      | _ => CKind DField
      end
  | _ => CKind DField
  end.
(* one class body: KW_ONLY switches the rest of THIS body to keyword-only (the body starts keyword-only under
   @dataclass(kw_only=True)) *)
Fixpoint dc_body (k : klass) (anns : list (string * ann)) (kw : bool) (acc : list (string * dcf)) : list (string * dcf) :=
  match anns with
  | [] => acc
  | (n, a) :: r =>
      match dc_classify (k_module k) a with
      | CSentinel => dc_body k r true acc
      | CKind kd =>
          dc_body k r kw
            (upsert n {| f_ann := a; f_module := k_module k; f_kind := kd; f_default := memS n (k_values k);
                         f_kwonly := kw |} acc)
      end
  end.
(* __dataclass_fields__ of a class with this (linear) MRO: the decorated classes, bases first *)
Definition dc_table (mro : list klass) : list (string * dcf) :=
  fold_left (fun acc k => if k_dc k then dc_body k (k_ann k) (k_kwonly k) acc else acc) (rev mro) [].
Definition is_field (nf : string * dcf) : bool := match f_kind (snd nf) with DField => true | _ => false end.
(* dataclasses.fields *)
Definition dc_fields (mro : list klass) : list (string * dcf) := filter is_field (dc_table mro).
(* the generated __init__: fields and InitVars, the keyword-only ones last; annotations as written *)
Definition dc_init (mro : list klass) : list param :=
  let ps := filter (fun nf => match f_kind (snd nf) with DClassVar => false | _ => true end) (dc_table mro) in
  let mk := fun kd (nf : string * dcf) =>
              {| p_name := fst nf; p_kind := kd; p_ann := f_ann (snd nf); p_default := f_default (snd nf) |} in
  map (mk KPosOrKw) (filter (fun nf => negb (f_kwonly (snd nf))) ps)
  ++ map (mk KKwOnly) (filter (fun nf => f_kwonly (snd nf)) ps).

(* ------------------------------------------------------------------ inspect.signature of a class (the interpreter) *)
Fixpoint last_n {A} (n : nat) (l : list A) : list A := if Nat.leb (List.length l) n then l else match l with [] => [] | _ :: r => last_n n r end.
Definition nt_params (k : klass) : option (list param) :=
  match k_nt k with
  | NtNone => None
  | NtTyping =>
      Some (map (fun na => {| p_name := fst na; p_kind := KPosOrKw; p_ann := snd na;
                              p_default := memS (fst na) (k_values k) |}) (k_ann k))
  | NtColl fs nd =>
      let dfl := last_n nd fs in
      Some (map (fun f => {| p_name := f; p_kind := KPosOrKw; p_ann := AEmpty; p_default := memS f dfl |}) fs)
  end.
(* the first class along the MRO that defines __new__ or __init__; the module is that of the defining class *)
Fixpoint sig_of_mro (mro : list klass) : option (string * list param) :=
  match mro with
  | [] => None
  | k :: r =>
      match nt_params k with
      | Some ps => Some (k_module k, ps)
      | None =>
          if k_dc k then Some (k_module k, dc_init mro)
          else match k_init k with
               | Some ps => Some (k_module k, ps)
               | None => sig_of_mro r
               end
      end
  end.
Definition self_module (d : cdesc) : string := match c_mro d with k :: _ => k_module k | [] => EmptyString end.
(* None: ValueError (no signature found); a class without __new__ / __init__ of its own has the signature of object *)
Definition inspect_signature (d : cdesc) : option (string * list param) :=
  match sig_of_mro (c_mro d) with
  | Some r => Some r
  | None => if c_sigless d then None else Some (self_module d, [])
  end.

(* ------------------------------------------------------------------ inspection.py *)
Definition self_ity (d : cdesc) : ity := IClass (c_cls d).

(* get_type_hints(obj, exhaustive=False): {} when typing raises (NameError, TypeError); KW_ONLY dropped *)
Definition hints_nex (d : cdesc) : list (string * hint) :=
  filter (fun nh => negb (is_kwonly (snd nh))) (match typing_hints d with Some l => l | None => [] end).

(* typed_dict_signature (as repaired, proposed_fixes/C17-typeddict-signature-defaults): a key has no default exactly
   when it is in __required_keys__ (Required / NotRequired hidden in string annotations are outside this language) *)
Definition typed_dict_signature (d : cdesc) : list param :=
  map (fun nh => {| p_name := fst nh; p_kind := KKwOnly; p_ann := AObj (snd nh);
                    p_default := negb (memS (fst nh) (c_required d)) |}) (hints_nex d).
(* PINNED: before the repair the default of EVERY key came from the __total__ of the class itself, and
   getattr(cls, key, default) found dict methods; kept only for the witnesses in dyn/C17/C17Hints.v *)
Definition typed_dict_signature_pinned (d : cdesc) : list param :=
  map (fun nh => {| p_name := fst nh; p_kind := KKwOnly; p_ann := AObj (snd nh);
                    p_default := memS (fst nh) (c_attrs d) || negb (c_total d) |}) (hints_nex d).

Fixpoint tuple_params (i : nat) (l : list ity) : list param :=
  match l with
  | [] => []
  | x :: r => {| p_name := "arg" +++ show_Z (Z.of_nat i); p_kind := KPosOnly; p_ann := AObj (HTy x); p_default := false |}
              :: tuple_params (S i) r
  end.
Definition tuple_signature (t : ity) : list param :=
  let a := args t in
  if null a || last_is_ellipsis a then
    [{| p_name := "args"; p_kind := KVarPos;
        p_ann := AObj (HTy (match a with x :: _ => x | [] => IClass c_Any end)); p_default := false |}]
  else tuple_params 0 a.

(* inspection.signature of a class object: None when it raises (TypeError, ValueError) *)
Definition signature (d : cdesc) : option (list param) :=
  let t := self_ity d in
  if istypeddict T t then Some (typed_dict_signature d)
  else match istupletype T t with
       | Ok true => if negb (isnamedtuple T t) then Some (tuple_signature t)
                    else option_map snd (inspect_signature d)
       | Ok false => option_map snd (inspect_signature d)
       | Raise _ => None
       end.

(* _hints_from_signature: a missing annotation is Any, a str becomes refs.forwardref(.., module=M) where M is the module
   the annotation was written in (as repaired, proposed_fixes/C17-fallback-annotation-module): for a dataclass the class
   of the MRO whose own __annotations__ hold that text under that name, else the class whose __new__ / __init__ gives
   the signature, else obj.__module__ *)
Definition sig_hint (m : string) (p : param) : hint :=
  match p_ann p with
  | AEmpty => HTy (IClass c_Any)
  | AStr s => HTy (IForwardRef (fref_name m s) (Some m))
  | AObj h => h
  end.
Definition hints_from_params (m : string) (ps : list param) : list (string * hint) :=
  merge (map (fun p => (p_name p, sig_hint m p)) ps).
Fixpoint decl_module (mro : list klass) (n s : string) : option string :=
  match mro with
  | [] => None
  | k :: r => match find_str n (k_ann k) with
              | Some (AStr s') => if String.eqb s s' then Some (k_module k) else decl_module r n s
              | _ => decl_module r n s
              end
  end.
Definition ann_module (d : cdesc) (n s : string) : string :=
  match (if existsb k_dc (c_mro d) then decl_module (c_mro d) n s else None) with
  | Some m => m
  | None => match sig_of_mro (c_mro d) with Some (m, _) => m | None => self_module d end
  end.
Definition param_module (d : cdesc) (p : param) : string :=
  match p_ann p with AStr s => ann_module d (p_name p) s | _ => self_module d end.
Definition hints_from_signature (d : cdesc) : list (string * hint) :=
  match signature d with
  | Some ps => merge (map (fun p => (p_name p, sig_hint (param_module d p) p)) ps)
  | None => []
  end.
(* PINNED: before the repair every text was evaluated in obj.__module__; kept only for the witness *)
Definition hints_from_signature_pinned (d : cdesc) : list (string * hint) :=
  match signature d with Some ps => hints_from_params (self_module d) ps | None => [] end.

(* inspection.get_type_hints / cached_type_hints *)
Definition get_type_hints (d : cdesc) (exhaustive : bool) : list (string * hint) :=
  match hints_nex d with
  | [] => if exhaustive then hints_from_signature d else []
  | l => l
  end.

(* get_type_hints of an annotation that is no class (a generic alias, a union ...): typing raises TypeError; with
   exhaustive, signature() serves tuples by tuple_signature; every other object of the typing module is callable
   through _GenericAlias.__call__ (star-args, star-kwargs) and reports those two parameters; a types.GenericAlias of a
   builtin and a types.UnionType have no signature *)
Definition typing_alias_obj (t : ity) : bool :=
  match t with
  | ITypingSub _ _ | IUserSub _ _ | IUnion UUnion _ | IUnion UOptional _ | ILiteral _ | IFinal _ | IClassVar _
  | ICallable true _ _ => true
  | _ => false
  end.
Definition star_params : list param :=
  [{| p_name := "args"; p_kind := KVarPos; p_ann := AEmpty; p_default := false |};
   {| p_name := "kwargs"; p_kind := KVarKw; p_ann := AEmpty; p_default := false |}].
(* inspection.signature of such an object: istupletype() first (it raises TypeError when origin() is a special
   form: Union, Literal, Final), then inspect.signature *)
Definition ann_signature (t : ity) : option (list param) :=
  match istupletype T t with
  | Ok true => Some (tuple_signature t)
  | Ok false => if typing_alias_obj t then Some star_params else None
  | Raise _ => None
  end.
Definition ann_hints (t : ity) (exhaustive : bool) : list (string * hint) :=
  if exhaustive then
    match ann_signature t with Some ps => hints_from_params EmptyString ps | None => [] end
  else [].

Definition safe_get_params (d : cdesc) : list param :=
  let t := self_ity d in
  let ps := match signature d with Some l => l | None => [] end in
  match ismappingtype T t with
  | Ok true => if negb (istypeddict T t) then [] else ps
  | Ok false => ps
  | Raise _ => []
  end.

Definition public (s : string) : bool := negb (prefixb "_" s).
Definition simple_kind (k : mkind) : bool := match k with MPlain => true | _ => false end.
Definition simple_attributes (d : cdesc) : list string :=
  match c_slots d with
  | Some ((_ :: _) as sl) => filter public sl
  | _ => map fst (filter (fun nk => public (fst nk) && simple_kind (snd nk)) (c_members d))
  end.

(* what graph._level lists for a class and what StructuredType(Un)Marshaller._fields_by_var iterates: a bare type
   variable is reduced like a generic argument *)
Definition norm_hint (h : hint) : hint := match h with HTy t => HTy (normalize_typevar t) | _ => h end.
Definition norm_hints (l : list (string * hint)) := map (fun nh => (fst nh, norm_hint (snd nh))) l.
Definition level_members (d : cdesc) : list (string * hint) :=
  norm_hints (get_type_hints d (isstructuredtype T (self_ity d))).
Definition fields_by_var (d : cdesc) : list (string * hint) := norm_hints (get_type_hints d true).

(* refs.evaluate on a hint: a reference standing for a member is looked up in its module *)
Definition resolve_hint (h : hint) : hint :=
  match h with
  | HTy (IForwardRef s (Some m)) => match lookup m s with Some r => r | None => h end
  | _ => h
  end.
Definition resolve_hints (l : list (string * hint)) := map (fun nh => (fst nh, resolve_hint (snd nh))) l.

(* ------------------------------------------------------------------ the SPEC: the member list the class defines *)
Definition any_hint : hint := HTy (IClass c_Any).
Definition spec_dataclass (d : cdesc) : option (list (string * hint)) :=
  mapO (fun nf => match eval_ann (f_module (snd nf)) (f_ann (snd nf)) with
                  | Some h => Some (fst nf, h) | None => None end) (dc_fields (c_mro d)).
(* the annotation the most derived class gives a name *)
Fixpoint mro_ann (n : string) (mro : list klass) : option (string * ann) :=
  match mro with
  | [] => None
  | k :: r => match find_str n (k_ann k) with Some a => Some (k_module k, a) | None => mro_ann n r end
  end.
Definition unannotated (mro : list klass) : bool := forallb (fun k => null (k_ann k)) mro.
Definition spec_namedtuple (d : cdesc) : option (list (string * hint)) :=
  if unannotated (c_mro d) then Some (map (fun n => (n, any_hint)) (c_fields d))
  else mapO (fun n => match mro_ann n (c_mro d) with
                      | Some (m, a) => match eval_ann m a with Some h => Some (n, h) | None => None end
                      | None => None end) (c_fields d).
Definition spec_typeddict (d : cdesc) : option (list (string * hint)) :=
  match c_mro d with
  | k :: _ => mapO (fun na => match eval_ann (k_module k) (snd na) with Some h => Some (fst na, h) | None => None end) (k_ann k)
  | [] => Some []
  end.
Definition field_kind (k : pkind) : bool := match k with KPosOrKw | KKwOnly => true | _ => false end.
Definition spec_plain (d : cdesc) : option (list (string * hint)) :=
  match inspect_signature d with
  | Some (m, ps) =>
      mapO (fun p => if field_kind (p_kind p) then
                       match p_ann p with
                       | AEmpty => Some (p_name p, any_hint)
                       | a => match eval_ann m a with Some h => Some (p_name p, h) | None => None end
                       end
                     else None) ps
  | None => None
  end.
Definition spec_fields (d : cdesc) : option (list (string * hint)) :=
  match c_flavour d with
  | FlDataclass => spec_dataclass d
  | FlNamedTuple => spec_namedtuple d
  | FlTypedDict => spec_typeddict d
  | FlPlain => spec_plain d
  end.

(* TypedDict: __required_keys__ as the metaclass accumulates it from the parts *)
Definition td_required (parts : list (bool * list string)) : list string :=
  flat_map (fun p : bool * list string => if fst p then snd p else []) parts.
Definition td_keys (parts : list (bool * list string)) : list string :=
  flat_map (fun p : bool * list string => snd p) parts.

(* ------------------------------------------------------------------ guards (computable) *)
Definition names_of {A} (l : list (string * A)) : list string := map fst l.
Fixpoint nodup_s (l : list string) : bool :=
  match l with [] => true | x :: r => negb (memS x r) && nodup_s r end.
Fixpoint hints_eqb (a b : list (string * hint)) : bool :=
  match a, b with
  | [], [] => true
  | (n, h) :: r, (n', h') :: s => String.eqb n n' && hint_eqb h h' && hints_eqb r s
  | _, _ => false
  end.

(* every annotation along the MRO evaluates: typing.get_type_hints does not raise *)
Definition all_eval (d : cdesc) : bool :=
  forallb (fun e => match eval_entry e with Some _ => true | None => false end) (entries (c_mro d)).

Definition entry_sentinel (e : entry) : bool :=
  match dc_classify (fst (snd e)) (snd (snd e)) with CSentinel => true | _ => false end.
Definition entry_kwonly (e : entry) : bool :=
  match eval_entry e with Some (_, h) => is_kwonly h | None => false end.
Definition kw_name (es : list entry) (n : string) : bool :=
  existsb (fun e => String.eqb (fst e) n && entry_sentinel e) es.
(* dataclass: (1) all annotations evaluate; (2) every class that annotates is decorated; (3) no ClassVar / InitVar
   pseudo-field; (4) an annotation is the KW_ONLY sentinel for dataclasses exactly when it evaluates to KW_ONLY, and
   a name that is the sentinel in one class body is the sentinel wherever it occurs; (5) there is a field, or the
   signature has no parameter either (the fallback of get_type_hints is taken when nothing is left) *)
Definition dc_guard (d : cdesc) : bool :=
  let es := entries (c_mro d) in
  all_eval d
  && forallb (fun k => k_dc k || null (k_ann k)) (c_mro d)
  && forallb (fun e => match dc_classify (fst (snd e)) (snd (snd e)) with
                       | CKind DField | CSentinel => true | _ => false end) es
  && forallb (fun e => Bool.eqb (entry_sentinel e) (entry_kwonly e)
                       && Bool.eqb (entry_sentinel e) (kw_name es (fst e))) es
  && (negb (null (hints_nex d)) || null (hints_from_signature d)).

(* named tuple: no annotations at all and the signature lists _fields; or exactly one class of the MRO annotates,
   its names are _fields, and nothing evaluates to KW_ONLY *)
Definition annotating (mro : list klass) : list klass := filter (fun k => negb (null (k_ann k))) mro.
Definition nt_guard (d : cdesc) : bool :=
  all_eval d
  && match annotating (c_mro d) with
     | [] => match signature d with
             | Some ps => strs_eqb (map p_name ps) (c_fields d)
                          && forallb (fun p => match p_ann p with AEmpty => true | _ => false end) ps
                          && nodup_s (c_fields d)
             | None => false
             end
     | [k] => strs_eqb (names_of (k_ann k)) (c_fields d) && nodup_s (c_fields d)
              && forallb (fun e => negb (entry_kwonly e)) (entries (c_mro d))
     | _ => false
     end.
Definition td_guard (d : cdesc) : bool :=
  all_eval d
  && match c_mro d with
     | [k] => nodup_s (names_of (k_ann k)) && forallb (fun e => negb (entry_kwonly e)) (entries (c_mro d))
     | _ => false
     end.
(* plain class: no class-level annotation anywhere and every __init__ parameter is a field (then the hints come
   from the signature: a text stands for what it evaluates to also after refs.forwardref dropped the leading module
   name [strip_ok]; an annotation object is what it evaluates to and no unresolved reference); or the merged
   class-level annotations ARE the __init__ parameters (names, order, evaluated annotations) *)
Definition strip_ok (m : string) (p : param) : bool :=
  match p_ann p with
  | AStr s => match lookup m s, lookup m (fref_name m s) with
              | Some a, Some b => hint_eqb a b
              | _, _ => false
              end
  | AObj h => match eval_ann m (AObj h) with Some h' => hint_eqb h' h | None => false end
              && hint_eqb (resolve_hint h) h
  | AEmpty => true
  end.
Definition pl_guard (d : cdesc) : bool :=
  match spec_fields d with
  | None => false
  | Some fs =>
      if unannotated (c_mro d) then
        nodup_s (names_of fs)
        && match inspect_signature d with
           | Some (m, ps) => forallb (strip_ok m) ps
           | None => false
           end
      else
        all_eval d
        && forallb (fun e => negb (entry_kwonly e)) (entries (c_mro d))
        && match typing_hints d with Some l => hints_eqb l fs | None => false end
  end.
(* the flavour tag agrees with what the predicates of inspection.py say about the class *)
Definition flavour_ok (d : cdesc) : bool :=
  let t := self_ity d in
  isstructuredtype T t
  && match c_flavour d with
     | FlTypedDict => istypeddict T t
     | FlNamedTuple => negb (istypeddict T t) && isnamedtuple T t
     | _ => negb (istypeddict T t)
            && match istupletype T t with Ok false => true | _ => false end
     end.
(* refs.evaluate changes nothing in the member list: no hint is a reference that its module resolves *)
Definition resolved_ok (fs : list (string * hint)) : bool :=
  forallb (fun nh => hint_eqb (resolve_hint (snd nh)) (snd nh)) fs.
Definition field_guard (d : cdesc) : bool :=
  flavour_ok d
  && match c_flavour d with
     | FlDataclass => dc_guard d
     | FlNamedTuple => nt_guard d
     | FlTypedDict => td_guard d
     | FlPlain => pl_guard d
     end
  && match spec_fields d with
     | Some fs => (match c_flavour d with FlPlain => unannotated (c_mro d) | _ => false end) || resolved_ok fs
     | None => false
     end.

(* typed_dict_signature against the metaclass model: a key has a default exactly when the PARTS do not require it --
   whenever __required_keys__ of the class is what the parts say (decided per class; any mix of totalities) *)
Definition td_sig_guard (d : cdesc) : bool :=
  forallb (fun nh => Bool.eqb (memS (fst nh) (c_required d)) (memS (fst nh) (td_required (c_parts d)))) (hints_nex d).

End Hints.

(* ------------------------------------------------------------------ observations of the implementation (tie) *)
Inductive hobs :=
| OHints (l : list (string * hint))            (* get_type_hints / cached_type_hints / typing.get_type_hints *)
| ONone                                        (* raised *)
| OSig (ps : list param)                       (* signature / typed_dict_signature / tuple_signature / safe_get_params *)
| ONames (l : list string)                     (* simple_attributes, dataclasses.fields names, __required_keys__ *)
| OFlag (b : bool).

Definition pkind_eqb (a b : pkind) : bool :=
  match a, b with
  | KPosOnly, KPosOnly | KPosOrKw, KPosOrKw | KVarPos, KVarPos | KKwOnly, KKwOnly | KVarKw, KVarKw => true
  | _, _ => false
  end.
Definition ann_eqb (a b : ann) : bool :=
  match a, b with
  | AObj x, AObj y => hint_eqb x y
  | AStr x, AStr y => String.eqb x y
  | AEmpty, AEmpty => true
  | _, _ => false
  end.
Definition param_eqb (a b : param) : bool :=
  String.eqb (p_name a) (p_name b) && pkind_eqb (p_kind a) (p_kind b) && ann_eqb (p_ann a) (p_ann b)
  && Bool.eqb (p_default a) (p_default b).
Fixpoint params_eqb (a b : list param) : bool :=
  match a, b with [], [] => true | x :: r, y :: s => param_eqb x y && params_eqb r s | _, _ => false end.
Definition hobs_eqb (a b : hobs) : bool :=
  match a, b with
  | OHints x, OHints y => hints_eqb x y
  | ONone, ONone => true
  | OSig x, OSig y => params_eqb x y
  | ONames x, ONames y => strs_eqb x y
  | OFlag x, OFlag y => Bool.eqb x y
  | _, _ => false
  end.

Inductive hfn :=
| HF_hints_ex | HF_hints_nex | HF_cached | HF_typing | HF_signature | HF_td_signature | HF_inspect_signature
| HF_params | HF_simple | HF_structured | HF_dc_fields | HF_level | HF_spec | HF_required.

Definition osig (o : option (list param)) : hobs := match o with Some l => OSig l | None => ONone end.
Definition run_hfn (T : tables) (W : world) (f : hfn) (d : cdesc) : hobs :=
  match f with
  | HF_hints_ex => OHints (get_type_hints T W d true)
  | HF_hints_nex => OHints (get_type_hints T W d false)
  | HF_cached => OHints (get_type_hints T W d true)
  | HF_typing => match typing_hints W d with Some l => OHints l | None => ONone end
  | HF_signature => osig (signature T W d)
  | HF_td_signature => OSig (typed_dict_signature W d)
  | HF_inspect_signature => osig (option_map snd (inspect_signature W d))
  | HF_params => OSig (safe_get_params T W d)
  | HF_simple => ONames (simple_attributes d)
  | HF_structured => OFlag (isstructuredtype T (self_ity d))
  | HF_dc_fields => ONames (names_of (dc_fields W (c_mro d)))
  | HF_level => OHints (level_members T W d)
  | HF_spec => match spec_fields W d with Some l => OHints l | None => ONone end
  | HF_required => ONames (td_required (c_parts d))
  end.

Definition hcase := (cdesc * list (hfn * hobs))%type.
Fixpoint bad_hfns (T : tables) (W : world) (d : cdesc) (l : list (hfn * hobs)) (j : nat) : list nat :=
  match l with
  | [] => []
  | (f, o) :: r => (if hobs_eqb (run_hfn T W f d) o then [] else [j]) ++ bad_hfns T W d r (S j)
  end.
Fixpoint hmismatches_from (T : tables) (W : world) (cs : list hcase) (i : nat) : list (nat * nat) :=
  match cs with
  | [] => []
  | (d, l) :: r => map (fun j => (i, j)) (bad_hfns T W d l 0) ++ hmismatches_from T W r (S i)
  end.
Definition hmismatches (T : tables) (W : world) (cs : list hcase) := hmismatches_from T W cs 0.

(* annotations that are no class: (annotation, exhaustive, observed hints) *)
Definition acase := (ity * bool * list (string * hint))%type.
Fixpoint amismatches_from (T : tables) (cs : list acase) (i : nat) : list nat :=
  match cs with
  | [] => []
  | (t, ex, l) :: r => (if hints_eqb (ann_hints T t ex) l then [] else [i]) ++ amismatches_from T r (S i)
  end.
Definition amismatches (T : tables) (cs : list acase) := amismatches_from T cs 0.

(* ------------------------------------------------------------------ the bridge to the core value model *)
(* Forgetting the spelling: a hint of this model as an annotation [Core.ty] of Model/Core.v.  The naming says which
   annotation objects the core harness numbered as leaves, which class rows are the classes N<n> of the core
   environment, which origins / typing aliases construct which container kind, and the ids behind the names of
   NewTypes / aliases / classes. *)
Require TL.Model.Core TL.Model.Build.

Record enaming := {
  en_leaf : list (ity * nat);                (* leaf annotations (classes, Literal aliases, Any, bare containers ...) *)
  en_class : list (cls * nat);               (* class row -> name in the core environment *)
  en_cseq : list (cls * Core.seqkind);       (* origin class of a one-argument generic -> container kind *)
  en_tseq : list (N * Core.seqkind);         (* typing alias of a one-argument generic *)
  en_cmap : list (cls * Core.dictkind);
  en_tmap : list (N * Core.dictkind);
  en_ttuple : list N;                        (* typing.Tuple *)
  en_wrap : list (string * nat);             (* name of a NewType / alias object -> its id *)
  en_name : list (string * nat)              (* name of a class / named alias -> its name in the core environment *)
}.

Fixpoint assoc_leaf (t : ity) (l : list (ity * nat)) : option nat :=
  match l with [] => None | (k, v) :: r => if ity_eqb t k then Some v else assoc_leaf t r end.
Definition is_ellipsis (t : ity) : bool := match t with IEllipsis => true | _ => false end.

Section Erase.
Variable N : enaming.

Fixpoint erase (t : ity) {struct t} : option Core.ty :=
  let fix erase_l (l : list ity) {struct l} : option (list Core.ty) :=
    match l with
    | [] => Some []
    | x :: r => match erase x, erase_l r with Some y, Some t' => Some (y :: t') | _, _ => None end
    end in
  let generic (sk : option Core.seqkind) (dk : option Core.dictkind) (tup : bool) (l : list ity) : option Core.ty :=
    if tup then
      match l with
      | [x; e] => if is_ellipsis e then option_map (Core.TSeq Core.KTuple) (erase x)
                  else option_map Core.TTuple (erase_l l)
      | _ => option_map Core.TTuple (erase_l l)
      end
    else match sk, dk, l with
         | Some k, _, [x] => option_map (Core.TSeq k) (erase x)
         | _, Some k, [x; y] => match erase x, erase y with Some a, Some b => Some (Core.TMap k a b) | _, _ => None end
         | _, _, _ => None
         end in
  match assoc_leaf t (en_leaf N) with
  | Some s => Some (Core.TLeaf s)
  | None =>
    match t with
    | INone => Some Core.TNone
    | IClass c => if N.eqb c c_NoneType then Some Core.TNone
                  else option_map Core.TName (assocN c (en_class N))
    | IClassSub c l => generic (assocN c (en_cseq N)) (assocN c (en_cmap N)) (N.eqb c c_tuple) l
    | ITypingSub a l => generic (assocN a (en_tseq N)) (assocN a (en_tmap N)) (memN a (en_ttuple N)) l
    | IUnion _ l => option_map Core.TUnion (erase_l l)
    | INewType nm s => match find_str nm (en_wrap N), erase s with
                       | Some i, Some x => Some (Core.TNewType i x) | _, _ => None end
    | IAlias nm v => match find_str nm (en_wrap N), erase v with
                     | Some i, Some x => Some (Core.TAlias i x) | _, _ => None end
    | IAliasStr nm s => match find_str nm (en_wrap N), find_str s (en_name N) with
                        | Some i, Some n => Some (Core.TAliasStr i n) | _, _ => None end
    | IFinal a => option_map Core.TFinal (erase a)
    | IClassVar a => option_map Core.TClassVar (erase a)
    | IForwardRef s _ => option_map Core.TRef (find_str s (en_name N))
    | ITypeVar _ (Some b) _ => erase b
    | ITypeVar _ None ((_ :: _) as cs) => option_map Core.TUnion (erase_l cs)
    | ITypeVar _ None [] => option_map Core.TLeaf (assoc_leaf (IClass c_Any) (en_leaf N))
    | _ => None
    end
  end.

Definition erase_hint (h : hint) : option Core.ty := match h with HTy t => erase t | _ => None end.
Definition erase_fields (l : list (string * hint)) : option (list (string * Core.ty)) :=
  mapO (fun nh => match erase_hint (snd nh) with Some t => Some (fst nh, t) | None => None end) l.
End Erase.

(* what the core harness wrote as a reference stands for the object the reference evaluates to *)
Fixpoint deref (t : Core.ty) : Core.ty :=
  match t with
  | Core.TRef n => Core.TName n
  | Core.TRefLeaf s => Core.TLeaf s
  | Core.TRefTo x => deref x
  | Core.TSeq k a => Core.TSeq k (deref a)
  | Core.TMap k a b => Core.TMap k (deref a) (deref b)
  | Core.TTuple l => Core.TTuple (map deref l)
  | Core.TUnion l => Core.TUnion (map deref l)
  | Core.TNewType i x => Core.TNewType i (deref x)
  | Core.TAlias i x => Core.TAlias i (deref x)
  | Core.TFinal x => Core.TFinal (deref x)
  | Core.TClassVar x => Core.TClassVar (deref x)
  | _ => t
  end.
Fixpoint fields_eqb (a b : list (string * Core.ty)) : bool :=
  match a, b with
  | [], [] => true
  | (n, t) :: r, (n', t') :: s => String.eqb n n' && Build.ty_eqb t t' && fields_eqb r s
  | _, _ => false
  end.
(* one class, two descriptions: 0 = the cfields the core harness encoded are the erasure of the model's hints on the
   description read from the live class; 1 = they differ; 2 = a hint has no counterpart in the core model *)
Definition check_cfields (Nm : enaming) (T : tables) (W : world) (d : cdesc) (enc : list (string * Core.ty)) : nat :=
  match erase_fields Nm (fields_by_var T W d) with
  | Some l => if fields_eqb (map (fun nt => (fst nt, deref (snd nt))) l)
                            (map (fun nt => (fst nt, deref (snd nt))) enc) then 0 else 1
  | None => 2
  end.
Definition bcase := (cdesc * list (string * Core.ty))%type.
Definition bridge_report (Nm : enaming) (T : tables) (W : world) (cs : list bcase) : list nat :=
  map (fun c => check_cfields Nm T W (fst c) (snd c)) cs.
