(* The EARLIER formulation of Core's set / mapping steps: "convert every member, hash afterwards"
   (`bind (mapM f vs) construct_*`).  The code hashes each element as soon as it is produced (Model/Core.v now does
   too: `hashing` / `elem_conv`).  Kept to state exactly where the two orders differ:
   `late_hash`: some member converts to an UNHASHABLE object and a LATER member fails with anything but TypeError
   (hash-as-produced raises TypeError, convert-then-hash reports the later failure).  Definitions only. *)
From Coq Require Import List Arith Bool PeanoNat.
Import ListNotations.
Require Import TL.Model.Core.

Section Late.
Variable rt : runtime.
Variable E : env.

Fixpoint late_hash {A B} (key : B -> pv) (f : A -> res B) (seen : bool) (l : list A) : bool :=
  match l with
  | [] => false
  | x :: r => match f x with
              | Ok b => late_hash key f (seen || unhashable rt (key b)) r
              | Raise EType => false
              | _ => seen
              end
  end.

Definition pair_of (conv : ty -> pv -> res pv) (kt vt : ty) (kv : pv * pv) : res (pv * pv) :=
  bind (conv kt (fst kv)) (fun k' => bind (conv vt (snd kv)) (fun v' => Ok (k', v'))).

(* the steps as they were: conv = the members' semantics (unm n / mar n) *)
Definition seq_late (conv : ty -> pv -> res pv) (k : seqkind) (a : ty) (x : pv) : res pv :=
  bind (load rt x) (fun d => bind (itervalues rt d) (fun vs =>
  bind (mapM (conv a) vs) (fun rs => construct_seq rt k rs))).
Definition map_late (conv : ty -> pv -> res pv) (k : dictkind) (kt vt : ty) (x : pv) : res pv :=
  bind (load rt x) (fun d => bind (iteritems rt E d) (fun kvs =>
  bind (mapM (pair_of conv kt vt) kvs) (fun rs => construct_map rt k rs))).
Definition mmap_late (conv : ty -> pv -> res pv) (kt vt : ty) (x : pv) : res pv :=
  bind (iteritems rt E x) (fun kvs =>
  bind (mapM (pair_of conv kt vt) kvs) (fun rs => construct_map rt KDict rs)).

(* the inputs on which the two orders part ways *)
Definition seq_parts (conv : ty -> pv -> res pv) (k : seqkind) (a : ty) (x : pv) : bool :=
  hashes k &&
  match load rt x with
  | Ok d => match itervalues rt d with Ok vs => late_hash (fun v => v) (conv a) false vs | _ => false end
  | _ => false
  end.
Definition map_parts (conv : ty -> pv -> res pv) (kt vt : ty) (x : pv) : bool :=
  match load rt x with
  | Ok d => match iteritems rt E d with Ok kvs => late_hash fst (pair_of conv kt vt) false kvs | _ => false end
  | _ => false
  end.
Definition mmap_parts (conv : ty -> pv -> res pv) (kt vt : ty) (x : pv) : bool :=
  match iteritems rt E x with Ok kvs => late_hash fst (pair_of conv kt vt) false kvs | _ => false end.

Definition is_other {X} (r : res X) : bool :=
  match r with Ok _ => false | Raise EType => false | _ => true end.
End Late.
