(* Model of typelib.serdes generic iteration (property C18):
     iteritems, _is_iterable_of_pairs, itervalues, get_items_iter, _namedtupleitems,
     _make_fields_iterator, and the class predicates of py/inspection.py they consult.
   Definitions only.  Proofs: Proofs/IterLemmas.v.  Theorems: Props/C18.v.

   The code exists in two variants selected by a [cfg]: [pinned] reproduces the tree as
   pinned (defects included), [repaired] the tree with the four proposed fixes applied
   (proposed_fixes, files C18-...).  The correspondence runs against [repaired]. *)
From Coq Require Import List ZArith NArith String Ascii Bool.
Import ListNotations.

(* ---------------------------------------------------------------------------------- *)
(* results                                                                            *)
(* ---------------------------------------------------------------------------------- *)
Inductive exn := EStopIter | EAttribute | EType | EValue | EOther.
Inductive res (A : Type) := Ok (a : A) | Raise (e : exn) | Unmodelled.
Arguments Ok {A} a. Arguments Raise {A} e. Arguments Unmodelled {A}.

(* ---------------------------------------------------------------------------------- *)
(* the objects of the quantifier                                                      *)
(* ---------------------------------------------------------------------------------- *)
Inductive mapkind := MDict | MOrderedDict | MDefaultDict | MProxy | MCustomMapping.
(* re-iterable, non-mapping, non-named-tuple iterables *)
Inductive collkind :=
| KList | KTuple | KDeque | KSet | KFrozenSet | KCustomSeq           (* issequencetype = True *)
| KSetSub | KKeysView | KValuesView | KItemsView | KCustomCollection  (* not "sequence", Sized *)
| KCustomIterable.                                                    (* not "sequence", not Sized *)
(* one-shot iterators *)
Inductive iterkind := IListIter | ITupleIter | IGenerator | IMapObj | IZipObj | ICustomIterator.
Inductive flavour := FDataclass | FAnnotated | FSlots | FVars.

(* what the code reads from the class of a structured instance.
   The class may be written directly or DERIVED (subclass of a dataclass / annotated / slotted class, decorated again
   or not, adding or re-declaring members): every entry is the fact as the code obtains it, which for a derived class
   is a fact about the whole MRO -- is_dataclass and dataclasses.fields follow the inherited __dataclass_fields__
   (extended only by a decorated subclass), typing.get_type_hints merges the annotations of the MRO (bases first, a
   re-declared name keeps its position), hasattr(tp, "__slots__") is inherited, and the slot NAMES are collected over
   the MRO (serdes._all_slots; the attribute tp.__slots__ alone names only what the class itself adds, see
   C18_inherited_slots_reading).  The flavour of a derived class is the flavour of the family it belongs to. *)
Record clsdesc := {
  c_flavour   : flavour;               (* the family of the class (used by the specification only) *)
  c_dataclass : bool;                  (* dataclasses.is_dataclass(tp) *)
  c_dc_fields : list string;           (* [f.name for f in dataclasses.fields(tp)]  (ClassVar excluded by dataclasses) *)
  c_hints     : list string;           (* keys of typing.get_type_hints(tp), KW_ONLY removed (ClassVar included) *)
  c_sig       : list string;           (* parameter names of inspection.signature(tp) (the exhaustive fallback) *)
  c_slots     : option (list string)   (* None unless hasattr(tp, "__slots__"); else the names in the __slots__ of
                                          every class of the MRO, bases first (serdes._all_slots(tp)) *)
}.

Inductive val :=
| VNone
| VInt (z : Z)
| VStr (s : string)
| VBytes (b : list N)
| VColl (k : collkind) (l : list val)                 (* elements in iteration order *)
| VDict (k : mapkind) (l : list (val * val))          (* items in iteration order; a TypedDict instance is a dict *)
| VNamed (fields : list string) (l : list val)        (* named tuple: cls._fields and the tuple contents; the class may be
                                                         a typing.NamedTuple, a collections.namedtuple or a subclass
                                                         of either (with or without own annotations, __slots__, __dict__):
                                                         the code reads only issubclass(tuple) and the inherited _fields *)
| VObj (c : clsdesc)
       (slotvals : list (string * val))               (* values held in slots *)
       (dict : option (list (string * val)))          (* instance __dict__ in insertion order; None: no __dict__ *)
       (clsattrs : list (string * val))               (* class attributes getattr can fall back to (ClassVar values) *)
| VIter (k : iterkind) (consumed : nat) (l : list val). (* one-shot iterator over l, [consumed] already taken *)

Definition tup (k v : val) : val := VColl KTuple [k; v].
Definition empty_tuple : val := VColl KTuple [].

(* ---------------------------------------------------------------------------------- *)
(* interpreter semantics of the objects (shared by model and specification)           *)
(* ---------------------------------------------------------------------------------- *)
Fixpoint chars (s : string) : list val :=
  match s with EmptyString => [] | String c r => VStr (String c EmptyString) :: chars r end.

(* what iterating the object produces (for one-shot iterators: what is left) *)
Definition elems (x : val) : list val :=
  match x with
  | VStr s => chars s
  | VBytes b => map (fun n => VInt (Z.of_N n)) b
  | VColl _ l => l
  | VNamed _ l => l
  | VDict _ l => map fst l
  | VIter _ n l => skipn n l
  | _ => []
  end.

(* pulling [drawn] elements from the object's own iterator: only one-shot iterators change *)
Definition advance (x : val) (drawn : nat) : val :=
  match x with VIter k n l => VIter k (n + drawn) l | _ => x end.

Fixpoint lookup (a : string) (l : list (string * val)) : option val :=
  match l with [] => None | (k, v) :: r => if String.eqb k a then Some v else lookup a r end.

Definition dict_items (d : option (list (string * val))) : list (string * val) :=
  match d with Some l => l | None => [] end.

(* getattr(val, a) on a structured instance *)
Definition attr (x : val) (a : string) : option val :=
  match x with
  | VObj _ sv d ca => lookup a (dict_items d ++ sv ++ ca)
  | _ => None
  end.

Definition is_private (s : string) : bool :=
  match s with String c _ => Ascii.eqb c "_"%char | EmptyString => false end.
Definition public (l : list string) : list string := filter (fun s => negb (is_private s)) l.
Definition public_items (l : list (string * val)) : list (string * val) :=
  filter (fun kv => negb (is_private (fst kv))) l.

Fixpoint enum_from (i : Z) (l : list val) : list (val * val) :=
  match l with [] => [] | v :: r => (VInt i, v) :: enum_from (i + 1) r end.
Definition enumerate (l : list val) : list (val * val) := enum_from 0 l.

(* ---------------------------------------------------------------------------------- *)
(* classes and the inspection predicates the code consults (on val.__class__)          *)
(* ---------------------------------------------------------------------------------- *)
Inductive cls :=
| CNone | CInt | CStr | CBytes | CColl (k : collkind) | CDict (k : mapkind)
| CNamed (fields : list string) | CObj (d : clsdesc) | CIter (k : iterkind).

Definition class_of (x : val) : cls :=
  match x with
  | VNone => CNone | VInt _ => CInt | VStr _ => CStr | VBytes _ => CBytes
  | VColl k _ => CColl k | VDict k _ => CDict k | VNamed f _ => CNamed f
  | VObj d _ _ _ => CObj d | VIter k _ _ => CIter k
  end.

Definition seq_kind (k : collkind) : bool :=
  match k with KList | KTuple | KDeque | KSet | KFrozenSet | KCustomSeq => true | _ => false end.
Definition sized_kind (k : collkind) : bool :=
  match k with KCustomIterable => false | _ => true end.

Definition isiterabletype (c : cls) : bool :=
  match c with CStr | CBytes | CColl _ | CDict _ | CNamed _ | CIter _ => true | _ => false end.
Definition ismappingtype (c : cls) : bool := match c with CDict _ => true | _ => false end.
(* obj in _COLLECTIONS or issubclass(obj, Sequence): set and frozenset count, their subclasses do not *)
Definition issequencetype (c : cls) : bool :=
  match c with CStr | CBytes | CNamed _ | CDict MDict => true | CColl k => seq_kind k | _ => false end.
Definition isnamedtuple (c : cls) : bool := match c with CNamed _ => true | _ => false end.
Definition iscollectiontype (c : cls) : bool :=
  match c with CStr | CBytes | CDict _ | CNamed _ => true | CColl k => sized_kind k | _ => false end.

(* len(v), consulted only after iscollectiontype *)
Definition py_len (v : val) : nat :=
  match v with
  | VStr s => String.length s | VBytes b => List.length b | VColl _ l => List.length l
  | VDict _ l => List.length l | VNamed _ l => List.length l | _ => 0
  end.

(* iscollectiontype(peek.__class__) and len(peek) == 2 *)
Definition is_pair_elem (v : val) : bool := iscollectiontype (class_of v) && Nat.eqb (py_len v) 2.

(* ---------------------------------------------------------------------------------- *)
(* more_itertools.peekable                                                            *)
(* ---------------------------------------------------------------------------------- *)
Record pk := { pk_cache : list val; pk_rest : list val; pk_drawn : nat }.
Definition pk_new (l : list val) : pk := {| pk_cache := []; pk_rest := l; pk_drawn := 0 |}.
(* peek() without default *)
Definition pk_peek (p : pk) : res (val * pk) :=
  match pk_cache p with
  | v :: _ => Ok (v, p)
  | [] => match pk_rest p with
          | [] => Raise EStopIter
          | v :: r => Ok (v, {| pk_cache := [v]; pk_rest := r; pk_drawn := S (pk_drawn p) |})
          end
  end.
(* peek(default) *)
Definition pk_peek_default (d : val) (p : pk) : val * pk :=
  match pk_peek p with Ok r => r | _ => (d, p) end.
(* iterating the peekable to exhaustion: the cached head first, then the rest *)
Definition pk_drain (p : pk) : list val * nat :=
  (pk_cache p ++ pk_rest p, pk_drawn p + List.length (pk_rest p)).

(* the second component of _is_iterable_of_pairs: the value itself or a peekable over it *)
Inductive itr := ItVal (x : val) | ItPeek (p : pk).

(* iterating [it] to exhaustion: the elements, and how many were pulled from x's own iterator *)
Definition iter_it (it : itr) : list val * nat :=
  match it with
  | ItVal x => (elems x, List.length (elems x))
  | ItPeek p => pk_drain p
  end.

(* ---------------------------------------------------------------------------------- *)
(* the two code variants                                                              *)
(* ---------------------------------------------------------------------------------- *)
Record cfg := {
  fix_namedtuple   : bool;   (* named tuples are excluded before the peek *)
  fix_peek_default : bool;   (* peekable.peek is given a default *)
  fix_no_sig_hints : bool;   (* _make_fields_iterator does not take field names from the signature *)
  fix_vars_nodict  : bool    (* the vars fallback tolerates instances without __dict__ of classes that declare __slots__ *)
}.
Definition pinned : cfg :=
  {| fix_namedtuple := false; fix_peek_default := false; fix_no_sig_hints := false; fix_vars_nodict := false |}.
Definition repaired : cfg :=
  {| fix_namedtuple := true; fix_peek_default := true; fix_no_sig_hints := true; fix_vars_nodict := true |}.

(* ---------------------------------------------------------------------------------- *)
(* serdes._is_iterable_of_pairs                                                       *)
(* ---------------------------------------------------------------------------------- *)
Definition is_iterable_of_pairs (c : cfg) (x : val) : res (bool * itr) :=
  let cl := class_of x in
  if negb (isiterabletype cl) || ismappingtype cl || (fix_namedtuple c && isnamedtuple cl)
  then Ok (false, ItVal x)
  else if issequencetype cl then
    let peek := hd empty_tuple (elems x) in               (* next(iter(val), ()) *)
    Ok (is_pair_elem peek, ItVal x)
  else
    let p := pk_new (elems x) in                          (* peekable(val) *)
    if fix_peek_default c then
      let '(v, p') := pk_peek_default empty_tuple p in Ok (is_pair_elem v, ItPeek p')
    else
      match pk_peek p with
      | Ok (v, p') => Ok (is_pair_elem v, ItPeek p')
      | Raise e => Raise e
      | Unmodelled => Unmodelled
      end.

(* ---------------------------------------------------------------------------------- *)
(* serdes.get_items_iter / _make_fields_iterator: a function of the class alone        *)
(* ---------------------------------------------------------------------------------- *)
(* SVars tolerant: the vars fallback; tolerant = the class declares __slots__, so an instance may lack __dict__ *)
Inductive strategy := SItems | SNamedTuple | SEnumerate | SFields (names : list string) | SVars (tolerant : bool).

Definition hints_of (c : cfg) (d : clsdesc) : list string :=   (* inspection.get_type_hints(tp[, exhaustive]) *)
  if fix_no_sig_hints c then c_hints d
  else match c_hints d with [] => c_sig d | h => h end.

Definition make_fields_iterator (c : cfg) (d : clsdesc) : strategy :=
  let attribs := if c_dataclass d then public (c_dc_fields d) else public (hints_of c d) in
  let attribs := match attribs, c_slots d with
                 | [], Some sl => public sl
                 | a, _ => a
                 end in
  match attribs with
  | [] => SVars (fix_vars_nodict c && match c_slots d with Some _ => true | None => false end)
  | a => SFields a
  end.

Definition get_items_iter (c : cfg) (cl : cls) : res strategy :=
  match cl with
  | CNone | CInt => Unmodelled                     (* scalars are outside the quantifier *)
  | _ =>
    if ismappingtype cl then Ok SItems
    else if isnamedtuple cl then Ok SNamedTuple
    else if isiterabletype cl then Ok SEnumerate
    else match cl with CObj d => Ok (make_fields_iterator c d) | _ => Unmodelled end
  end.

(* ((a, getattr(val, a)) for a in public_attribs) *)
Fixpoint fields_items (x : val) (names : list string) : res (list (val * val)) :=
  match names with
  | [] => Ok []
  | a :: r =>
    match attr x a with
    | None => Raise EAttribute
    | Some v => match fields_items x r with
                | Ok t => Ok ((VStr a, v) :: t)
                | Raise e => Raise e
                | Unmodelled => Unmodelled
                end
    end
  end.

Definition str_items (l : list (string * val)) : list (val * val) :=
  map (fun kv => (VStr (fst kv), snd kv)) l.

(* iterate(it), consumed to exhaustion: the (key, value) pairs and how many elements were pulled
   from x's own iterator.  Combinations the dispatch cannot produce are Unmodelled. *)
Definition apply_strategy (c : cfg) (s : strategy) (it : itr) : res (list (val * val)) * nat :=
  match s, it with
  | SEnumerate, _ => let '(l, d) := iter_it it in (Ok (enumerate l), d)
  | SItems, ItVal (VDict _ l) => (Ok l, 0)
  | SNamedTuple, ItVal (VNamed f l) => (Ok (combine (map VStr f) l), 0)     (* zip(val._fields, val) *)
  | SFields names, ItVal x => (fields_items x names, 0)
  | SVars _, ItVal (VObj _ _ (Some d) _) => (Ok (str_items (public_items d)), 0)
  | SVars tolerant, ItVal (VObj _ _ None _) =>
      (if tolerant then Ok [] else Raise EType, 0)                          (* vars() needs __dict__ *)
  | _, _ => (Unmodelled, 0)
  end.

Definition map_res {A B} (f : A -> B) (r : res A) : res B :=
  match r with Ok a => Ok (f a) | Raise e => Raise e | Unmodelled => Unmodelled end.

(* ---------------------------------------------------------------------------------- *)
(* serdes.iteritems / serdes.itervalues, consumed with list(); second component: x afterwards *)
(* ---------------------------------------------------------------------------------- *)
Definition iteritems (c : cfg) (x : val) : res (list val) * val :=
  match is_iterable_of_pairs c x with
  | Raise e => (Raise e, x)
  | Unmodelled => (Unmodelled, x)
  | Ok (true, it) => let '(l, d) := iter_it it in (Ok l, advance x d)
  | Ok (false, it) =>
    match get_items_iter c (class_of x) with
    | Ok s => let '(r, d) := apply_strategy c s it in
              (map_res (map (fun kv => tup (fst kv) (snd kv))) r, advance x d)
    | Raise e => (Raise e, x)
    | Unmodelled => (Unmodelled, x)
    end
  end.

Definition itervalues (c : cfg) (x : val) : res (list val) * val :=
  match get_items_iter c (class_of x) with
  | Ok s => let '(r, d) := apply_strategy c s (ItVal x) in (map_res (map snd) r, advance x d)
  | Raise e => (Raise e, x)
  | Unmodelled => (Unmodelled, x)
  end.

(* ---------------------------------------------------------------------------------- *)
(* the specification: the property statement, read directly                           *)
(* ---------------------------------------------------------------------------------- *)
(* the public fields of a structured instance, by the way its class was written *)
Definition spec_obj_pairs (x : val) : list (val * val) :=
  match x with
  | VObj d sv dict ca =>
    let declared := match c_flavour d with
                    | FDataclass => public (c_dc_fields d)
                    | FAnnotated => public (c_hints d)
                    | FSlots => public (match c_slots d with Some sl => sl | None => [] end)
                    | FVars => []
                    end in
    match c_flavour d with
    | FVars => str_items (public_items (dict_items dict))
    | _ => flat_map (fun a => match attr x a with Some v => [(VStr a, v)] | None => [] end) declared
    end
  | _ => []
  end.

(* (key, value) / (field, value) / (index, element) *)
Definition spec_pairs (x : val) : list (val * val) :=
  match x with
  | VDict _ l => l
  | VNamed f l => combine (map VStr f) l
  | VObj _ _ _ _ => spec_obj_pairs x
  | _ => enumerate (elems x)
  end.

(* an iterable is "of pairs" when its first element is one; any collection of length 2 counts
   (resolution in favour of the code, see notes/C18.md) *)
Definition first_is_pair (l : list val) : bool :=
  match l with e :: _ => is_pair_elem e | [] => false end.

Definition spec_items (x : val) : list val :=
  match x with
  | VDict _ _ | VNamed _ _ | VObj _ _ _ _ => map (fun kv => tup (fst kv) (snd kv)) (spec_pairs x)
  | _ => if first_is_pair (elems x) then elems x
         else map (fun kv => tup (fst kv) (snd kv)) (spec_pairs x)
  end.
Definition spec_values (x : val) : list val := map snd (spec_pairs x).
(* x afterwards: unchanged, except that a one-shot iterator is exhausted *)
Definition spec_after (x : val) : val :=
  match x with VIter k n l => VIter k (List.length l) l | _ => x end.

(* ---------------------------------------------------------------------------------- *)
(* the guard: x is one of the objects of the quantifier, and well formed               *)
(* ---------------------------------------------------------------------------------- *)
Definition has_attr (x : val) (a : string) : bool := match attr x a with Some _ => true | None => false end.
Definition is_nil {A} (l : list A) : bool := match l with [] => true | _ => false end.

Definition wf_obj (x : val) : bool :=
  match x with
  | VObj d sv dict ca =>
    let pub_slots := public (match c_slots d with Some sl => sl | None => [] end) in
    let pub_vars := public_items (dict_items dict) in
    (* only an instance of a class that declares __slots__ can be without __dict__ *)
    match dict, c_slots d with None, None => false | _, _ => true end &&
    match c_flavour d with
    | FDataclass =>
        c_dataclass d && forallb (has_attr x) (public (c_dc_fields d)) &&
        (negb (is_nil (public (c_dc_fields d))) || (is_nil pub_slots && is_nil pub_vars))
    | FAnnotated =>
        negb (c_dataclass d) && forallb (has_attr x) (public (c_hints d)) &&
        (negb (is_nil (public (c_hints d))) || (is_nil pub_slots && is_nil pub_vars))
    | FSlots =>
        negb (c_dataclass d) && is_nil (public (c_hints d)) &&
        match c_slots d with Some _ => true | None => false end &&
        forallb (has_attr x) pub_slots &&
        (negb (is_nil pub_slots) || is_nil pub_vars)
    | FVars =>
        negb (c_dataclass d) && is_nil (public (c_hints d)) && is_nil pub_slots
    end
  | _ => false
  end.

Definition guard (x : val) : bool :=
  match x with
  | VNone | VInt _ => false
  | VObj _ _ _ _ => wf_obj x
  | VNamed f l => Nat.eqb (List.length f) (List.length l)
  | VIter _ n l => Nat.leb n (List.length l)
  | _ => true
  end.

Definition is_oneshot (x : val) : bool := match x with VIter _ _ _ => true | _ => false end.
