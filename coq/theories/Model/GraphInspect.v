(* Bridge between the graph model (Model/Graph.v, property C09) and the inspection model (Model/Inspect.v,
   property C17).  Definitions only.

   Graph.v carries its own copies of the parts of py/inspection.py that graph.py calls (unwrap, args,
   issubscriptedgeneric, isstdlibtype, isfixedtupletype, qualname ...) over its annotation language [gty].
   Inspect.v is the line-by-line model of inspection.py over [ity], with every interpreter fact in a [tables]
   record that is regenerated from the live module on every run.  This file defines
     - [tr]       : the translation gty -> ity (one spelling of Graph.v = the constructor of that spelling in Inspect.v),
     - [base_ok]  : the finite facts about the reflected tables that the agreement proofs consume (decided by
                    vm_compute on every run, in coq/dyn/GraphInspect/GraphInspect.v),
     - [row_ok]   : what the class-info row of a structured class of Graph's environment must say,
     - [class_row], [rows_of], [ext] : the rows as a function of Graph's class environment (a model-side
                    witness that every finite environment has rows; the tie reads the rows of live classes),
     - the computable guards of the agreement theorems,
     - the comparison functions of the per-run stream (live inspection answers vs both models). *)
From Coq Require Import List Arith Bool NArith ZArith String Ascii.
Import ListNotations.
Require TL.Model.Graph TL.Model.Inspect TL.Model.InspectSpec.

Module G := TL.Model.Graph.
Module I := TL.Model.Inspect.
Module IS := TL.Model.InspectSpec.

Local Open Scope string_scope.
Local Open Scope list_scope.
Local Notation "a +++ b" := (String.append a b) (right associativity, at level 60).

(* ------------------------------------------------------------------------------------------- *)
(* names: where the objects Graph.v names live in the tables of Inspect.v                        *)
(* ------------------------------------------------------------------------------------------- *)
Record names := {
  n_cls : G.cname -> I.cls;     (* class id of the structured class c of Graph's environment *)
  n_enum : I.cls;               (* verif_c09_enum.Color *)
  n_deque : I.cls;              (* collections.deque (a catalogue class without a fixed id in Inspect.v) *)
  n_List : N;                   (* the typing aliases typing.List / typing.Dict / typing.Sequence *)
  n_Dict : N;
  n_Sequence : N
}.

Definition sid (Nm : names) (s : G.scalar) : I.cls :=
  match s with
  | G.SInt => I.c_int | G.SStr => I.c_str | G.SFloat => I.c_float | G.SBool => I.c_bool
  | G.SBytes => I.c_bytes | G.SDecimal => I.c_Decimal | G.SDatetime => I.c_datetime
  | G.SDate => I.c_date | G.SUuid => I.c_UUID | G.SFraction => I.c_Fraction
  | G.SPurePath => I.c_PurePath | G.SEnum => n_enum Nm
  end.

Definition all_scalars : list G.scalar :=
  [G.SInt; G.SStr; G.SFloat; G.SBool; G.SBytes; G.SDecimal; G.SDatetime; G.SDate; G.SUuid; G.SFraction;
   G.SPurePath; G.SEnum].
Definition all_gens : list G.gen :=
  [G.GList; G.GSet; G.GFrozenset; G.GDict; G.GTuple; G.GDeque; G.GTList; G.GTDict; G.GTSequence].

(* a subscripted generic in the spelling Graph.v prints: builtin / collections classes are types.GenericAlias
   objects (IClassSub), typing.X[..] are typing aliases (ITypingSub) *)
Definition tr_gen (Nm : names) (g : G.gen) (a : list I.ity) : I.ity :=
  match g with
  | G.GList => I.IClassSub I.c_list a
  | G.GSet => I.IClassSub I.c_set a
  | G.GFrozenset => I.IClassSub I.c_frozenset a
  | G.GDict => I.IClassSub I.c_dict a
  | G.GTuple => I.IClassSub I.c_tuple a
  | G.GDeque => I.IClassSub (n_deque Nm) a
  | G.GTList => I.ITypingSub (n_List Nm) a
  | G.GTDict => I.ITypingSub (n_Dict Nm) a
  | G.GTSequence => I.ITypingSub (n_Sequence Nm) a
  end.
(* the origin class typing.get_origin answers for the generic *)
Definition gen_origin (T : I.tables) (Nm : names) (g : G.gen) : I.cls :=
  match g with
  | G.GList => I.c_list | G.GSet => I.c_set | G.GFrozenset => I.c_frozenset | G.GDict => I.c_dict
  | G.GTuple => I.c_tuple | G.GDeque => n_deque Nm
  | G.GTList => I.ta_origin T (n_List Nm) | G.GTDict => I.ta_origin T (n_Dict Nm)
  | G.GTSequence => I.ta_origin T (n_Sequence Nm)
  end.

Definition tr_sp (sp : G.uspell) : I.uspell :=
  match sp with G.UOptional => I.UOptional | G.UUnion => I.UUnion | G.UPipe => I.UPipe end.

(* The translation.  NewType / alias objects lose their module: Inspect.v creates all of them in ONE module
   ([I.user_module]); a ForwardRef keeps the module it names. *)
Fixpoint tr (Nm : names) (t : G.gty) : I.ity :=
  match t with
  | G.GScalar s => I.IClass (sid Nm s)
  | G.GNone => I.IClass I.c_NoneType
  | G.GEllipsis => I.IEllipsis
  | G.GAny => I.IClass I.c_Any
  | G.GLit n => I.ILiteral [I.LInt (Z.of_nat n)]
  | G.GGen g a => tr_gen Nm g (map (tr Nm) a)
  | G.GUnion sp ms => I.IUnion (tr_sp sp) (map (tr Nm) ms)
  | G.GClass c => I.IClass (n_cls Nm c)
  | G.GNewType _ n x => I.INewType n (tr Nm x)
  | G.GAlias _ n x => I.IAlias n (tr Nm x)
  | G.GAliasStr _ n body => I.IAliasStr n body
  | G.GFinal x => I.IFinal (tr Nm x)
  | G.GRef a mo => I.IForwardRef a mo
  end.

(* ------------------------------------------------------------------------------------------- *)
(* shapes                                                                                        *)
(* ------------------------------------------------------------------------------------------- *)
(* what inspection._resolve_wrappers reaches: NewType supertypes and alias values, however nested *)
Fixpoint wcore (t : G.gty) : G.gty :=
  match t with G.GNewType _ _ x | G.GAlias _ _ x => wcore x | _ => t end.
(* what Graph.unwrap walks along (Final, alias value, NewType supertype): its length and its end *)
Fixpoint wsize (t : G.gty) : nat :=
  match t with G.GFinal x | G.GAlias _ _ x | G.GNewType _ _ x => S (wsize x) | _ => 0 end.
Fixpoint wend (t : G.gty) : G.gty :=
  match t with G.GFinal x | G.GAlias _ _ x | G.GNewType _ _ x => wend x | _ => t end.

Definition is_wrapper (t : G.gty) : bool :=
  match t with G.GNewType _ _ _ | G.GAlias _ _ _ => true | _ => false end.
Definition is_final (t : G.gty) : bool := match t with G.GFinal _ => true | _ => false end.
Definition is_none (t : G.gty) : bool := match t with G.GNone => true | _ => false end.
Definition is_ellipsis (t : G.gty) : bool := match t with G.GEllipsis => true | _ => false end.
Definition is_any (t : G.gty) : bool := match t with G.GAny => true | _ => false end.

Definition nb (s : string) : bool := negb (I.has_char "["%char s).

(* ------------------------------------------------------------------------------------------- *)
(* guards of the agreement theorems (all computable)                                             *)
(* ------------------------------------------------------------------------------------------- *)
(* unwrap: a string alias at the end of the wrapper chain lives in the one module of Inspect.v's universe *)
Definition unwrap_guard (t : G.gty) : bool :=
  match wend t with
  | G.GAliasStr m _ _ => String.eqb m I.user_module
  | _ => true
  end.

(* args: Graph.args_of is only asked on unwrapped non-literal parents *)
Definition args_guard (t : G.gty) : bool := negb (G.is_literal t) && negb (is_final t).

(* issubscriptedgeneric: no "[" in the names that str() prints where the answer hangs on them *)
Fixpoint nobr (E : G.env) (t : G.gty) : bool :=
  match t with
  | G.GClass c => match E c with Some d => nb (G.cmodule d) && nb (G.cqual d) | None => false end
  | G.GNewType m _ _ => nb m
  | G.GRef _ (Some m) => nb m
  | G.GUnion G.UPipe ms =>
      (fix all (l : list G.gty) : bool := match l with [] => true | x :: r => nobr E x && all r end) ms
  | _ => true
  end.

(* isstdlibtype: no union hidden behind a NewType / alias (at the top or as a union member) *)
Definition wrapped_union (t : G.gty) : bool := is_wrapper t && G.is_union (wcore t).
Fixpoint std_guard (t : G.gty) : bool :=
  match t with
  | G.GUnion _ ms =>
      (fix all (l : list G.gty) : bool := match l with [] => true | x :: r => std_guard x && all r end) ms
  | _ => negb (wrapped_union t)
  end.

(* a ForwardRef whose text starts with "Literal" counts as a literal for inspection.isliteral *)
Definition ref_literal (t : G.gty) : bool :=
  match t with G.GRef a _ => I.prefixb "Literal" a | _ => false end.

(* inspection.isliteral on any annotation: a Literal behind NewTypes / aliases, or a reference named Literal.. *)
Definition lit_core (t : G.gty) : bool := match wcore t with G.GLit _ => true | _ => false end.

(* what isstructuredtype answers on the image of an unwrapped annotation *)
Definition structured_g (t : G.gty) : bool :=
  match t with
  | G.GScalar s => negb (G.scalar_stdlib s)
  | G.GNone => false
  | G.GEllipsis | G.GAny | G.GClass _ => true
  | G.GLit _ | G.GUnion _ _ => false
  | G.GGen _ _ => G.is_fixed_tuple t
  | G.GRef a _ => negb (I.prefixb "Literal" a)
  | _ => false
  end.
Definition plain (t : G.gty) : bool :=
  match t with G.GNewType _ _ _ | G.GAlias _ _ _ | G.GAliasStr _ _ _ | G.GFinal _ => false | _ => true end.

(* qualname: the names carry nothing that makes str() look like a typing generic; class names carry no
   "<locals>." (function-local classes are outside Graph.v's universe) *)
Definition typing_text (s : string) : bool :=
  I.prefixb "typing." s || I.prefixb "typing_extensions." s || I.has_char "["%char s.
Definition qual_guard (E : G.env) (t : G.gty) : bool :=
  match t with
  | G.GClass c =>
      match E c with
      | Some d => nb (G.cmodule d) && nb (G.cqual d) && String.eqb (I.replace_locals 200 (G.cqual d)) (G.cqual d)
      | None => false
      end
  | G.GNewType _ n _ => nb n
  | G.GAlias _ n _ | G.GAliasStr _ n _ => negb (typing_text n)
  | G.GGen _ _ | G.GUnion _ _ | G.GFinal _ => false     (* never asked by graph.py's reference branch *)
  | _ => true
  end.

(* ------------------------------------------------------------------------------------------- *)
(* what the proofs need from the tables                                                          *)
(* ------------------------------------------------------------------------------------------- *)
Definition simple_key (k : I.ity) : bool :=
  match k with I.IClass _ | I.ITyping _ | I.IEllipsis | I.ISpecial _ => true | _ => false end.
Definition is_special (o : I.ity) : bool := match o with I.ISpecial _ => true | _ => false end.
(* an origin() result that is neither a union origin nor a special form *)
Definition og_plain (o : I.ity) : bool := negb (I.isunionorigin o) && negb (is_special o).

(* the class id k is unknown to every table of inspection.py *)
Definition fresh_cls (T : I.tables) (k : I.cls) : bool :=
  negb (I.memN k (I.t_builtin T)) && negb (I.memN k (I.t_stdlib T))
  && match I.assoc_ity (I.IClass k) (I.t_generic_map T) with None => true | Some _ => false end
  && negb (I.mem_ity (I.IClass k) (I.t_unresolvable T))
  && negb (N.eqb k I.c_UnionType) && negb (N.eqb k I.c_NoneType) && negb (N.eqb k I.c_Any)
  && negb (N.eqb k I.c_Generic).

(* the class-info row of a structured class of Graph's environment: the three texts are those of the class
   definition; the class is structured for inspection.py (no stdlib class among its ancestors, or a NamedTuple,
   or a TypedDict) *)
Definition class_str (d : G.classdef) : string := "<class '" +++ G.cmodule d +++ "." +++ G.cqual d +++ "'>".
Definition class_trepr (d : G.classdef) : string := G.cmodule d +++ "." +++ G.cqual d.
Definition row_ok (T : I.tables) (d : G.classdef) (i : I.clsinfo) : bool :=
  String.eqb (I.ci_str i) (class_str d)
  && String.eqb (I.ci_qualname i) (G.cqual d)
  && String.eqb (I.ci_trepr i) (class_trepr d)
  && (negb (existsb (fun b => I.memN b (I.ci_supers i)) (I.t_stdlib T))
      || (I.memN I.c_tuple (I.ci_supers i) && I.ci_fields i)
      || (I.memN I.c_dict (I.ci_supers i) && I.ci_total i)).
(* every class name of Graph.v has an id no table of inspection.py knows; a class of the environment has a row
   that says what its definition says, an undefined name has no row *)
Definition rows_ok (T : I.tables) (Nm : names) (E : G.env) : Prop :=
  forall c,
    fresh_cls T (n_cls Nm c) = true
    /\ match E c with
       | Some d => exists i, I.cinfo T (n_cls Nm c) = Some i /\ row_ok T d i = true
       | None => I.cinfo T (n_cls Nm c) = None
       end.

Definition beq_ity := I.ity_eqb.

(* the finite table facts, one conjunct per use in Proofs/GraphInspect.v *)
Definition scalar_ok (T : I.tables) (Nm : names) (s : G.scalar) : bool :=
  let c := I.IClass (sid Nm s) in
  true
  && Bool.eqb (I.memN (sid Nm s) (I.t_stdlib T)) (G.scalar_stdlib s)             (* membership in STDLIB_TYPES *)
  && String.eqb (I.cstr T I.ci_trepr (sid Nm s)) (G.show (fun _ => None) (G.GScalar s))   (* module and name *)
  && nb (I.cstr T I.ci_str (sid Nm s))
  && String.eqb (I.qualname T c) (G.scalar_name s)
  && og_plain (IS.finish T c)
  && Bool.eqb (I.isstdlibsubtype T (IS.finish T c)) (G.scalar_stdlib s)
  && negb (N.eqb (sid Nm s) I.c_NoneType) && negb (N.eqb (sid Nm s) I.c_Any)
  && negb (I.mem_ity c (I.t_unresolvable T))
  && negb (I.isnamedtuple T c) && negb (I.istypeddict T c).
Definition gen_ok (T : I.tables) (Nm : names) (g : G.gen) : bool :=
  let o := I.IClass (gen_origin T Nm g) in
  true
  && og_plain (IS.finish T o)
  && I.isstdlibsubtype T (IS.finish T o)
  && Bool.eqb (I.safe_issubclass T o [I.c_tuple]) (G.gen_is_tuple g)
  && negb (I.mem_ity o (I.t_unresolvable T))
  && String.eqb (I.before_char "["%char (I.show T (tr_gen Nm g []))) (G.gen_name g).   (* the printed origin *)
Definition base_ok (T : I.tables) (Nm : names) : bool :=
  true
  && IS.tables_ok T
  && forallb (scalar_ok T Nm) all_scalars
  && forallb (gen_ok T Nm) all_gens
  && forallb (fun kv => simple_key (fst kv)) (I.t_generic_map T)
  && forallb simple_key (I.t_unresolvable T)
  (* NoneType, typing.Any, Ellipsis *)
  && I.memN I.c_NoneType (I.t_stdlib T) && negb (I.memN I.c_Any (I.t_stdlib T))
  && og_plain (IS.finish T (I.IClass I.c_NoneType)) && og_plain (IS.finish T (I.IClass I.c_Any))
  && og_plain (IS.finish T I.IEllipsis)
  && I.isstdlibsubtype T (IS.finish T (I.IClass I.c_NoneType))
  && negb (I.isstdlibsubtype T (IS.finish T (I.IClass I.c_Any)))
  && negb (I.isstdlibsubtype T (IS.finish T I.IEllipsis))
  && nb (I.cstr T I.ci_str I.c_NoneType) && nb (I.cstr T I.ci_trepr I.c_NoneType)
  && String.eqb (I.cstr T I.ci_str I.c_Any) "typing.Any" && String.eqb (I.cstr T I.ci_trepr I.c_Any) "typing.Any"
  && String.eqb (I.qualname T (I.IClass I.c_NoneType)) "NoneType"
  && negb (I.mem_ity (I.IClass I.c_NoneType) (I.t_unresolvable T))
  && I.mem_ity (I.IClass I.c_Any) (I.t_unresolvable T) && I.mem_ity I.IEllipsis (I.t_unresolvable T)
  && negb (I.mem_ity I.INone (I.t_unresolvable T))
  && negb (I.isnamedtuple T (I.IClass I.c_NoneType)) && negb (I.istypeddict T (I.IClass I.c_NoneType))
  (* the special forms are their own origin; no table names a union origin, Literal, Final *)
  && beq_ity (IS.finish T (I.ISpecial I.SLiteral)) (I.ISpecial I.SLiteral)
  && beq_ity (IS.finish T (I.ISpecial I.SFinal)) (I.ISpecial I.SFinal)
  && negb (I.mem_ity (I.ISpecial I.SUnion) (I.t_unresolvable T))
  && negb (I.mem_ity (I.IClass I.c_UnionType) (I.t_unresolvable T))
  && negb (I.mem_ity (I.ISpecial I.SLiteral) (I.t_unresolvable T))
  && negb (I.mem_ity (I.ISpecial I.SFinal) (I.t_unresolvable T))
  && negb (I.subclass T I.c_UnionType I.c_tuple).

(* ------------------------------------------------------------------------------------------- *)
(* finite environments: one list gives Graph's environment, the class ids and (checked) the rows  *)
(* ------------------------------------------------------------------------------------------- *)
Definition cenv := list (G.cname * (I.cls * G.classdef)).
Definition env_of_cenv (cl : cenv) : G.env := G.env_of (map (fun x => (fst x, snd (snd x))) cl).
Fixpoint ncls_of (cl : cenv) (c : G.cname) : I.cls :=
  match cl with
  | [] => 0%N
  | (k, (i, _)) :: r => if Nat.eqb k c then i else ncls_of r c
  end.
Definition mk_names (cl : cenv) (enum deque : I.cls) (aList aDict aSeq : N) : names :=
  {| n_cls := ncls_of cl; n_enum := enum; n_deque := deque; n_List := aList; n_Dict := aDict; n_Sequence := aSeq |}.

Definition no_row (T : I.tables) (k : I.cls) : bool :=
  match I.cinfo T k with None => true | Some _ => false end.
(* decides [rows_ok T (mk_names cl ..) (env_of_cenv cl)]: the id 0 (every name outside the list) is unknown to the
   tables; every listed class has a fresh id and a row that says what its definition says *)
Definition rows_okb (T : I.tables) (cl : cenv) : bool :=
  fresh_cls T 0%N && no_row T 0%N
  && forallb (fun x => fresh_cls T (fst (snd x))
                       && match I.cinfo T (fst (snd x)) with Some i => row_ok T (snd (snd x)) i | None => false end) cl.

(* the rows as a function of Graph's class environment: a plain class (ancestors: itself and object) *)
Definition class_row (k : I.cls) (d : G.classdef) : I.clsinfo :=
  {| I.ci_supers := [k; I.c_object]; I.ci_str := class_str d; I.ci_qualname := G.cqual d;
     I.ci_trepr := class_trepr d; I.ci_total := false; I.ci_fields := false; I.ci_annots := true;
     I.ci_fromdict := false; I.ci_frozen := false; I.ci_abstract := false; I.ci_hash := true;
     I.ci_cls_descr := false; I.ci_inst_descr := false; I.ci_inst_routine := false; I.ci_abcmeta := false;
     I.ci_is_typeddict := false; I.ci_is_namedtuple := false |}.
Definition rows_of (cl : cenv) : list (I.cls * I.clsinfo) :=
  map (fun x => (fst (snd x), class_row (fst (snd x)) (snd (snd x)))) cl.
Definition ext (T : I.tables) (rows : list (I.cls * I.clsinfo)) : I.tables :=
  {| I.t_cls := rows ++ I.t_cls T; I.t_talias := I.t_talias T; I.t_generic_map := I.t_generic_map T;
     I.t_builtin := I.t_builtin T; I.t_stdlib := I.t_stdlib T; I.t_unresolvable := I.t_unresolvable T;
     I.t_collections := I.t_collections T; I.t_mapping_types := I.t_mapping_types T; I.t_abcs := I.t_abcs T |}.

(* ------------------------------------------------------------------------------------------- *)
(* the per-run stream: answers of the live inspection functions on an annotation object, compared  *)
(* with Graph.v's local copy AND with Inspect.v on the translated annotation                       *)
(* ------------------------------------------------------------------------------------------- *)
Record obs := {
  o_unwrap : option G.gty;            (* inspection.unwrap(t), described in Graph's language; None: not describable *)
  o_args : option (list G.gty);       (* inspection.args(t) *)
  o_sub : bool;                       (* issubscriptedgeneric *)
  o_std : bool;                       (* isstdlibtype *)
  o_struct : bool;                    (* isstructuredtype *)
  o_union : bool;                     (* isuniontype *)
  o_lit : bool;                       (* isliteral *)
  o_ref : bool;                       (* isforwardref *)
  o_su : bool;                        (* should_unwrap *)
  o_ft : bool;                        (* isfixedtupletype *)
  o_unres : bool;                     (* isunresolvable *)
  o_qual : string;                    (* qualname *)
  o_c17 : option I.ity                (* the SAME object as C17's own encoder describes it (None: outside its language) *)
}.

Definition res_eqb (r : I.res I.ity) (x : I.ity) : bool :=
  match r with I.Ok y => I.ity_eqb y x | I.Raise _ => false end.
Definition gtys_eqb (a b : list G.gty) : bool :=
  (fix go (x y : list G.gty) : bool :=
     match x, y with [], [] => true | u :: x', v :: y' => G.gty_eqb u v && go x' y' | _, _ => false end) a b.

(* clause numbers: 1 unwrap, 2 args, 3 issubscriptedgeneric, 4 isstdlibtype, 5 isstructuredtype, 6 isuniontype,
   7 isliteral, 8 isforwardref, 9 should_unwrap, 10 isfixedtupletype, 11 isunresolvable, 12 qualname;
   + 100: the same clause on the Inspect side.  A clause is compared inside its guard only.
   13: tr of C09's description of the object = C17's description of the object (one object, two encoders). *)
Definition chk (n : nat) (guard ok : bool) : list nat := if guard && negb ok then [n] else [].
Definition check_obs (T : I.tables) (Nm : names) (E : G.env) (t : G.gty) (o : obs) : list nat :=
  let x := tr Nm t in
  let gw := plain t in
  (match o_unwrap o with
   | Some u => chk 1 true (G.gty_eqb (G.unwrap t) u)
               ++ chk 101 (unwrap_guard t && Nat.ltb (wsize t) 200) (res_eqb (I.unwrap T x) (tr Nm u))
   | None => []
   end)
  ++ (match o_args o with
      | Some a => chk 2 (args_guard t) (gtys_eqb (G.args_of t) a)
                  ++ chk 102 (args_guard t) (I.itys_eqb (I.args x) (map (tr Nm) a))
      | None => []
      end)
  ++ chk 3 (nobr E t) (Bool.eqb (G.is_subscripted E t) (o_sub o))
  ++ chk 103 (nobr E t) (Bool.eqb (I.issubscriptedgeneric T x) (o_sub o))
  ++ chk 4 (std_guard t) (Bool.eqb (G.is_stdlib t) (o_std o))
  ++ chk 104 true (Bool.eqb (I.isstdlibtype T x) (o_std o))
  ++ chk 5 gw (Bool.eqb (structured_g t) (o_struct o))
  ++ chk 105 true (Bool.eqb (I.isstructuredtype T x) (o_struct o))
  ++ chk 6 true (Bool.eqb (G.is_union (wcore t)) (o_union o))
  ++ chk 106 true (Bool.eqb (I.isuniontype T x) (o_union o))
  ++ chk 7 (negb (is_wrapper t)) (Bool.eqb (G.is_literal t) (o_lit o))
  ++ chk 107 true (Bool.eqb (I.isliteral T x) (o_lit o))
  ++ chk 8 true (Bool.eqb (G.is_ref t) (o_ref o))
  ++ chk 108 true (Bool.eqb (I.isforwardref x) (o_ref o))
  ++ chk 9 true (Bool.eqb (G.should_unwrap t) (o_su o))
  ++ chk 109 true (Bool.eqb (I.should_unwrap T x) (o_su o))
  ++ chk 10 true (Bool.eqb (G.is_fixed_tuple t) (o_ft o))
  ++ chk 110 true (Bool.eqb (I.isfixedtupletype T x) (o_ft o))
  ++ chk 11 true (Bool.eqb (is_ellipsis t || is_any t) (o_unres o))
  ++ chk 111 true (Bool.eqb (I.isunresolvable T x) (o_unres o))
  ++ chk 12 (qual_guard E t) (String.eqb (G.qualname E t) (o_qual o))
  ++ chk 112 (qual_guard E t) (String.eqb (I.qualname T x) (o_qual o))
  ++ match o_c17 o with Some y => chk 13 true (I.ity_eqb x y) | None => [] end.

(* one generated module: the class list, the annotations with what the implementation answered *)
Definition gcase := (cenv * list (G.gty * obs))%type.
(* (annotation index from 1, failing clause); (0, 200): the rows of the class list are not accepted *)
Definition case_fails (T : I.tables) (enum deque : I.cls) (aList aDict aSeq : N) (c : gcase) : list (nat * nat) :=
  let Nm := mk_names (fst c) enum deque aList aDict aSeq in
  let E := env_of_cenv (fst c) in
  (if rows_okb T (fst c) then [] else [(0, 200)])
  ++ (fix go (i : nat) (l : list (G.gty * obs)) : list (nat * nat) :=
        match l with
        | [] => []
        | (t, o) :: r => map (fun n => (i, n)) (check_obs T Nm E t o) ++ go (S i) r
        end) 1 (snd c).
(* (case index from 0, annotation index, clause) *)
Definition mismatches (T : I.tables) (enum deque : I.cls) (aList aDict aSeq : N) (cs : list gcase)
  : list (nat * nat * nat) :=
  (fix go (i : nat) (l : list gcase) : list (nat * nat * nat) :=
     match l with
     | [] => []
     | c :: r => map (fun p => (i, fst p, snd p)) (case_fails T enum deque aList aDict aSeq c) ++ go (S i) r
     end) 0 cs.
(* how many (annotation, clause) pairs fall outside a guard (reported, not compared) *)
Definition outside_count (E : G.env) (t : G.gty) : nat :=
  (if unwrap_guard t then 0 else 1) + (if args_guard t then 0 else 1) + (if nobr E t then 0 else 1)
  + (if std_guard t then 0 else 1) + (if plain t then 0 else 1) + (if qual_guard E t then 0 else 1).
