(* Model/IsoHistory.v -- C04: HISTORIES of the operations that emit the ISO-8601 text of a temporal value
   (serdes.isoformat, marshal = ToISOTimeMarshaller.__call__, unmarshal(str, .) = StringUnmarshaller,
   unmarshal(bytes, .) = BytesUnmarshaller), threaded through the only state serdes.isoformat has.
   DEFINITIONS ONLY.

   serdes.isoformat: a date / time / datetime is handed to the interpreter's own isoformat() on EVERY call (no
   memo: equal instants written with different UTC offsets compare and hash equal); a timedelta goes through
   _isoduration, an lru_cache keyed on timedelta equality.  A timedelta of the model IS its normalised triple
   (days, seconds, microseconds): that is what timedelta equality and hashing look at whatever the constructor
   spelling or subclass (pendulum.Duration), and -- with proposed_fixes/C04-9 -- what the writer reads ([+td]). *)
From Coq Require Import List ZArith Ascii String Bool.
Import ListNotations.
Require Import TL.Model.Duration.
Require Import TL.Model.Temporal.
Require Import TL.Model.Scalars.
Open Scope Z_scope.

(* the four emitting operations *)
Inductive hop := HIso | HMarshal | HStr | HBytes.
(* the state: the entries of _isoduration's cache *)
Definition memo := list ((Z * Z * Z) * string).
(* every entry was computed by the writer from its own key *)
Definition memo_ok (m : memo) : Prop := Forall (fun e => snd e = iso_duration (fst e)) m.

Section WithRuntime.
Variable rt : Runtime.

(* one call of serdes.isoformat in state [m] *)
Definition iso_step (m : memo) (v : val) : memo * string :=
  match v with
  | VTimeDelta d s us =>
      match memo_find (d, s, us) m with
      | Some t => (m, t)
      | None => let t := iso_duration (d, s, us) in (((d, s, us), t) :: m, t) end
  | _ => (m, canon_text rt v) end.

(* what the operation hands back for the text [t] *)
Definition hop_out (o : hop) (t : string) : val :=
  match o with HBytes => VText CBytes (utf8_encode rt t) | _ => VText CStr t end.

(* the observations of a history, caches shared along it *)
Fixpoint run_hist (m : memo) (h : list (hop * val)) : list val :=
  match h with
  | [] => []
  | (o, v) :: r => let '(m', t) := iso_step m v in hop_out o t :: run_hist m' r end.

(* the same calls, each made with every cache empty *)
Definition run_cold (h : list (hop * val)) : list val :=
  map (fun ov => hop_out (fst ov) (isoformat rt (snd ov))) h.

End WithRuntime.
