(* Model/IsoHistory.v -- C04: HISTORIES of the operations that emit the ISO-8601 text of a temporal value
   (serdes.isoformat, marshal = ToISOTimeMarshaller.__call__, unmarshal(str, .) = StringUnmarshaller,
   unmarshal(bytes, .) = BytesUnmarshaller), threaded through the only state serdes.isoformat has.
   DEFINITIONS ONLY.

   serdes.isoformat: a date / time / datetime is handed to the interpreter's own isoformat() on EVERY call (no
   memo: equal instants written with different UTC offsets compare and hash equal); a timedelta goes through
   _isoduration, an lru_cache keyed on timedelta equality.  A timedelta of the model IS its normalised triple
   (days, seconds, microseconds): that is what timedelta equality and hashing look at whatever the constructor
   spelling or subclass (pendulum.Duration), and -- with proposed_fixes/C04-9 -- what the writer reads ([+td]).

   Round 4: the same histories over the NON-temporal scalar kinds (int, bool, float, Decimal, Fraction, UUID, path,
   str).  Nothing the scalar marshallers / unmarshal(str | bytes, .) do keeps state: each call writes str(v) afresh
   ([iso_step] falls through to [canon_text rt v], which for these kinds is str(v)), so a value formatted after an
   equal one of another spelling or another class (Decimal('2.00') after Decimal('2.0'), Decimal('0.5') after
   Fraction(1, 2), 1 after True or 1.0) gets its own text. *)
From Coq Require Import List ZArith Ascii String Bool.
Import ListNotations.
Require Import TL.Model.Duration.
Require Import TL.Model.Temporal.
Require Import TL.Model.Scalars.
Open Scope Z_scope.

(* the four emitting operations *)
Inductive hop := HIso | HMarshal | HStr | HBytes.
(* the state: the entries of _isoduration's cache *)
Definition memo := list ((Z * Z * Z) * string).
(* every entry was computed by the writer from its own key *)
Definition memo_ok (m : memo) : Prop := Forall (fun e => snd e = iso_duration (fst e)) m.

Section WithRuntime.
Variable rt : Runtime.

(* one call of serdes.isoformat in state [m] *)
Definition iso_step (m : memo) (v : val) : memo * string :=
  match v with
  | VTimeDelta d s us =>
      match memo_find (d, s, us) m with
      | Some t => (m, t)
      | None => let t := iso_duration (d, s, us) in (((d, s, us), t) :: m, t) end
  | _ => (m, canon_text rt v) end.

(* what the operation hands back for the text [t] *)
Definition hop_out (o : hop) (t : string) : val :=
  match o with HBytes => VText CBytes (utf8_encode rt t) | _ => VText CStr t end.

(* what the operation hands back for the VALUE [v] whose text is [t]: marshalling a number or a bool hands the
   value itself back (IntegerMarshaller / FloatMarshaller / BoolMarshaller on a value of their own class, None too);
   every other scalar kind of U is written out -- ToStringMarshaller (str, Decimal, Fraction, UUID, path):
   str(v); ToISOTimeMarshaller: serdes.isoformat(v) -- and so is everything handed to unmarshal(str | bytes, .) *)
Definition emit (o : hop) (v : val) (t : string) : val :=
  match o, v with
  | HMarshal, (VNone | VBool _ | VInt _ | VFloat _) => v
  | _, _ => hop_out o t end.

(* the observations of a history, caches shared along it *)
Fixpoint run_hist (m : memo) (h : list (hop * val)) : list val :=
  match h with
  | [] => []
  | (o, v) :: r => let '(m', t) := iso_step m v in emit o v t :: run_hist m' r end.

(* the same calls, each made with every cache empty *)
Definition run_cold (h : list (hop * val)) : list val :=
  map (fun ov => emit (fst ov) (snd ov) (isoformat rt (snd ov))) h.

End WithRuntime.
