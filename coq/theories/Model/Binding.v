(* Model of src/typelib/binding.py: _get_binding, the 16 concrete binder classes
   (as pairs of idioms), the dispatch matrix lookup, BoundRoutine.__call__;
   and the specification: CPython's own argument binding rule.
   Definitions only; proofs live in Proofs/BindingLemmas.v. *)
From Coq Require Import List Arith Bool PeanoNat.
Import ListNotations.

(* Parameter kinds, in the order Python requires them to appear in a signature. *)
Inductive kind := PO | PK | VP | KO | VK.
Definition kind_eqb (a b : kind) : bool :=
  match a, b with PO,PO | PK,PK | VP,VP | KO,KO | VK,VK => true | _,_ => false end.

(* pname: the parameter's name (names are numbered by the harness);
   pann: whether it carries an annotation (unannotated -> NoOp unmarshaller). *)
Record param := { pname : nat; pkind : kind; pann : bool }.
Definition sig := list param.

Inductive res (A : Type) := Ok (a : A) | RaiseType.
Arguments Ok {A}. Arguments RaiseType {A}.

Section V.
Variable val : Type.

(* What the wrapped callable receives for one argument:
   Conv p v  = unmarshaller of parameter #p applied to v,
   Raw v     = v untouched,
   KeyAs k   = the keyword's *name* passed as its value (the `else k` idiom). *)
Inductive cv := Conv (p : nat) (v : val) | Raw (v : val) | KeyAs (k : nat).

(* ---------------- _get_binding ---------------- *)
Fixpoint index_where (f : param -> bool) (s : sig) (i : nat) : option nat :=
  match s with [] => None | p :: r => if f p then Some i else index_where f r (S i) end.
Fixpoint last_index_where (f : param -> bool) (s : sig) (i : nat) (acc : option nat) : option nat :=
  match s with [] => acc | p :: r => last_index_where f r (S i) (if f p then Some i else acc) end.
Definition is_k (k : kind) (p : param) := kind_eqb (pkind p) k.
Definition has (k : kind) (s : sig) := existsb (is_k k) s.

(* binding: the dict {name -> unmarshaller, index -> unmarshaller}; an unmarshaller is
   identified with the index of the parameter it was built for.
   Names are registered for keyword-capable parameters (PK, KO), indexes for
   positional-capable ones (PO, PK). *)
Record bstate := { names : list (nat * nat); idxs : list nat;
                   startpos : option nat; varpos : option nat; varkwd : option nat }.

Definition kw_capable (p : param) := is_k PK p || is_k KO p.
Definition pos_capable (p : param) := is_k PO p || is_k PK p.

Fixpoint name_map (s : sig) (i : nat) : list (nat * nat) :=
  match s with [] => [] | p :: r =>
    (if kw_capable p then [(pname p, i)] else []) ++ name_map r (S i) end.
Fixpoint idx_map (s : sig) (i : nat) : list nat :=
  match s with [] => [] | p :: r =>
    (if pos_capable p then [i] else []) ++ idx_map r (S i) end.

(* max_pos: a positional-only parameter sets max_pos = i; *args sets max_pos = i - 1
   (it comes later in iteration order, so it wins); startpos = max_pos + 1. *)
Definition get_startpos (s : sig) : option nat :=
  match index_where (is_k VP) s 0 with
  | Some i => Some i
  | None => match last_index_where (is_k PO) s 0 None with Some i => Some (S i) | None => None end
  end.
Definition get_binding (s : sig) : bstate :=
  {| names := name_map s 0; idxs := idx_map s 0; startpos := get_startpos s;
     varpos := index_where (is_k VP) s 0; varkwd := index_where (is_k VK) s 0 |}.

(* ---------------- the binder idioms ---------------- *)
Inductive posmode := PosSplit | PosIndex | PosVar | PosUntouched.
Inductive kwmode := KwGet | KwVar | KwElseV | KwElseK | KwUntouched.

Definition mem (i : nat) (l : list nat) : bool := existsb (Nat.eqb i) l.
(* (binding[i](v) if i in binding else v for i, v in enumerate(l)) *)
Fixpoint by_index (ix : list nat) (i : nat) (l : list val) : list cv :=
  match l with [] => [] | v :: r => (if mem i ix then Conv i v else Raw v) :: by_index ix (S i) r end.
(* args[:startpos] / args[startpos:] -- a None bound gives the whole tuple *)
Definition slice_to (o : option nat) (l : list val) := match o with None => l | Some n => firstn n l end.
Definition slice_from (o : option nat) (l : list val) := match o with None => l | Some n => skipn n l end.
(* (varpos(v) for v in l): calling an absent varpos (None) is a TypeError, on the first element *)
Definition all_var (vp : option nat) (l : list val) : res (list cv) :=
  match l, vp with [], _ => Ok [] | _, Some p => Ok (map (Conv p) l) | _, None => RaiseType end.
Definition run_pos (m : posmode) (b : bstate) (args : list val) : res (list cv) :=
  match m with
  | PosIndex => Ok (by_index (idxs b) 0 args)
  | PosUntouched => Ok (map Raw args)
  | PosVar => all_var (varpos b) args
  | PosSplit => match all_var (varpos b) (slice_from (startpos b) args) with
                | Ok t => Ok (by_index (idxs b) 0 (slice_to (startpos b) args) ++ t)
                | RaiseType => RaiseType end
  end.

Fixpoint lookup (k : nat) (m : list (nat * nat)) : option nat :=
  match m with [] => None | (k', i) :: r => if Nat.eqb k k' then Some i else lookup k r end.
Definition run_kw1 (m : kwmode) (b : bstate) (k : nat) (v : val) : res cv :=
  match m with
  | KwUntouched => Ok (Raw v)
  | KwVar => match varkwd b with Some p => Ok (Conv p v) | None => RaiseType end
  | KwGet => match lookup k (names b) with Some i => Ok (Conv i v)
             | None => match varkwd b with Some p => Ok (Conv p v) | None => RaiseType end end
  | KwElseV => match lookup k (names b) with Some i => Ok (Conv i v) | None => Ok (Raw v) end
  | KwElseK => match lookup k (names b) with Some i => Ok (Conv i v) | None => Ok (KeyAs k) end
  end.
Fixpoint run_kw (m : kwmode) (b : bstate) (kw : list (nat * val)) : res (list (nat * cv)) :=
  match kw with
  | [] => Ok []
  | (k, v) :: r =>
    match run_kw1 m b k v, run_kw m b r with Ok c, Ok t => Ok ((k, c) :: t) | _, _ => RaiseType end
  end.

(* the 16 concrete binder classes *)
Inductive bcls :=
| AnyParamKindBinding | PosArgsKwargsBinding | PosKwdKwargsBinding | PosKwdArgsBinding
| PosKwargsBinding | PosKwdBinding | PosArgsBinding | PosBinding
| KwdArgsKwargsBinding | KwdArgsBinding | KwdKwargsBinding | KwdBinding
| ArgsKwargsBinding | KwargsBinding | ArgsBinding | PosOrKwdBinding.

Definition posmode_of (c : bcls) : posmode :=
  match c with
  | AnyParamKindBinding | PosArgsKwargsBinding | PosKwdArgsBinding | PosArgsBinding => PosSplit
  | PosKwdKwargsBinding | PosKwargsBinding | PosKwdBinding | PosBinding | PosOrKwdBinding => PosIndex
  | KwdArgsKwargsBinding | KwdArgsBinding | ArgsKwargsBinding | ArgsBinding => PosVar
  | KwdKwargsBinding | KwdBinding | KwargsBinding => PosUntouched
  end.
Definition kwmode_of (c : bcls) : kwmode :=
  match c with
  | AnyParamKindBinding | PosKwdKwargsBinding | KwdArgsKwargsBinding | KwdKwargsBinding => KwGet
  | PosArgsKwargsBinding | PosKwargsBinding | ArgsKwargsBinding | KwargsBinding => KwVar
  | PosKwdArgsBinding => KwElseV
  | PosKwdBinding | KwdArgsBinding | KwdBinding | PosOrKwdBinding => KwElseK
  | PosArgsBinding | PosBinding | ArgsBinding => KwUntouched
  end.

(* binder.__call__(args, kwargs): positional generator is consumed first *)
Definition run_binder (c : bcls) (b : bstate) (args : list val) (kw : list (nat * val))
  : res (list cv * list (nat * cv)) :=
  match run_pos (posmode_of c) b args with
  | RaiseType => RaiseType
  | Ok ua => match run_kw (kwmode_of c) b kw with RaiseType => RaiseType | Ok uk => Ok (ua, uk) end
  end.

(* ---------------- the dispatch matrix ---------------- *)
Record truth := { t_po : bool; t_ko : bool; t_vp : bool; t_vk : bool; t_pk : bool }.
Definition truth_of (s : sig) : truth :=
  {| t_po := has PO s; t_ko := has KO s; t_vp := has VP s; t_vk := has VK s; t_pk := has PK s |}.
Definition truth_eqb (a b : truth) : bool :=
  Bool.eqb (t_po a) (t_po b) && Bool.eqb (t_ko a) (t_ko b) && Bool.eqb (t_vp a) (t_vp b)
  && Bool.eqb (t_vk a) (t_vk b) && Bool.eqb (t_pk a) (t_pk b).
Definition row := (truth * bcls)%type.
Fixpoint matrix_lookup (rows : list row) (t : truth) : option bcls :=
  match rows with [] => None | (t', c) :: r => if truth_eqb t t' then Some c else matrix_lookup r t end.

(* bind f applied to args and kwargs, up to the call of f *)
Definition bound_call (rows : list row) (s : sig) (args : list val) (kw : list (nat * val)) :=
  match matrix_lookup rows (truth_of s) with
  | None => RaiseType      (* KeyError in the code; cannot happen for a complete matrix *)
  | Some c => run_binder c (get_binding s) args kw
  end.

(* ---------------- specification: the interpreter's binding rule ---------------- *)
Definition npos (s : sig) : nat := length (filter pos_capable s).
(* positional arguments fill the PO ++ PK prefix in order, the surplus goes to *args *)
Definition expected_pos (s : sig) (args : list val) : option (list cv) :=
  let n := npos s in
  if length args <=? n then Some (map (fun iv => Conv (fst iv) (snd iv)) (combine (seq 0 (length args)) args))
  else match index_where (is_k VP) s 0 with
       | Some vp => Some (map (fun iv => Conv (fst iv) (snd iv)) (combine (seq 0 n) (firstn n args))
                          ++ map (Conv vp) (skipn n args))
       | None => None end.
(* a keyword goes to the PK / KO parameter of that name, otherwise to the var-keyword parameter *)
Definition named_index (s : sig) (k : nat) : option nat :=
  index_where (fun p => kw_capable p && Nat.eqb (pname p) k) s 0.
Definition expected_kw1 (s : sig) (k : nat) (v : val) : option cv :=
  match named_index s k with Some i => Some (Conv i v)
  | None => match index_where (is_k VK) s 0 with Some p => Some (Conv p v) | None => None end end.
Fixpoint expected_kw (s : sig) (kw : list (nat * val)) : option (list (nat * cv)) :=
  match kw with
  | [] => Some []
  | (k, v) :: r =>
    match expected_kw1 s k v, expected_kw s r with
    | Some c, Some t => Some ((k, c) :: t) | _, _ => None end
  end.

(* An unannotated parameter gets the NoOp unmarshaller: Conv p v and Raw v are the same
   observable.  Normalisation applied to both sides of every comparison. *)
Definition annotated (s : sig) (p : nat) : bool :=
  match nth_error s p with Some q => pann q | None => false end.
Definition norm_cv (s : sig) (c : cv) : cv :=
  match c with Conv p v => if annotated s p then c else Raw v | _ => c end.

(* ---------------- per-row adequacy (booleans over the truth tuple) ---------------- *)
Definition pos_ok (m : posmode) (t : truth) : bool :=
  match m with
  | PosIndex => negb (t_vp t)
  | PosSplit => t_vp t || negb (t_pk t)
  | PosVar => negb (t_po t) && negb (t_pk t)
  | PosUntouched => negb (t_po t) && negb (t_pk t) && negb (t_vp t)
  end.
Definition kw_ok (m : kwmode) (t : truth) : bool :=
  match m with
  | KwGet => true
  | KwVar => negb (t_pk t) && negb (t_ko t)
  | KwElseV | KwElseK => negb (t_vk t)
  | KwUntouched => negb (t_pk t) && negb (t_ko t) && negb (t_vk t)
  end.
Definition row_ok (r : row) : bool :=
  pos_ok (posmode_of (snd r)) (fst r) && kw_ok (kwmode_of (snd r)) (fst r).

Definition all_truths : list truth :=
  flat_map (fun a => flat_map (fun b => flat_map (fun c => flat_map (fun d => map (fun e =>
    {| t_po := a; t_ko := b; t_vp := c; t_vk := d; t_pk := e |}) [false; true]) [false; true])
    [false; true]) [false; true]) [false; true].
Definition matrix_complete (rows : list row) : bool :=
  forallb (fun t => match matrix_lookup rows t with Some _ => true | None => false end) all_truths.
(* every truth tuple is routed to a binder whose idioms are adequate for it *)
Definition matrix_ok (rows : list row) : bool :=
  forallb (fun t => match matrix_lookup rows t with Some c => row_ok (t, c) | None => false end) all_truths.

End V.

Arguments Conv {val}. Arguments Raw {val}. Arguments KeyAs {val}.
