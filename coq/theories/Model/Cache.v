(* Model of typelib's memoisation (functools.cache / lru_cache uses) and of object
   identity between caches, results and inputs -- property C12.

   Mirrors (commit 875a8d5):
     py/compat.py      cache, lru_cache            -> memo_get / memo_put (keys compared by ==/hash)
     serdes.py         strload  (memoised _strload; hands out a deep copy)   -> load
                       isoformat (only its duration writer _isoduration is lru-cached) -> iso
                       dateparse (lru)                                       -> parse
     graph.py          static_order (cache keyed by annotation ==)           -> get_so
     unmarshals/api.py unmarshaller (cache; positional and keyword calls are distinct keys) -> get_um
     marshals/api.py   marshaller                                           -> get_mm
     codecs.py         codec (builds marshaller(t=..), unmarshaller(t=..))  -> get_cd
     */routines.py     which routine consults which cache, which positions are passed
                       through (same object) and which are rebuilt           -> run
     api.py            encode / decode                                       -> step

   What the *uncached bodies* compute on scalars (int("5"), str(x), pendulum.parse, json ...)
   is not the business of C12; it enters as the record [world] (filled from cold runs in the
   correspondence, universally quantified in the theorems).

   Object identity: every mutable container node carries a provenance tag: built fresh by
   this call, a node of the j-th input object, or a node of strload-cache cell c (with its
   path inside that object).  Handing out a tagged node = handing out that very object.
   Mutating a previously returned result rewrites the object the node belongs to.

   Ghost state: [bad] records (i) a cache hit on an entry stored under an equal-but-not-identical
   key and (ii) a mutation of an object owned by the strload cache.  It never influences an output.
   Definitions only; proofs are in Proofs/CacheLemmas.v. *)
From Coq Require Import List NArith Bool Arith.
Import ListNotations.

(* ---------------------------------------------------------------- results *)
Inductive exn := EValue | EType | ESyntax | EAttribute | EKey | EArith | EUnicode | ERecursion | EStopIter | EOther.
Inductive res (A : Type) := Ok (a : A) | Raise (e : exn) | Unmodelled.
Arguments Ok {A}. Arguments Raise {A}. Arguments Unmodelled {A}.

(* both Union routines run each member under contextlib.suppress(Exception): every modelled kind *)
Definition suppressed (e : exn) : bool := true.

(* ---------------------------------------------------------------- annotations *)
(* SDate / STime: DateMarshaller / TimeMarshaller are the same ToISOTimeMarshaller as the datetime and timedelta ones,
   Date/TimeUnmarshaller parse text through the same dateparse memo.  SDecimal / SFraction: ToStringMarshaller and
   NumberUnmarshaller, no cache on the way (leaf tables of the world) *)
Inductive sty := SInt | SFloat | SStr | SBytes | SNone | SDateTime | STimeDelta | SDate | STime | SDecimal | SFraction.
Inductive ann :=
| AS (s : sty) | ABareList | ABareDict
| AList (a : ann)            (* list[a] *)
| ADict (a : ann)            (* dict[str, a] *)
| AUnion (ms : list ann).    (* members in written order; Optional[X] is [X; None] *)

Definition sty_eqb (a b : sty) : bool :=
  match a, b with
  | SInt, SInt | SFloat, SFloat | SStr, SStr | SBytes, SBytes | SNone, SNone
  | SDateTime, SDateTime | STimeDelta, STimeDelta | SDate, SDate | STime, STime
  | SDecimal, SDecimal | SFraction, SFraction => true
  | _, _ => false
  end.

(* identical spelling *)
Fixpoint ann_eqb (a b : ann) : bool :=
  match a, b with
  | AS s, AS t => sty_eqb s t
  | ABareList, ABareList | ABareDict, ABareDict => true
  | AList x, AList y | ADict x, ADict y => ann_eqb x y
  | AUnion ms, AUnion ns =>
      (fix go (l : list ann) (r : list ann) {struct l} : bool :=
         match l, r with
         | [], [] => true
         | x :: l', y :: r' => ann_eqb x y && go l' r'
         | _, _ => false
         end) ms ns
  | _, _ => false
  end.

(* Python's == on annotation objects (what every @cache compares): unions are sets *)
Fixpoint key_eq (a b : ann) : bool :=
  match a, b with
  | AS s, AS t => sty_eqb s t
  | ABareList, ABareList | ABareDict, ABareDict => true
  | AList x, AList y | ADict x, ADict y => key_eq x y
  | AUnion ms, AUnion ns =>
      forallb (fun m => existsb (fun n => key_eq m n) ns) ms &&
      (fix back (r : list ann) : bool :=
         match r with
         | [] => true
         | n :: r' => existsb (fun m => key_eq m n) ms && back r'
         end) ns
  | _, _ => false
  end.

(* ---------------------------------------------------------------- values *)
(* atoms are numbered by the harness (type tag + repr); everything the model needs to know
   about an atom comes from [world] *)
Inductive prov := PFresh | PIn (j : nat) (p : list nat) | PCache (c : nat) (p : list nat).
Inductive val :=
| VA (a : N)
| VL (pr : prov) (l : list val)
| VD (pr : prov) (kvs : list (N * val)).

Fixpoint erase (v : val) : val :=
  match v with
  | VA a => VA a
  | VL _ l => VL PFresh (map erase l)
  | VD _ kvs => VD PFresh (map (fun kv => (fst kv, erase (snd kv))) kvs)
  end.

(* tag every container node of an object with its owner and its path inside the owner *)
Fixpoint tag (mk : list nat -> prov) (p : list nat) (v : val) : val :=
  match v with
  | VA a => VA a
  | VL _ l =>
      VL (mk p) ((fix go (i : nat) (l : list val) : list val :=
                    match l with [] => [] | x :: r => tag mk (p ++ [i]) x :: go (S i) r end) 0 l)
  | VD _ kvs =>
      VD (mk p) ((fix go (i : nat) (l : list (N * val)) : list (N * val) :=
                    match l with [] => [] | kv :: r => (fst kv, tag mk (p ++ [i]) (snd kv)) :: go (S i) r end) 0 kvs)
  end.

Record world := {
  w_text : N -> bool;                 (* istexttype(type(x)): str / bytes *)
  w_temporal : N -> bool;             (* isinstance(x, (date, time, timedelta)) *)
  w_isdelta : N -> bool;              (* not a date/time: serdes.isoformat hands it to the cached _isoduration *)
  w_isnone : N -> bool;
  w_eqc : N -> N;                     (* representative of the atom's ==/hash class *)
  w_strload : N -> val;               (* body of serdes.strload (a fresh object) *)
  w_iso : N -> res N;                 (* body of serdes.isoformat *)
  w_decode : N -> res N;              (* serdes.decode *)
  w_parse : N -> sty -> res N;        (* body of serdes.dateparse *)
  w_post : sty -> N -> res N;         (* what a temporal unmarshaller does with the parsed value *)
  w_chars : N -> res (list N);        (* iterating an atom (serdes.itervalues): chars, byte values, or TypeError *)
  w_len2 : N -> bool;                 (* a collection of length 2 (pair detection of iteritems) *)
  w_leaf_u : sty -> N -> res N;       (* scalar unmarshaller on an atom, branches that use no cache *)
  w_leaf_m : sty -> N -> res N;       (* scalar marshaller on an atom, branches that use no cache *)
  w_cast : bool -> N -> res val;      (* list(x) (true) / dict(x) (false) on an atom *)
  w_json : N -> res N;                (* an atom through json dumps + loads *)
  w_jkey : N -> res N;                (* a dict key through json dumps + loads *)
  w_loads : N -> res val;             (* json.loads of a text atom *)
  w_index : nat -> N;                 (* the int i produced by enumerate *)
  w_marker : N;                       (* what a mutation appends *)
  w_zz : N;                           (* the key a mutation sets in a dict *)
  w_none : N;
  w_max_load : option N; w_max_iso : option N; w_max_parse : option N   (* lru maxsize, reflected *)
}.

(* ---------------------------------------------------------------- memo tables *)
Section Memo.
  Context {K V : Type}.
  Variable eqv : K -> K -> bool.     (* the key comparison the cache uses *)
  Variable same : K -> K -> bool.    (* identical keys *)

  Fixpoint trim (n : nat) (tbl : list (K * V)) : list (K * V) :=
    match n with O => tbl | S n' => match tbl with [] => [] | _ :: r => trim n' r end end.
  Definition cap (max : option N) (tbl : list (K * V)) : list (K * V) :=
    match max with None => tbl | Some m => trim (N.to_nat (N.of_nat (length tbl) - m)) tbl end.

  (* hit: the value of the first stored key that compares equal, the table with that entry
     moved to the most-recent end, and whether the stored key was a different object-spelling *)
  Definition memo_get (tbl : list (K * V)) (k : K) : option (V * list (K * V) * bool) :=
    match find (fun e => eqv (fst e) k) tbl with
    | Some e => Some (snd e, filter (fun e' => negb (eqv (fst e') k)) tbl ++ [e], negb (same (fst e) k))
    | None => None
    end.
  Definition memo_put (max : option N) (tbl : list (K * V)) (k : K) (v : V) : list (K * V) :=
    cap max (tbl ++ [(k, v)]).
End Memo.

(* the generic machine of memo_transparent: a cache in front of f, asked a sequence of keys *)
Section MemoRun.
  Context {K V : Type}.
  Variables (eqv : K -> K -> bool) (f : K -> V) (max : option N).
  Definition memo_call (tbl : list (K * V)) (k : K) : V * list (K * V) :=
    match memo_get eqv eqv tbl k with
    | Some (v, tbl', _) => (v, tbl')
    | None => (f k, memo_put max tbl k (f k))
    end.
  (* ask the keys of h in turn (None = cache_clear()), then k *)
  Fixpoint memo_run (tbl : list (K * V)) (h : list (option K)) (k : K) : V :=
    match h with
    | [] => fst (memo_call tbl k)
    | None :: r => memo_run [] r k
    | Some k' :: r => memo_run (snd (memo_call tbl k')) r k
    end.
  (* the same with results that are mutable objects: g is applied to every stored result
     between two calls (what a caller can do to an object it was handed) *)
  Fixpoint memo_run_mut (g : V -> V) (tbl : list (K * V)) (h : list K) (k : K) : V :=
    match h with
    | [] => fst (memo_call tbl k)
    | k' :: r => memo_run_mut g (map (fun e => (fst e, g (snd e))) (snd (memo_call tbl k'))) r k
    end.
End MemoRun.

(* ---------------------------------------------------------------- state *)
Record state := {
  t_load : list (N * (nat * val));      (* strload: text atom -> (cell id, the cached object) *)
  t_iso : list (N * N);
  t_parse : list ((N * sty) * N);
  t_uw : list (ann * ann);              (* inspection.unwrap: key -> the first ==-equal annotation object it was asked *)
  t_so : list (ann * ann);              (* static_order: key -> spelling the node list was computed from *)
  t_um : list ((bool * ann) * ann);     (* unmarshaller: (keyword call?, key) -> spelling the routine was built from *)
  t_mm : list ((bool * ann) * ann);
  t_cd : list (ann * (ann * ann));      (* codec: key -> (marshal routine, unmarshal routine) *)
  inputs : list val;                    (* objects the caller passed and still holds *)
  results : list val;                   (* objects the caller was handed, one per operation *)
  ncell : nat;
  bad : bool                            (* ghost *)
}.
Definition init : state :=
  {| t_load := []; t_iso := []; t_parse := []; t_uw := []; t_so := []; t_um := []; t_mm := []; t_cd := [];
     inputs := []; results := []; ncell := 0; bad := false |}.

Definition flag (s : state) (b : bool) : state :=
  {| t_load := t_load s; t_iso := t_iso s; t_parse := t_parse s; t_uw := t_uw s; t_so := t_so s; t_um := t_um s;
     t_mm := t_mm s; t_cd := t_cd s; inputs := inputs s; results := results s; ncell := ncell s;
     bad := bad s || b |}.
Definition set_load (s : state) (t : list (N * (nat * val))) (n : nat) : state :=
  {| t_load := t; t_iso := t_iso s; t_parse := t_parse s; t_uw := t_uw s; t_so := t_so s; t_um := t_um s;
     t_mm := t_mm s; t_cd := t_cd s; inputs := inputs s; results := results s; ncell := n; bad := bad s |}.
Definition set_iso (s : state) (t : list (N * N)) : state :=
  {| t_load := t_load s; t_iso := t; t_parse := t_parse s; t_uw := t_uw s; t_so := t_so s; t_um := t_um s;
     t_mm := t_mm s; t_cd := t_cd s; inputs := inputs s; results := results s; ncell := ncell s; bad := bad s |}.
Definition set_parse (s : state) (t : list ((N * sty) * N)) : state :=
  {| t_load := t_load s; t_iso := t_iso s; t_parse := t; t_uw := t_uw s; t_so := t_so s; t_um := t_um s;
     t_mm := t_mm s; t_cd := t_cd s; inputs := inputs s; results := results s; ncell := ncell s; bad := bad s |}.
Definition set_uw (s : state) (t : list (ann * ann)) : state :=
  {| t_load := t_load s; t_iso := t_iso s; t_parse := t_parse s; t_uw := t; t_so := t_so s; t_um := t_um s;
     t_mm := t_mm s; t_cd := t_cd s; inputs := inputs s; results := results s; ncell := ncell s; bad := bad s |}.
Definition set_so (s : state) (t : list (ann * ann)) : state :=
  {| t_load := t_load s; t_iso := t_iso s; t_parse := t_parse s; t_uw := t_uw s; t_so := t; t_um := t_um s;
     t_mm := t_mm s; t_cd := t_cd s; inputs := inputs s; results := results s; ncell := ncell s; bad := bad s |}.
Definition set_um (s : state) (t : list ((bool * ann) * ann)) : state :=
  {| t_load := t_load s; t_iso := t_iso s; t_parse := t_parse s; t_uw := t_uw s; t_so := t_so s; t_um := t;
     t_mm := t_mm s; t_cd := t_cd s; inputs := inputs s; results := results s; ncell := ncell s; bad := bad s |}.
Definition set_mm (s : state) (t : list ((bool * ann) * ann)) : state :=
  {| t_load := t_load s; t_iso := t_iso s; t_parse := t_parse s; t_uw := t_uw s; t_so := t_so s; t_um := t_um s;
     t_mm := t; t_cd := t_cd s; inputs := inputs s; results := results s; ncell := ncell s; bad := bad s |}.
Definition set_cd (s : state) (t : list (ann * (ann * ann))) : state :=
  {| t_load := t_load s; t_iso := t_iso s; t_parse := t_parse s; t_uw := t_uw s; t_so := t_so s; t_um := t_um s;
     t_mm := t_mm s; t_cd := t; inputs := inputs s; results := results s; ncell := ncell s; bad := bad s |}.
Definition set_io (s : state) (i r : list val) : state :=
  {| t_load := t_load s; t_iso := t_iso s; t_parse := t_parse s; t_uw := t_uw s; t_so := t_so s; t_um := t_um s;
     t_mm := t_mm s; t_cd := t_cd s; inputs := i; results := r; ncell := ncell s; bad := bad s |}.
Definition clear (s : state) : state :=
  {| t_load := []; t_iso := []; t_parse := []; t_uw := []; t_so := []; t_um := []; t_mm := []; t_cd := [];
     inputs := inputs s; results := results s; ncell := ncell s; bad := bad s |}.

Definition kw_eq (f : ann -> ann -> bool) (a b : bool * ann) : bool := Bool.eqb (fst a) (fst b) && f (snd a) (snd b).
Definition ps_eq (W : world) (a b : N * sty) : bool := N.eqb (w_eqc W (fst a)) (w_eqc W (fst b)) && sty_eqb (snd a) (snd b).
Definition ps_same (a b : N * sty) : bool := N.eqb (fst a) (fst b) && sty_eqb (snd a) (snd b).

Section Machine.
Variable W : world.

Definition atom_eqv (a b : N) : bool := N.eqb (w_eqc W a) (w_eqc W b).

(* ---- the three value caches as they are reached from the routines *)
(* serdes.load: strload iff the value is text.  strload returns copy.deepcopy of the object its memo
   (_strload) owns: the caller gets the content with a fresh identity (erase = all tags PFresh) *)
Definition load_w (x : val) (s : state) : val * state :=
  match x with
  | VA a =>
      if w_text W a then
        match memo_get atom_eqv N.eqb (t_load s) a with
        | Some (cv, tbl, coll) => (erase (snd cv), flag (set_load s tbl (ncell s)) coll)
        | None =>
            let c := ncell s in
            let v := tag (PCache c) [] (w_strload W a) in
            (erase v, set_load s (memo_put (w_max_load W) (t_load s) a (c, v)) (S c))
        end
      else (x, s)
  | _ => (x, s)
  end.
(* serdes.isoformat: date / time / datetime are formatted directly (equal instants with different offsets
   are == and hash equal); only the duration writer _isoduration is memoised *)
Definition iso_w (a : N) (s : state) : res N * state :=
  if negb (w_isdelta W a) then (w_iso W a, s) else
  match memo_get atom_eqv N.eqb (t_iso s) a with
  | Some (t, tbl, coll) => (Ok t, flag (set_iso s tbl) coll)
  | None =>
      match w_iso W a with
      | Ok t => (Ok t, set_iso s (memo_put (w_max_iso W) (t_iso s) a t))
      | r => (r, s)                                  (* an exception is not cached *)
      end
  end.
Definition parse_w (k : N * sty) (s : state) : res N * state :=
  match memo_get (ps_eq W) ps_same (t_parse s) k with
  | Some (t, tbl, coll) => (Ok t, flag (set_parse s tbl) coll)
  | None =>
      match w_parse W (fst k) (snd k) with
      | Ok t => (Ok t, set_parse s (memo_put (w_max_parse W) (t_parse s) k t))
      | r => (r, s)
      end
  end.

(* the uncached bodies, for the reference ("cold function") semantics *)
Definition load_p (x : val) (s : unit) : val * unit :=
  match x with
  | VA a => if w_text W a then (w_strload W a, s) else (x, s)
  | _ => (x, s)
  end.
Definition iso_p (a : N) (s : unit) : res N * unit := (w_iso W a, s).
Definition parse_p (k : N * sty) (s : unit) : res N * unit := (w_parse W (fst k) (snd k), s).

(* ---- routines, generic in how the caches are reached *)
Section Run.
Variable St : Type.
Variable load : val -> St -> val * St.
Variable iso : N -> St -> res N * St.
Variable parse : N * sty -> St -> res N * St.

Definition is_temporal_sty (t : sty) : bool := match t with SDateTime | STimeDelta | SDate | STime => true | _ => false end.
Definition is_text_sty (t : sty) : bool := match t with SStr | SBytes => true | _ => false end.
Definition lift {A} (r : res N) (s : A) : res val * A :=
  (match r with Ok a => Ok (VA a) | Raise e => Raise e | Unmodelled => Unmodelled end, s).

(* scalar unmarshallers *)
Definition scalar_u (t : sty) (x : val) (s : St) : res val * St :=
  match x with
  | VA a =>
      if is_text_sty t && w_temporal W a then          (* String/Bytes: isoformat(val) first *)
        match iso a s with
        | (Ok i, s1) => lift (w_leaf_u W t i) s1
        | (r, s1) => lift r s1
        end
      else if is_temporal_sty t && w_text W a then      (* decode, dateparse (cached), rebuild *)
        match w_decode W a with
        | Ok d =>
            match parse (d, t) s with
            | (Ok p, s1) => lift (w_post W t p) s1
            | (r, s1) => lift r s1
            end
        | r => lift r s
        end
      else lift (w_leaf_u W t a) s
  | _ => (Unmodelled, s)
  end.
(* scalar marshallers *)
Definition scalar_m (t : sty) (x : val) (s : St) : res val * St :=
  match x with
  | VA a => if is_temporal_sty t then lift (fst (iso a s)) (snd (iso a s)) else lift (w_leaf_m W t a) s
  | _ =>
      match t with
      | SBytes | SNone => (Ok x, s)                     (* NoOpMarshaller: the input object itself *)
      | SDateTime | STimeDelta | SDate | STime => (Raise EType, s)      (* lru_cache: unhashable argument *)
      | _ => (Unmodelled, s)
      end
  end.

Definition atoms (l : list N) : list val := map VA l.
(* serdes.itervalues *)
Definition itervalues (v : val) : res (list val) :=
  match v with
  | VL _ l => Ok l
  | VD _ kvs => Ok (map snd kvs)
  | VA a => match w_chars W a with Ok cs => Ok (atoms cs) | Raise e => Raise e | Unmodelled => Unmodelled end
  end.
Fixpoint enum (i : nat) (l : list val) : list (N * val) :=
  match l with [] => [] | x :: r => (w_index W i, x) :: enum (S i) r end.
Definition is_pair (v : val) : bool :=
  match v with
  | VL _ [_; _] => true
  | VD _ [_; _] => true
  | VA a => w_len2 W a
  | _ => false
  end.
(* serdes.iteritems *)
Definition iteritems (v : val) : res (list (N * val)) :=
  match v with
  | VD _ kvs => Ok kvs
  | VL _ l => match l with x :: _ => if is_pair x then Unmodelled else Ok (enum 0 l) | [] => Ok [] end
  | VA a => match w_chars W a with Ok cs => Ok (enum 0 (atoms cs)) | Raise e => Raise e | Unmodelled => Unmodelled end
  end.
Fixpoint dict_set (kvs : list (N * val)) (k : N) (v : val) : list (N * val) :=
  match kvs with
  | [] => [(k, v)]
  | kv :: r => if atom_eqv (fst kv) k then (fst kv, v) :: r else kv :: dict_set r k v
  end.

Definition has_none (ms : list ann) : bool :=
  existsb (fun m => match m with AS SNone => true | _ => false end) ms.
Definition is_none_ann (m : ann) : bool := match m with AS SNone => true | _ => false end.
(* None is checked first wherever it was declared; every other member keeps its declared position *)
Definition rotate (l : list ann) : list ann :=
  filter is_none_ann l ++ filter (fun m => negb (is_none_ann m)) l.

(* UnionUnmarshaller.__init__: an optional union tries None first *)
Fixpoint rot (a : ann) : ann :=
  match a with
  | AList e => AList (rot e)
  | ADict e => ADict (rot e)
  | AUnion ms => AUnion (if has_none ms then rotate (map rot ms) else map rot ms)
  | _ => a
  end.
Definition routine (d : bool) (a : ann) : ann := if d then rot a else a.

(* d = true: an unmarshaller, d = false: a marshaller; a = routine d (spelling it was built from) *)
Fixpoint run (d : bool) (a : ann) (x : val) (s : St) {struct a} : res val * St :=
  match a with
  | AS t => if d then scalar_u t x s else scalar_m t x s
  | ABareList =>
      let (y, s1) := if d then load x s else (x, s) in
      match y with
      | VL _ l => (Ok (if d then y else VL PFresh l), s1)          (* isinstance: returned as is / [*val] *)
      | VD _ kvs => (Ok (VL PFresh (atoms (map fst kvs))), s1)
      | VA b =>
          if d then (w_cast W true b, s1)
          else (match w_chars W b with Ok cs => Ok (VL PFresh (atoms cs)) | Raise e => Raise e | Unmodelled => Unmodelled end, s1)
      end
  | ABareDict =>
      let (y, s1) := if d then load x s else (x, s) in
      match y with
      | VD _ kvs => (Ok (if d then y else VD PFresh kvs), s1)
      | VL _ [] => (if d then Ok (VD PFresh []) else Raise EType, s1)
      | VL _ _ => (if d then Unmodelled else Raise EType, s1)
      | VA b => (if d then w_cast W false b else Raise EType, s1)
      end
  | AList e =>
      let (y, s1) := if d then load x s else (x, s) in
      match itervalues y with
      | Ok vs =>
          (fix go (vs : list val) (acc : list val) (s : St) {struct vs} : res val * St :=
             match vs with
             | [] => (Ok (VL PFresh (rev acc)), s)
             | v :: r => match run d e v s with
                         | (Ok v', s') => go r (v' :: acc) s'
                         | (rr, s') => (rr, s')
                         end
             end) vs [] s1
      | Raise ex => (Raise ex, s1)
      | Unmodelled => (Unmodelled, s1)
      end
  | ADict e =>
      let (y, s1) := if d then load x s else (x, s) in
      match iteritems y with
      | Ok kvs =>
          (fix go (kvs : list (N * val)) (acc : list (N * val)) (s : St) {struct kvs} : res val * St :=
             match kvs with
             | [] => (Ok (VD PFresh acc), s)
             | kv :: r =>
                 match (if d then scalar_u SStr (VA (fst kv)) s else scalar_m SStr (VA (fst kv)) s) with
                 | (Ok (VA k'), s') =>
                     match run d e (snd kv) s' with
                     | (Ok v', s'') => go r (dict_set acc k' v') s''
                     | (rr, s'') => (rr, s'')
                     end
                 | (Ok _, s') => (Unmodelled, s')
                 | (rr, s') => (rr, s')
                 end
             end) kvs [] s1
      | Raise ex => (Raise ex, s1)
      | Unmodelled => (Unmodelled, s1)
      end
  | AUnion ms =>
      let isnone := match x with VA b => w_isnone W b | _ => false end in
      if negb d && has_none ms && isnone then (Ok x, s) else        (* UnionMarshaller: nullable and val is None *)
      (fix go (ms : list ann) (s : St) {struct ms} : res val * St :=
         match ms with
         | [] => (Raise EValue, s)
         | m :: r => match run d m x s with
                     | (Raise ex, s') => if suppressed ex then go r s' else (Raise ex, s')
                     | (rr, s') => (rr, s')
                     end
         end) ms s
  end.
End Run.

Definition run_w (d : bool) (a : ann) := run state load_w iso_w parse_w d (routine d a).
Definition run_p (d : bool) (a : ann) (x : val) : res val := fst (run unit load_p iso_p parse_p d (routine d a) x tt).

(* ---- json (api.encode / api.decode) *)
Fixpoint to_json (v : val) : res val :=
  match v with
  | VA a => match w_json W a with Ok b => Ok (VA b) | Raise e => Raise e | Unmodelled => Unmodelled end
  | VL _ l =>
      (fix go (l : list val) (acc : list val) : res val :=
         match l with
         | [] => Ok (VL PFresh (rev acc))
         | x :: r => match to_json x with Ok y => go r (y :: acc) | rr => rr end
         end) l []
  | VD _ kvs =>
      (fix go (l : list (N * val)) (acc : list (N * val)) : res val :=
         match l with
         | [] => Ok (VD PFresh (rev acc))
         | kv :: r =>
             match w_jkey W (fst kv) with
             | Ok k => match to_json (snd kv) with Ok y => go r ((k, y) :: acc) | rr => rr end
             | Raise e => Raise e
             | Unmodelled => Unmodelled
             end
         end) kvs []
  end.
Definition encode_out (r : res val) : res val := match r with Ok v => to_json v | rr => rr end.

(* ---- the factories *)
(* inspection.unwrap is cached on ==: graph.get_type_graph takes node.unwrapped (and from it the node's
   children) from the first ==-equal annotation object ever unwrapped in the process, at every nesting level *)
Definition get_uw (a : ann) (s : state) : ann * state :=
  match a with
  | AS _ | ABareList | ABareDict => (a, s)
  | _ => match memo_get key_eq ann_eqb (t_uw s) a with
         | Some (u, tbl, coll) => (u, flag (set_uw s tbl) coll)
         | None => (a, set_uw s (memo_put None (t_uw s) a a))
         end
  end.
Fixpoint depth (a : ann) : nat :=
  match a with
  | AList e | ADict e => S (depth e)
  | AUnion ms => S (fold_right (fun m acc => Nat.max (depth m) acc) 0 ms)
  | _ => 1
  end.
(* the spelling every node's routine is really built from (fuel = depth; == keeps the depth) *)
Fixpoint resolve (n : nat) (a : ann) (s : state) : ann * state :=
  match n with
  | O => (a, s)
  | S n' =>
      let (u, s1) := get_uw a s in
      match u with
      | AList e => let (e', s2) := resolve n' e s1 in (AList e', s2)
      | ADict e => let (e', s2) := resolve n' e s1 in (ADict e', s2)
      | AUnion ms =>
          let (ms', s2) :=
            (fix go (ms : list ann) (s : state) : list ann * state :=
               match ms with
               | [] => ([], s)
               | m :: r => let (m', s') := resolve n' m s in let (r', s'') := go r s' in (m' :: r', s'')
               end) ms s1 in
          (AUnion ms', s2)
      | _ => (u, s1)
      end
  end.
Definition get_so (a : ann) (s : state) : ann * state :=
  match memo_get key_eq ann_eqb (t_so s) a with
  | Some (sp, tbl, coll) => (sp, flag (set_so s tbl) coll)
  | None => let (sp, s1) := resolve (depth a) a s in (sp, set_so s1 (memo_put None (t_so s1) a sp))
  end.
Definition get_um (kw : bool) (a : ann) (s : state) : ann * state :=
  match memo_get (kw_eq key_eq) (kw_eq ann_eqb) (t_um s) (kw, a) with
  | Some (sp, tbl, coll) => (sp, flag (set_um s tbl) coll)
  | None => let (sp, s1) := get_so a s in (sp, set_um s1 (memo_put None (t_um s1) (kw, a) sp))
  end.
Definition get_mm (kw : bool) (a : ann) (s : state) : ann * state :=
  match memo_get (kw_eq key_eq) (kw_eq ann_eqb) (t_mm s) (kw, a) with
  | Some (sp, tbl, coll) => (sp, flag (set_mm s tbl) coll)
  | None => let (sp, s1) := get_so a s in (sp, set_mm s1 (memo_put None (t_mm s1) (kw, a) sp))
  end.
Definition get_cd (a : ann) (s : state) : (ann * ann) * state :=
  match memo_get key_eq ann_eqb (t_cd s) a with
  | Some (mu, tbl, coll) => (mu, flag (set_cd s tbl) coll)
  | None =>
      let (m, s1) := get_mm true a s in
      let (u, s2) := get_um true a s1 in
      ((m, u), set_cd s2 (memo_put None (t_cd s2) a (m, u)))
  end.

(* ---- operations *)
Inductive inp := INew (t : val) | IOld (j : nat).
Inductive op :=
| OBuildU (a : ann) | OBuildM (a : ann) | OBuildC (a : ann)
| OUnmarshal (a : ann) (x : inp) | OMarshal (a : ann) (x : inp)
| OEncode (a : ann) (x : inp) | ODecode (a : ann) (x : inp)          (* typelib.encode / typelib.decode *)
| OCEncode (a : ann) (x : inp) | OCDecode (a : ann) (x : inp)        (* codec(a).encode / .decode *)
| OMutResult (i : nat) (p : list nat) | OMutInput (j : nat) (p : list nat)
| OClear.
Inductive out := OUnit | OVal (r : res val).

Definition get_input (i : inp) (s : state) : val * state :=
  match i with
  | INew t => let j := length (inputs s) in
              let v := tag (PIn j) [] t in (v, set_io s (inputs s ++ [v]) (results s))
  | IOld j => (nth j (inputs s) (VA (w_none W)), s)
  end.
Definition push (r : res val) (s : state) : state :=
  set_io s (inputs s) (results s ++ [match r with Ok v => v | _ => VA (w_none W) end]).
Definition push_unit (s : state) : state := set_io s (inputs s) (results s ++ [VA (w_none W)]).

(* the container node at path p, and appending the marker to it *)
Fixpoint prov_at (p : list nat) (v : val) : option prov :=
  match p, v with
  | [], VL pr _ => Some pr
  | [], VD pr _ => Some pr
  | i :: p', VL _ l => match nth_error l i with Some c => prov_at p' c | None => None end
  | i :: p', VD _ kvs => match nth_error kvs i with Some kv => prov_at p' (snd kv) | None => None end
  | _, VA _ => None
  end.
Fixpoint upd {A} (l : list A) (i : nat) (f : A -> A) : list A :=
  match l, i with
  | [], _ => []
  | x :: r, O => f x :: r
  | x :: r, S i' => x :: upd r i' f
  end.
Fixpoint mut_at (p : list nat) (v : val) : val :=
  match p, v with
  | [], VL pr l => VL pr (l ++ [VA (w_marker W)])
  | [], VD pr kvs => VD pr (dict_set kvs (w_zz W) (VA (w_marker W)))
  | i :: p', VL pr l => VL pr (upd l i (mut_at p'))
  | i :: p', VD pr kvs => VD pr (upd kvs i (fun kv => (fst kv, mut_at p' (snd kv))))
  | _, VA a => VA a
  end.
Definition mutate (pr : option prov) (s : state) : state :=
  match pr with
  | Some (PCache c q) =>
      flag (set_load s (map (fun e => if Nat.eqb (fst (snd e)) c then (fst e, (c, mut_at q (snd (snd e)))) else e)
                            (t_load s)) (ncell s)) true
  | Some (PIn j q) => set_io s (upd (inputs s) j (mut_at q)) (results s)
  | _ => s
  end.

Definition step (s : state) (o : op) : state * out :=
  match o with
  | OBuildU a => let (_, s1) := get_um false a s in (push_unit s1, OUnit)
  | OBuildM a => let (_, s1) := get_mm false a s in (push_unit s1, OUnit)
  | OBuildC a => let (_, s1) := get_cd a s in (push_unit s1, OUnit)
  | OUnmarshal a i =>
      let (x, s0) := get_input i s in let (r, s1) := get_um false a s0 in
      let (v, s2) := run_w true r x s1 in (push v s2, OVal v)
  | OMarshal a i =>
      let (x, s0) := get_input i s in let (r, s1) := get_mm false a s0 in
      let (v, s2) := run_w false r x s1 in (push v s2, OVal v)
  | OEncode a i =>
      let (x, s0) := get_input i s in let (r, s1) := get_mm false a s0 in
      let (v, s2) := run_w false r x s1 in (push_unit s2, OVal (encode_out v))
  | ODecode a i =>
      let (x, s0) := get_input i s in
      match x with
      | VA b =>
          match w_loads W b with
          | Ok t => let (r, s1) := get_um false a s0 in
                    let (v, s2) := run_w true r t s1 in (push v s2, OVal v)
          | Raise e => (push_unit s0, OVal (Raise e))
          | Unmodelled => (push_unit s0, OVal Unmodelled)
          end
      | _ => (push_unit s0, OVal Unmodelled)
      end
  | OCEncode a i =>
      let (x, s0) := get_input i s in let (mu, s1) := get_cd a s0 in
      let (v, s2) := run_w false (fst mu) x s1 in (push_unit s2, OVal (encode_out v))
  | OCDecode a i =>
      let (x, s0) := get_input i s in let (mu, s1) := get_cd a s0 in
      match x with
      | VA b =>
          match w_loads W b with
          | Ok t => let (v, s2) := run_w true (snd mu) t s1 in (push v s2, OVal v)
          | Raise e => (push_unit s1, OVal (Raise e))
          | Unmodelled => (push_unit s1, OVal Unmodelled)
          end
      | _ => (push_unit s1, OVal Unmodelled)
      end
  | OMutResult i p => (push_unit (mutate (prov_at p (nth i (results s) (VA (w_none W)))) s), OUnit)
  | OMutInput j p => (push_unit (set_io s (upd (inputs s) j (mut_at p)) (results s)), OUnit)
  | OClear => (push_unit (clear s), OUnit)
  end.

Definition run_hist (s : state) (h : list op) : state := fold_left (fun s o => fst (step s o)) h s.

(* the operation as a cold process sees it: a held input is passed by its current content *)
Definition cold_inp (s : state) (i : inp) : inp :=
  match i with INew t => INew t | IOld j => INew (erase (nth j (inputs s) (VA (w_none W)))) end.
Definition cold_op (s : state) (o : op) : op :=
  match o with
  | OUnmarshal a i => OUnmarshal a (cold_inp s i) | OMarshal a i => OMarshal a (cold_inp s i)
  | OEncode a i => OEncode a (cold_inp s i) | ODecode a i => ODecode a (cold_inp s i)
  | OCEncode a i => OCEncode a (cold_inp s i) | OCDecode a i => OCDecode a (cold_inp s i)
  | o' => o'
  end.
Definition erase_out (o : out) : out :=
  match o with OVal (Ok v) => OVal (Ok (erase v)) | o' => o' end.
Definition cold (s : state) (o : op) : out := erase_out (snd (step init (cold_op s o))).
Definition warm (h : list op) (o : op) : out := erase_out (snd (step (run_hist init h) o)).

(* no equal-but-different key met in a cache and no cache-owned object was mutated,
   in any step of the history, in the operation itself, and in its cold run *)
Fixpoint clean_from (s : state) (h : list op) : bool :=
  match h with [] => true | o :: r => negb (bad (fst (step s o))) && clean_from (fst (step s o)) r end.
Definition c12_guard (h : list op) (o : op) : bool :=
  clean_from init (h ++ [o]) && negb (bad (fst (step init (cold_op (run_hist init h) o)))).

(* the reference: what the operation computes with every cache removed *)
Definition spec_val (d : bool) (a : ann) (x : val) : res val :=
  match run_p d a x with Ok v => Ok (erase v) | r => r end.
Definition input_now (s : state) (i : inp) : val :=
  match i with INew t => t | IOld j => nth j (inputs s) (VA (w_none W)) end.
Definition spec (s : state) (o : op) : out :=
  match o with
  | OUnmarshal a i => OVal (spec_val true a (input_now s i))
  | OMarshal a i => OVal (spec_val false a (input_now s i))
  | OEncode a i | OCEncode a i => OVal (encode_out (spec_val false a (input_now s i)))
  | ODecode a i | OCDecode a i =>
      match input_now s i with
      | VA b => match w_loads W b with
                | Ok t => OVal (spec_val true a t)
                | Raise e => OVal (Raise e)
                | Unmodelled => OVal Unmodelled
                end
      | _ => OVal Unmodelled
      end
  | _ => OUnit
  end.
End Machine.

(* ---------------------------------------------------------------- cached predicates (finding 24) *)
(* inspection.issubscriptedgeneric is computed from the text of the annotation
   ('[' in str(t)), but cached on ==: Optional[int] and int | None are == *)
Inductive spelled := SpOptional (s : sty) | SpPipeNone (s : sty) | SpListOf (s : sty).
Definition spelled_eq (a b : spelled) : bool :=
  match a, b with
  | SpOptional s, SpOptional t | SpOptional s, SpPipeNone t
  | SpPipeNone s, SpOptional t | SpPipeNone s, SpPipeNone t => sty_eqb s t
  | SpListOf s, SpListOf t => sty_eqb s t
  | _, _ => false
  end.
Definition issubscripted_body (a : spelled) : bool :=
  match a with SpOptional _ => true | SpPipeNone _ => false | SpListOf _ => true end.

(* ---------------------------------------------------------------- comparison with observations *)
Definition exn_eqb (a b : exn) : bool :=
  match a, b with
  | EValue, EValue | EType, EType | ESyntax, ESyntax | EAttribute, EAttribute | EKey, EKey
  | EArith, EArith | EUnicode, EUnicode | ERecursion, ERecursion | EStopIter, EStopIter | EOther, EOther => true
  | _, _ => false
  end.
(* identity tags are not observable; contents are compared *)
Fixpoint val_eqb (a b : val) : bool :=
  match a, b with
  | VA x, VA y => N.eqb x y
  | VL _ l, VL _ m =>
      (fix go (l m : list val) {struct l} : bool :=
         match l, m with [], [] => true | x :: l', y :: m' => val_eqb x y && go l' m' | _, _ => false end) l m
  | VD _ l, VD _ m =>
      (fix go (l m : list (N * val)) {struct l} : bool :=
         match l, m with
         | [], [] => true
         | x :: l', y :: m' => N.eqb (fst x) (fst y) && val_eqb (snd x) (snd y) && go l' m'
         | _, _ => false
         end) l m
  | _, _ => false
  end.
Definition out_eqb (a b : out) : bool :=
  match a, b with
  | OUnit, OUnit => true
  | OVal (Ok x), OVal (Ok y) => val_eqb x y
  | OVal (Raise e), OVal (Raise f) => exn_eqb e f
  | _, _ => false
  end.
(* outputs of a history *)
Fixpoint outs (W : world) (s : state) (h : list op) : list out :=
  match h with [] => [] | o :: r => snd (step W s o) :: outs W (fst (step W s o)) r end.
Fixpoint mism (i : nat) (a b : list out) : list nat :=
  match a, b with
  | [], [] => []
  | x :: a', y :: b' => (if out_eqb x y then [] else [i]) ++ mism (S i) a' b'
  | _, _ => [i]
  end.
(* one case = a history and the outputs observed on the implementation; 0 = agree,
   otherwise 1 + index of the first operation that differs *)
Definition case_bad (W : world) (c : list op * list out) : nat :=
  match mism 0 (outs W init (fst c)) (snd c) with [] => 0 | i :: _ => S i end.
Fixpoint bad_cases (W : world) (i : nat) (cs : list (list op * list out)) : list (nat * nat) :=
  match cs with
  | [] => []
  | c :: r => (match case_bad W c with 0 => [] | S k => [(i, k)] end) ++ bad_cases W (S i) r
  end.
