(* The table-driven key family (keys = ids of Python ==/hash classes, tables read from the
   live inspection.unwrap / refs.forwardref / isinstance(_, ForwardRef) / refs.evaluate on every run), and
   the boolean comparisons used by the correspondence runs (val := nat).
   Definitions only. *)
From Coq Require Import List Bool Arith PeanoNat NArith.
Import ListNotations.
Require Import TL.Model.Ctx.

(* ---------------- keys from tables ---------------- *)
(* t_names: per id, the id of the key object the reference evaluates to (refs.evaluate(r) IS that
   object); None when the evaluation raises, when the result is no key of the family, and for
   keys that are not references *)
Record tabs := { t_unwrap : list nat; t_fref : list nat; t_isref : list bool; t_names : list (option nat) }.

(* ids outside the tables: inert forward references (never produced by the harness) *)
Definition tab_unwrap (T : tabs) (k : nat) : nat := nth k (t_unwrap T) k.
Definition tab_fref (T : tabs) (k : nat) : nat := nth k (t_fref T) k.
Definition tab_isref (T : tabs) (k : nat) : bool := nth k (t_isref T) true.
Definition tab_names (T : tabs) (r k : nat) : bool :=
  match nth r (t_names T) None with Some x => Nat.eqb x k | None => false end.

(* the computable check that a table satisfies key_laws (sound: CtxLemmas.tabs_ok_sound) *)
Definition tabs_ok (T : tabs) : bool :=
  let n := length (t_isref T) in
  forallb (fun k => tab_isref T k ||
                    (Nat.eqb (tab_unwrap T (tab_unwrap T k)) (tab_unwrap T k) &&
                     tab_isref T (tab_fref T k)))
          (seq 0 n).

(* not needed by the theorems, reported as information: unwrap leaves references alone *)
Definition tabs_refs_fixed (T : tabs) : bool :=
  forallb (fun k => negb (tab_isref T k) || Nat.eqb (tab_unwrap T k) k) (seq 0 (length (t_isref T))).

(* the catalogue obligation: for every (wrapper key, plain class) pair the harness lists by
   construction -- wrappers nested to any depth -- the key is not a reference and the live
   unwrap table sends it to the class itself, not to an intermediate wrapper *)
Definition tabs_reach (T : tabs) (cat : list (nat * nat)) : bool :=
  forallb (fun p => negb (tab_isref T (fst p)) && Nat.eqb (tab_unwrap T (fst p)) (snd p)) cat.

(* the catalogue obligation for "a forward reference naming it": for every named key the harness
   lists (classes, NewTypes, aliases -- not Final[..] / ClassVar[..], which have no name) the
   reference refs.forwardref builds for it is a reference and the live refs.evaluate sends it back
   to the key *)
Definition tabs_fref_names (T : tabs) (cat : list nat) : bool :=
  forallb (fun k => negb (tab_isref T k) && tab_isref T (tab_fref T k) && tab_names T (tab_fref T k) k) cat.

(* the catalogue of foreign references: (reference written in a module that merely imports the
   name, key it names): a reference, different from the canonical one, evaluating to the key *)
Definition tabs_foreign (T : tabs) (cat : list (nat * nat)) : bool :=
  forallb (fun p => tab_isref T (fst p) && negb (tab_isref T (snd p)) &&
                    negb (Nat.eqb (fst p) (tab_fref T (snd p))) &&
                    negb (Nat.eqb (fst p) (tab_unwrap T (snd p))) &&
                    tab_names T (fst p) (snd p)) cat.

(* references that cannot be evaluated name nothing *)
Definition tabs_nameless (T : tabs) (cat : list nat) : bool :=
  forallb (fun r => tab_isref T r && match nth r (t_names T) None with None => true | Some _ => false end) cat.

Definition kop := op nat nat.
Definition kout := out nat.

Definition t_run (T : tabs) (fuel : nat) (ops : list kop) : list kout :=
  run nat nat Nat.eqb (tab_isref T) (tab_unwrap T) (tab_fref T) (tab_names T) fuel [] ops.
Definition t_spec_run (T : tabs) (ops : list kop) : list kout :=
  spec_run nat nat Nat.eqb (tab_isref T) (tab_unwrap T) (tab_fref T) (tab_names T) [] ops.
Definition t_ops_ok (T : tabs) (ops : list kop) : bool :=
  ops_ok nat nat Nat.eqb (tab_isref T) (tab_unwrap T) (tab_fref T) (tab_names T) [] ops.

(* ---------------- comparison with observations ---------------- *)
(* ONoFuel / OOther agree with nothing, not even themselves: a model run that exhausts its
   fuel, or an implementation that does anything unmodelled, is a mismatch. *)
Definition out_eqb (a b : kout) : bool :=
  match a, b with
  | OVal x, OVal y => Nat.eqb x y
  | OKeyError, OKeyError => true
  | OBool x, OBool y => Bool.eqb x y
  | OUnit, OUnit => true
  | _, _ => false
  end.
Fixpoint list_eqb {A} (e : A -> A -> bool) (a b : list A) : bool :=
  match a, b with [], [] => true | x :: r, y :: t => e x y && list_eqb e r t | _, _ => false end.

Fixpoint mismatches_from {A} (ok : A -> bool) (l : list A) (i : nat) : list nat :=
  match l with [] => [] | x :: r => (if ok x then [] else [i]) ++ mismatches_from ok r (S i) end.
Definition mismatches {A} (ok : A -> bool) (l : list A) := mismatches_from ok l 0.

(* (i) one operation sequence with the outputs observed on a real TypeContext *)
Definition seq_case := (list kop * list kout)%type.
Definition model_fuel : nat := 64.
Definition seq_case_ok (T : tabs) (c : seq_case) : bool :=
  let (ops, obs) := c in list_eqb out_eqb (t_run T model_fuel ops) obs.
(* the same sequences, specification against the observation (only where the guard holds) *)
Definition seq_case_spec_ok (T : tabs) (c : seq_case) : bool :=
  let (ops, obs) := c in negb (t_ops_ok T ops) || list_eqb out_eqb (t_spec_run T ops) obs.

(* (ii) a prefix tree of operation sequences: every node carries the operation and the output
   observed for it after the operations on the path from the root.  Nodes are numbered in
   preorder; walk returns (next number, numbers of the nodes whose output differs). *)
Inductive tr := T (o : kop) (obs : kout) (kids : list tr).

Fixpoint walk (Tb : tabs) (c : st nat nat) (t : tr) (i : N) : N * list N :=
  match t with
  | T o obs kids =>
    let (x, c') := step nat nat Nat.eqb (tab_isref Tb) (tab_unwrap Tb) (tab_fref Tb) (tab_names Tb) model_fuel c o in
    let bad := if out_eqb x obs then [] else [i] in
    let fix go (ks : list tr) (j : N) : N * list N :=
      match ks with
      | [] => (j, [])
      | k :: r => let (j1, b1) := walk Tb c' k j in
                  let (j2, b2) := go r j1 in (j2, b1 ++ b2)
      end in
    let (j, b) := go kids (N.succ i) in (j, bad ++ b)
  end.

Fixpoint walk_forest (Tb : tabs) (ts : list tr) (i : N) : N * list N :=
  match ts with
  | [] => (i, [])
  | t :: r => let (j1, b1) := walk Tb [] t i in
              let (j2, b2) := walk_forest Tb r j1 in (j2, b1 ++ b2)
  end.
(* result: (number of nodes visited, mismatching node numbers) *)
Definition forest_mismatches (Tb : tabs) (ts : list tr) : N * list N := walk_forest Tb ts 0%N.
