(* Core value model shared by C01 C03 C05 C06 C07 C11 C13 C15.

   Annotations `ty`, Python values `pv`, class environment `env`, the runtime
   interface `runtime` (everything that is NOT the composite logic of typelib:
   scalar routines, text loading, iteration over scalars), and the compositional
   reference semantics

       unm : fuel -> ty -> pv -> res pv      (unmarshal: "each member by its own type's rules")
       mar : fuel -> ty -> pv -> res pv      (marshal)

   which mirror, routine class by routine class, the __call__ bodies of
   unmarshals/routines.py and marshals/routines.py for the composite routines
   (SubscriptedIterable, SubscriptedMapping, FixedTuple, StructuredType, Union)
   and delegate leaves to the runtime.

   Order of hashing: the code hands a GENERATOR to `set` / `frozenset` / `dict` (or uses a dict display), so every
   element (key) is hashed as soon as it has been converted, before the conversion of the next member is attempted.
   The set and mapping steps below therefore convert with `hashing key f` (convert, then hash, member by member);
   `construct_seq` / `construct_map` keep their own (then redundant) test.  The earlier formulation "convert every
   member, hash afterwards" is kept as `unm_late` / `mar_late` in Model/CoreLate.v, with the exact set of inputs on
   which the two differ (Proofs/CoreHash.v).  Definitions only. *)
From Coq Require Import List Arith Bool PeanoNat.
Import ListNotations.

(* ------------------------------------------------------------------ results *)
(* the exception kinds that matter to control flow: the two Union routines
   suppress some kinds and let the others escape *)
Inductive exn := EValue | EType | ESyntax | EAttribute | EKey | EArith | EStopIter
               | EUnicode | ERecursion | EOther.
Definition exn_eqb (a b : exn) : bool :=
  match a, b with
  | EValue, EValue | EType, EType | ESyntax, ESyntax | EAttribute, EAttribute | EKey, EKey
  | EArith, EArith | EStopIter, EStopIter | EUnicode, EUnicode | ERecursion, ERecursion
  | EOther, EOther => true
  | _, _ => false
  end.

Inductive res (A : Type) :=
| Ok (a : A)
| Raise (e : exn)
| OutOfFuel                 (* the model ran out of fuel: excluded by every theorem *)
| Unmodelled.               (* a runtime table has no entry: counted as a mismatch by the tie *)
Arguments Ok {A}. Arguments Raise {A}. Arguments OutOfFuel {A}. Arguments Unmodelled {A}.

Definition bind {A B} (r : res A) (f : A -> res B) : res B :=
  match r with Ok a => f a | Raise e => Raise e | OutOfFuel => OutOfFuel | Unmodelled => Unmodelled end.
Fixpoint mapM {A B} (f : A -> res B) (l : list A) : res (list B) :=
  match l with
  | [] => Ok []
  | x :: r => bind (f x) (fun y => bind (mapM f r) (fun t => Ok (y :: t)))
  end.

(* ------------------------------------------------------------------ values *)
Inductive seqkind := KList | KTuple | KSet | KFrozenset | KDeque.
Inductive dictkind := KDict | KOrderedDict.
Definition seqkind_eqb (a b : seqkind) : bool :=
  match a, b with KList, KList | KTuple, KTuple | KSet, KSet | KFrozenset, KFrozenset | KDeque, KDeque => true
  | _, _ => false end.
Definition dictkind_eqb (a b : dictkind) : bool :=
  match a, b with KDict, KDict | KOrderedDict, KOrderedDict => true | _, _ => false end.

(* Python objects, with the runtime class at every position.
   PAtom a : a scalar / opaque object, identified by the harness (class and value are in its table);
   PKey f  : the str object equal to field name f (so that mapping keys and field names meet);
   PObj c  : instance of structured class c with its public fields in declaration order;
   PNamed c: instance of named-tuple class c. *)
Inductive pv :=
| PAtom (a : nat)
| PKey (f : nat)
| PSeq (k : seqkind) (l : list pv)
| PDict (k : dictkind) (l : list (pv * pv))
| PObj (c : nat) (l : list (nat * pv))
| PNamed (c : nat) (l : list pv).

Fixpoint list_eqb {A} (e : A -> A -> bool) (a b : list A) : bool :=
  match a, b with [], [] => true | x :: r, y :: t => e x y && list_eqb e r t | _, _ => false end.

Fixpoint pv_eqb (a b : pv) {struct a} : bool :=
  match a, b with
  | PAtom x, PAtom y => Nat.eqb x y
  | PKey x, PKey y => Nat.eqb x y
  | PSeq k l, PSeq k' l' =>
      seqkind_eqb k k' &&
      (fix go (l l' : list pv) : bool :=
         match l, l' with [], [] => true | x :: r, y :: t => pv_eqb x y && go r t | _, _ => false end) l l'
  | PDict k l, PDict k' l' =>
      dictkind_eqb k k' &&
      (fix go (l l' : list (pv * pv)) : bool :=
         match l, l' with [], [] => true
         | (x1, x2) :: r, (y1, y2) :: t => pv_eqb x1 y1 && pv_eqb x2 y2 && go r t | _, _ => false end) l l'
  | PObj c l, PObj c' l' =>
      Nat.eqb c c' &&
      (fix go (l l' : list (nat * pv)) : bool :=
         match l, l' with [], [] => true
         | (f, x) :: r, (g, y) :: t => Nat.eqb f g && pv_eqb x y && go r t | _, _ => false end) l l'
  | PNamed c l, PNamed c' l' =>
      Nat.eqb c c' &&
      (fix go (l l' : list pv) : bool :=
         match l, l' with [], [] => true | x :: r, y :: t => pv_eqb x y && go r t | _, _ => false end) l l'
  | _, _ => false
  end.

(* ------------------------------------------------------------------ annotations *)
(* TLeaf s     : a leaf type (scalar, enum, Literal, None, bytes, Any/unresolvable, bare container):
                 its routine is a runtime function; s is the harness' id of the Python type;
   TSeq k a    : subscripted iterable whose origin is the container kind k (list[X], typing.List[X],
                 Sequence[X] -> list, set[X], AbstractSet[X] -> set, frozenset[X], deque[X], tuple[X, ...]);
   TMap k kt vt: subscripted mapping with origin k;  TTuple ts: fixed tuple;  TUnion ts: union in
                 declared order, `none` marks the NoneType member;
   TName n     : a class object or an alias object defined in the environment under name n;
   TRef n      : a string / ForwardRef naming n;
   TNewType/TAlias/TFinal/TClassVar: transparent wrappers;  TAliasStr i n: TypeAliasType whose value is
                 the string naming n. *)
Inductive ty :=
| TLeaf (s : nat)
| TNone
| TSeq (k : seqkind) (a : ty)
| TMap (k : dictkind) (kt vt : ty)
| TTuple (ts : list ty)
| TUnion (ts : list ty)
| TName (n : nat)
| TRef (n : nat)
| TRefLeaf (s : nat)              (* a forward reference naming leaf type s *)
| TRefTo (t : ty)                 (* a forward reference naming the NewType / alias object t *)
| TNewType (i : nat) (t : ty)
| TAlias (i : nat) (t : ty)
| TAliasStr (i : nat) (n : nat)
| TFinal (t : ty)
| TClassVar (t : ty).

Inductive flavour := FDataclass | FNamedTuple | FTypedDict | FPlain.
(* a field: name, annotation, default value if any *)
Record field := { fname : nat; fty : ty; fdefault : option pv }.
(* crequired: names of the keys every instance must have (TypedDict only; [] otherwise) *)
Record classdef := { cflavour : flavour; cfields : list field; crequired : list nat }.
Inductive ndef := NClass (c : classdef) | NType (t : ty).
Definition env := nat -> option ndef.

(* ------------------------------------------------------------------ runtime interface *)
Record runtime := {
  leaf_u : nat -> pv -> res pv;             (* the unmarshal routine of leaf type s *)
  leaf_m : nat -> pv -> res pv;             (* the marshal routine of leaf type s *)
  none_u : pv -> res pv;                    (* NoneTypeUnmarshaller *)
  load_scalar : pv -> res pv;               (* serdes.load on an atom / key (text is parsed) *)
  values_scalar : pv -> res (list pv);      (* serdes.itervalues on an atom / key *)
  items_scalar : pv -> res (list (pv * pv));(* serdes.iteritems on an atom / key *)
  pairlike_scalar : pv -> bool;             (* a collection of length 2 (e.g. a 2-character str) *)
  unpack_scalar : pv -> res (pv * pv);      (* `k, v = x` on an atom / key: the interpreter's own iteration protocol
                                               (NOT serdes.itervalues: a mapping unpacks to its keys, a UUID raises) *)
  index : nat -> pv;                        (* the int object i (keys produced by enumerate) *)
  unhashable_class : nat -> bool;           (* instances of class c are unhashable *)
  atom_eq : nat -> nat -> bool;             (* two distinct atoms that compare == and hash alike (1, 1.0, True) *)
  none : pv;                                (* the None object *)
  suppressed : exn -> bool                  (* exception kinds the Union routines swallow *)
}.

Section Sem.
Variable rt : runtime.
Variable E : env.

Definition is_scalar (v : pv) : bool := match v with PAtom _ | PKey _ => true | _ => false end.

(* serdes.load: text atoms are parsed, everything else is returned as is *)
Definition load (v : pv) : res pv := if is_scalar v then load_scalar rt v else Ok v.

(* serdes.itervalues *)
Definition itervalues (v : pv) : res (list pv) :=
  match v with
  | PSeq _ l => Ok l
  | PDict _ kvs => Ok (map snd kvs)
  | PObj _ fs => Ok (map snd fs)
  | PNamed _ l => Ok l
  | _ => values_scalar rt v
  end.

Fixpoint enumerate_from (i : nat) (l : list pv) : list (pv * pv) :=
  match l with [] => [] | v :: r => (index rt i, v) :: enumerate_from (S i) r end.

(* "a collection of length 2" *)
Definition pairlike (v : pv) : bool :=
  match v with
  | PSeq _ [_; _] => true | PDict _ [_; _] => true | PNamed _ [_; _] => true
  | PAtom _ | PKey _ => pairlike_scalar rt v
  | _ => false
  end.
(* `for k, v in it`: unpacking one element *)
Definition unpack2 (v : pv) : res (pv * pv) :=
  match v with
  | PSeq _ [a; b] => Ok (a, b)
  | PNamed _ [a; b] => Ok (a, b)
  | PDict _ [(a, _); (b, _)] => Ok (a, b)
  | PSeq _ _ | PNamed _ _ | PDict _ _ => Raise EValue
  | PObj _ _ => Raise EType
  | _ => unpack_scalar rt v
  end.

Definition named_fields (c : nat) : list nat :=
  match E c with Some (NClass cd) => map fname (cfields cd) | _ => [] end.

(* serdes.iteritems; sets are non-sequence iterables: same peek through a peekable *)
Definition iteritems (v : pv) : res (list (pv * pv)) :=
  match v with
  | PDict _ kvs => Ok kvs
  | PObj _ fs => Ok (map (fun fv => (PKey (fst fv), snd fv)) fs)
  | PSeq _ l =>
      match l with
      | x :: _ => if pairlike x then mapM unpack2 l else Ok (enumerate_from 0 l)
      | [] => Ok []
      end
  | PNamed c l => Ok (combine (map PKey (named_fields c)) l)     (* named tuples are never "pairs" *)
  | _ => items_scalar rt v
  end.

(* ---- constructors of the target containers ---- *)
Fixpoint unhashable (v : pv) : bool :=
  match v with
  | PSeq KList _ | PSeq KSet _ | PSeq KDeque _ | PDict _ _ => true
  | PSeq _ l => existsb unhashable l
  | PNamed _ l => existsb unhashable l
  | PObj c _ => unhashable_class rt c
  | _ => false
  end.

(* Python == (with equal hash) on hashable values: what set and dict constructors collapse *)
Fixpoint pv_pyeq (a b : pv) {struct a} : bool :=
  match a, b with
  | PAtom x, PAtom y => Nat.eqb x y || atom_eq rt x y
  | PSeq KTuple l, PSeq KTuple l' =>
      (fix go (l l' : list pv) : bool :=
         match l, l' with [], [] => true | x :: r, y :: t => pv_pyeq x y && go r t | _, _ => false end) l l'
  | PSeq KFrozenset l, PSeq KFrozenset l' =>
      Nat.eqb (length l) (length l') && forallb (fun x => existsb (fun y => pv_pyeq x y) l') l
  | _, _ => pv_eqb a b
  end.
Fixpoint mem_pv (v : pv) (l : list pv) : bool :=
  match l with [] => false | x :: r => pv_pyeq v x || mem_pv v r end.
Fixpoint dedupe (l : list pv) (seen : list pv) : list pv :=
  match l with [] => [] | x :: r => if mem_pv x seen then dedupe r seen else x :: dedupe r (x :: seen) end.

(* origin(generator): sets drop duplicates (the harness presents set contents in a canonical order) *)
Definition construct_seq (k : seqkind) (l : list pv) : res pv :=
  match k with
  | KSet | KFrozenset => if existsb unhashable l then Raise EType else Ok (PSeq k (dedupe l []))
  | _ => Ok (PSeq k l)
  end.

(* hash-as-produced: a set / frozenset / dict constructor consuming a generator hashes each element (the key of each
   pair) when it arrives; an unhashable one raises TypeError BEFORE the next member is converted *)
Definition hash_check {A} (key : A -> pv) (a : A) : res A := if unhashable (key a) then Raise EType else Ok a.
Definition hashing {A B} (key : B -> pv) (f : A -> res B) (x : A) : res B := bind (f x) (hash_check key).
Definition hashes (k : seqkind) : bool := match k with KSet | KFrozenset => true | _ => false end.
(* the member conversion of a subscripted iterable whose origin is k *)
Definition elem_conv (k : seqkind) (f : pv -> res pv) : pv -> res pv :=
  if hashes k then hashing (fun v => v) f else f.

(* dict(pairs): a repeated key keeps its first position and takes the last value *)
Fixpoint dict_set (k v : pv) (d : list (pv * pv)) : list (pv * pv) :=
  match d with
  | [] => [(k, v)]
  | (k', v') :: r => if pv_pyeq k k' then (k', v) :: r else (k', v') :: dict_set k v r
  end.
Definition dict_of (l : list (pv * pv)) : list (pv * pv) :=
  fold_left (fun d kv => dict_set (fst kv) (snd kv) d) l [].
Definition construct_map (k : dictkind) (l : list (pv * pv)) : res pv :=
  if existsb (fun kv => unhashable (fst kv)) l then Raise EType else Ok (PDict k (dict_of l)).

(* calling the class with the keyword arguments, for each structured flavour *)
Fixpoint kw_lookup (f : nat) (kw : list (nat * pv)) : option pv :=
  match kw with [] => None | (g, v) :: r => if Nat.eqb f g then Some v else kw_lookup f r end.
Fixpoint fill_fields (fs : list field) (kw : list (nat * pv)) : res (list (nat * pv)) :=
  match fs with
  | [] => Ok []
  | f :: r =>
      match (match kw_lookup (fname f) kw with Some v => Some v | None => fdefault f end) with
      | None => Raise EType                      (* missing required argument *)
      | Some v => bind (fill_fields r kw) (fun t => Ok ((fname f, v) :: t))
      end
  end.
Fixpoint kw_set (f : nat) (v : pv) (kw : list (nat * pv)) : list (nat * pv) :=
  match kw with
  | [] => [(f, v)]
  | (g, w) :: r => if Nat.eqb f g then (g, v) :: r else (g, w) :: kw_set f v r
  end.
Definition has_kw (f : nat) (kw : list (nat * pv)) : bool :=
  match kw_lookup f kw with Some _ => true | None => false end.
Definition construct_class (c : nat) (cd : classdef) (kw : list (nat * pv)) : res pv :=
  match cflavour cd with
  | FTypedDict =>
      if forallb (fun fd => negb (existsb (Nat.eqb (fname fd)) (crequired cd)) || has_kw (fname fd) kw) (cfields cd)
      then Ok (PDict KDict (map (fun fv => (PKey (fst fv), snd fv)) kw))
      else Raise EType                            (* a required key is missing *)
  | FNamedTuple => bind (fill_fields (cfields cd) kw) (fun l => Ok (PNamed c (map snd l)))
  | FDataclass | FPlain => bind (fill_fields (cfields cd) kw) (fun l => Ok (PObj c l))
  end.

Definition field_ty (cd : classdef) (f : nat) : option ty :=
  match find (fun fd => Nat.eqb (fname fd) f) (cfields cd) with Some fd => Some (fty fd) | None => None end.

(* ---- unions ---- *)
Definition is_none_ty (t : ty) : bool := match t with TNone => true | _ => false end.
Definition isoptional (ts : list ty) : bool := existsb is_none_ty ts.
(* UnionUnmarshaller.__init__: when the union is optional the NoneType member(s) are tried first,
   every other member keeps its declared position *)
Definition none_first (l : list ty) : list ty :=
  filter is_none_ty l ++ filter (fun t => negb (is_none_ty t)) l.
Definition union_stack_u (ts : list ty) : list ty := if isoptional ts then none_first ts else ts.

Fixpoint first_ok (rs : list (pv -> res pv)) (x : pv) : res pv :=
  match rs with
  | [] => Raise EValue
  | r :: rest =>
      match r x with
      | Raise e => if suppressed rt e then first_ok rest x else Raise e
      | other => other
      end
  end.

(* ---- the reference semantics ---- *)
Fixpoint zip_trunc {A B} (a : list A) (b : list B) : list (A * B) :=
  match a, b with x :: r, y :: t => (x, y) :: zip_trunc r t | _, _ => [] end.

Fixpoint unm (fuel : nat) (t : ty) (x : pv) {struct fuel} : res pv :=
  match fuel with
  | 0 => OutOfFuel
  | S n =>
    match t with
    | TLeaf s | TRefLeaf s => leaf_u rt s x
    | TNone => none_u rt x
    | TSeq k a =>
        bind (load x) (fun d => bind (itervalues d) (fun vs =>
        bind (mapM (elem_conv k (unm n a)) vs) (fun rs => construct_seq k rs)))
    | TMap k kt vt =>
        bind (load x) (fun d => bind (iteritems d) (fun kvs =>
        bind (mapM (hashing fst (fun kv => bind (unm n kt (fst kv)) (fun k' =>
                                           bind (unm n vt (snd kv)) (fun v' => Ok (k', v'))))) kvs)
             (fun rs => construct_map k rs)))
    | TTuple ts =>
        bind (load x) (fun d => bind (itervalues d) (fun vs =>
        if Nat.ltb (length vs) (length ts) then Raise EValue          (* too few members *)
        else
        bind (mapM (fun tv => unm n (fst tv) (snd tv)) (zip_trunc ts vs)) (fun rs => Ok (PSeq KTuple rs))))
    | TUnion ts => first_ok (map (unm n) (union_stack_u ts)) x
    | TName c | TRef c | TAliasStr _ c =>
        match E c with
        | None => Raise EOther
        | Some (NType t') => unm n t' x
        | Some (NClass cd) =>
            bind (load x) (fun d => bind (iteritems d) (fun kvs =>
            bind (fold_left (fun acc kv =>
                    bind acc (fun kw =>
                      match fst kv with
                      | PKey f => match field_ty cd f with
                                  | Some ft => bind (unm n ft (snd kv)) (fun v' => Ok (kw_set f v' kw))
                                  | None => Ok kw end
                      | k => if unhashable k then Raise EType else Ok kw     (* `f in fields` hashes f *)
                      end)) kvs (Ok []))
                 (fun kw => construct_class c cd kw)))
        end
    | TNewType _ t' | TAlias _ t' | TFinal t' | TClassVar t' | TRefTo t' => unm n t' x
    end
  end.

Definition is_none_val (v : pv) : bool := pv_eqb v (none rt).

Fixpoint mar (fuel : nat) (t : ty) (x : pv) {struct fuel} : res pv :=
  match fuel with
  | 0 => OutOfFuel
  | S n =>
    match t with
    | TLeaf s | TRefLeaf s => leaf_m rt s x
    | TNone => if is_none_val x then Ok x else Raise EValue   (* NoneTypeMarshaller *)
    | TSeq k a => bind (itervalues x) (fun vs => bind (mapM (mar n a) vs) (fun rs => Ok (PSeq KList rs)))
    | TMap k kt vt =>
        bind (iteritems x) (fun kvs =>
        bind (mapM (hashing fst (fun kv => bind (mar n kt (fst kv)) (fun k' =>
                                           bind (mar n vt (snd kv)) (fun v' => Ok (k', v'))))) kvs)
             (fun rs => construct_map KDict rs))
    | TTuple ts =>
        bind (itervalues x) (fun vs =>
        bind (mapM (fun tv => mar n (fst tv) (snd tv)) (zip_trunc ts vs)) (fun rs => Ok (PSeq KList rs)))
    | TUnion ts =>
        if isoptional ts && is_none_val x then Ok x
        else first_ok (map (mar n) ts) x
    | TName c | TRef c | TAliasStr _ c =>
        match E c with
        | None => Raise EOther
        | Some (NType t') => mar n t' x
        | Some (NClass cd) =>
            bind (iteritems x) (fun kvs =>
            bind (fold_left (fun acc kv =>
                    bind acc (fun kw =>
                      match fst kv with
                      | PKey f => match field_ty cd f with
                                  | Some ft => bind (mar n ft (snd kv)) (fun v' => Ok (kw_set f v' kw))
                                  | None => Ok kw end
                      | k => if unhashable k then Raise EType else Ok kw
                      end)) kvs (Ok []))
                 (fun kw => Ok (PDict KDict (map (fun fv => (PKey (fst fv), snd fv)) kw))))
        end
    | TNewType _ t' | TAlias _ t' | TFinal t' | TClassVar t' | TRefTo t' => mar n t' x
    end
  end.

End Sem.
