(* Model/ScalarsEq.v -- C04: executable comparison functions for the correspondence runs (cases_*.v).
   DEFINITIONS ONLY.  The runtime of a case is a finite table of answers obtained from the interpreter
   (never through typelib); a missing answer makes the model return [Unmodelled], which never equals an
   observation. *)
From Coq Require Import List ZArith Ascii String Bool.
Import ListNotations.
Require Import TL.Model.Duration.
Require Import TL.Model.Temporal.
Require Import TL.Model.Scalars.
Open Scope Z_scope.

Fixpoint mismatches_from {A} (ok : A -> bool) (i : nat) (l : list A) : list nat :=
  match l with [] => [] | x :: r => if ok x then mismatches_from ok (S i) r else i :: mismatches_from ok (S i) r end.
Definition mismatches {A} (ok : A -> bool) (l : list A) : list nat := mismatches_from ok 0 l.
Definition count {A} (p : A -> bool) (l : list A) : nat := List.length (filter p l).

(* ---- duration writer: characters of isoformat(td) *)
Definition writer_case_ok (c : (Z * Z * Z) * string) : bool := String.eqb (iso_duration (fst c)) (snd c).
Definition pinned_case_ok (c : (Z * Z * Z) * string) : bool := String.eqb (iso_duration_pinned (fst c)) (snd c).
Definition wellformed_case_ok (c : (Z * Z * Z) * string) : bool := iso8601_duration (snd c) || negb (td_nonzero (fst c)).

(* ---- duration reader vs typelib's reading (dateparse(s, timedelta)): wherever the independent reader
        assigns a value (in range, components small enough for pendulum's 32-bit fields), typelib reads the same *)
Definition otd_eqb (a b : option (Z * Z * Z)) : bool :=
  match a, b with Some x, Some y => td_eqb x y | None, None => true | _, _ => false end.
Definition reader_case_ok (c : string * option (Z * Z * Z)) : bool :=
  match read_iso_duration (fst c) with
  | Some v => if td_in_range v then otd_eqb (Some v) (snd c) else true
  | None => true end.
Definition reader_accepts (c : string * option (Z * Z * Z)) : bool :=
  match read_iso_duration (fst c) with Some _ => true | None => false end.
Definition reader_strict_eq (c : string * option (Z * Z * Z)) : bool := otd_eqb (read_iso_duration (fst c)) (snd c).

(* ---- pendulum's normalisation (third-party law, sampled) *)
Definition pdur_case_ok (c : (Z * Z * Z) * list Z) : bool :=
  let '(d, s, us) := fst c in
  let p := pendulum_duration d s us in
  match snd c with
  | [y; mo; w; dd; rd; h; mi; sec; rs; u] =>
      (p_years p =? y) && (p_months p =? mo) && (p_weeks p =? w) && (p_days p =? dd) && (p_remaining_days p =? rd)
      && (p_hours p =? h) && (p_minutes p =? mi) && (p_seconds p =? sec) && (p_remaining_seconds p =? rs)
      && (p_microseconds p =? u)
  | _ => false end.

(* ---- routines *)
Record answers := {
  a_utf8 : list (string * res string);
  a_int : list (string * res Z); a_tok : list (string * res tok);
  a_parse : list (string * res parsed); a_timeiso : list (string * res tmf); a_isdigit : list (string * bool);
  a_canon : string; a_uuid_int : res tok; a_enum_text : res tok; a_enum_loaded : res tok; a_load : res val;
  a_int_of_float : res Z; a_float_of_int : res tok; a_fromts : res dtf; a_timestamp : res tok;
  a_total_seconds : tok; a_tdsec : res (Z * Z * Z) }.
Fixpoint lookup {B} (k : string) (l : list (string * B)) : option B :=
  match l with [] => None | (k', v) :: r => if String.eqb k k' then Some v else lookup k r end.
Definition look {B} (l : list (string * res B)) (k : string) : res B :=
  match lookup k l with Some r => r | None => Unmodelled end.
Definition rt_of (a : answers) : Runtime := {|
  utf8_decode := look (a_utf8 a);
  utf8_encode := fun s => s;     (* a str is represented by its UTF-8 bytes in the cases files *)
  canon_text := fun _ => a_canon a;
  int_of_str := look (a_int a);
  float_of_str := fun s => look (a_tok a) ("float:" ++ s);
  dec_of_str := fun s => look (a_tok a) ("dec:" ++ s);
  frac_of_str := fun s => look (a_tok a) ("frac:" ++ s);
  uuid_of_str := fun s => look (a_tok a) ("uuid:" ++ s);
  uuid_of_int := fun _ => a_uuid_int a;
  path_of_str := fun s => look (a_tok a) ("path:" ++ s);
  enum_of_val := fun v => match v with VText CStr _ => a_enum_text a | _ => a_enum_loaded a end;
  int_of_float := fun _ => a_int_of_float a;
  float_of_int := fun _ => a_float_of_int a;
  load := fun _ => a_load a;
  pendulum_parse := look (a_parse a);
  time_fromisoformat := look (a_timeiso a);
  fromtimestamp_utc := fun _ => a_fromts a;
  timestamp := fun _ => a_timestamp a;
  td_total_seconds := fun _ => a_total_seconds a;
  td_of_seconds := fun _ => a_tdsec a;
  is_digit_str := fun s => match lookup s (a_isdigit a) with Some b => b | None => false end |}.

Inductive routine := RInt | RFloat | RDec | RFrac | RUuid | RPath | REnum | RDate | RDateTime | RTime | RTimeDelta | RStr | RBytes.
Definition run_routine (rt : Runtime) (r : routine) (v : val) : res val :=
  match r with
  | RInt => unm_number rt KInt v | RFloat => unm_number rt KFloat v | RDec => unm_number rt KDec v
  | RFrac => unm_number rt KFrac v | RUuid => unm_uuid rt v | RPath => unm_path rt v | REnum => unm_enum rt v
  | RDate => unm_date rt v | RDateTime => unm_datetime rt v | RTime => unm_time rt v
  | RTimeDelta => unm_timedelta rt v | RStr => unm_str rt v | RBytes => unm_bytes rt v end.

Definition carrier_eqb (a b : carrier) : bool :=
  match a, b with CStr, CStr | CBytes, CBytes | CBytearray, CBytearray | CMvBytes, CMvBytes | CMvBytearray, CMvBytearray => true
  | _, _ => false end.
Definition dtf_eqb (a b : dtf) : bool := same_dt a b && (dfold a =? dfold b).
Definition tmf_eqb (a b : tmf) : bool := same_tm a b && (tfold a =? tfold b).
Definition val_eqb (a b : val) : bool :=
  match a, b with
  | VNone, VNone => true
  | VInt x, VInt y => x =? y
  | VFloat x, VFloat y | VDec x, VDec y | VFrac x, VFrac y | VUuid x, VUuid y | VPath x, VPath y
  | VEnum x, VEnum y | VOther x, VOther y => String.eqb x y
  | VText c s, VText c' s' => carrier_eqb c c' && String.eqb s s'
  | VDate y m d, VDate y' m' d' => (y =? y') && (m =? m') && (d =? d')
  | VDateTime x, VDateTime y => dtf_eqb x y
  | VTime x, VTime y => tmf_eqb x y
  | VTimeDelta d s u, VTimeDelta d' s' u' => (d =? d') && (s =? s') && (u =? u')
  | _, _ => false end.
(* Ok values exactly; every exception collapses to "raised" *)
Definition res_eqb (a b : res val) : bool :=
  match a, b with Ok x, Ok y => val_eqb x y | Raise _, Raise _ => true | _, _ => false end.
Definition routine_case_ok (c : routine * answers * val * res val) : bool :=
  let '(r, a, v, obs) := c in res_eqb (run_routine (rt_of a) r v) obs.
Definition routine_unmodelled (c : routine * answers * val * res val) : bool :=
  let '(r, a, v, obs) := c in match run_routine (rt_of a) r v with Unmodelled => true | _ => false end.
