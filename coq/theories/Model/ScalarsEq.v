(* Model/ScalarsEq.v -- C04: executable comparison functions for the correspondence runs (cases_*.v).
   DEFINITIONS ONLY.  The runtime of a case is a finite table of answers obtained from the interpreter
   (never through typelib); a missing answer makes the model return [Unmodelled], which never equals an
   observation. *)
From Coq Require Import List ZArith Ascii String Bool.
Import ListNotations.
Require Import TL.Model.Duration.
Require Import TL.Model.Temporal.
Require Import TL.Model.Scalars.
Open Scope Z_scope.

Fixpoint mismatches_from {A} (ok : A -> bool) (i : nat) (l : list A) : list nat :=
  match l with [] => [] | x :: r => if ok x then mismatches_from ok (S i) r else i :: mismatches_from ok (S i) r end.
Definition mismatches {A} (ok : A -> bool) (l : list A) : list nat := mismatches_from ok 0 l.
Definition count {A} (p : A -> bool) (l : list A) : nat := List.length (filter p l).

(* ---- duration writer: characters of isoformat(td) *)
Definition writer_case_ok (c : (Z * Z * Z) * string) : bool := String.eqb (iso_duration (fst c)) (snd c).
Definition pinned_case_ok (c : (Z * Z * Z) * string) : bool := String.eqb (iso_duration_pinned (fst c)) (snd c).
Definition wellformed_case_ok (c : (Z * Z * Z) * string) : bool := iso8601_duration (snd c) || negb (td_nonzero (fst c)).

(* ---- duration reader vs typelib's reading (dateparse(s, timedelta)): wherever the independent reader
        assigns a value (in range, components small enough for pendulum's 32-bit fields), typelib reads the same *)
Definition otd_eqb (a b : option (Z * Z * Z)) : bool :=
  match a, b with Some x, Some y => td_eqb x y | None, None => true | _, _ => false end.
Definition reader_case_ok (c : string * option (Z * Z * Z)) : bool :=
  match read_iso_duration (fst c) with
  | Some v => if td_in_range v then otd_eqb (Some v) (snd c) else true
  | None => true end.
Definition reader_accepts (c : string * option (Z * Z * Z)) : bool :=
  match read_iso_duration (fst c) with Some _ => true | None => false end.
Definition reader_strict_eq (c : string * option (Z * Z * Z)) : bool := otd_eqb (read_iso_duration (fst c)) (snd c).

(* ---- pendulum's normalisation (third-party law, sampled) *)
Definition pdur_case_ok (c : (Z * Z * Z) * list Z) : bool :=
  let '(d, s, us) := fst c in
  let p := pendulum_duration d s us in
  match snd c with
  | [y; mo; w; dd; rd; h; mi; sec; rs; u] =>
      (p_years p =? y) && (p_months p =? mo) && (p_weeks p =? w) && (p_days p =? dd) && (p_remaining_days p =? rd)
      && (p_hours p =? h) && (p_minutes p =? mi) && (p_seconds p =? sec) && (p_remaining_seconds p =? rs)
      && (p_microseconds p =? u)
  | _ => false end.

(* ---- routines *)
Fixpoint lookup {B} (k : string) (l : list (string * B)) : option B :=
  match l with [] => None | (k', v) :: r => if String.eqb k k' then Some v else lookup k r end.
Definition look {B} (l : list (string * res B)) (k : string) : res B :=
  match lookup k l with Some r => r | None => Unmodelled end.
Fixpoint lookup_val {B} (v : val) (l : list (val * B)) : option B :=
  match l with [] => None | (k, b) :: r => if val_eqb v k then Some b else lookup_val v r end.
Definition look_val {B} (l : list (val * res B)) (v : val) : res B :=
  match lookup_val v l with Some r => r | None => Unmodelled end.
(* a_enum: E(v) keyed by the value asked (the decoded text and a loaded value may both be strs);
   a_base: the data-type mixin view of the enum members in sight; a_pyeq: x == y for the pairs the model asks;
   a_truthy: bool(x); a_compile / a_ptext: re.compile(s), p.pattern *)
Record answers := {
  a_utf8 : list (string * res string);
  a_int : list (string * res Z); a_tok : list (string * res tok);
  a_parse : list (string * res parsed); a_timeiso : list (string * res tmf); a_isdigit : list (string * bool);
  a_canon : string; a_uuid_int : res tok; a_enum : list (val * res tok); a_load : res val;
  a_int_of_float : res Z; a_float_of_int : res tok; a_fromts : res dtf; a_timestamp : res tok;
  a_total_seconds : tok; a_tdsec : res (Z * Z * Z);
  a_member : list (string * bool); a_base : list (string * val); a_pyeq : list (val * (val * bool)); a_truthy : list (val * res bool);
  a_compile : list (string * res tok); a_ptext : list (string * val) }.
Fixpoint lookup_pair (x y : val) (l : list (val * (val * bool))) : bool :=
  match l with
  | [] => false
  | (a, (b, r)) :: t => if val_eqb x a && val_eqb y b then r else lookup_pair x y t end.
Definition rt_of (a : answers) : Runtime := {|
  utf8_decode := look (a_utf8 a);
  utf8_encode := fun s => s;     (* a str is represented by its UTF-8 bytes in the cases files *)
  canon_text := fun _ => a_canon a;
  int_of_str := look (a_int a);
  float_of_str := fun s => look (a_tok a) ("float:" ++ s);
  dec_of_str := fun s => look (a_tok a) ("dec:" ++ s);
  frac_of_str := fun s => look (a_tok a) ("frac:" ++ s);
  uuid_of_str := fun s => look (a_tok a) ("uuid:" ++ s);
  uuid_of_int := fun _ => a_uuid_int a;
  path_of_str := fun s => look (a_tok a) ("path:" ++ s);
  enum_of_val := look_val (a_enum a);
  int_of_float := fun _ => a_int_of_float a;
  float_of_int := fun _ => a_float_of_int a;
  load := fun _ => a_load a;
  pendulum_parse := look (a_parse a);
  time_fromisoformat := look (a_timeiso a);
  fromtimestamp_utc := fun _ => a_fromts a;
  timestamp := fun _ => a_timestamp a;
  td_total_seconds := fun _ => a_total_seconds a;
  td_of_seconds := fun _ => a_tdsec a;
  is_digit_str := fun s => match lookup s (a_isdigit a) with Some b => b | None => false end;
  is_member := fun m => match lookup m (a_member a) with Some b => b | None => false end;
  enum_base := fun m => lookup m (a_base a);
  py_eq := fun x y => lookup_pair x y (a_pyeq a);
  truthy := look_val (a_truthy a);
  re_compile := look (a_compile a);
  pattern_text := fun p => match lookup p (a_ptext a) with Some v => v | None => VNone end |}.

Inductive routine := RBool | RInt | RFloat | RDec | RFrac | RUuid | RPath | REnum | RDate | RDateTime | RTime | RTimeDelta
                   | RStr | RBytes | RPattern | RNone | RLit (vs : list val).
Definition run_routine (rt : Runtime) (r : routine) (v : val) : res val :=
  match r with
  | RBool => unm_number rt KBool v
  | RInt => unm_number rt KInt v | RFloat => unm_number rt KFloat v | RDec => unm_number rt KDec v
  | RFrac => unm_number rt KFrac v | RUuid => unm_uuid rt v | RPath => unm_path rt v | REnum => unm_enum rt v
  | RDate => unm_date rt v | RDateTime => unm_datetime rt v | RTime => unm_time rt v
  | RTimeDelta => unm_timedelta rt v | RStr => unm_str rt v | RBytes => unm_bytes rt v
  | RPattern => unm_pattern rt v | RNone => unm_none rt v | RLit vs => unm_literal rt vs v end.

(* Ok values exactly; every exception collapses to "raised" *)
Definition res_eqb (a b : res val) : bool :=
  match a, b with Ok x, Ok y => val_eqb x y | Raise _, Raise _ => true | _, _ => false end.
Definition routine_case_ok (c : routine * answers * val * res val) : bool :=
  let '(r, a, v, obs) := c in res_eqb (run_routine (rt_of a) r v) obs.
Definition routine_unmodelled (c : routine * answers * val * res val) : bool :=
  let '(r, a, v, obs) := c in match run_routine (rt_of a) r v with Unmodelled => true | _ => false end.
