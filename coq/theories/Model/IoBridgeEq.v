(* Evaluation helpers for the serdes / iteration bridge (Model/IoBridge.v):
     - shape / tshape / i_back built from finite tables (the per-run tie harness/iotie.py prints them),
     - comparison of Core.itervalues / iteritems / load (evaluated on the INDUCED runtime, i.e. with every
       scalar field computed by Model/Iter.v and Model/Serdes.v) with observations of serdes.py,
     - a small concrete instance (toy) for the non-vacuity examples and refutation witnesses of
       Props/IoBridge.v.
   Definitions only. *)
From Coq Require Import List ZArith NArith String Ascii Bool Arith.
Import ListNotations.
Require TL.Model.Core TL.Model.CoreTables TL.Model.Iter TL.Model.IterEq TL.Model.Serdes TL.Model.SerdesEq
        TL.Model.SerdesToy.
Require Import TL.Model.IoBridge.

Module CT := TL.Model.CoreTables.
Module IE := TL.Model.IterEq.
Module SE := TL.Model.SerdesEq.

(* ------------------------------------------------------------------ tables -> parameters *)
Fixpoint nat_lookup {A} (d : A) (t : list (nat * A)) (k : nat) : A :=
  match t with [] => d | (k', a) :: r => if Nat.eqb k k' then a else nat_lookup d r k end.

Definition no_class : I.clsdesc :=
  {| I.c_flavour := I.FVars; I.c_dataclass := false; I.c_dc_fields := []; I.c_hints := []; I.c_sig := [];
     I.c_slots := None |}.

Definition mk_shape (ai : list (nat * I.val)) (kn : list (nat * string)) (cl : list (nat * I.clsdesc))
                    (sl : list nat) : shape :=
  {| a_iter := nat_lookup I.VNone ai; k_name := nat_lookup EmptyString kn; cls_of := nat_lookup no_class cl;
     in_slots := fun c => existsb (Nat.eqb c) sl |}.

Fixpoint mk_back (t : list (I.val * C.pv)) (x : I.val) : option C.pv :=
  match t with [] => None | (y, v) :: r => if IE.val_eqb x y then Some v else mk_back r x end.

Fixpoint s_lookup (t : list (S.pv * C.pv)) (x : S.pv) : option C.pv :=
  match t with [] => None | (y, v) :: r => if SE.pv_eqb x y then Some v else s_lookup r x end.

Definition mk_tshape (sa : list (nat * S.pv)) (kt : list (nat * S.str)) (sb : list (S.pv * C.pv)) : tshape :=
  {| a_ser := nat_lookup (S.POther 0) sa; k_text := nat_lookup [] kt; s_back := s_lookup sb |}.

(* everything that is not serdes' business is absent *)
Definition null_rt : C.runtime := CT.mk_runtime [] [] [] [] [] [] [] [] [] [] [] (C.PAtom 0) [].

(* ------------------------------------------------------------------ comparison with observations *)
Fixpoint list_sim (a b : list C.pv) : bool :=
  match a, b with [], [] => true | x :: r, y :: t => CT.pv_sim x y && list_sim r t | _, _ => false end.
Definition pair_sim (a b : C.pv * C.pv) : bool := CT.pv_sim (fst a) (fst b) && CT.pv_sim (snd a) (snd b).
Fixpoint pairs_sim (a b : list (C.pv * C.pv)) : bool :=
  match a, b with
  | [], [] => true
  | (k1, v1) :: r, (k2, v2) :: t => CT.pv_sim k1 k2 && CT.pv_sim v1 v2 && pairs_sim r t
  | _, _ => false
  end.
Definition res_cmp {A} (e : A -> A -> bool) (m o : C.res A) : bool :=
  match m, o with
  | C.Ok a, C.Ok b => e a b
  | C.Raise x, C.Raise y => C.exn_eqb x y
  | _, _ => false
  end.

(* one case: the value, and what list(itervalues(x)), [(k, v) for k, v in iteritems(x)], load(x) gave *)
Definition io_case := (C.pv * C.res (list C.pv) * C.res (list (C.pv * C.pv)) * C.res C.pv)%type.

Section Cases.
Variable P : shape.
Variable E : C.env.
Variable bk : I.val -> option C.pv.
Variable T : tshape.
Variable srt : S.Runtime.
Definition rt_io : C.runtime := io_runtime P E bk T srt null_rt.

Definition ok_values (c : io_case) : bool :=
  match c with (x, ov, _, _) => res_cmp list_sim (C.itervalues rt_io x) ov end.
Definition ok_items (c : io_case) : bool :=
  match c with (x, _, oi, _) => res_cmp pairs_sim (C.iteritems rt_io E x) oi end.
(* the previous definition of Core.unpack2 (scalar elements through itervalues): information only *)
Definition ok_items_pinned (c : io_case) : bool :=
  match c with (x, _, oi, _) => res_cmp pairs_sim (iteritems_pinned E rt_io x) oi end.
Definition ok_load (c : io_case) : bool :=
  match c with (x, _, _, ol) => res_cmp CT.pv_sim (C.load rt_io x) ol end.
(* inside the region where the commutation theorems speak *)
Definition in_guard (c : io_case) : bool := match c with (x, _, _, _) => io_guard P E x end.
Definition in_unpack_guard (c : io_case) : bool := match c with (x, _, _, _) => unpack_guard P E x end.
(* the model side of the commutation, decided per case: Core on the induced runtime = the two models *)
Definition sound_back (t : list (I.val * C.pv)) : bool :=
  forallb (fun yv => IE.val_eqb (emb P E (snd yv)) (fst yv)) t.
End Cases.

(* ------------------------------------------------------------------ a toy instance *)
Local Open Scope string_scope.
(* atoms: 0 None | 1 the str "[1,2]" | 2 the bytes b"[1,2]" | 3 an object with two public slots, not iterable
          (the shape of uuid.UUID(int=5)) | 4 the mapping proxy {0: 1, 1: 0}
          | 5 + k (k < 256) the one-character str chr(k) | 261 + n the int n.
   field names: 0 "ab", 1 "x", 2 "int", 3 "is_safe", others "" *)
Definition uuid_cls : I.clsdesc :=
  {| I.c_flavour := I.FSlots; I.c_dataclass := false; I.c_dc_fields := []; I.c_hints := []; I.c_sig := [];
     I.c_slots := Some ["int"; "is_safe"] |}.
Definition one_char (c : ascii) : string := String c EmptyString.
Definition toy_a_iter (a : nat) : I.val :=
  match a with
  | 0 => I.VNone
  | 1 => I.VStr "[1,2]"
  | 2 => I.VBytes [91; 49; 44; 50; 93]%N
  | 3 => I.VObj uuid_cls [("int", I.VInt 5); ("is_safe", I.VNone)] None []
  | 4 => I.VDict I.MProxy [(I.VInt 0, I.VInt 1); (I.VInt 1, I.VInt 0)]
  | _ => if Nat.ltb a 261 then I.VStr (one_char (ascii_of_nat (a - 5))) else I.VInt (Z.of_nat (a - 261))
  end.
Definition toy_k_name (f : nat) : string :=
  match f with 0 => "ab" | 1 => "x" | 2 => "int" | 3 => "is_safe" | _ => "" end.
Definition dc_cls : I.clsdesc :=
  {| I.c_flavour := I.FDataclass; I.c_dataclass := true; I.c_dc_fields := ["ab"; "x"]; I.c_hints := ["ab"; "x"];
     I.c_sig := ["ab"; "x"]; I.c_slots := None |}.
Definition toy_shape : shape :=
  {| a_iter := toy_a_iter; k_name := toy_k_name; cls_of := fun _ => dc_cls; in_slots := fun _ => false |}.
(* class 0: the dataclass; class 1: a named tuple with the same two fields *)
Definition toy_fields : list C.field :=
  [ {| C.fname := 0; C.fty := C.TLeaf 0; C.fdefault := None |};
    {| C.fname := 1; C.fty := C.TLeaf 0; C.fdefault := None |} ].
Definition toy_env : C.env := fun n =>
  match n with
  | 0 => Some (C.NClass {| C.cflavour := C.FDataclass; C.cfields := toy_fields; C.crequired := [] |})
  | 1 => Some (C.NClass {| C.cflavour := C.FNamedTuple; C.cfields := toy_fields; C.crequired := [] |})
  | _ => None
  end.
Definition toy_back (x : I.val) : option C.pv :=
  match x with
  | I.VNone => Some (C.PAtom 0)
  | I.VInt z => if (z <? 0)%Z then None else Some (C.PAtom (261 + Z.to_nat z))
  | I.VStr (String c EmptyString) =>
      if Ascii.eqb c "x"%char then Some (C.PKey 1) else Some (C.PAtom (5 + nat_of_ascii c))
  | I.VStr s =>
      if String.eqb s "ab" then Some (C.PKey 0) else if String.eqb s "int" then Some (C.PKey 2)
      else if String.eqb s "is_safe" then Some (C.PKey 3) else if String.eqb s "" then Some (C.PKey 4)
      else if String.eqb s "[1,2]" then Some (C.PAtom 1) else None
  | _ => None
  end.
Local Close Scope string_scope.

(* the text model's view: atoms 1 / 2 are the two carriers of the JSON text [1,2]; ints are ints *)
Definition toy_tshape : tshape :=
  {| a_ser := fun a => match a with
                       | 0 => S.PNone
                       | 1 => S.PText S.CStr TL.Model.SerdesToy.t_list12
                       | 2 => S.PText S.CBytes TL.Model.SerdesToy.t_list12
                       | 3 => S.POther 3 | 4 => S.POther 4
                       | _ => if Nat.ltb a 261 then S.PText S.CStr [N.of_nat (a - 5)] else S.PInt (Z.of_nat (a - 261))
                       end;
     k_text := fun f => match f with 0 => [97; 98]%N | 1 => [120]%N | 2 => [105; 110; 116]%N
                                | 3 => [105; 115; 95; 115; 97; 102; 101]%N | _ => [] end;
     s_back := fun x => match x with
                        | S.PNone => Some (C.PAtom 0)
                        | S.PInt z => if (z <? 0)%Z then None else Some (C.PAtom (261 + Z.to_nat z))
                        | _ => None
                        end |}.
Definition toy_io_rt : C.runtime :=
  io_runtime toy_shape toy_env toy_back toy_tshape TL.Model.SerdesToy.toy_rt null_rt.
Definition int_atom (n : nat) : C.pv := C.PAtom (261 + n).
Definition chr_atom (c : ascii) : C.pv := C.PAtom (5 + nat_of_ascii c).
