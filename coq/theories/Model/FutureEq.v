(* Boolean equality on expression trees and the case checker of the Future correspondence
   (model output vs. the tree observed from the implementation).  Definitions only. *)
From Coq Require Import List String Ascii Bool.
Import ListNotations.
Require Import TL.Model.Future.
Local Open Scope list_scope.

Definition const_eqb (a b : const) : bool :=
  match a, b with
  | CStr x, CStr y | CBytes x, CBytes y | CNum x, CNum y => String.eqb x y
  | CEllipsis, CEllipsis | CNone, CNone => true
  | CBool x, CBool y => Bool.eqb x y
  | _, _ => false
  end.

Definition binop_eqb (a b : binop) : bool :=
  match a, b with
  | Add, Add | Sub, Sub | Mult, Mult | MatMult, MatMult | Div, Div | Mod, Mod | Pow, Pow
  | LShift, LShift | RShift, RShift | BitOr, BitOr | BitXor, BitXor | BitAnd, BitAnd
  | FloorDiv, FloorDiv => true
  | _, _ => false
  end.

Definition list_eqb {A} (e : A -> A -> bool) : list A -> list A -> bool :=
  fix go (l m : list A) : bool :=
    match l, m with
    | [], [] => true
    | x :: r, y :: t => e x y && go r t
    | _, _ => false
    end.

Fixpoint expr_eqb (a b : expr) : bool :=
  match a, b with
  | Name x, Name y => String.eqb x y
  | Attribute v x, Attribute w y => expr_eqb v w && String.eqb x y
  | Constant c, Constant d => const_eqb c d
  | Subscript v s, Subscript w t => expr_eqb v w && expr_eqb s t
  | Tuple l, Tuple m => list_eqb expr_eqb l m
  | List_ l, List_ m => list_eqb expr_eqb l m
  | BinOp o l r, BinOp p m s => binop_eqb o p && expr_eqb l m && expr_eqb r s
  | Other t l, Other s m => String.eqb t s && list_eqb expr_eqb l m
  | _, _ => false
  end.

(* indexes of the cases on which model and observation differ *)
Fixpoint mismatches_from {A} (ok : A -> bool) (l : list A) (i : nat) : list nat :=
  match l with [] => [] | x :: r => (if ok x then [] else [i]) ++ mismatches_from ok r (S i) end.
Definition mismatches {A} (ok : A -> bool) (l : list A) := mismatches_from ok l 0.

(* one case: the parsed input, the parsed output of future.transform on it, and whether the generator
   drew the input from the annotation grammar of the quantifier.

   strict:    the model predicts the observed tree exactly; the input is in the image of the parser; an
              annotation-grammar input satisfies the guard of the theorems (arith_free).
   projected: what the property needs.  On arithmetic-free inputs (the region of C20_meaning / C20_no_pep604)
              that is the strict comparison.  On inputs with arithmetic operators the property only demands
              totality and identity, so only these are compared: the observed tree is in the parser's image and
              equals the input when the input has no construct. *)
Definition future_case := (expr * expr * bool)%type.
Definition future_case_strict (g : list (string * string)) (u : string) (c : future_case) : bool :=
  let '(e, obs, ann) := c in
  expr_eqb (reparse (transform g u e)) obs && parsed e && (if ann then arith_free e else true).
Definition future_case_ok (g : list (string * string)) (u : string) (c : future_case) : bool :=
  let '(e, obs, ann) := c in
  if arith_free e then future_case_strict g u c
  else negb ann && parsed e && parsed obs && (if has_constructs g e then true else expr_eqb e obs).
