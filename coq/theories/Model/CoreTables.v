(* Finite runtime tables and result comparison for correspondence runs of Model/Core.v.
   Used only by generated cases_*.v files. *)
From Coq Require Import List Arith Bool PeanoNat.
Import ListNotations.
Require Import TL.Model.Core.

(* order-insensitive comparison for sets, exact elsewhere *)
Fixpoint pv_sim (a b : pv) {struct a} : bool :=
  match a, b with
  | PAtom x, PAtom y => Nat.eqb x y
  | PKey x, PKey y => Nat.eqb x y
  | PSeq k l, PSeq k' l' =>
      seqkind_eqb k k' &&
      match k with
      | KSet | KFrozenset =>
          Nat.eqb (length l) (length l') && forallb (fun x => existsb (fun y => pv_sim x y) l') l
      | _ =>
          (fix go (l l' : list pv) : bool :=
             match l, l' with [], [] => true | x :: r, y :: t => pv_sim x y && go r t | _, _ => false end) l l'
      end
  | PDict k l, PDict k' l' =>
      dictkind_eqb k k' &&
      (fix go (l l' : list (pv * pv)) : bool :=
         match l, l' with [], [] => true
         | (x1, x2) :: r, (y1, y2) :: t => pv_sim x1 y1 && pv_sim x2 y2 && go r t | _, _ => false end) l l'
  | PObj c l, PObj c' l' =>
      Nat.eqb c c' &&
      (fix go (l l' : list (nat * pv)) : bool :=
         match l, l' with [], [] => true
         | (f, x) :: r, (g, y) :: t => Nat.eqb f g && pv_sim x y && go r t | _, _ => false end) l l'
  | PNamed c l, PNamed c' l' =>
      Nat.eqb c c' &&
      (fix go (l l' : list pv) : bool :=
         match l, l' with [], [] => true | x :: r, y :: t => pv_sim x y && go r t | _, _ => false end) l l'
  | _, _ => false
  end.

(* observed results: value, or "raised" (the kind is recorded but compared only on request) *)
Definition res_sim (strict_kind : bool) (model obs : res pv) : bool :=
  match model, obs with
  | Ok a, Ok b => pv_sim a b
  | Raise e, Raise e' => if strict_kind then exn_eqb e e' else true
  | _, _ => false
  end.

Fixpoint lookup_pv {A} (k : pv) (t : list (pv * A)) : option A :=
  match t with [] => None | (k', a) :: r => if pv_eqb k k' then Some a else lookup_pv k r end.
Fixpoint lookup_leaf {A} (s : nat) (k : pv) (t : list (nat * pv * A)) : option A :=
  match t with [] => None
  | (s', k', a) :: r => if Nat.eqb s s' && pv_eqb k k' then Some a else lookup_leaf s k r end.
Fixpoint lookup_nat {A} (k : nat) (t : list (nat * A)) : option A :=
  match t with [] => None | (k', a) :: r => if Nat.eqb k k' then Some a else lookup_nat k r end.

Definition or_unmodelled {A} (o : option (res A)) : res A := match o with Some r => r | None => Unmodelled end.

Definition mk_runtime
  (lu lm : list (nat * pv * res pv)) (nu : list (pv * res pv)) (ld : list (pv * res pv))
  (vs : list (pv * res (list pv))) (its : list (pv * res (list (pv * pv))))
  (ups : list (pv * res (pv * pv)))
  (pl : list (pv * bool)) (ix : list (nat * pv)) (uh : list nat) (aeq : list (nat * nat)) (nonev : pv) (sup : list exn) : runtime :=
  {| leaf_u := fun s x => or_unmodelled (lookup_leaf s x lu);
     leaf_m := fun s x => or_unmodelled (lookup_leaf s x lm);
     none_u := fun x => or_unmodelled (lookup_pv x nu);
     load_scalar := fun x => or_unmodelled (lookup_pv x ld);
     values_scalar := fun x => or_unmodelled (lookup_pv x vs);
     items_scalar := fun x => or_unmodelled (lookup_pv x its);
     pairlike_scalar := fun x => match lookup_pv x pl with Some b => b | None => false end;
     unpack_scalar := fun x => or_unmodelled (lookup_pv x ups);
     index := fun i => match lookup_nat i ix with Some v => v | None => PAtom 0 end;
     unhashable_class := fun c => existsb (Nat.eqb c) uh;
     atom_eq := fun a b => existsb (fun p => (Nat.eqb a (fst p) && Nat.eqb b (snd p)) || (Nat.eqb b (fst p) && Nat.eqb a (snd p))) aeq;
     none := nonev;
     suppressed := fun e => existsb (exn_eqb e) sup |}.

Fixpoint mismatches_from {A} (ok : A -> bool) (l : list A) (i : nat) : list nat :=
  match l with [] => [] | x :: r => (if ok x then [] else [i]) ++ mismatches_from ok r (S i) end.
Definition mismatches {A} (ok : A -> bool) (l : list A) := mismatches_from ok l 0.

(* one case: direction (true = unmarshal), annotation, input, observed result *)
Definition case := (bool * ty * pv * res pv)%type.
Definition case_ok (rt : runtime) (E : env) (fuel : nat) (strict : bool) (c : case) : bool :=
  match c with (dir, t, x, obs) =>
    res_sim strict (if dir then unm rt E fuel t x else mar rt E fuel t x) obs end.
