(* Model/Scalars.v -- C04: the scalar and temporal unmarshallers of unmarshals/routines.py, branch by branch,
   over the runtime interface of Model/Temporal.v.  DEFINITIONS ONLY.
   Mirrors the tree with proposed_fixes/C04-*.diff applied (TimeDelta: seconds=val; Path: decode, not load;
   Enum: raw value first, then the loaded one). *)
From Coq Require Import List ZArith Ascii String Bool.
Import ListNotations.
Require Import TL.Model.Duration.
Require Import TL.Model.Temporal.
Open Scope Z_scope.

Inductive numkind := KInt | KFloat | KDec | KFrac.

Section WithRuntime.
Variable rt : Runtime.

Definition is_number (v : val) : bool := match v with VInt _ | VFloat _ => true | _ => false end.
Definition isinstance_num (k : numkind) (v : val) : bool :=
  match k, v with KInt, VInt _ | KFloat, VFloat _ | KDec, VDec _ | KFrac, VFrac _ => true | _, _ => false end.
(* self.t(decoded) for a non-container *)
Definition num_ctor (k : numkind) (x : val) : res val :=
  match k, x with
  | KInt, VText CStr s => int_of_str rt s >>= fun z => Ok (VInt z)
  | KInt, VFloat f => int_of_float rt f >>= fun z => Ok (VInt z)
  | KFloat, VText CStr s => float_of_str rt s >>= fun f => Ok (VFloat f)
  | KFloat, VInt z => float_of_int rt z >>= fun f => Ok (VFloat f)
  | KFloat, VFloat f => Ok (VFloat f)
  | KDec, VText CStr s => dec_of_str rt s >>= fun d => Ok (VDec d)
  | KFrac, VText CStr s => frac_of_str rt s >>= fun d => Ok (VFrac d)
  | _, _ => Unmodelled end.

(* NumberUnmarshaller.__call__ (mappings and iterables are not in this universe) *)
Definition unm_number (k : numkind) (v : val) : res val :=
  decode rt v >>= fun decoded =>
  if isinstance_num k decoded then Ok decoded
  else (if is_temporal v then unixtime rt v >>= fun f => Ok (VFloat f) else Ok decoded) >>= fun decoded' =>
       num_ctor k decoded'.

(* StringUnmarshaller.__call__ *)
Definition unm_str (v : val) : res val :=
  decode rt v >>= fun decoded =>
  match decoded with
  | VText CStr _ => Ok decoded
  | _ => if is_temporal v then Ok (VText CStr (isoformat rt v)) else Ok (VText CStr (canon_text rt decoded)) end.

(* BytesUnmarshaller.__call__ *)
Definition unm_bytes (v : val) : res val :=
  match v with
  | VText CBytes _ => Ok v
  | VText CStr s => Ok (VText CBytes (utf8_encode rt s))
  | VText _ _ => Unmodelled                     (* str(bytearray(..)) is the repr *)
  | _ => if is_temporal v then Ok (VText CBytes (utf8_encode rt (isoformat rt v)))
         else Ok (VText CBytes (utf8_encode rt (canon_text rt v))) end.

(* DateUnmarshaller.__call__ *)
Definition unm_date (v : val) : res val :=
  match v with
  | VDate _ _ _ => Ok v
  | _ =>
    (if is_number v then fromtimestamp_utc rt v >>= fun d => Ok (VDateTime d) else Ok v) >>= fun v1 =>
    decode rt v1 >>= fun decoded =>
    (match decoded with VText CStr s => dateparse rt s KDate | _ => Ok decoded end) >>= fun date =>
    match date with
    | VTime _ => Unmodelled                     (* today *)
    | VDate _ _ _ => Ok date
    | VDateTime d => Ok (VDate (dy d) (dmo d) (dd d))
    | _ => Raise EOther end end.

(* DateTimeUnmarshaller.__call__ *)
Definition unm_datetime (v : val) : res val :=
  match v with
  | VDateTime _ => Ok v
  | _ =>
    (if is_number v then fromtimestamp_utc rt v >>= fun d => Ok (VDateTime d) else Ok v) >>= fun v1 =>
    decode rt v1 >>= fun decoded =>
    (match decoded with VText CStr s => dateparse rt s KDateTime | _ => Ok decoded end) >>= fun dt =>
    match dt with
    | VTime _ => Unmodelled                     (* now() *)
    | VDateTime _ => Ok dt
    | VDate y m d => Ok (VDateTime (midnight_utc y m d))
    | _ => Raise EOther end end.

(* TimeUnmarshaller.__call__ *)
Definition unm_time (v : val) : res val :=
  match v with
  | VTime _ => Ok v
  | _ =>
    decode rt v >>= fun decoded =>
    (if is_number decoded then fromtimestamp_utc rt v >>= fun d => Ok (VTime (time_of d)) else Ok decoded) >>= fun d1 =>
    (match d1 with VText CStr s => dateparse rt s KTime | _ => Ok d1 end) >>= fun dt =>
    match dt with
    | VDateTime d => Ok (VTime (time_of d))
    | VDate _ _ _ => Ok (VTime {| th := 0; tmi := 0; ts := 0; tus := 0; toff := utc; tfold := 0 |})
    | VTime _ => Ok dt
    | _ => Raise EOther end end.

(* TimeDeltaUnmarshaller.__call__ *)
Definition unm_timedelta (v : val) : res val :=
  if is_number v then td_of_seconds rt v >>= fun '(d, s, us) => Ok (VTimeDelta d s us)
  else
    decode rt v >>= fun decoded =>
    (match decoded with VText CStr s => dateparse rt s KTimeDelta | _ => Ok decoded end) >>= fun td =>
    match td with VTimeDelta _ _ _ => Ok td | _ => Raise EOther end.

(* UUIDUnmarshaller.__call__ *)
Definition unm_uuid (v : val) : res val :=
  load rt v >>= fun decoded =>
  match decoded with
  | VInt z => uuid_of_int rt z >>= fun u => Ok (VUuid u)
  | VUuid _ => Ok decoded
  | VText CStr s => uuid_of_str rt s >>= fun u => Ok (VUuid u)
  | _ => Raise EOther end.

(* PathUnmarshaller.__call__ *)
Definition unm_path (v : val) : res val :=
  decode rt v >>= fun decoded =>
  match decoded with
  | VPath _ => Ok decoded
  | VText CStr s => path_of_str rt s >>= fun p => Ok (VPath p)
  | _ => Raise EType end.

(* EnumUnmarshaller.__call__ *)
Definition unm_enum (v : val) : res val :=
  match v with
  | VEnum _ => Ok v
  | _ =>
    match decode rt v >>= enum_of_val rt with
    | Ok m => Ok (VEnum m)
    | Raise EValue | Raise EType => load rt v >>= enum_of_val rt >>= fun m => Ok (VEnum m)
    | Raise e => Raise e
    | Unmodelled => Unmodelled end end.

End WithRuntime.

(* ---------------------------------------------------------------- ranges and the stated laws of the runtime *)
Definition hashable (c : carrier) : bool := match c with CStr | CBytes | CMvBytes => true | _ => false end.
Definition leap (y : Z) : bool := ((y mod 4 =? 0) && negb (y mod 100 =? 0)) || (y mod 400 =? 0).
Definition days_in_month (y m : Z) : Z :=
  if m =? 2 then (if leap y then 29 else 28)
  else if (m =? 4) || (m =? 6) || (m =? 9) || (m =? 11) then 30 else 31.
Definition valid_date (y m d : Z) : bool :=
  (1 <=? y) && (y <=? 9999) && (1 <=? m) && (m <=? 12) && (1 <=? d) && (d <=? days_in_month y m).
(* aware, whole-minute offset strictly inside one day *)
Definition valid_off (o : option Z) : bool :=
  match o with Some z => (-86400 <? z) && (z <? 86400) && (z mod 60 =? 0) | None => false end.
Definition valid_clock (h mi s us fold : Z) : bool :=
  (0 <=? h) && (h <? 24) && (0 <=? mi) && (mi <? 60) && (0 <=? s) && (s <? 60) && (0 <=? us) && (us <? 1000000)
  && (0 <=? fold) && (fold <=? 1).
Definition valid_dt (d : dtf) : bool :=
  valid_date (dy d) (dmo d) (dd d) && valid_clock (dh d) (dmi d) (ds d) (dus d) (dfold d) && valid_off (doff d).
Definition valid_tm (t : tmf) : bool := valid_clock (th t) (tmi t) (ts t) (tus t) (tfold t) && valid_off (toff t).
Definition opt_eqb (a b : option Z) : bool :=
  match a, b with Some x, Some y => x =? y | None, None => true | _, _ => false end.
(* equal as Python compares aware values with the same offset: every field but fold *)
Definition same_dt (a b : dtf) : bool :=
  (dy a =? dy b) && (dmo a =? dmo b) && (dd a =? dd b) && (dh a =? dh b) && (dmi a =? dmi b) && (ds a =? ds b)
  && (dus a =? dus b) && opt_eqb (doff a) (doff b).
Definition same_tm (a b : tmf) : bool :=
  (th a =? th b) && (tmi a =? tmi b) && (ts a =? ts b) && (tus a =? tus b) && opt_eqb (toff a) (toff b).

Record RuntimeLaws (rt : Runtime) : Prop := {
  utf8_rt : forall s, utf8_decode rt (utf8_encode rt s) = Ok s;
  int_text_rt : forall z, int_of_str rt (canon_text rt (VInt z)) = Ok z;
  float_text_rt : forall f, float_of_str rt (canon_text rt (VFloat f)) = Ok f;
  dec_text_rt : forall d, dec_of_str rt (canon_text rt (VDec d)) = Ok d;
  frac_text_rt : forall q, frac_of_str rt (canon_text rt (VFrac q)) = Ok q;
  uuid_text_rt : forall u, uuid_of_str rt (canon_text rt (VUuid u)) = Ok u;
  path_text_rt : forall p, path_of_str rt (canon_text rt (VPath p)) = Ok p;
  (* the text of a UUID is neither JSON nor a Python literal (serdes.load hands it back decoded) *)
  uuid_text_not_loadable : forall u c, hashable c = true ->
    load rt (text rt c (canon_text rt (VUuid u))) = Ok (VText CStr (canon_text rt (VUuid u)));
  parse_date_rt : forall y m d, valid_date y m d = true ->
    pendulum_parse rt (canon_text rt (VDate y m d)) = Ok (PDT (midnight_utc y m d));
  parse_dt_rt : forall d, valid_dt d = true ->
    exists d', pendulum_parse rt (canon_text rt (VDateTime d)) = Ok (PDT d') /\ same_dt d d' = true;
  time_iso_rt : forall t, valid_tm t = true ->
    exists t', time_fromisoformat rt (canon_text rt (VTime t)) = Ok t' /\ same_tm t t' = true;
  canon_unsigned : forall v, is_temporal v = true -> starts_neg (canon_text rt v) = false;
  (* pendulum reads what the repaired writer emits for non-negative durations (zero is spelled 'PT') *)
  parse_dur_rt : forall td, td_in_range td = true -> 0 <= td_total td ->
    pendulum_parse rt (iso_duration td) = Ok (PDur (fst (fst td)) (snd (fst td)) (snd td))
}.

(* enum members: looked up by their value's text directly (str values), or after loading it (other values) *)
Definition enum_member_ok (rt : Runtime) (m : tok) : Prop :=
  enum_of_val rt (VText CStr (canon_text rt (VEnum m))) = Ok m \/
  ((enum_of_val rt (VText CStr (canon_text rt (VEnum m))) = Raise EValue \/
    enum_of_val rt (VText CStr (canon_text rt (VEnum m))) = Raise EType) /\
   forall c, hashable c = true ->
     exists w, load rt (text rt c (canon_text rt (VEnum m))) = Ok w /\ enum_of_val rt w = Ok m).

(* memoisation of the duration writer keyed by timedelta equality *)
Definition td_eqb (a b : Z * Z * Z) : bool :=
  let '(d, s, us) := a in let '(d', s', us') := b in (d =? d') && (s =? s') && (us =? us').
Fixpoint memo_find (k : Z * Z * Z) (memo : list ((Z * Z * Z) * string)) : option string :=
  match memo with [] => None | (k', s) :: r => if td_eqb k k' then Some s else memo_find k r end.
Definition cached_iso (memo : list ((Z * Z * Z) * string)) (td : Z * Z * Z) : string :=
  match memo_find td memo with Some s => s | None => iso_duration td end.
