(* Model/Scalars.v -- C04: the scalar and temporal unmarshallers of unmarshals/routines.py, branch by branch,
   over the runtime interface of Model/Temporal.v.  DEFINITIONS ONLY.
   Mirrors the tree with proposed_fixes/C04-*.diff applied (TimeDelta: seconds=val; Path: decode, not load;
   Enum: raw value first, then the loaded one). *)
From Coq Require Import List ZArith Ascii String Bool.
Import ListNotations.
Require Import TL.Model.Duration.
Require Import TL.Model.Temporal.
Open Scope Z_scope.

Inductive numkind := KBool | KInt | KFloat | KDec | KFrac.

(* ---------------------------------------------------------------- structural equality of values *)
Definition opt_eqb (a b : option Z) : bool :=
  match a, b with Some x, Some y => x =? y | None, None => true | _, _ => false end.
(* equal as Python compares aware values with the same offset: every field but fold *)
Definition same_dt (a b : dtf) : bool :=
  (dy a =? dy b) && (dmo a =? dmo b) && (dd a =? dd b) && (dh a =? dh b) && (dmi a =? dmi b) && (ds a =? ds b)
  && (dus a =? dus b) && opt_eqb (doff a) (doff b).
Definition same_tm (a b : tmf) : bool :=
  (th a =? th b) && (tmi a =? tmi b) && (ts a =? ts b) && (tus a =? tus b) && opt_eqb (toff a) (toff b).
Definition carrier_eqb (a b : carrier) : bool :=
  match a, b with CStr, CStr | CBytes, CBytes | CBytearray, CBytearray | CMvBytes, CMvBytes | CMvBytearray, CMvBytearray => true
  | _, _ => false end.
Definition dtf_eqb (a b : dtf) : bool := same_dt a b && (dfold a =? dfold b).
Definition tmf_eqb (a b : tmf) : bool := same_tm a b && (tfold a =? tfold b).
Definition val_eqb (a b : val) : bool :=
  match a, b with
  | VNone, VNone => true
  | VBool x, VBool y => Bool.eqb x y
  | VInt x, VInt y => x =? y
  | VFloat x, VFloat y | VDec x, VDec y | VFrac x, VFrac y | VUuid x, VUuid y | VPath x, VPath y
  | VEnum x, VEnum y | VPattern x, VPattern y | VOther x, VOther y => String.eqb x y
  | VText c s, VText c' s' => carrier_eqb c c' && String.eqb s s'
  | VDate y m d, VDate y' m' d' => (y =? y') && (m =? m') && (d =? d')
  | VDateTime x, VDateTime y => dtf_eqb x y
  | VTime x, VTime y => tmf_eqb x y
  | VTimeDelta d s u, VTimeDelta d' s' u' => (d =? d') && (s =? s') && (u =? u')
  | _, _ => false end.

Section WithRuntime.
Variable rt : Runtime.

(* isinstance(v, (int, float)): bool is an int, a member of an int / float mixin enum is one *)
Definition is_number (v : val) : bool := match view rt v with VInt _ | VFloat _ | VBool _ => true | _ => false end.
(* isinstance(v, self.t) for the number classes (exact class or subclass: True is an int) *)
Definition isinstance_num (k : numkind) (v : val) : bool :=
  match k, view rt v with
  | KBool, VBool _ | KInt, VInt _ | KInt, VBool _ | KFloat, VFloat _ | KDec, VDec _ | KFrac, VFrac _ => true
  | _, _ => false end.
Definition is_empty (s : string) : bool := match s with EmptyString => true | _ => false end.
(* bool(x) *)
Definition truth (v : val) : res bool :=
  match view rt v with
  | VNone => Ok false
  | VBool b => Ok b
  | VInt z => Ok (negb (z =? 0))
  | VText _ s => Ok (negb (is_empty s))
  | VTimeDelta d s us => Ok (td_nonzero (d, s, us))
  | VDate _ _ _ | VDateTime _ | VTime _ | VUuid _ | VPath _ | VPattern _ | VEnum _ => Ok true
  | VFloat _ | VDec _ | VFrac _ | VOther _ => truthy rt v end.
(* str(z) *)
Definition zstr (z : Z) : string := string_of_list_ascii (show_Z z).
(* self.t(decoded) for a non-container; a member of a mixin enum is converted as the str / int it is *)
Definition num_ctor (k : numkind) (x : val) : res val :=
  match k, view rt x with
  | KBool, _ => truth x >>= fun b => Ok (VBool b)
  | KInt, VText CStr s => int_of_str rt s >>= fun z => Ok (VInt z)
  | KInt, VFloat f => int_of_float rt f >>= fun z => Ok (VInt z)
  | KInt, VBool b => Ok (VInt (b2z b))
  | KInt, VInt z => Ok (VInt z)
  | KFloat, VText CStr s => float_of_str rt s >>= fun f => Ok (VFloat f)
  | KFloat, VInt z => float_of_int rt z >>= fun f => Ok (VFloat f)
  | KFloat, VBool b => float_of_int rt (b2z b) >>= fun f => Ok (VFloat f)
  | KFloat, VFloat f => Ok (VFloat f)
  | KDec, VText CStr s => dec_of_str rt s >>= fun d => Ok (VDec d)
  | KFrac, VText CStr s => frac_of_str rt s >>= fun d => Ok (VFrac d)
  (* Decimal(z), Fraction(z) of an int (True is 1): what the text of the int gives *)
  | KDec, VInt z => dec_of_str rt (zstr z) >>= fun d => Ok (VDec d)
  | KDec, VBool b => dec_of_str rt (zstr (b2z b)) >>= fun d => Ok (VDec d)
  | KFrac, VInt z => frac_of_str rt (zstr z) >>= fun d => Ok (VFrac d)
  | KFrac, VBool b => frac_of_str rt (zstr (b2z b)) >>= fun d => Ok (VFrac d)
  | _, _ => Unmodelled end.

(* NumberUnmarshaller.__call__ (mappings and iterables are not in this universe); bool is a Number too *)
Definition unm_number (k : numkind) (v : val) : res val :=
  decode rt v >>= fun decoded =>
  if isinstance_num k decoded then Ok decoded
  else (if is_temporal v then unixtime rt v >>= fun f => Ok (VFloat f) else Ok decoded) >>= fun decoded' =>
       num_ctor k decoded'.

(* StringUnmarshaller.__call__: a member of a str-mixin enum is a str and is returned as it is *)
Definition unm_str (v : val) : res val :=
  decode rt v >>= fun decoded =>
  match as_str rt decoded with
  | Some _ => Ok decoded
  | None => if is_temporal v then Ok (VText CStr (isoformat rt v)) else Ok (VText CStr (canon_text rt decoded)) end.

(* BytesUnmarshaller.__call__ *)
Definition unm_bytes (v : val) : res val :=
  match v with
  | VText CBytes _ => Ok v
  | VText CStr s => Ok (VText CBytes (utf8_encode rt s))
  | VText _ _ => Unmodelled                     (* str(bytearray(..)) is the repr *)
  | _ => if is_temporal v then Ok (VText CBytes (utf8_encode rt (isoformat rt v)))
         else Ok (VText CBytes (utf8_encode rt (canon_text rt v))) end.

(* a member of a str-mixin enum handed to serdes.dateparse: fromisoformat, pendulum and the digit fallback each read
   it their own way (the text of the member, or str(member)): outside the model; any other member is no str *)
Definition parse_member (v : val) : res val := match as_str rt v with Some _ => Unmodelled | None => Ok v end.

(* DateUnmarshaller.__call__ *)
Definition unm_date (v : val) : res val :=
  match v with
  | VDate _ _ _ => Ok v
  | _ =>
    (if is_number v then fromtimestamp_utc rt v >>= fun d => Ok (VDateTime d) else Ok v) >>= fun v1 =>
    decode rt v1 >>= fun decoded =>
    (match decoded with VText CStr s => dateparse rt s KDate | VEnum _ => parse_member decoded | _ => Ok decoded end) >>= fun date =>
    match date with
    | VTime _ => Unmodelled                     (* today *)
    | VDate _ _ _ => Ok date
    | VDateTime d => Ok (VDate (dy d) (dmo d) (dd d))
    | _ => Raise EOther end end.

(* DateTimeUnmarshaller.__call__ *)
Definition unm_datetime (v : val) : res val :=
  match v with
  | VDateTime _ => Ok v
  | _ =>
    (if is_number v then fromtimestamp_utc rt v >>= fun d => Ok (VDateTime d) else Ok v) >>= fun v1 =>
    decode rt v1 >>= fun decoded =>
    (match decoded with VText CStr s => dateparse rt s KDateTime | VEnum _ => parse_member decoded | _ => Ok decoded end) >>= fun dt =>
    match dt with
    | VTime _ => Unmodelled                     (* now() *)
    | VDateTime _ => Ok dt
    | VDate y m d => Ok (VDateTime (midnight_utc y m d))
    | _ => Raise EOther end end.

(* TimeUnmarshaller.__call__ *)
Definition unm_time (v : val) : res val :=
  match v with
  | VTime _ => Ok v
  | _ =>
    decode rt v >>= fun decoded =>
    (if is_number decoded then fromtimestamp_utc rt v >>= fun d => Ok (VTime (time_of d)) else Ok decoded) >>= fun d1 =>
    (match d1 with VText CStr s => dateparse rt s KTime | VEnum _ => parse_member d1 | _ => Ok d1 end) >>= fun dt =>
    match dt with
    | VDateTime d => Ok (VTime (time_of d))
    | VDate _ _ _ => Ok (VTime {| th := 0; tmi := 0; ts := 0; tus := 0; toff := utc; tfold := 0 |})
    | VTime _ => Ok dt
    | _ => Raise EOther end end.

(* TimeDeltaUnmarshaller.__call__ *)
Definition unm_timedelta (v : val) : res val :=
  if is_number v then td_of_seconds rt v >>= fun '(d, s, us) => Ok (VTimeDelta d s us)
  else
    decode rt v >>= fun decoded =>
    (match decoded with VText CStr s => dateparse rt s KTimeDelta | VEnum _ => parse_member decoded | _ => Ok decoded end) >>= fun td =>
    match td with VTimeDelta _ _ _ => Ok td | _ => Raise EOther end.

(* UUIDUnmarshaller.__call__ *)
Definition unm_uuid (v : val) : res val :=
  load rt v >>= fun decoded =>
  match as_int rt decoded with
  | Some z => uuid_of_int rt z >>= fun u => Ok (VUuid u)          (* isinstance(decoded, int): True is 1 *)
  | None =>
    match decoded with
    | VUuid _ => Ok decoded
    | _ => match as_str rt decoded with
           | Some s => uuid_of_str rt s >>= fun u => Ok (VUuid u)
           | None => Raise EOther end end end.

(* PathUnmarshaller.__call__ *)
Definition unm_path (v : val) : res val :=
  decode rt v >>= fun decoded =>
  match decoded with
  | VPath _ => Ok decoded
  | _ => match as_str rt decoded with
         | Some s => path_of_str rt s >>= fun p => Ok (VPath p)
         | None => Raise EType end end.

(* EnumUnmarshaller.__call__ *)
Definition unm_enum (v : val) : res val :=
  if match v with VEnum m => is_member rt m | _ => false end then Ok v
  else
    match decode rt v >>= enum_of_val rt with
    | Ok m => Ok (VEnum m)
    | Raise EValue | Raise EType => load rt v >>= enum_of_val rt >>= fun m => Ok (VEnum m)
    | Raise e => Raise e
    | Unmodelled => Unmodelled end.

(* PatternUnmarshaller.__call__: re.compile(decode(val)); a compiled pattern is handed back by re.compile *)
Definition unm_pattern (v : val) : res val :=
  decode rt v >>= fun decoded =>
  match decoded with
  | VPattern _ => Ok decoded
  | _ => match as_str rt decoded with
         | Some s => re_compile rt s >>= fun p => Ok (VPattern p)
         | None => Raise EType end end.

(* NoneTypeUnmarshaller.__call__ *)
Definition unm_none (v : val) : res val :=
  decode rt v >>= fun d => match d with VNone => Ok VNone | _ => Raise EValue end.

(* Python's == as `x in values` uses it (after `is`): decided here for int-like against int-like (bool included) and
   text against text (a str never equals a bytes-like; bytes == bytearray == memoryview on equal content), structural
   identity always suffices, everything else is the interpreter's *)
Definition eqv (x m : val) : bool :=
  val_eqb x m ||
  match as_int rt x, as_int rt m with
  | Some a, Some b => a =? b
  | _, _ =>
    match view rt x, view rt m with
    | VText CStr a, VText CStr b => String.eqb a b
    | VText CStr _, VText _ _ | VText _ _, VText CStr _ => false
    | VText _ a, VText _ b => String.eqb a b
    | VNone, _ | _, VNone => false
    | _, _ => py_eq rt x m end end.
Definition mem (x : val) (vs : list val) : bool := existsb (eqv x) vs.

(* LiteralUnmarshaller.__call__: the raw input, then its decoded text, then the loaded value *)
Definition unm_literal (vs : list val) (v : val) : res val :=
  if mem v vs then Ok v
  else decode rt v >>= fun text =>
       if mem text vs then Ok text
       else load rt v >>= fun decoded =>
            if mem decoded vs then Ok decoded else Raise EValue.

End WithRuntime.

(* ---------------------------------------------------------------- ranges and the stated laws of the runtime *)
Definition hashable (c : carrier) : bool := match c with CStr | CBytes | CMvBytes => true | _ => false end.
Definition leap (y : Z) : bool := ((y mod 4 =? 0) && negb (y mod 100 =? 0)) || (y mod 400 =? 0).
Definition days_in_month (y m : Z) : Z :=
  if m =? 2 then (if leap y then 29 else 28)
  else if (m =? 4) || (m =? 6) || (m =? 9) || (m =? 11) then 30 else 31.
Definition valid_date (y m d : Z) : bool :=
  (1 <=? y) && (y <=? 9999) && (1 <=? m) && (m <=? 12) && (1 <=? d) && (d <=? days_in_month y m).
(* aware, whole-minute offset strictly inside one day *)
Definition valid_off (o : option Z) : bool :=
  match o with Some z => (-86400 <? z) && (z <? 86400) && (z mod 60 =? 0) | None => false end.
Definition valid_clock (h mi s us fold : Z) : bool :=
  (0 <=? h) && (h <? 24) && (0 <=? mi) && (mi <? 60) && (0 <=? s) && (s <? 60) && (0 <=? us) && (us <? 1000000)
  && (0 <=? fold) && (fold <=? 1).
Definition valid_dt (d : dtf) : bool :=
  valid_date (dy d) (dmo d) (dd d) && valid_clock (dh d) (dmi d) (ds d) (dus d) (dfold d) && valid_off (doff d).
Definition valid_tm (t : tmf) : bool := valid_clock (th t) (tmi t) (ts t) (tus t) (tfold t) && valid_off (toff t).

Record RuntimeLaws (rt : Runtime) : Prop := {
  utf8_rt : forall s, utf8_decode rt (utf8_encode rt s) = Ok s;
  int_text_rt : forall z, int_of_str rt (canon_text rt (VInt z)) = Ok z;
  float_text_rt : forall f, float_of_str rt (canon_text rt (VFloat f)) = Ok f;
  dec_text_rt : forall d, dec_of_str rt (canon_text rt (VDec d)) = Ok d;
  frac_text_rt : forall q, frac_of_str rt (canon_text rt (VFrac q)) = Ok q;
  uuid_text_rt : forall u, uuid_of_str rt (canon_text rt (VUuid u)) = Ok u;
  path_text_rt : forall p, path_of_str rt (canon_text rt (VPath p)) = Ok p;
  (* the text of a UUID is neither JSON nor a Python literal (serdes.load hands it back decoded) *)
  uuid_text_not_loadable : forall u c, hashable c = true ->
    load rt (text rt c (canon_text rt (VUuid u))) = Ok (VText CStr (canon_text rt (VUuid u)));
  parse_date_rt : forall y m d, valid_date y m d = true ->
    pendulum_parse rt (canon_text rt (VDate y m d)) = Ok (PDT (midnight_utc y m d));
  parse_dt_rt : forall d, valid_dt d = true ->
    exists d', pendulum_parse rt (canon_text rt (VDateTime d)) = Ok (PDT d') /\ same_dt d d' = true;
  time_iso_rt : forall t, valid_tm t = true ->
    exists t', time_fromisoformat rt (canon_text rt (VTime t)) = Ok t' /\ same_tm t t' = true;
  canon_unsigned : forall v, is_temporal v = true -> starts_neg (canon_text rt v) = false;
  (* pendulum reads what the repaired writer emits for non-negative durations (zero is spelled 'PT') *)
  parse_dur_rt : forall td, td_in_range td = true -> 0 <= td_total td ->
    pendulum_parse rt (iso_duration td) = Ok (PDur (fst (fst td)) (snd (fst td)) (snd td));
  (* E(v) is a member of E *)
  enum_result_member : forall w m, enum_of_val rt w = Ok m -> is_member rt m = true
}.

(* enum members: looked up by their value's text directly (str values), or after loading it (other values) *)
Definition enum_member_ok (rt : Runtime) (m : tok) : Prop :=
  enum_of_val rt (VText CStr (canon_text rt (VEnum m))) = Ok m \/
  ((enum_of_val rt (VText CStr (canon_text rt (VEnum m))) = Raise EValue \/
    enum_of_val rt (VText CStr (canon_text rt (VEnum m))) = Raise EType) /\
   forall c, hashable c = true ->
     exists w, load rt (text rt c (canon_text rt (VEnum m))) = Ok w /\ enum_of_val rt w = Ok m).

(* memoisation of the duration writer keyed by timedelta equality *)
Definition td_eqb (a b : Z * Z * Z) : bool :=
  let '(d, s, us) := a in let '(d', s', us') := b in (d =? d') && (s =? s') && (us =? us').
Fixpoint memo_find (k : Z * Z * Z) (memo : list ((Z * Z * Z) * string)) : option string :=
  match memo with [] => None | (k', s) :: r => if td_eqb k k' then Some s else memo_find k r end.
Definition cached_iso (memo : list ((Z * Z * Z) * string)) (td : Z * Z * Z) : string :=
  match memo_find td memo with Some s => s | None => iso_duration td end.
