(* The tie "one module, two descriptions" (correspondence runs only; harness/bridgetie.py).
   One synthesised Python module is described twice, independently: at the string level (Graph.env, gty) and
   at the number level (Core.env, ty: harness/universe.py).  The implementation's graph.static_order is
   observed once and encoded twice: as Graph.node terms and as Build.node terms.  check_case decides, per
   observed order, the hypotheses of graph_orders (Proofs/GraphBridge.v): the graph model builds an
   adjacency, the observed order is a topological order of it, the guard holds, the translation of the
   observed graph nodes IS the observed build nodes, the root translates to the key the core harness
   files the order under, and the translated environment is the core environment on every expanded class.
   Definitions only. *)
From Coq Require Import List Arith Bool PeanoNat String.
Import ListNotations.
Require Import TL.Model.Graph TL.Model.Topo.
Require Import TL.Model.Core TL.Model.Build TL.Proofs.BuildLemmas.
Require Import TL.Model.GraphBridge TL.Proofs.GraphBridge.

(* ---- a naming from finite tables ---- *)
Fixpoint slookup {A} (k : Graph.str) (l : list (Graph.str * A)) : option A :=
  match l with [] => None | (k', v) :: r => if String.eqb k k' then Some v else slookup k r end.
Fixpoint nlookup {A} (k : nat) (l : list (nat * A)) : option A :=
  match l with [] => None | (k', v) :: r => if Nat.eqb k k' then Some v else nlookup k r end.
Fixpoint rlookup (a : Graph.str) (mo : option Graph.str) (l : list (Graph.str * option Graph.str * ty)) : option ty :=
  match l with
  | [] => None
  | (a', mo', t) :: r => if String.eqb a a' && ostr_eqb mo mo' then Some t else rlookup a mo r
  end.
Fixpoint sclookup (s : scalar) (l : list (scalar * nat)) : option nat :=
  match l with [] => None | (s', v) :: r => if scalar_eqb s s' then Some v else sclookup s r end.
Fixpoint dlookup (c : nat) (f : Graph.str) (l : list (nat * Graph.str * pv)) : option pv :=
  match l with
  | [] => None
  | (c', f', v) :: r => if Nat.eqb c c' && String.eqb f f' then Some v else dlookup c f r
  end.
Definition odef {A} (d : A) (o : option A) : A := match o with Some x => x | None => d end.

(* ids that no table mentions get numbers no core annotation of the case uses *)
Definition unknown_id : nat := 4000.

Definition mk_naming (refs : list (Graph.str * option Graph.str * ty)) (wids : list (Graph.str * nat))
    (fids : list (Graph.str * nat)) (flavs : list (nat * flavour)) (fdefs : list (nat * Graph.str * pv))
    (creqs : list (nat * list nat)) (sids : list (scalar * nat)) (any : nat) (lits : list (nat * nat))
    (ordered : list gen) : naming :=
  {| rref := fun a mo => rlookup a mo refs;
     wid := fun _ n => odef unknown_id (slookup n wids);
     fid := fun f => odef unknown_id (slookup f fids);
     flav := fun c => odef FPlain (nlookup c flavs);
     fdef := fun c f => dlookup c f fdefs;
     creq := fun c => odef [] (nlookup c creqs);
     sid := fun s => odef unknown_id (sclookup s sids);
     any_id := any;
     lit_id := fun n => odef unknown_id (nlookup n lits);
     mkind := fun g => if existsb (gen_eqb g) ordered then KOrderedDict else KDict |}.

(* ---- equality of core class definitions and of build nodes ---- *)
Definition flavour_eqb (a b : flavour) : bool :=
  match a, b with
  | FDataclass, FDataclass | FNamedTuple, FNamedTuple | FTypedDict, FTypedDict | FPlain, FPlain => true
  | _, _ => false
  end.
Definition opv_eqb (a b : option pv) : bool :=
  match a, b with Some x, Some y => pv_eqb x y | None, None => true | _, _ => false end.
Definition field_eqb (a b : field) : bool :=
  Nat.eqb (fname a) (fname b) && ty_eqb (fty a) (fty b) && opv_eqb (fdefault a) (fdefault b).
Definition classdef_eqb (a b : classdef) : bool :=
  flavour_eqb (cflavour a) (cflavour b) && list_eqb field_eqb (cfields a) (cfields b)
  && list_eqb Nat.eqb (crequired a) (crequired b).
Definition ondef_eqb (a b : option ndef) : bool :=
  match a, b with
  | Some (NClass c), Some (NClass d) => classdef_eqb c d
  | None, None => true
  | _, _ => false
  end.
Definition bnode_eqb (a b : node) : bool :=
  ty_eqb (ntype a) (ntype b) && ty_eqb (nunw a) (nunw b) && Bool.eqb (ncyc a) (ncyc b).

(* ---- one observed order ---- *)
Record bcase := { bc_root : gty; bc_key : ty; bc_obs : list Graph.node; bc_ns : list node }.
Definition tie_fuel : nat := 600.
Definition flag (ok : bool) (k : nat) : nat := if ok then 0 else k.

(* 0 = every clause holds; otherwise the sum of the failing clauses' weights:
     1 topo      the observed order is a topological order of the model's adjacency (graphlib's contract,
                 nodes compared with their variable names and cyclic flags)
     2 classes   classes_ok        4 refs  refs_ok
     8 trorder   tr_order N observed_graph_nodes = Some observed_build_nodes
    16 root      tr_ty N root = Some key
    32 env       tr_env N E = the core environment on every expanded class
    64 contract  order_ok on the observed build nodes in both directions (the conclusion of
                 C05_contract_from_graph, evaluated as a cross-check)
   512 graph     the graph model did not build an adjacency (out of fuel / unmodelled) *)
Definition check_case (N : naming) (E : Graph.env) (coreE : env) (noop_leaf : nat -> bool) (c : bcase) : nat :=
  match type_graph tie_fuel E (bc_root c) with
  | Graph.Ok g =>
      flag (is_topo_orderb g (bc_obs c)) 1
      + flag (classes_ok N E noop_leaf g) 2
      + flag (refs_ok N g) 4
      + flag (match tr_order N (bc_obs c) with Some ns => list_eqb bnode_eqb ns (bc_ns c) | None => false end) 8
      + flag (match tr_ty N (bc_root c) with Some t => ty_eqb t (bc_key c) | None => false end) 16
      + flag (forallb (fun e => match Graph.nunw (fst e) with
                                | GClass k => ondef_eqb (tr_env N E k) (coreE k)
                                | _ => true end) g) 32
      + flag (order_ok (tr_env N E) true noop_leaf [] (bc_ns c) && order_ok (tr_env N E) false noop_leaf [] (bc_ns c)) 64
  | _ => 512
  end.

(* the names layer (C05_refs_ok_from_names): 1 = applicable to this graph *)
Definition names_case (N : naming) (E : Graph.env) (univ : list gty) (c : bcase) : nat :=
  match type_graph tie_fuel E (bc_root c) with
  | Graph.Ok g => if names_okb N E univ && named_refs_ok N E univ g then 1 else 0
  | _ => 0
  end.

(* how many deferred nodes / reference nodes the model's adjacency has (coverage) *)
Definition cyc_count (E : Graph.env) (c : bcase) : list nat :=
  match type_graph tie_fuel E (bc_root c) with
  | Graph.Ok g =>
      let cyc := filter (fun n => Graph.ncyc n) (flat_map snd g) in
      [List.length cyc; List.length (filter (fun n => Graph.is_ref (Graph.ntype n)) cyc)]
  | _ => [0; 0]
  end.
