(* Model of typelib/py/inspection.py (property C17).  Definitions only.

   Annotations are SYNTAX: every spelling is a different constructor (list[int] is IClassSub,
   typing.List[int] is ITypingSub, X | None is IUnion UPipe, Optional[X] is IUnion UOptional ...).
   Everything the interpreter knows about a class (issubclass answers, str(), __qualname__, attribute
   flags) and every module-level table of inspection.py is a field of [tables], regenerated from the
   live module on every run (build dir, GenInspectTables.v).

   The functions below follow inspection.py line by line, defects included.  Where the code raises,
   the model returns [Raise]. *)
From Coq Require Import List NArith ZArith String Ascii Bool DecimalString.
Import ListNotations.
Local Open Scope string_scope.

Definition cls := N.

(* classes the code names (ids are fixed here; the harness reads them from this file) *)
Definition c_NoneType : cls := 1%N.
Definition c_object : cls := 2%N.
Definition c_type : cls := 3%N.
Definition c_int : cls := 4%N.
Definition c_bool : cls := 5%N.
Definition c_float : cls := 6%N.
Definition c_complex : cls := 7%N.
Definition c_str : cls := 8%N.
Definition c_bytes : cls := 9%N.
Definition c_bytearray : cls := 10%N.
Definition c_memoryview : cls := 11%N.
Definition c_list : cls := 12%N.
Definition c_set : cls := 13%N.
Definition c_frozenset : cls := 14%N.
Definition c_tuple : cls := 15%N.
Definition c_dict : cls := 16%N.
Definition c_Number : cls := 17%N.
Definition c_Enum : cls := 18%N.
Definition c_Pattern : cls := 19%N.
Definition c_PurePath : cls := 20%N.
Definition c_date : cls := 21%N.
Definition c_datetime : cls := 22%N.
Definition c_time : cls := 23%N.
Definition c_timedelta : cls := 24%N.
Definition c_Decimal : cls := 25%N.
Definition c_Fraction : cls := 26%N.
Definition c_UUID : cls := 27%N.
Definition c_Iterable : cls := 28%N.
Definition c_Iterator : cls := 29%N.
Definition c_Sequence : cls := 30%N.
Definition c_Collection : cls := 31%N.
Definition c_Mapping : cls := 32%N.
Definition c_abcCallable : cls := 33%N.
Definition c_Generic : cls := 34%N.
Definition c_UnionType : cls := 35%N.
Definition c_property : cls := 36%N.
Definition c_cached_property : cls := 37%N.
Definition c_Any : cls := 38%N.

(* the bare alias typing.Callable (origin() returns it for every callable) *)
Definition ta_Callable : N := 1%N.
(* module in which the harness creates NewTypes, aliases, functions and user classes *)
Definition user_module : string := "verif_c17_mod".

Inductive exn := EType | EAttribute | EOther.
Inductive res (A : Type) := Ok (a : A) | Raise (e : exn).
Arguments Ok {A} a.
Arguments Raise {A} e.

Inductive special := SUnion | SOptional | SLiteral | SFinal | SClassVar | SNoReturn | STypeAlias.
Inductive uspell := UUnion | UOptional | UPipe.
Inductive lit := LInt (z : Z) | LStr (s : string) | LBool (b : bool) | LNone | LBytes (s : string).

Inductive ity :=
| IClass (c : cls)                               (* any class object *)
| INone                                          (* the object None *)
| IEllipsis
| ISpecial (s : special)                         (* bare typing special form *)
| ITyping (a : N)                                (* bare typing alias: typing.List, typing.Callable *)
| ITypingSub (a : N) (args : list ity)           (* typing.List[int] *)
| IClassSub (c : cls) (args : list ity)          (* list[int], collections.abc.Sequence[int] *)
| IUserSub (c : cls) (args : list ity)           (* G[int] for a user Generic class *)
| IUnion (sp : uspell) (args : list ity)
| ILiteral (vs : list lit)
| IFinal (a : ity)
| IClassVar (a : ity)
| INewType (nm : string) (sup : ity)
| IAlias (nm : string) (v : ity)                 (* TypeAliasType(nm, v) *)
| IAliasStr (nm : string) (ref : string)         (* TypeAliasType(nm, "ref") *)
| IForwardRef (arg : string) (module : option string)
| ITypeVar (nm : string) (bound : option ity) (constraints : list ity)
| ICallable (typing_spelling : bool) (ps : option (list ity)) (r : ity)
| IRoutine (nm : string)                         (* a plain function object *)
| IArgList (l : list ity)                        (* only inside get_args of a Callable *)
| IValue (v : lit)                               (* only inside get_args of a Literal; alias string values *)
| IInst (c : cls).                               (* some instance of class c (instance predicates) *)

Record clsinfo := {
  ci_supers : list cls;       (* every catalogue class b with issubclass(a, b) *)
  ci_str : string;            (* str(a) *)
  ci_qualname : string;       (* a.__qualname__ *)
  ci_trepr : string;          (* qualname for builtins, module.qualname otherwise *)
  ci_total : bool;            (* hasattr(a, "__total__") *)
  ci_fields : bool;           (* hasattr(a, "_fields") *)
  ci_annots : bool;           (* bool(getattr(a, "__annotations__", False)) *)
  ci_fromdict : bool;         (* hasattr(a, "from_dict") *)
  ci_frozen : bool;           (* a.__dataclass_params__.frozen *)
  ci_abstract : bool;         (* inspect.isabstract(a) *)
  ci_hash : bool;             (* a.__hash__ is not None *)
  ci_cls_descr : bool;        (* dir(a) meets the descriptor methods *)
  ci_inst_descr : bool;       (* dir(instance of a) meets the descriptor methods *)
  ci_inst_routine : bool;     (* inspect.isroutine(instance of a) *)
  ci_abcmeta : bool;          (* isinstance(a, abc.ABCMeta): issubclass(x, a) runs ABCMeta.__subclasscheck__ *)
  ci_is_typeddict : bool;     (* typing.is_typeddict(a)          -- oracle side only *)
  ci_is_namedtuple : bool     (* tuple subclass with _fields      -- oracle side only *)
}.

Record tables := {
  t_cls : list (cls * clsinfo);
  t_talias : list (N * (string * cls));       (* typing alias id -> (name, origin class) *)
  t_generic_map : list (ity * ity);           (* GENERIC_TYPE_MAP *)
  t_builtin : list cls;                       (* BUILTIN_TYPES *)
  t_stdlib : list cls;                        (* STDLIB_TYPES *)
  t_unresolvable : list ity;                  (* _UNRESOLVABLE *)
  t_collections : list cls;                   (* _COLLECTIONS *)
  t_mapping_types : list cls;                 (* _MAPPING_TYPES *)
  t_abcs : list cls                           (* _ABCS *)
}.

(* ------------------------------------------------------------------ small helpers *)
Definition sapp := String.append.
Infix "+++" := sapp (right associativity, at level 60).

Definition memN (x : N) (l : list N) : bool := existsb (N.eqb x) l.
Fixpoint assocN {A} (k : N) (l : list (N * A)) : option A :=
  match l with [] => None | (k', v) :: r => if N.eqb k k' then Some v else assocN k r end.

Definition lit_eqb (a b : lit) : bool :=
  match a, b with
  | LInt x, LInt y => Z.eqb x y
  | LStr x, LStr y => String.eqb x y
  | LBool x, LBool y => Bool.eqb x y
  | LNone, LNone => true
  | LBytes x, LBytes y => String.eqb x y
  | _, _ => false
  end.
Definition uspell_eqb (a b : uspell) : bool :=
  match a, b with UUnion, UUnion | UOptional, UOptional | UPipe, UPipe => true | _, _ => false end.
Definition special_eqb (a b : special) : bool :=
  match a, b with
  | SUnion, SUnion | SOptional, SOptional | SLiteral, SLiteral | SFinal, SFinal
  | SClassVar, SClassVar | SNoReturn, SNoReturn | STypeAlias, STypeAlias => true
  | _, _ => false
  end.
Definition ostr_eqb (a b : option string) : bool :=
  match a, b with Some x, Some y => String.eqb x y | None, None => true | _, _ => false end.
Fixpoint lits_eqb (a b : list lit) : bool :=
  match a, b with [], [] => true | x :: r, y :: s => lit_eqb x y && lits_eqb r s | _, _ => false end.

(* syntactic equality of annotations (= Python identity/== for everything but unions) *)
Fixpoint ity_eqb (a b : ity) {struct a} : bool :=
  let fix l_eqb (x y : list ity) {struct x} : bool :=
    match x, y with
    | [], [] => true
    | p :: r, q :: s => ity_eqb p q && l_eqb r s
    | _, _ => false
    end in
  match a, b with
  | IClass c, IClass d => N.eqb c d
  | INone, INone => true
  | IEllipsis, IEllipsis => true
  | ISpecial s, ISpecial s' => special_eqb s s'
  | ITyping x, ITyping y => N.eqb x y
  | ITypingSub x l, ITypingSub y l' => N.eqb x y && l_eqb l l'
  | IClassSub x l, IClassSub y l' => N.eqb x y && l_eqb l l'
  | IUserSub x l, IUserSub y l' => N.eqb x y && l_eqb l l'
  | IUnion s l, IUnion s' l' => uspell_eqb s s' && l_eqb l l'
  | ILiteral v, ILiteral v' => lits_eqb v v'
  | IFinal x, IFinal y => ity_eqb x y
  | IClassVar x, IClassVar y => ity_eqb x y
  | INewType n x, INewType n' y => String.eqb n n' && ity_eqb x y
  | IAlias n x, IAlias n' y => String.eqb n n' && ity_eqb x y
  | IAliasStr n r, IAliasStr n' r' => String.eqb n n' && String.eqb r r'
  | IForwardRef x m, IForwardRef y m' => String.eqb x y && ostr_eqb m m'
  | ITypeVar n bd cs, ITypeVar n' bd' cs' =>
      String.eqb n n' &&
      match bd, bd' with Some x, Some y => ity_eqb x y | None, None => true | _, _ => false end &&
      l_eqb cs cs'
  | ICallable t ps r, ICallable t' ps' r' =>
      Bool.eqb t t' &&
      match ps, ps' with Some x, Some y => l_eqb x y | None, None => true | _, _ => false end &&
      ity_eqb r r'
  | IRoutine n, IRoutine n' => String.eqb n n'
  | IArgList l, IArgList l' => l_eqb l l'
  | IValue v, IValue v' => lit_eqb v v'
  | IInst c, IInst d => N.eqb c d
  | _, _ => false
  end.
Definition itys_eqb (a b : list ity) : bool :=
  (fix l_eqb (x y : list ity) {struct x} : bool :=
    match x, y with
    | [], [] => true
    | p :: r, q :: s => ity_eqb p q && l_eqb r s
    | _, _ => false
    end) a b.
Definition mem_ity (x : ity) (l : list ity) : bool := existsb (ity_eqb x) l.

(* ------------------------------------------------------------------ strings *)
Fixpoint prefixb (p s : string) : bool :=
  match p, s with
  | EmptyString, _ => true
  | String a p', String b s' => Ascii.eqb a b && prefixb p' s'
  | _, _ => false
  end.
Fixpoint has_char (c : ascii) (s : string) : bool :=
  match s with EmptyString => false | String a r => Ascii.eqb a c || has_char c r end.
(* s.split("[", maxsplit=1)[0] *)
Fixpoint before_char (c : ascii) (s : string) : string :=
  match s with
  | EmptyString => EmptyString
  | String a r => if Ascii.eqb a c then EmptyString else String a (before_char c r)
  end.
(* s.rsplit(".")[-1] : the part after the last dot *)
Fixpoint after_last (c : ascii) (s : string) (acc : string) : string :=
  match s with
  | EmptyString => acc
  | String a r => if Ascii.eqb a c then after_last c r r else after_last c r acc
  end.
Definition last_segment (s : string) : string := after_last "."%char s s.
(* s.replace("<locals>.", "") *)
Fixpoint drop (n : nat) (s : string) : string :=
  match n, s with O, _ => s | S k, String _ r => drop k r | S _, EmptyString => EmptyString end.
Fixpoint replace_locals (fuel : nat) (s : string) : string :=
  match fuel with
  | O => s
  | S k =>
    match s with
    | EmptyString => EmptyString
    | String a r => if prefixb "<locals>." s then replace_locals k (drop 9 s)
                    else String a (replace_locals k r)
    end
  end.
Definition show_Z (z : Z) : string := NilZero.string_of_int (Z.to_int z).

(* PINNED: s.replace(p, "") for a non-empty p: every occurrence -- refs.forwardref BEFORE /repo 31a6d65; kept only for
   the witness that the old text function differs (dyn/C17/C17.v) *)
Fixpoint strip_prefix (p s : string) : option string :=
  match p, s with
  | EmptyString, _ => Some s
  | String a p', String b s' => if Ascii.eqb a b then strip_prefix p' s' else None
  | _, _ => None
  end.
Fixpoint remove_all_pinned_fuel (fuel : nat) (p s : string) : string :=
  match fuel with
  | O => s
  | S f =>
      match s with
      | EmptyString => EmptyString
      | String c r =>
          match strip_prefix p s with
          | Some rest => remove_all_pinned_fuel f p rest
          | None => String c (remove_all_pinned_fuel f p r)
          end
      end
  end.
Definition remove_all_pinned (p s : string) : string :=
  match p with EmptyString => s | _ => remove_all_pinned_fuel (S (String.length s)) p s end.
(* re.sub(rf"(?<![\w.]){re.escape(p)}", "", s) for a non-empty p (refs.forwardref since /repo 31a6d65, p = module + "."):
   an occurrence of p is dropped only where it LEADS a dotted name -- the character before it in the ORIGINAL text is
   neither a word character nor "."; occurrences are taken left to right, non-overlapping.  [ok]: the lookbehind
   holds at the current position; fuel = length of s + 1.  (Bytes >= 128 count as word characters: the UTF-8
   bytes of non-ASCII letters; generated names are ASCII.) *)
Definition word_char (c : ascii) : bool :=
  let n := nat_of_ascii c in
  (Nat.leb 48 n && Nat.leb n 57) || (Nat.leb 65 n && Nat.leb n 90) || (Nat.leb 97 n && Nat.leb n 122)
  || Nat.eqb n 95 || Nat.leb 128 n.
Definition lead_stop (c : ascii) : bool := word_char c || Ascii.eqb c "."%char.
Fixpoint last_lead_ok (p : string) : bool :=
  match p with
  | EmptyString => true
  | String c EmptyString => negb (lead_stop c)
  | String _ r => last_lead_ok r
  end.
Fixpoint remove_lead_fuel (fuel : nat) (ok : bool) (p s : string) : string :=
  match fuel with
  | O => s
  | S f =>
      match s with
      | EmptyString => EmptyString
      | String c r =>
          match (if ok then strip_prefix p s else None) with
          | Some rest => remove_lead_fuel f (last_lead_ok p) p rest
          | None => String c (remove_lead_fuel f (negb (lead_stop c)) p r)
          end
      end
  end.
Definition remove_lead (p s : string) : string :=
  match p with EmptyString => s | _ => remove_lead_fuel (S (String.length s)) true p s end.
(* refs.forwardref(name, module=module): the text of the reference it builds (/repo 31a6d65) *)
Definition fref_name (module name : string) : string := remove_lead (module +++ ".") name.

(* ------------------------------------------------------------------ the interpreter's side *)
Section WithTables.
Variable T : tables.

Definition cinfo (c : cls) : option clsinfo := assocN c (t_cls T).
Definition subclass (a b : cls) : bool :=
  match cinfo a with Some i => memN b (ci_supers i) | None => false end.
Definition subclass_any (a : cls) (bs : list cls) : bool := existsb (subclass a) bs.
Definition cflag (f : clsinfo -> bool) (c : cls) : bool :=
  match cinfo c with Some i => f i | None => false end.
Definition cstr (f : clsinfo -> string) (c : cls) : string :=
  match cinfo c with Some i => f i | None => EmptyString end.
Definition ta_name (a : N) : string := match assocN a (t_talias T) with Some (n, _) => n | None => EmptyString end.
Definition ta_origin (a : N) : cls := match assocN a (t_talias T) with Some (_, c) => c | None => 0%N end.

Definition lit_repr (v : lit) : string :=
  match v with
  | LInt z => show_Z z
  | LStr s => "'" +++ s +++ "'"
  | LBool true => "True" | LBool false => "False"
  | LNone => "None"
  | LBytes s => "b'" +++ s +++ "'"
  end.
Definition lit_cls (v : lit) : cls :=
  match v with LInt _ => c_int | LStr _ => c_str | LBool _ => c_bool | LNone => c_NoneType | LBytes _ => c_bytes end.

(* str()/repr() of annotation objects.  MStr: str(t); MTyping: typing._type_repr(t);
   MGa: the item printer of types.GenericAlias; MUn: the item printer of types.UnionType *)
Inductive mode := MStr | MTyping | MGa | MUn.

Fixpoint repr (m : mode) (t : ity) {struct t} : string :=
  let fix join (m' : mode) (sep : string) (l : list ity) {struct l} : string :=
    match l with
    | [] => EmptyString
    | x :: r => match r with [] => repr m' x | _ => repr m' x +++ sep +++ join m' sep r end
    end in
  let targs (l : list ity) := match l with [] => "()" | _ => join MTyping ", " l end in
  let gargs (l : list ity) := match l with [] => "()" | _ => join MGa ", " l end in
  match t with
  | IClass c =>
      match m with
      | MStr => cstr ci_str c
      | MUn => if N.eqb c c_NoneType then "None" else cstr ci_trepr c
      | _ => cstr ci_trepr c
      end
  | INone => "None"
  | IEllipsis => match m with MStr => "Ellipsis" | _ => "..." end
  | ISpecial s =>
      match s with
      | SUnion => "typing.Union" | SOptional => "typing.Optional" | SLiteral => "typing.Literal"
      | SFinal => "typing.Final" | SClassVar => "typing.ClassVar" | SNoReturn => "typing.NoReturn"
      | STypeAlias => "typing.TypeAlias"
      end
  | ITyping a => "typing." +++ ta_name a
  | ITypingSub a args => "typing." +++ ta_name a +++ "[" +++ targs args +++ "]"
  | IUserSub c args => cstr ci_trepr c +++ "[" +++ targs args +++ "]"
  | IClassSub c args => cstr ci_trepr c +++ "[" +++ gargs args +++ "]"
  | IUnion UPipe args => join MUn " | " args
  | IUnion _ args =>
      match args with
      | [a; b] =>
          if ity_eqb a (IClass c_NoneType) then "typing.Optional[" +++ repr MTyping b +++ "]"
          else if ity_eqb b (IClass c_NoneType) then "typing.Optional[" +++ repr MTyping a +++ "]"
          else "typing.Union[" +++ targs args +++ "]"
      | _ => "typing.Union[" +++ targs args +++ "]"
      end
  | ILiteral vs => "typing.Literal[" +++ String.concat ", " (map lit_repr vs) +++ "]"
  | IFinal a => "typing.Final[" +++ repr MTyping a +++ "]"
  | IClassVar a => "typing.ClassVar[" +++ repr MTyping a +++ "]"
  | INewType nm _ => user_module +++ "." +++ nm
  | IAlias nm _ => nm
  | IAliasStr nm _ => nm
  | IForwardRef arg md =>
      "ForwardRef('" +++ arg +++ "'" +++
      match md with Some x => ", module='" +++ x +++ "'" | None => EmptyString end +++ ")"
  | ITypeVar nm _ _ => "~" +++ nm
  | ICallable true ps r =>
      match ps with
      | None => "typing.Callable[..., " +++ repr MTyping r +++ "]"
      | Some l => "typing.Callable[[" +++ join MTyping ", " l +++ "], " +++ repr MTyping r +++ "]"
      end
  | ICallable false ps r =>
      match ps with
      | None => "collections.abc.Callable[..., " +++ repr MGa r +++ "]"
      | Some l => "collections.abc.Callable[[" +++ join MGa ", " l +++ "], " +++ repr MGa r +++ "]"
      end
  | IRoutine nm =>
      match m with
      | MStr => "<function " +++ nm +++ ">"
      | MTyping => nm
      | _ => user_module +++ "." +++ nm
      end
  | IArgList l => "[" +++ join m ", " l +++ "]"
  | IValue v => match m, v with MStr, LStr s => s | _, _ => lit_repr v end
  | IInst _ => EmptyString
  end.
Definition show (t : ity) : string := repr MStr t.

(* typing.get_origin *)
Definition get_origin (t : ity) : option ity :=
  match t with
  | ITyping a => Some (IClass (ta_origin a))
  | ITypingSub a _ => Some (IClass (ta_origin a))
  | IClassSub c _ => Some (IClass c)
  | IUserSub c _ => Some (IClass c)
  | IUnion UPipe _ => Some (IClass c_UnionType)
  | IUnion _ _ => Some (ISpecial SUnion)
  | ILiteral _ => Some (ISpecial SLiteral)
  | IFinal _ => Some (ISpecial SFinal)
  | IClassVar _ => Some (ISpecial SClassVar)
  | ICallable _ _ _ => Some (IClass c_abcCallable)
  | IClass c => if N.eqb c c_Generic then Some t else None
  | _ => None
  end.

(* the object a Literal value is (None is the object None) *)
Definition lit_obj (v : lit) : ity := match v with LNone => INone | _ => IValue v end.
(* typing.get_args *)
Definition get_args (t : ity) : list ity :=
  match t with
  | ITypingSub _ l | IClassSub _ l | IUserSub _ l | IUnion _ l => l
  | ILiteral vs => map lit_obj vs
  | IFinal a | IClassVar a => [a]
  | ICallable _ ps r => [match ps with Some l => IArgList l | None => IEllipsis end; r]
  | _ => []
  end.
(* t.__args__ where present (flat for Callable) *)
Definition dunder_args (t : ity) : option (list ity) :=
  match t with
  | ITypingSub _ l | IClassSub _ l | IUserSub _ l | IUnion _ l => Some l
  | ILiteral vs => Some (map lit_obj vs)
  | IFinal a | IClassVar a => Some [a]
  | ICallable _ ps r => Some (match ps with Some l => l | None => [IEllipsis] end ++ [r])%list
  | _ => None
  end.

(* type(t), as far as the tables of the library can see it: only None and literal values have a
   class that occurs in BUILTIN_TYPES/STDLIB_TYPES (checked when the tables are reflected:
   no metaclass and no typing-internal class is a member) *)
Definition type_of (t : ity) : option cls :=
  match t with
  | INone => Some c_NoneType
  | IValue v => Some (lit_cls v)
  | IInst c => Some c
  | _ => None
  end.
Definition is_class (t : ity) : bool := match t with IClass _ => true | _ => false end.   (* inspect.isclass *)
Definition is_routine (t : ity) : bool :=
  match t with IRoutine _ => true | IInst c => cflag ci_inst_routine c | _ => false end.  (* inspect.isroutine *)

(* builtins.issubclass(t, bases).  TypeError unless t is a class -- except that a types.GenericAlias
   forwards __bases__ to its origin: against a base whose metaclass is plain [type] the interpreter
   then walks the PROPER ancestors of the origin (no error); an ABCMeta base raises. Bases are tried
   in order. *)
Fixpoint ga_issubclass (c : cls) (bases : list cls) : res bool :=
  match bases with
  | [] => Ok false
  | b :: r => if cflag ci_abcmeta b then Raise EType
              else if negb (N.eqb c b) && subclass c b then Ok true else ga_issubclass c r
  end.
Definition issubclass_raw (t : ity) (bases : list cls) : res bool :=
  match t with
  | IClass c => Ok (subclass_any c bases)
  | IClassSub c _ => ga_issubclass c bases
  | ICallable false _ _ => ga_issubclass c_abcCallable bases     (* a types.GenericAlias subclass *)
  | _ => Raise EType
  end.
(* issubclass(t, typing.X) where typing.X is the bare alias of the ABC b:
   _SpecialGenericAlias.__subclasscheck__ *)
Definition issubclass_tp (t : ity) (b : cls) : res bool :=
  match t with
  | ITyping a => Ok (subclass (ta_origin a) b)
  | _ => issubclass_raw t [b]
  end.
(* inspection._safe_issubclass *)
Definition safe_issubclass (t : ity) (bases : list cls) : bool :=
  match issubclass_raw t bases with Ok b => b | Raise _ => false end.

(* ------------------------------------------------------------------ inspection.py *)
Fixpoint resolve_supertype (t : ity) : ity :=
  match t with INewType _ s => resolve_supertype s | _ => t end.

Definition isclassvartype (t : ity) : bool :=
  match resolve_supertype t with IClassVar _ | ISpecial SClassVar => true | _ => false end.
Definition istypealiastype (t : ity) : bool :=
  match t with IAlias _ _ | IAliasStr _ _ => true | _ => false end.

Definition normalize_typevar (t : ity) : ity :=
  match t with
  | ITypeVar _ (Some b) _ => b
  | ITypeVar _ None ((_ :: _) as cs) => IUnion UUnion cs
  | ITypeVar _ None [] => IClass c_Any
  | _ => t
  end.
(* inspection.args (evaluate=False) *)
Definition args (t : ity) : list ity := map normalize_typevar (get_args t).

Definition in_builtin (t : ity) : bool := match t with IClass c => memN c (t_builtin T) | _ => false end.
Definition in_stdlib (t : ity) : bool := match t with IClass c => memN c (t_stdlib T) | _ => false end.
Definition type_in (l : list cls) (t : ity) : bool :=
  match type_of t with Some c => memN c l | None => false end.

Definition isbuiltintype (t : ity) : bool :=
  in_builtin (resolve_supertype t) || type_in (t_builtin T) t.

Fixpoint assoc_ity (k : ity) (l : list (ity * ity)) : option ity :=
  match l with [] => None | (k', v) :: r => if ity_eqb k k' then Some v else assoc_ity k r end.
Definition check_generics (t : ity) : ity :=
  match assoc_ity t (t_generic_map T) with Some v => v | None => t end.

Definition iscallable (t : ity) : bool :=
  is_routine t || ity_eqb t (ITyping ta_Callable) || safe_issubclass t [c_abcCallable].

(* inspection._resolve_wrappers: NewType supertypes and alias values, however nested *)
Fixpoint resolve_wrappers (t : ity) : ity :=
  match t with
  | INewType _ s => resolve_wrappers s
  | IAlias _ v => resolve_wrappers v
  | IAliasStr _ s => IValue (LStr s)
  | _ => t
  end.

Definition origin (t : ity) : ity :=
  let a0 := resolve_supertype t in
  let a1 := if isclassvartype a0 then match args a0 with x :: _ => x | [] => a0 end else a0 in
  let a2 := resolve_wrappers a1 in
  let a3 := match get_origin a2 with Some o => o | None => a2 end in
  let a4 := if isbuiltintype a3 then a3 else check_generics a3 in
  (* a class whose instances can be called is still that class *)
  if iscallable a4 && negb (is_class a4) then ITyping ta_Callable else a4.

Definition isgeneric (t : ity) : bool :=
  let s := show t in
  prefixb "typing." s || prefixb "typing_extensions." s || has_char "["%char s
  || safe_issubclass t [c_Generic].

Definition qualname (t : ity) : string :=
  let strobj := match t with IForwardRef a _ => a | _ => show t end in
  if isgeneric (IValue (LStr strobj)) then before_char "["%char strobj
  else match t with
       | IClass c => replace_locals 200 (cstr ci_qualname c)
       | INewType nm _ | IAlias nm _ | IAliasStr nm _ | ITypeVar nm _ _ | IRoutine nm => nm
       | _ => strobj
       end.
Definition name (t : ity) : string := last_segment (qualname t).

Definition issubscriptedgeneric (t : ity) : bool :=
  let og := match get_origin t with Some o => o | None => t end in
  (isgeneric og || isgeneric t) && has_char "["%char (show t).

Definition is_nullarg (a : ity) : bool :=
  match a with IClass c => N.eqb c c_NoneType | INone | IValue LNone => true | _ => false end.
Definition isunionorigin (o : ity) : bool :=
  match o with ISpecial SUnion => true | IClass c => N.eqb c c_UnionType | _ => false end.
Definition isoptionaltype (t : ity) : bool :=
  let a := match dunder_args t with Some l => l | None => [] end in
  let og := origin t in
  ity_eqb og (ISpecial SOptional)
  || (existsb is_nullarg a && (isunionorigin og || ity_eqb og (ISpecial SLiteral))).
Definition isuniontype (t : ity) : bool := isunionorigin (origin t).
Definition isfinal (t : ity) : bool := ity_eqb (origin t) (ISpecial SFinal).
Definition isliteral (t : ity) : bool :=
  ity_eqb (origin t) (ISpecial SLiteral)
  || match t with IForwardRef a _ => prefixb "Literal" a | _ => false end.

(* inspection._resolve_class: wrappers resolved, then the typing origin (the raw family) *)
Definition resolve_class (t : ity) : ity :=
  let r := resolve_wrappers t in match get_origin r with Some o => o | None => r end.

(* the origin()+issubclass family *)
Definition via_origin (bases : list cls) (t : ity) : res bool := issubclass_raw (origin t) bases.
Definition via_origin_tp (b : cls) (t : ity) : res bool := issubclass_tp (origin t) b.
Definition istupletype (t : ity) : res bool :=
  let o := origin t in
  if ity_eqb o (IClass c_tuple) then Ok true else issubclass_raw o [c_tuple].
Definition in_collections (o : ity) : bool :=
  match o with IClass c => memN c (t_collections T) | _ => false end.
Definition issequencetype (t : ity) : res bool :=
  let o := origin t in if in_collections o then Ok true else issubclass_tp o c_Sequence.
Definition iscollectiontype (t : ity) : res bool :=
  let o := origin t in if in_collections o then Ok true else issubclass_tp o c_Collection.
Definition issubscriptedcollectiontype (t : ity) : res bool :=
  match iscollectiontype t with
  | Ok true => Ok (issubscriptedgeneric t)
  | r => r
  end.
Definition ismappingtype (t : ity) : res bool :=
  let o := origin t in
  match issubclass_raw o (t_mapping_types T) with
  | Ok true => Ok true
  | Ok false => issubclass_tp o c_Mapping
  | Raise e => Raise e
  end.

(* tp.get_origin(obj) is not Literal: only a Literal ITSELF is exempt, a qualifier around one is a wrapper *)
Definition should_unwrap (t : ity) : bool :=
  negb (match t with ILiteral _ => true | _ => false end) && (isclassvartype t || isfinal t).

Definition isstdlibsubtype (t : ity) : bool := safe_issubclass (resolve_supertype t) (t_stdlib T).
Definition isbuiltinsubtype (t : ity) : res bool := issubclass_raw (resolve_supertype t) (t_builtin T).

Definition stdlib_base (t : ity) : bool := in_stdlib (resolve_supertype t) || type_in (t_stdlib T) t.
Fixpoint isstdlibtype (t : ity) {struct t} : bool :=
  let fix all_std (l : list ity) {struct l} : bool :=
    match l with [] => true | x :: r => isstdlibtype x && all_std r end in
  let fix all_std_nonnull (l : list ity) {struct l} : bool :=    (* members other than None / NoneType *)
    match l with
    | [] => true
    | x :: r => (if is_nullarg x then true else isstdlibtype x) && all_std_nonnull r
    end in
  if isoptionaltype t then
    match t with
    | IUnion _ l => all_std_nonnull l
    | ILiteral vs => forallb (fun v => match v with LNone => true | _ => memN (lit_cls v) (t_stdlib T) end) vs
    | _ => true                      (* get_args(t) is empty *)
    end
  else if isuniontype t then
    match t with
    | IUnion _ l => all_std l
    | IClassVar a => isstdlibtype a        (* get_args(ClassVar[U]) = (U,) *)
    | _ => true
    end
  else stdlib_base t.

Definition istypeddict (t : ity) : bool :=
  match t with IClass c => subclass c c_dict && cflag ci_total c | _ => false end.
Definition istypedtuple (t : ity) : bool :=
  match t with IClass c => subclass c c_tuple && cflag ci_annots c | _ => false end.
Definition isnamedtuple (t : ity) : bool :=
  match t with IClass c => subclass c c_tuple && cflag ci_fields c | _ => false end.
Definition last_is_ellipsis (l : list ity) : bool :=
  match rev l with IEllipsis :: _ => true | _ => false end.
Definition isfixedtupletype (t : ity) : bool :=
  let a := args t in
  let has_dunder := match dunder_args t with Some _ => true | None => false end in
  let is_empty := match a with [] => true | _ => false end in
  if (is_empty && negb has_dunder) || (negb is_empty && last_is_ellipsis a) then false
  else match get_origin t with Some o => safe_issubclass o [c_tuple] | None => false end.
Definition isstructuredtype (t : ity) : bool :=
  isfixedtupletype t || isnamedtuple t || istypeddict t
  || (negb (isstdlibsubtype (origin t)) && negb (isuniontype t) && negb (isliteral t)).

Definition isunresolvable (t : ity) : bool :=
  mem_ity t (t_unresolvable T)
  || mem_ity (match get_origin t with Some o => o | None => INone end) (t_unresolvable T).
Definition isnonetype (t : ity) : bool :=
  match t with INone => true | IClass c => N.eqb c c_NoneType | _ => false end.
Definition isforwardref (t : ity) : bool := match t with IForwardRef _ _ => true | _ => false end.
Definition isfromdictclass (t : ity) : bool := match t with IClass c => cflag ci_fromdict c | _ => false end.
Definition isfrozendataclass (t : ity) : bool := match t with IClass c => cflag ci_frozen c | _ => false end.
Definition isabstract (t : ity) : bool :=
  match t with IClass c => cflag ci_abstract c || memN c (t_abcs T) | _ => false end.

(* instance predicates: the argument is a class object or an instance *)
Definition ishashable (t : ity) : bool :=
  match t with IClass c | IInst c => cflag ci_hash c | _ => true end.
Definition isproperty (t : ity) : bool :=
  match t with IInst c => subclass_any c [c_property; c_cached_property] | _ => false end.
Definition isdescriptor (t : ity) : bool :=
  match t with IClass c => cflag ci_cls_descr c | IInst c => cflag ci_inst_descr c | _ => false end.
Definition issimpleattribute (t : ity) : bool :=
  negb (is_class t || is_routine t || isproperty t || isdescriptor t).
Definition isbuiltininstance (t : ity) : bool :=
  match t with IInst c => subclass_any c (t_builtin T) | _ => false end.
Definition isstdlibinstance (t : ity) : bool :=
  match t with IInst c => subclass_any c (t_stdlib T) | _ => false end.

(* unwrap: the loop of the code, one wrapper per iteration.  The qualifier step continues with an argument of
   _resolve_wrappers(t), which is not a syntactic subterm of t for the termination checker: explicit fuel,
   [Raise EOther] is the out-of-fuel result (unwrap itself never produces it) *)
Fixpoint unwrap_fuel (n : nat) (t : ity) {struct n} : res ity :=
  match n with
  | O => Raise EOther
  | S k =>
    let step :=
      match t with
      | IAlias _ v => unwrap_fuel k v
      | IAliasStr _ s => Ok (IForwardRef (fref_name user_module s) (Some user_module))   (* refs.forwardref(tv, module=t.__module__) *)
      | INewType _ s => unwrap_fuel k s
      | _ => Ok t
      end in
    if should_unwrap t then
      match dunder_args (resolve_wrappers t) with
      | Some (x :: _) => unwrap_fuel k x       (* getattr(_resolve_wrappers(t), "__args__", ())[0] *)
      | _ => step                               (* bare Final / ClassVar: no arguments, fall through *)
      end
    else step
  end.
Definition unwrap (t : ity) : res ity := unwrap_fuel 200 t.

(* ------------------------------------------------------------------ one entry point per public name *)
Inductive pred :=
| P_isbuiltintype | P_isstdlibtype | P_isbuiltinsubtype | P_isstdlibsubtype
| P_isoptionaltype | P_isuniontype | P_isfinal | P_isliteral
| P_isdatetype | P_isdatetimetype | P_istimetype | P_istimedeltatype | P_isdecimaltype
| P_isfractiontype | P_isuuidtype | P_isiterabletype | P_isiteratortype | P_istupletype
| P_issequencetype | P_iscollectiontype | P_issubscriptedcollectiontype | P_ismappingtype
| P_isenumtype | P_isclassvartype | P_should_unwrap | P_isfromdictclass | P_isfrozendataclass
| P_istypeddict | P_istypedtuple | P_isnamedtuple | P_isfixedtupletype | P_isforwardref
| P_isabstract | P_istexttype | P_isstringtype | P_isbytestype | P_isnumbertype | P_isintegertype
| P_isfloattype | P_isstructuredtype | P_isgeneric | P_issubscriptedgeneric | P_iscallable
| P_isunresolvable | P_isnonetype | P_ispatterntype | P_ispathtype | P_istypealiastype
| P_ishashable | P_isproperty | P_isdescriptor | P_issimpleattribute | P_isbuiltininstance
| P_isstdlibinstance.

(* the base classes of the predicates that are a plain subclass test *)
Definition origin_family_bases (p : pred) : option (list cls) :=
  match p with
  | P_isdatetype => Some [c_date] | P_isdatetimetype => Some [c_datetime] | P_istimetype => Some [c_time]
  | P_istimedeltatype => Some [c_timedelta] | P_isdecimaltype => Some [c_Decimal]
  | P_isfractiontype => Some [c_Fraction] | P_isuuidtype => Some [c_UUID]
  | _ => None
  end.
Definition origin_family_tp (p : pred) : option cls :=
  match p with P_isiterabletype => Some c_Iterable | P_isiteratortype => Some c_Iterator | _ => None end.
Definition raw_family_bases (p : pred) : option (list cls) :=
  match p with
  | P_isenumtype => Some [c_Enum]
  | P_istexttype => Some [c_str; c_bytes; c_bytearray; c_memoryview]
  | P_isstringtype => Some [c_str]
  | P_isbytestype => Some [c_bytes; c_bytearray; c_memoryview]
  | P_isnumbertype => Some [c_Number] | P_isintegertype => Some [c_int] | P_isfloattype => Some [c_float]
  | P_ispatterntype => Some [c_Pattern] | P_ispathtype => Some [c_PurePath]
  | _ => None
  end.

Definition run_pred (p : pred) (t : ity) : res bool :=
  match origin_family_bases p, origin_family_tp p, raw_family_bases p with
  | Some bs, _, _ => via_origin bs t
  | _, Some b, _ => via_origin_tp b t
  | _, _, Some bs => Ok (safe_issubclass (resolve_class t) bs)
  | None, None, None =>
    match p with
    | P_isbuiltintype => Ok (isbuiltintype t) | P_isstdlibtype => Ok (isstdlibtype t)
    | P_isbuiltinsubtype => isbuiltinsubtype t | P_isstdlibsubtype => Ok (isstdlibsubtype t)
    | P_isoptionaltype => Ok (isoptionaltype t) | P_isuniontype => Ok (isuniontype t)
    | P_isfinal => Ok (isfinal t) | P_isliteral => Ok (isliteral t)
    | P_istupletype => istupletype t | P_issequencetype => issequencetype t
    | P_iscollectiontype => iscollectiontype t
    | P_issubscriptedcollectiontype => issubscriptedcollectiontype t
    | P_ismappingtype => ismappingtype t
    | P_isclassvartype => Ok (isclassvartype t) | P_should_unwrap => Ok (should_unwrap t)
    | P_isfromdictclass => Ok (isfromdictclass t) | P_isfrozendataclass => Ok (isfrozendataclass t)
    | P_istypeddict => Ok (istypeddict t) | P_istypedtuple => Ok (istypedtuple t)
    | P_isnamedtuple => Ok (isnamedtuple t) | P_isfixedtupletype => Ok (isfixedtupletype t)
    | P_isforwardref => Ok (isforwardref t) | P_isabstract => Ok (isabstract t)
    | P_isstructuredtype => Ok (isstructuredtype t) | P_isgeneric => Ok (isgeneric t)
    | P_issubscriptedgeneric => Ok (issubscriptedgeneric t) | P_iscallable => Ok (iscallable t)
    | P_isunresolvable => Ok (isunresolvable t) | P_isnonetype => Ok (isnonetype t)
    | P_istypealiastype => Ok (istypealiastype t)
    | P_ishashable => Ok (ishashable t) | P_isproperty => Ok (isproperty t)
    | P_isdescriptor => Ok (isdescriptor t) | P_issimpleattribute => Ok (issimpleattribute t)
    | P_isbuiltininstance => Ok (isbuiltininstance t) | P_isstdlibinstance => Ok (isstdlibinstance t)
    | _ => Raise EOther
    end
  end.

End WithTables.
