(* Model/IsoTextEq.v -- C04: executable comparison functions for the iso-writer / iso-reader correspondence
   streams.  DEFINITIONS ONLY. *)
From Coq Require Import List ZArith Ascii String Bool.
Import ListNotations.
Require Import TL.Model.Duration.
Require Import TL.Model.Temporal.
Require Import TL.Model.Scalars.
Require Import TL.Model.ScalarsEq.
Require Import TL.Model.IsoText.
Open Scope Z_scope.

Inductive iso_val := IDate (y m d : Z) | ITime (t : tmf) | IDateTime (d : dtf) | INone.
Definition iso_write (v : iso_val) : string :=
  match v with IDate y m d => iso_date (y, m, d) | ITime t => iso_time t | IDateTime d => iso_datetime d
  | INone => EmptyString end.
(* characters of v.isoformat() *)
Definition isowriter_case_ok (c : iso_val * string) : bool := String.eqb (iso_write (fst c)) (snd c).
(* the independent reader reads the interpreter's text back as the value (fold aside) *)
Definition iso_eqb (a b : iso_val) : bool :=
  match a, b with
  | IDate y m d, IDate y' m' d' => (y =? y') && (m =? m') && (d =? d')
  | ITime t, ITime t' => same_tm t t'
  | IDateTime d, IDateTime d' => same_dt d d'
  | INone, INone => true
  | _, _ => false end.
Definition iso_read (k : iso_val) (s : string) : iso_val :=
  match k with
  | IDate _ _ _ => match read_iso_date s with Some (y, m, d) => IDate y m d | None => INone end
  | ITime _ => match read_iso_time s with Some t => ITime t | None => INone end
  | IDateTime _ => match read_iso_datetime s with Some d => IDateTime d | None => INone end
  | INone => INone end.
Definition isoread_emitted_ok (c : iso_val * string) : bool := iso_eqb (iso_read (fst c) (snd c)) (fst c).

(* reader vs typelib's reading (serdes.dateparse(s, T)): wherever the independent reader assigns a value of U
   (aware for time/datetime; years 2..9998 for datetimes so that the UTC instant exists), typelib reads the same.
   The kind is carried by the constructor of the first component (its fields are ignored). *)
Definition in_U (v : iso_val) : bool :=
  match v with
  | IDate _ _ _ => true
  | ITime t => valid_tm t
  | IDateTime d => valid_dt d && (2 <=? dy d) && (dy d <=? 9998)
  | INone => false end.
Definition isoreader_case_ok (c : iso_val * string * iso_val) : bool :=
  let '(k, s, obs) := c in
  let r := iso_read k s in
  if in_U r then iso_eqb r obs else true.
Definition isoreader_accepts (c : iso_val * string * iso_val) : bool :=
  let '(k, s, obs) := c in in_U (iso_read k s).
