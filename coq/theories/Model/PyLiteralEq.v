(* Model/PyLiteralEq.v -- evaluation helpers for the per-run tie of Model/PyLiteral.v (harness/literaltie.py):
   boolean equality on Python values (sets compared as sets, floats exactly or up to their token), the case
   types of the three correspondence streams and the list of mismatching case indexes.  DEFINITIONS ONLY. *)
From Coq Require Import List ZArith NArith Bool.
Import ListNotations.
Require Import TL.Model.Json TL.Model.JsonEq TL.Model.PyLiteral.
Open Scope N_scope.

(* [fl]: how two float tokens compare.  A set display is compared as a set (the observer lists a Python set in
   its iteration order, the reader in source order); texts whose displays repeat a key / element are not sent. *)
Fixpoint pyv_eqb_gen (fl : list N -> list N -> bool) (a b : pyv) {struct a} : bool :=
  match a, b with
  | YNone, YNone => true
  | YBool x, YBool y => Bool.eqb x y
  | YInt x, YInt y => Z.eqb x y
  | YFloat x, YFloat y => fl x y
  | YStr x, YStr y => text_eqb x y
  | YList x, YList y => list_eqb (pyv_eqb_gen fl) x y
  | YTuple x, YTuple y => list_eqb (pyv_eqb_gen fl) x y
  | YDict x, YDict y =>
      list_eqb (fun p q => pyv_eqb_gen fl (fst p) (fst q) && pyv_eqb_gen fl (snd p) (snd q)) x y
  | YSet x, YSet y =>
      Nat.eqb (length x) (length y) &&
      forallb (fun p => existsb (fun q => pyv_eqb_gen fl p q) y) x
  | _, _ => false
  end.
Definition pyv_eqb : pyv -> pyv -> bool := pyv_eqb_gen text_eqb.
Definition pyv_sim : pyv -> pyv -> bool := pyv_eqb_gen (fun _ _ => true).

(* are all float tokens of a value JSON float tokens (the law the writer stream samples on repr of finite floats) *)
Fixpoint floats_ok (w : pyv) : bool :=
  match w with
  | YFloat t => float_tok_ok t
  | YList l | YTuple l | YSet l => forallb floats_ok l
  | YDict d => forallb (fun kx => floats_ok (fst kx) && floats_ok (snd kx)) d
  | _ => true
  end.

(* writer case: (value, the text repr returned).  [tbl] = the non-printable ranges read from the interpreter.
   Besides the writer itself the case decides the theorem's conclusion on this value (an instance). *)
Definition wcase := (pyv * list N)%type.
Definition wcase_ok (tbl : list (N * N)) (c : wcase) : bool :=
  let '(w, obs) := c in
  text_eqb (py_repr (pr_of tbl) w) obs &&
  (negb (pyv_ok w) || opt_eqb pyv_eqb (literal_read (py_repr (pr_of tbl) w)) (Some w)).

(* reader case: (text, what ast.literal_eval returned, None = it raised) *)
Definition rcase := (list N * option pyv)%type.
Definition rcase_ok (c : rcase) : bool := let '(t, obs) := c in opt_eqb pyv_sim (literal_read t) obs.
Definition rcase_exact (c : rcase) : bool := let '(t, obs) := c in opt_eqb pyv_eqb (literal_read t) obs.

(* strload case: (carrier is bytes-like, payload, what serdes.strload returned; None = it raised) *)
Definition loaded_eqb (fl : list N -> list N -> bool) (a b : loaded) : bool :=
  match a, b with
  | LVal x, LVal y => pyv_eqb_gen fl x y
  | LText x, LText y => text_eqb x y
  | _, _ => false
  end.
Definition scase := (bool * bool * list N * option loaded)%type.
(* the JSON decoder builds a dict: a repeated key keeps its first position and takes the last value (JsonEq.jv_norm) *)
Definition strload_text_norm (strict : bool) (t : list N) : loaded :=
  match parse_text strict t with
  | Some j => LVal (of_json (jv_norm j))
  | None => strload_text strict t
  end.
Definition strload_model (strict bin : bool) (p : list N) : option loaded :=
  if bin then match utf8_dec false p with Some t => Some (strload_text_norm strict t) | None => None end
  else Some (strload_text_norm strict p).
Definition scase_ok (c : scase) : bool :=
  let '(strict, bin, p, obs) := c in opt_eqb (loaded_eqb (fun _ _ => true)) (strload_model strict bin p) obs.
Definition scase_exact (c : scase) : bool :=
  let '(strict, bin, p, obs) := c in opt_eqb (loaded_eqb text_eqb) (strload_model strict bin p) obs.

(* agreement case, decided inside Coq on a text: when the strict JSON reader and the literal reader both accept it,
   the values are equal -- unless the text carries one of the two escapes on which the languages differ *)
Definition both_agree (t : list N) : bool :=
  match parse_text true t, literal_read t with
  | Some j, Some v => pyv_eqb (of_json j) v
  | _, _ => true
  end.
