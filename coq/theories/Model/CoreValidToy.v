(* Small concrete runtimes / environments for the non-vacuity examples and the refutation witnesses of C13.
   Definitions only.
   leaves: 0 = int, 1 = float, 2 = str.
   atoms : 0 = the str "1.5", 1 = the float 1.5, 2 = the int 1, 3 = the int 7, 4 = None. *)
From Coq Require Import List Arith Bool PeanoNat.
Import ListNotations.
Require Import TL.Model.Core TL.Model.CoreValid.

Definition toy_leaf (s : nat) (x : pv) : res pv :=
  match x with
  | PAtom a =>
      match s, a with
      | 0, 0 => Raise EValue          (* int("1.5") *)
      | 0, 1 => Ok (PAtom 2)          (* int(1.5) = 1 *)
      | 0, 4 => Raise EType           (* int(None) *)
      | 1, 0 => Ok (PAtom 1)          (* float("1.5") = 1.5 *)
      | 1, 4 => Raise EType           (* float(None) *)
      | _, _ => Ok x
      end
  | _ => Ok x
  end.

Definition toy_none : pv := PAtom 4.

Definition toy_rt : runtime :=
  {| leaf_u := toy_leaf;
     leaf_m := fun _ x => Ok x;
     none_u := fun x => if pv_eqb x toy_none then Ok toy_none else Raise EValue;
     load_scalar := fun x => Ok x;
     values_scalar := fun _ => Raise EType; unpack_scalar := fun _ => Raise EType;
     items_scalar := fun _ => Raise EType;
     pairlike_scalar := fun _ => false;
     index := fun i => PAtom (100 + i);
     unhashable_class := fun _ => false;
     atom_eq := fun _ _ => false;
     none := toy_none;
     suppressed := fun _ => true |}.

(* exact-class leaf validity of the toy universe *)
Definition toy_lv (s : nat) (v : pv) : bool :=
  match s, v with
  | 0, PAtom 2 | 0, PAtom 3 => true
  | 1, PAtom 1 => true
  | 2, PAtom 0 | 2, PKey _ => true
  | _, _ => false
  end.

(* class 0: @dataclass N0: a: int; b: Optional[N0] = None      class 1: TypedDict N1: a: str; b: NotRequired[int]
   name 2 : alias  list[N0]                                       class 3: NamedTuple N3: a: float; b: tuple[int, str] *)
Definition toy_E : env := fun n =>
  match n with
  | 0 => Some (NClass {| cflavour := FDataclass;
                         cfields := [ {| fname := 0; fty := TLeaf 0; fdefault := None |};
                                      {| fname := 1; fty := TUnion [TName 0; TNone]; fdefault := Some toy_none |} ];
                         crequired := [] |})
  | 1 => Some (NClass {| cflavour := FTypedDict;
                         cfields := [ {| fname := 0; fty := TLeaf 2; fdefault := None |};
                                      {| fname := 1; fty := TLeaf 0; fdefault := None |} ];
                         crequired := [0] |})
  | 2 => Some (NType (TSeq KList (TName 0)))
  | 3 => Some (NClass {| cflavour := FNamedTuple;
                         cfields := [ {| fname := 0; fty := TLeaf 1; fdefault := None |};
                                      {| fname := 1; fty := TTuple [TLeaf 0; TLeaf 2]; fdefault := None |} ];
                         crequired := [] |})
  | _ => None
  end.
Definition toy_names : list nat := [0; 1; 2; 3].

(* tuple[list[N0], dict[str, N1], N3, frozenset[int]] *)
Definition toy_T : ty :=
  TTuple [TName 2; TMap KDict (TLeaf 2) (TName 1); TFinal (TName 3); TSeq KFrozenset (TLeaf 0)].
Definition toy_v : pv :=
  PSeq KTuple
    [ PSeq KList [ PObj 0 [(0, PAtom 3); (1, PObj 0 [(0, PAtom 2); (1, PAtom 4)])] ];
      PDict KDict [ (PAtom 0, PDict KDict [(PKey 0, PAtom 0)]); (PKey 0, PDict KDict [(PKey 1, PAtom 3); (PKey 0, PKey 1)]) ];
      PNamed 3 [ PAtom 1; PSeq KTuple [PAtom 2; PKey 1] ];
      PSeq KFrozenset [PAtom 3; PAtom 2] ].

(* idempotence example: the wire form of a N0, missing the defaulted field, as a list of one *)
Definition toy_x : pv := PSeq KTuple [ PDict KDict [(PKey 0, PAtom 1); (PAtom 0, PAtom 0)] ].
Definition toy_y : pv := PSeq KList [ PObj 0 [(0, PAtom 2); (1, PAtom 4)] ].

(* ---- refutation witnesses ---- *)
(* int | float given "1.5": first 1.5, then 1 *)
Definition bad_union_T : ty := TUnion [TLeaf 0; TLeaf 1].
Definition no_E : env := fun _ => None.

(* @dataclass N0: a: int = None *)
Definition bad_default_E : env := fun n =>
  match n with
  | 0 => Some (NClass {| cflavour := FDataclass;
                         cfields := [ {| fname := 0; fty := TLeaf 0; fdefault := Some toy_none |} ];
                         crequired := [] |})
  | _ => None
  end.
