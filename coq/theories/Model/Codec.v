(* Model of the codec layer of typelib: src/typelib/codecs.py (codec, Codec.encode, Codec.decode)
   and the two top-level entry points of src/typelib/api.py (encode, decode).

   The layer is glue.  Everything it glues together is a Section variable:
     mk_mar, mk_unm   marshals.marshaller(t) / unmarshals.unmarshaller(t): construction may raise,
                      the routine it returns may raise (other properties own them: C05, C15, C01);
     json_dumps/loads compat.json.dumps / compat.json.loads (orjson if importable, else json),
                      the default of the encoder= / decoder= keyword arguments;
     isbytestype      inspection.isbytestype;
     class_of         value.__class__ (used by marshal() when t is None).
   Python is untyped: values, marshalled ("wire") values and byte strings live in one type obj,
   which is what makes the identity coder `lambda v: v` of codec() expressible.
   Definitions only; proofs are in Proofs/CodecLemmas.v. *)
From Coq Require Import List Bool.
Import ListNotations.

(* exception kinds (harness/impl.py exc_kind); EMiss is produced only by a lookup miss in the
   finite tables of a correspondence run (Model/CodecEq.v) and never by the implementation *)
Inductive exn := EValue | EType | ESyntax | EAttribute | EKey | EArith | EStopIter | EUnicode
               | ERecursion | EOther | EMiss.
Inductive res (A : Type) := Ok (a : A) | Raise (e : exn).
Arguments Ok {A}. Arguments Raise {A}.

(* sequencing of two Python statements: the second runs only when the first did not raise,
   otherwise the exception of the first propagates *)
Definition bind {A B} (r : res A) (f : A -> res B) : res B :=
  match r with Ok a => f a | Raise e => Raise e end.
Definition is_ok {A} (r : res A) : bool := match r with Ok _ => true | Raise _ => false end.

Section Codec.
Variables ty obj : Type.
Definition routine := obj -> res obj.          (* a marshaller / unmarshaller / encoder / decoder *)

Variable mk_mar : ty -> res routine.           (* marshals.marshaller(t=t) *)
Variable mk_unm : ty -> res routine.           (* unmarshals.unmarshaller(t=t) *)
Variable isbytestype : ty -> bool.             (* inspection.isbytestype(t) *)
Variable class_of : obj -> ty.                 (* value.__class__ *)
Variables json_dumps json_loads : routine.     (* compat.json.dumps / compat.json.loads *)

(* a keyword argument with a default: None = not passed *)
Definition dflt (a : option routine) (d : routine) : routine := match a with Some r => r | None => d end.

(* ---- codecs.py ---- *)
Record Codec := { marshal : routine; unmarshal : routine; encoder : routine; decoder : routine }.

Definition ident : routine := fun v => Ok v.   (* lambda v: v *)

(* codec(t, *, marshaller=None, unmarshaller=None, encoder=compat.json.dumps,
            decoder=compat.json.loads, codec_cls=None)
     marshal   = marshaller or marshals.marshaller(t=t)       -- built only when not supplied
     unmarshal = unmarshaller or unmarshals.unmarshaller(t=t) -- after marshal; first failure wins
     if isbytestype(t): Codec(marshal, unmarshal, lambda v: v, lambda v: v)  -- supplied coders ignored
     else:              Codec(marshal, unmarshal, encoder, decoder)
   codec_cls only chooses the (sub)class that is instantiated; the default Codec is modelled.
   functools.cache around it: see codec_memo below. *)
Definition codec (t : ty) (marshaller unmarshaller encoder_arg decoder_arg : option routine) : res Codec :=
  bind (match marshaller with Some m => Ok m | None => mk_mar t end) (fun m =>
  bind (match unmarshaller with Some u => Ok u | None => mk_unm t end) (fun u =>
  if isbytestype t
  then Ok {| marshal := m; unmarshal := u; encoder := ident; decoder := ident |}
  else Ok {| marshal := m; unmarshal := u;
             encoder := dflt encoder_arg json_dumps; decoder := dflt decoder_arg json_loads |})).

(* Codec.encode:  marshalled = self.marshal(value); return self.encoder(marshalled) *)
Definition Codec_encode (c : Codec) (value : obj) : res obj := bind (marshal c value) (encoder c).
(* Codec.decode:  decoded = self.decoder(value); return self.unmarshal(decoded) *)
Definition Codec_decode (c : Codec) (value : obj) : res obj := bind (decoder c value) (unmarshal c).

(* the expressions  codec(t, encoder=e, decoder=d).encode(v)  and  .decode(b) *)
Definition codec_encode (t : ty) (e d : option routine) (v : obj) : res obj :=
  bind (codec t None None e d) (fun c => Codec_encode c v).
Definition codec_decode (t : ty) (e d : option routine) (b : obj) : res obj :=
  bind (codec t None None e d) (fun c => Codec_decode c b).

(* functools.cache on codec(): a memo table over the argument tuple; exceptions are not stored.
   K is the key type (the argument tuple), f the undecorated function. *)
Section Memo.
Variables K V : Type.
Variable keq : K -> K -> bool.
Variable f : K -> res V.
Fixpoint memo_find (tbl : list (K * V)) (k : K) : option V :=
  match tbl with [] => None | (k', v) :: r => if keq k k' then Some v else memo_find r k end.
Definition memo_call (tbl : list (K * V)) (k : K) : res V * list (K * V) :=
  match memo_find tbl k with
  | Some v => (Ok v, tbl)
  | None => match f k with Ok v => (Ok v, (k, v) :: tbl) | Raise e => (Raise e, tbl) end
  end.
(* the table after a history of calls *)
Fixpoint memo_run (tbl : list (K * V)) (hist : list K) : list (K * V) :=
  match hist with [] => tbl | k :: r => memo_run (snd (memo_call tbl k)) r end.
End Memo.

(* ---- marshals/api.py, unmarshals/api.py: the two one-shot helpers api.py calls ---- *)
(* marshal(value, *, t=None): typ = value.__class__ if t is None else t; marshaller(typ)(value) *)
Definition marshal_fn (value : obj) (t : option ty) : res obj :=
  bind (mk_mar (match t with None => class_of value | Some t' => t' end)) (fun r => r value).
(* unmarshal(t, value): unmarshaller(t)(value) *)
Definition unmarshal_fn (t : ty) (value : obj) : res obj := bind (mk_unm t) (fun r => r value).

(* ---- api.py as pinned (commit b80d764 / 875a8d5): no bytes rule ---- *)
(* encode(value, *, t=None, encoder=compat.json.dumps): encoder(marshal(value=value, t=t)) *)
Definition api_encode_pinned (value : obj) (t : option ty) (encoder_arg : option routine) : res obj :=
  bind (marshal_fn value t) (dflt encoder_arg json_dumps).
(* decode(t, value, *, decoder=compat.json.loads): unmarshal(t=t, value=decoder(value)) *)
Definition api_decode_pinned (t : ty) (value : obj) (decoder_arg : option routine) : res obj :=
  bind (dflt decoder_arg json_loads value) (unmarshal_fn t).

(* ---- api.py as repaired (proposed_fixes/C02-api-bytes-verbatim.diff) ----
     marshalled = marshal(value=value, t=t)
     if inspection.isbytestype(value.__class__ if t is None else t): return marshalled
     return encoder(marshalled) *)
Definition api_encode (value : obj) (t : option ty) (encoder_arg : option routine) : res obj :=
  bind (marshal_fn value t) (fun marshalled =>
  if isbytestype (match t with None => class_of value | Some t' => t' end) then Ok marshalled
  else dflt encoder_arg json_dumps marshalled).
(*   decoded = value if inspection.isbytestype(t) else decoder(value)
     return unmarshal(t=t, value=decoded) *)
Definition api_decode (t : ty) (value : obj) (decoder_arg : option routine) : res obj :=
  bind (if isbytestype t then Ok value else dflt decoder_arg json_loads value) (unmarshal_fn t).

(* ---- the explicit composition of the property statement ----
   encoder(marshal(v, t=T)) and unmarshal(T, decoder(b)) with the configured pair *)
Definition explicit_encode (t : ty) (e : option routine) (v : obj) : res obj :=
  bind (marshal_fn v (Some t)) (dflt e json_dumps).
Definition explicit_decode (t : ty) (d : option routine) (b : obj) : res obj :=
  bind (dflt d json_loads b) (unmarshal_fn t).

(* "T is supported": both routines can be constructed (C15's subject).  codec() builds both
   eagerly, encode()/decode() only the one they need, and decode() runs the decoder before it
   builds the unmarshaller: outside this guard the entry points raise at different moments. *)
Definition c02_guard (t : ty) : bool := is_ok (mk_mar t) && is_ok (mk_unm t).

End Codec.

Arguments marshal {obj}. Arguments unmarshal {obj}. Arguments encoder {obj}. Arguments decoder {obj}.
