(* Instance-level model for C19: the __setstate__ that slotted() installs on frozen classes
   (_slots_setstate), object.__setattr__ on a slotted layout, and -- as an explicit contract --
   the default object.__getstate__ of CPython 3.11+ that copy / pickle feed it with.
   Definitions only; proofs in Proofs/SlottedStateLemmas.v. *)
From Coq Require Import List String Bool Arith PeanoNat.
Import ListNotations.
Require Import TL.Model.Slotted.

(* attribute storage: name -> value (values by identity, OId n) *)
Definition store := cdict.

(* an instance of a class whose MRO defines the member slots i_slotnames (without __dict__ /
   __weakref__); i_dict = None when the layout has no instance __dict__ *)
Record inst := { i_slotnames : list attr; i_slots : store; i_dict : option store }.

(* SFrozen: dataclasses.FrozenInstanceError; SUnmodelled: the model does not describe this path *)
Inductive sexn := SAttribute | SType | SFrozen | SUnmodelled.
Inductive sres := SOk (i : inst) | SRaise (e : sexn).

(* object.__setattr__(self, k, v): a member slot takes it; otherwise the instance __dict__;
   otherwise AttributeError *)
Definition obj_setattr (i : inst) (k : attr) (v : obj) : sres :=
  if mem k (i_slotnames i)
  then SOk {| i_slotnames := i_slotnames i; i_slots := set_key k v (i_slots i); i_dict := i_dict i |}
  else match i_dict i with
       | Some d => SOk {| i_slotnames := i_slotnames i; i_slots := i_slots i; i_dict := Some (set_key k v d) |}
       | None => SRaise SAttribute
       end.

Fixpoint set_items (i : inst) (l : store) : sres :=
  match l with
  | [] => SOk i
  | (k, v) :: r => match obj_setattr i k v with SOk j => set_items j r | e => e end
  end.

(* the pickled state: None, a bare dict, or a sequence (tuple/list) of optional dicts *)
Inductive pstate := SNone | SDict (d : store) | SSeq (parts : list (option store)).

(* if not isinstance(state, (tuple, list)): state = (state,)
   for param_dict in filter(None, state): for slot, value in param_dict.items(): object.__setattr__(..)
   - None and a bare dict are treated as a one-element sequence
   - None and empty parts are skipped *)
Fixpoint set_parts (i : inst) (parts : list (option store)) : sres :=
  match parts with
  | [] => SOk i
  | None :: r | Some [] :: r => set_parts i r
  | Some d :: r => match set_items i d with SOk j => set_parts j r | e => e end
  end.

Definition slots_setstate (i : inst) (st : pstate) : sres :=
  match st with
  | SNone => SOk i
  | SDict d => set_items i d
  | SSeq parts => set_parts i parts
  end.

(* ---- contract: object.__getstate__ (default), CPython 3.11+ ------------------------- *)
(* dict part: a copy of the instance __dict__, None when absent or empty; slot part: the member
   slots that hold a value; state = (dict part, slot part) when some slot holds a value, else the
   dict part alone *)
Definition dict_part (i : inst) : option store :=
  match i_dict i with Some (x :: r) => Some (x :: r) | _ => None end.
Definition getstate (i : inst) : pstate :=
  match i_slots i with
  | [] => match dict_part i with Some d => SDict d | None => SNone end
  | s => SSeq [dict_part i; Some s]
  end.

(* copy.copy / pickle.loads: cls.__new__ without __init__, then __setstate__(state) unless state is None *)
Definition blank (i : inst) : inst :=
  {| i_slotnames := i_slotnames i; i_slots := [];
     i_dict := match i_dict i with Some _ => Some [] | None => None end |}.
Definition restore (i : inst) : sres :=
  match getstate i with SNone => SOk (blank i) | st => slots_setstate (blank i) st end.

(* a well-formed instance: slot storage only under slot names, the dict only under other names,
   every name once *)
Definition keys (s : store) : list attr := map fst s.
Definition wf_inst (i : inst) : bool :=
  forallb (fun k => mem k (i_slotnames i)) (keys (i_slots i))
  && nodupb (keys (i_slots i))
  && match i_dict i with
     | Some d => forallb (fun k => negb (mem k (i_slotnames i))) (keys d) && nodupb (keys d)
     | None => true
     end.

Definition same_store (a b : store) : Prop := forall k, assoc k a = assoc k b.
Definition same_dict (a b : option store) : Prop :=
  match a, b with Some x, Some y => same_store x y | None, None => True | _, _ => False end.
