(* Bridge between the two models of the factory's node order:

     Model/Graph.v  (graph.get_type_graph over string-level annotations [gty])      -- property C09
     Model/Build.v  (the factory loop over Core annotations [ty], order = parameter) -- C05 C07 C11 C15

   This file only defines the translation of the fragment both models share.
   Proofs: Proofs/GraphBridge.v; theorems: Props/C05Bridge.v.

   What is translated (everything else maps to None, i.e. is OUTSIDE the bridge):
     GScalar s              -> TLeaf (sid N s)
     GNone                  -> TNone
     GAny                   -> TLeaf (any_id N)        (the pass-through leaf)
     GLit n                 -> TLeaf (lit_id N n)      (Literal[..] is a leaf of the core model)
     GGen list/typing.List/typing.Sequence [x]   -> TSeq KList x
     GGen set [x] / frozenset [x] / deque [x]    -> TSeq KSet / KFrozenset / KDeque x
     GGen tuple [x; ...]    -> TSeq KTuple x           (variadic tuple)
     GGen tuple [x1..xn]    -> TTuple [x1..xn]         (n >= 1, no Ellipsis anywhere)
     GGen dict/typing.Dict [k; v]                -> TMap (mkind N g) k v
     GUnion _ ms            -> TUnion ms               (all three spellings; members as typing stores them)
     GClass c               -> TName c                 (classes keep their number)
     GNewType m n t         -> TNewType (wid m n) t
     GAlias m n t           -> TAlias (wid m n) t
     GFinal t               -> TFinal t
     GAliasStr m n body     -> TAliasStr (wid m n) c   when the reference inspection.unwrap builds for the
                                                       body resolves to the class reference TRef c
     GRef a mo              -> rref a mo               when it is a well-formed reference annotation
   Outside: GEllipsis on its own, generics of any other arity (bare tuple[()], dict with one argument ...),
   string aliases whose body does not name a class, references the resolver does not know.
   Core's TClassVar and TName of an alias entry (NType) have no gty counterpart; which mapping class a mapping
   origin constructs (dict / OrderedDict) is not visible at the graph level and comes from the naming (mkind).

   The names of the string level (module + qualified name of NewTypes/aliases, field names, the text of a
   ForwardRef) meet the numbers of the core level through a [naming]: an explicit argument, never an axiom.
   [rref] stands for refs.evaluate (the interpreter's eval of the reference text in the module's namespace),
   already composed with the translation: it returns the core REFERENCE annotation (TRef c for a class,
   TRefLeaf s for a leaf class, TRefTo w for a NewType / alias object w). *)
From Coq Require Import List Arith Bool PeanoNat String.
Import ListNotations.
Require Import TL.Model.Graph.
Require Import TL.Model.Core TL.Model.Build.

Record naming := {
  rref : Graph.str -> option Graph.str -> option ty;   (* refs.evaluate, translated *)
  wid : Graph.str -> Graph.str -> nat;                 (* identity of a NewType / alias object *)
  fid : Graph.str -> nat;                              (* field names *)
  flav : nat -> flavour;                               (* class flavour (not visible at the graph level) *)
  fdef : nat -> Graph.str -> option pv;                (* field defaults (not visible at the graph level) *)
  creq : nat -> list nat;                              (* required keys of a TypedDict (not visible either) *)
  sid : scalar -> nat;                                 (* leaf numbering: the core model only needs leaf ids *)
  any_id : nat;                                        (*   to be identities; typing.Any is the pass-through leaf *)
  lit_id : nat -> nat;
  mkind : gen -> dictkind                              (* which mapping class a mapping origin constructs *)
}.


(* a reference annotation of the core model that refs.forwardref can produce: the name of a class, of a
   leaf class, or of a NewType / alias object *)
Definition ref_shape (t : ty) : bool :=
  match t with
  | TRef _ | TRefLeaf _ => true
  | TRefTo (TNewType _ _) | TRefTo (TAlias _ _) | TRefTo (TAliasStr _ _) => true
  | _ => false
  end.

Inductive gkind := KSeq (k : seqkind) | KTup | KMap.
Definition gen_kind (g : gen) : gkind :=
  match g with
  | GList | GTList | GTSequence => KSeq KList
  | GSet => KSeq KSet
  | GFrozenset => KSeq KFrozenset
  | GDeque => KSeq KDeque
  | GTuple => KTup
  | GDict | GTDict => KMap
  end.

(* map with failure; the function is a section variable so that nested recursion through it is accepted *)
Section MapO.
Context {A B : Type}.
Variable f : A -> option B.
Fixpoint mapO (l : list A) : option (list B) :=
  match l with
  | [] => Some []
  | x :: r => match f x, mapO r with Some a, Some b => Some (a :: b) | _, _ => None end
  end.
End MapO.

Section Tr.
Variable N : naming.

Fixpoint tr_ty (t : gty) : option ty :=
  match t with
  | GScalar s => Some (TLeaf (sid N s))
  | GNone => Some TNone
  | GEllipsis => None
  | GAny => Some (TLeaf (any_id N))
  | GLit n => Some (TLeaf (lit_id N n))
  | GGen g a =>
      match gen_kind g with
      | KSeq k => match a with [x] => option_map (TSeq k) (tr_ty x) | _ => None end
      | KMap => match a with
                | [k; v] => match tr_ty k, tr_ty v with Some tk, Some tv => Some (TMap (mkind N g) tk tv) | _, _ => None end
                | _ => None
                end
      | KTup => match a with
                | [] => None
                | [x; GEllipsis] => option_map (TSeq KTuple) (tr_ty x)
                | _ => option_map TTuple (mapO tr_ty a)
                end
      end
  | GUnion _ ms => option_map TUnion (mapO tr_ty ms)
  | GClass c => Some (TName c)
  | GNewType m n x => option_map (TNewType (wid N m n)) (tr_ty x)
  | GAlias m n x => option_map (TAlias (wid N m n)) (tr_ty x)
  | GAliasStr m n body =>
      match rref N (remove_lead (m +++ "."%string) body) (Some m) with
      | Some (TRef c) => Some (TAliasStr (wid N m n) c)
      | _ => None
      end
  | GFinal x => option_map TFinal (tr_ty x)
  | GRef a mo =>
      match rref N a mo with
      | Some t => if ref_shape t then Some t else None
      | None => None
      end
  end.

Definition tr_list (l : list gty) : option (list ty) := mapO tr_ty l.

(* classes: field types are translated; names, flavour and defaults come from the naming *)
Definition tr_field (c : nat) (fd : Graph.str * gty) : option field :=
  match tr_ty (snd fd) with
  | Some t => Some {| fname := fid N (fst fd); fty := t; fdefault := fdef N c (fst fd) |}
  | None => None
  end.
Definition tr_class (c : nat) (d : Graph.classdef) : option classdef :=
  match mapO (tr_field c) (Graph.cfields d) with
  | Some fs => Some {| cflavour := flav N c; cfields := fs; crequired := creq N c |}
  | None => None
  end.
Definition tr_env (E : Graph.env) : env :=
  fun c => match E c with
           | Some d => match tr_class c d with Some cd => Some (NClass cd) | None => None end
           | None => None
           end.

(* nodes: type, unwrapped form and the cyclic flag; the variable name is not part of any context key *)
Definition tr_node (n : Graph.node) : option node :=
  match tr_ty (Graph.ntype n), tr_ty (Graph.nunw n) with
  | Some t, Some u => Some {| ntype := t; nunw := u; ncyc := Graph.ncyc n |}
  | _, _ => None
  end.
Definition tr_order (l : list Graph.node) : option (list node) := mapO tr_node l.

End Tr.
