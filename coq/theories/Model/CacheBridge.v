(* Cache bridge (WP-J): the memoised system over the STATELESS core value model.

   Every value property but C12 is proved of stateless functions: Core.unm / Core.mar (reference semantics) and
   Build.build_root / Build.run / Build.api_call (mechanism).  typelib memoises: graph.static_order, unmarshaller,
   marshaller, codec (functools.cache keyed by the annotation under Python's ==), serdes._strload (lru_cache keyed
   by the text), and a Delayed proxy resolves its target through the public factory -- i.e. through the factory
   cache -- at call time.  This file defines

     1. the generic construction: a state monad, and "a functools cache in front of a body" (mcached /
        mcached_opt: lookup under the cache's key comparison, else run the body -- which may itself consult other
        caches -- and store what it returned; an exception is not stored; lru eviction through memo_put's cap).
        The memo table primitives are those of Model/Cache.v (memo_get, memo_put), so that Cache.v's own cached
        functions are instances of the construction (Proofs/CacheBridge.v, part 6);
     2. its instance over the core model: state = six memo tables + the ghost flag, [runS] = Build.run with the
        state threaded (serdes.load through the _strload memo, a Delayed proxy through the factory memo),
        [build_rootS] = Build.build_root through the static_order memo, the public operations [cop] (build
        routine / codec, unmarshal, marshal, encode, decode, codec encode / decode, the caller mutating what it
        was handed, cache_clear of everything or of one function), [stepS], histories;
     3. the stateless reading [spec_op] of an operation: Build.build_root / Build.api_call, nothing else;
     4. the guard [clean_hist]: in no step of the history did a cache hit return an entry stored under a key
        that is == but not identical (both member orders of one union: KF-C12-union-order), and no cache-owned
        object was changed by a caller (impossible when strload copies: alias_load = false mirrors /repo HEAD).

   The ghost flag [c_bad] is never read by an output.  Definitions only. *)
From Coq Require Import List NArith Arith Bool PeanoNat.
Import ListNotations.
Require Import TL.Model.Core TL.Model.Build.
Require TL.Model.Cache.
Module KC := TL.Model.Cache.

(* ================================================================== 1. the generic construction *)
Definition M (St A : Type) : Type := St -> A * St.
Definition ret {St A : Type} (a : A) : M St A := fun s => (a, s).
Definition bnd {St A B : Type} (m : M St A) (k : A -> M St B) : M St B :=
  fun s => let (a, s1) := m s in k a s1.

Section MCached.
  Context {St K V R : Type}.
  Variables (eqv same : K -> K -> bool).     (* the key comparison of the cache; identical keys *)
  Variable max : option N.                   (* lru maxsize *)
  Variables (get : St -> list (K * V)) (set : St -> list (K * V) -> St).
  Variable flag : St -> bool -> St.          (* ghost: a hit under an equal-but-not-identical key *)

  (* @functools.cache def f(k): body *)
  Definition mcached (body : K -> M St V) (k : K) : M St V := fun s =>
    match KC.memo_get eqv same (get s) k with
    | Some (v, tbl, coll) => (v, flag (set s tbl) coll)
    | None => let (v, s1) := body k s in (v, set s1 (KC.memo_put max (get s1) k v))
    end.
  (* the same for a body that may raise: only a returned value ([proj r = Some v]) is stored *)
  Definition mcached_opt (proj : R -> option V) (inj : V -> R) (body : K -> M St R) (k : K) : M St R := fun s =>
    match KC.memo_get eqv same (get s) k with
    | Some (v, tbl, coll) => (inj v, flag (set s tbl) coll)
    | None => let (r, s1) := body k s in
              match proj r with
              | Some v => (r, set s1 (KC.memo_put max (get s1) k v))
              | None => (r, s1)
              end
    end.
End MCached.

(* a memoised system and the stateless function family it stands in front of: one step per operation; [view] is
   what the caller holds (inputs by their current content); the guard is the ghost flag *)
Record memo_system (Op Out View : Type) : Type := {
  ms_state : Type;
  ms_init : ms_state;
  ms_step : ms_state -> Op -> ms_state * Out;
  ms_bad : ms_state -> bool;
  ms_view : ms_state -> View
}.
Arguments ms_state {Op Out View}. Arguments ms_init {Op Out View}. Arguments ms_step {Op Out View}.
Arguments ms_bad {Op Out View}. Arguments ms_view {Op Out View}.
Fixpoint ms_outs {Op Out View} (S : memo_system Op Out View) (s : ms_state S) (h : list Op) : list Out :=
  match h with [] => [] | o :: r => snd (ms_step S s o) :: ms_outs S (fst (ms_step S s o)) r end.
Fixpoint ms_clean {Op Out View} (S : memo_system Op Out View) (s : ms_state S) (h : list Op) : bool :=
  match h with [] => true | o :: r => negb (ms_bad S (fst (ms_step S s o))) && ms_clean S (fst (ms_step S s o)) r end.
(* the stateless family along the same history: only the caller's view moves *)
Fixpoint ms_spec_outs {Op Out View} (S : memo_system Op Out View) (F : View -> Op -> Out) (s : ms_state S) (h : list Op)
  : list Out :=
  match h with [] => [] | o :: r => F (ms_view S s) o :: ms_spec_outs S F (fst (ms_step S s o)) r end.

(* ================================================================== 2. the core instance *)
(* Python's == on annotation objects, which every factory cache compares: a union is a set of members
   (typing.Union / types.UnionType ignore member order); everything else compares structurally *)
Fixpoint pykey_eq (a b : ty) {struct a} : bool :=
  match a, b with
  | TLeaf x, TLeaf y => Nat.eqb x y
  | TNone, TNone => true
  | TSeq k x, TSeq k' y => seqkind_eqb k k' && pykey_eq x y
  | TMap k x1 x2, TMap k' y1 y2 => dictkind_eqb k k' && pykey_eq x1 y1 && pykey_eq x2 y2
  | TTuple l, TTuple l' =>
      (fix go (l l' : list ty) : bool :=
         match l, l' with [], [] => true | x :: r, y :: t => pykey_eq x y && go r t | _, _ => false end) l l'
  | TUnion ms, TUnion ns =>
      forallb (fun m => existsb (fun n => pykey_eq m n) ns) ms &&
      (fix back (r : list ty) : bool :=
         match r with [] => true | n :: r' => existsb (fun m => pykey_eq m n) ms && back r' end) ns
  | TName x, TName y => Nat.eqb x y
  | TRef x, TRef y => Nat.eqb x y
  | TRefLeaf x, TRefLeaf y => Nat.eqb x y
  | TRefTo x, TRefTo y => pykey_eq x y
  | TNewType i x, TNewType j y => Nat.eqb i j && pykey_eq x y
  | TAlias i x, TAlias j y => Nat.eqb i j && pykey_eq x y
  | TAliasStr i x, TAliasStr j y => Nat.eqb i j && Nat.eqb x y
  | TFinal x, TFinal y => pykey_eq x y
  | TClassVar x, TClassVar y => pykey_eq x y
  | _, _ => false
  end.
(* unmarshaller(t) and unmarshaller(t=t) are different functools keys *)
Definition kwkey (f : ty -> ty -> bool) (a b : bool * ty) : bool := Bool.eqb (fst a) (fst b) && f (snd a) (snd b).

Record cstate := {
  c_uw : list (ty * ty);                         (* inspection.unwrap: key -> the first ==-equal annotation object asked *)
  c_so : list (ty * option (list node));         (* graph.static_order *)
  c_um : list ((bool * ty) * routine);           (* unmarshals.unmarshaller *)
  c_mm : list ((bool * ty) * routine);           (* marshals.marshaller *)
  c_cd : list (ty * (routine * routine));        (* codecs.codec: its marshal and unmarshal routines *)
  c_load : list (pv * pv);                       (* serdes._strload: text scalar -> the decoded object *)
  c_bad : bool                                   (* ghost *)
}.
Definition cinit : cstate := {| c_uw := []; c_so := []; c_um := []; c_mm := []; c_cd := []; c_load := []; c_bad := false |}.
Definition cflag (s : cstate) (b : bool) : cstate :=
  {| c_uw := c_uw s; c_so := c_so s; c_um := c_um s; c_mm := c_mm s; c_cd := c_cd s; c_load := c_load s; c_bad := c_bad s || b |}.
Definition cset_so (s : cstate) (t : list (ty * option (list node))) : cstate :=
  {| c_uw := c_uw s; c_so := t; c_um := c_um s; c_mm := c_mm s; c_cd := c_cd s; c_load := c_load s; c_bad := c_bad s |}.
Definition cset_uw (s : cstate) (t : list (ty * ty)) : cstate :=
  {| c_uw := t; c_so := c_so s; c_um := c_um s; c_mm := c_mm s; c_cd := c_cd s; c_load := c_load s; c_bad := c_bad s |}.
Definition cset_um (s : cstate) (t : list ((bool * ty) * routine)) : cstate :=
  {| c_uw := c_uw s; c_so := c_so s; c_um := t; c_mm := c_mm s; c_cd := c_cd s; c_load := c_load s; c_bad := c_bad s |}.
Definition cset_mm (s : cstate) (t : list ((bool * ty) * routine)) : cstate :=
  {| c_uw := c_uw s; c_so := c_so s; c_um := c_um s; c_mm := t; c_cd := c_cd s; c_load := c_load s; c_bad := c_bad s |}.
Definition cset_cd (s : cstate) (t : list (ty * (routine * routine))) : cstate :=
  {| c_uw := c_uw s; c_so := c_so s; c_um := c_um s; c_mm := c_mm s; c_cd := t; c_load := c_load s; c_bad := c_bad s |}.
Definition cset_load (s : cstate) (t : list (pv * pv)) : cstate :=
  {| c_uw := c_uw s; c_so := c_so s; c_um := c_um s; c_mm := c_mm s; c_cd := c_cd s; c_load := t; c_bad := c_bad s |}.
(* cache_clear() of one function / of every cached function (impl.clear_caches) *)
Inductive ctable := TUw | TSo | TUm | TMm | TCd | TLoad.
Definition cclear1 (w : ctable) (s : cstate) : cstate :=
  match w with
  | TUw => cset_uw s [] | TSo => cset_so s [] | TUm => cset_um s [] | TMm => cset_mm s [] | TCd => cset_cd s [] | TLoad => cset_load s []
  end.
Definition cclear (s : cstate) : cstate :=
  {| c_uw := []; c_so := []; c_um := []; c_mm := []; c_cd := []; c_load := []; c_bad := c_bad s |}.

Definition MC (A : Type) : Type := M cstate A.
(* bind on results: an exception (and the two non-results of the model) ends the call; the state stays as it is *)
Definition bndR {A B : Type} (m : MC (res A)) (k : A -> MC (res B)) : MC (res B) :=
  bnd m (fun r => match r with
                  | Ok a => k a
                  | Raise e => ret (Raise e)
                  | OutOfFuel => ret OutOfFuel
                  | Unmodelled => ret Unmodelled
                  end).
Fixpoint mapMS {A B : Type} (f : A -> MC (res B)) (l : list A) : MC (res (list B)) :=
  match l with
  | [] => ret (Ok [])
  | x :: r => bndR (f x) (fun y => bndR (mapMS f r) (fun t => ret (Ok (y :: t))))
  end.
Fixpoint first_okS (sup : exn -> bool) (rs : list (pv -> MC (res pv))) (x : pv) : MC (res pv) :=
  match rs with
  | [] => ret (Raise EValue)
  | r :: rest =>
      bnd (r x) (fun o => match o with
                          | Raise e => if sup e then first_okS sup rest x else ret (Raise e)
                          | other => ret other
                          end)
  end.
Definition res_proj {A : Type} (r : res A) : option A := match r with Ok a => Some a | _ => None end.

(* the pure half of Build.build_root: from the node order to the routine *)
Definition build_from (E : env) (dir : bool) (o : option (list node)) : res routine :=
  match o with
  | None => Unmodelled
  | Some ns =>
      match rev ns with
      | [] => Ok RNoOp
      | root :: _ => bind (build_loop E dir [] ns) (fun cx => getitem E cx (ntype root))
      end
  end.

Section CSys.
Variable rt : runtime.
Variable E : env.
Variable orders : ty -> option (list node).     (* the uncached body of graph.static_order *)
Variable uw_fuel : nat.                         (* how deep get_type_graph walks (any bound: the theorems hold for all) *)
Variable is_text : pv -> bool.                  (* inspection.istexttype(type(x)): which scalars serdes.load hands to strload *)
Variable max_load : option N.                   (* maxsize of _strload's lru_cache *)
Variable alias_load : bool.                     (* strload hands out the memoised object itself (true on trees before
                                                   f57eb40) or a deep copy (false: /repo HEAD) *)
Variables enc dec : pv -> res pv.               (* the wire encoder / decoder (json.dumps / json.loads) *)
Variable byteslike : ty -> bool.                (* codecs.isbyteslike *)

(* serdes.load *)
Definition loadS (x : pv) : MC (res pv) :=
  if is_scalar x && is_text x then
    mcached_opt (pv_pyeq rt) pv_eqb max_load c_load cset_load cflag res_proj (@Ok pv)
                (fun x => ret (load_scalar rt x)) x
  else ret (load rt x).

(* inspection.unwrap is @cache'd on ==, and graph.get_type_graph takes node.unwrapped -- hence the node's children --
   from its answer: at EVERY nesting level a sub-annotation is served the first ==-equal annotation object ever
   unwrapped in the process.  Annotations with a single spelling never collide and are not entered. *)
Definition get_uwS (t : ty) : MC ty :=
  match t with
  | TLeaf _ | TNone | TName _ | TRef _ | TRefLeaf _ | TRefTo _ | TAliasStr _ _ => ret t
  | _ => mcached pykey_eq ty_eqb None c_uw cset_uw cflag (fun t => ret t) t
  end.
Fixpoint mapS {A B : Type} (f : A -> MC B) (l : list A) : MC (list B) :=
  match l with [] => ret [] | x :: r => bnd (f x) (fun y => bnd (mapS f r) (fun t => ret (y :: t))) end.
(* the annotation the graph is really computed from: every structural position rewritten to the spelling the unwrap
   memo serves; the fields of a class are walked (their hints are unwrapped through the same memo: a collision there
   raises the flag) but a class object has one spelling *)
Fixpoint resolveS (n : nat) (seen : list nat) (t : ty) {struct n} : MC ty :=
  match n with
  | 0 => ret t
  | S n' =>
      bnd (get_uwS t) (fun u =>
        match u with
        | TSeq k a => bnd (resolveS n' seen a) (fun a' => ret (TSeq k a'))
        | TMap k a b => bnd (resolveS n' seen a) (fun a' => bnd (resolveS n' seen b) (fun b' => ret (TMap k a' b')))
        | TTuple ts => bnd (mapS (resolveS n' seen) ts) (fun ts' => ret (TTuple ts'))
        | TUnion ts => bnd (mapS (resolveS n' seen) ts) (fun ts' => ret (TUnion ts'))
        | TNewType i a => bnd (resolveS n' seen a) (fun a' => ret (TNewType i a'))
        | TAlias i a => bnd (resolveS n' seen a) (fun a' => ret (TAlias i a'))
        | TFinal a => bnd (resolveS n' seen a) (fun a' => ret (TFinal a'))
        | TClassVar a => bnd (resolveS n' seen a) (fun a' => ret (TClassVar a'))
        | TName c | TRef c | TAliasStr _ c =>
            (* a class already on the way down is a visited node of the graph: its fields are not walked again *)
            if existsb (Nat.eqb c) seen then ret u else
            match E c with
            | Some (NClass cd) => bnd (mapS (fun f => resolveS n' (c :: seen) (fty f)) (cfields cd)) (fun _ => ret u)
            | Some (NType t') => bnd (resolveS n' (c :: seen) t') (fun _ => ret u)
            | None => ret u
            end
        | _ => ret u
        end)
  end.

(* graph.static_order: a reference is evaluated and the call repeated on the result (through the cache) *)
Definition so_cached (body : ty -> MC (option (list node))) : ty -> MC (option (list node)) :=
  mcached pykey_eq ty_eqb None c_so cset_so cflag body.
Definition so_body (k : ty) : MC (option (list node)) := bnd (resolveS uw_fuel [] k) (fun k' => ret (orders k')).
Definition get_soS (t : ty) : MC (option (list node)) :=
  so_cached (fun t => if is_ref t && negb (is_ref (evaluate t))
                      then so_cached so_body (evaluate t)
                      else so_body (evaluate t)) t.
(* the body of unmarshaller() / marshaller() *)
Definition build_rootS (d : bool) (t : ty) : MC (res routine) :=
  bnd (get_soS t) (fun o => ret (build_from E d o)).
Definition get_umS (kw : bool) (t : ty) : MC (res routine) :=
  mcached_opt (kwkey pykey_eq) (kwkey ty_eqb) None c_um cset_um cflag res_proj (@Ok routine)
              (fun k => build_rootS true (snd k)) (kw, t).
Definition get_mmS (kw : bool) (t : ty) : MC (res routine) :=
  mcached_opt (kwkey pykey_eq) (kwkey ty_eqb) None c_mm cset_mm cflag res_proj (@Ok routine)
              (fun k => build_rootS false (snd k)) (kw, t).
Definition get_rS (d : bool) : bool -> ty -> MC (res routine) := if d then get_umS else get_mmS.
(* codec(t): marshaller(t=t), unmarshaller(t=t) *)
Definition get_cdS (t : ty) : MC (res (routine * routine)) :=
  mcached_opt pykey_eq ty_eqb None c_cd cset_cd cflag res_proj (@Ok (routine * routine))
              (fun t => bndR (get_mmS true t) (fun m => bndR (get_umS true t) (fun u => ret (Ok (m, u))))) t.

Definition struct_kwS (run : routine -> pv -> MC (res pv)) (fields : list (nat * routine)) (kvs : list (pv * pv))
  : MC (res (list (nat * pv))) :=
  fold_left (fun acc kv =>
     bndR acc (fun kw =>
       match fst kv with
       | PKey f => match find (fun fr => Nat.eqb (fst fr) f) fields with
                   | Some fr => bndR (run (snd fr) (snd kv)) (fun v' => ret (Ok (kw_set f v' kw)))
                   | None => ret (Ok kw) end
       | k => ret (if unhashable rt k then Raise EType else Ok kw)
       end)) kvs (ret (Ok [])).

(* hash-as-produced (Core.hashing / Core.elem_conv) with the caches in the way *)
Definition hashingS {A B : Type} (key : B -> pv) (f : A -> MC (res B)) (x : A) : MC (res B) :=
  bndR (f x) (fun y => ret (hash_check rt key y)).
Definition elem_convS (k : seqkind) (f : pv -> MC (res pv)) : pv -> MC (res pv) :=
  if hashes k then hashingS (fun v => v) f else f.

(* Build.run with the caches in the way: serdes.load consults _strload's memo, a Delayed proxy resolves its
   target through unmarshaller(t) / marshaller(t), i.e. through the factory memo.  (The proxy also keeps what it
   resolved in its own slot _resolved; that slot holds a value the factory returned, the model asks the factory
   again: under the invariant both are Build.build_root of the target.) *)
Fixpoint runS (d : bool) (fuel : nat) (r : routine) (x : pv) {struct fuel} : MC (res pv) :=
  match fuel with
  | 0 => ret OutOfFuel
  | S n =>
    if d then
      match r with
      | RLeaf s => ret (leaf_u rt s x)
      | RNone => ret (none_u rt x)
      | RNoOp => ret (Ok x)
      | RSeq k r' =>
          bndR (loadS x) (fun dd => bndR (ret (itervalues rt dd)) (fun vs =>
          bndR (mapMS (elem_convS k (runS d n r')) vs) (fun rs => ret (construct_seq rt k rs))))
      | RMap k rk rv =>
          bndR (loadS x) (fun dd => bndR (ret (iteritems rt E dd)) (fun kvs =>
          bndR (mapMS (hashingS fst (fun kv => bndR (runS d n rk (fst kv)) (fun k' =>
                                 bndR (runS d n rv (snd kv)) (fun v' => ret (Ok (k', v')))))) kvs)
               (fun rs => ret (construct_map rt k rs))))
      | RTuple rs =>
          bndR (loadS x) (fun dd => bndR (ret (itervalues rt dd)) (fun vs =>
          if Nat.ltb (length vs) (length rs) then ret (Raise EValue)
          else
          bndR (mapMS (fun rv => runS d n (fst rv) (snd rv)) (zip_trunc rs vs)) (fun out => ret (Ok (PSeq KTuple out)))))
      | RUnion _ rs => first_okS (suppressed rt) (map (runS d n) rs) x
      | RStruct c fields =>
          match E c with
          | Some (NClass cd) =>
              bndR (loadS x) (fun dd => bndR (ret (iteritems rt E dd)) (fun kvs =>
              bndR (struct_kwS (runS d n) fields kvs) (fun kw => ret (construct_class c cd kw))))
          | _ => ret (Raise EOther)
          end
      | RDelayed t => bndR (get_umS false t) (fun r' => runS d n r' x)
      end
    else
      match r with
      | RLeaf s => ret (leaf_m rt s x)
      | RNone => ret (if is_none_val rt x then Ok x else Raise EValue)
      | RNoOp => ret (Ok x)
      | RSeq k r' => bndR (ret (itervalues rt x)) (fun vs => bndR (mapMS (runS d n r') vs) (fun rs => ret (Ok (PSeq KList rs))))
      | RMap k rk rv =>
          bndR (ret (iteritems rt E x)) (fun kvs =>
          bndR (mapMS (hashingS fst (fun kv => bndR (runS d n rk (fst kv)) (fun k' =>
                                 bndR (runS d n rv (snd kv)) (fun v' => ret (Ok (k', v')))))) kvs)
               (fun rs => ret (construct_map rt KDict rs)))
      | RTuple rs =>
          bndR (ret (itervalues rt x)) (fun vs =>
          bndR (mapMS (fun rv => runS d n (fst rv) (snd rv)) (zip_trunc rs vs)) (fun out => ret (Ok (PSeq KList out))))
      | RUnion nullable rs =>
          if nullable && is_none_val rt x then ret (Ok x) else first_okS (suppressed rt) (map (runS d n) rs) x
      | RStruct c fields =>
          bndR (ret (iteritems rt E x)) (fun kvs =>
          bndR (struct_kwS (runS d n) fields kvs)
               (fun kw => ret (Ok (PDict KDict (map (fun fv => (PKey (fst fv), snd fv)) kw)))))
      | RDelayed t => bndR (get_mmS false t) (fun r' => runS d n r' x)
      end
  end.

(* ---- the public operations *)
Inductive cop :=
| CBuildU (t : ty) | CBuildM (t : ty) | CBuildC (t : ty)          (* unmarshaller(t), marshaller(t), codec(t) *)
| CUnmarshal (t : ty) (x : pv) | CMarshal (t : ty) (x : pv)       (* unmarshal(t, x), marshal(x, t=t) *)
| CEncode (t : ty) (x : pv) | CDecode (t : ty) (x : pv)           (* typelib.encode / typelib.decode *)
| CCEncode (t : ty) (x : pv) | CCDecode (t : ty) (x : pv)         (* codec(t).encode / codec(t).decode *)
| CMutate (g : pv -> pv)           (* the caller changes, by g, the objects it was handed (results; held inputs are
                                      passed by their content at call time) *)
| CClear | CClearOne (w : ctable).
Inductive cout :=
| COUnit
| CORoutine (r : res routine)
| COCodec (r : res (routine * routine))
| COVal (r : res pv).

Definition wire_out (t : ty) (w : pv) : res pv := if byteslike t then Ok w else enc w.
Definition wire_in (t : ty) (x : pv) : res pv := if byteslike t then Ok x else dec x.

Definition stepS (fuel : nat) (s : cstate) (o : cop) : cstate * cout :=
  match o with
  | CBuildU t => let (r, s1) := get_umS false t s in (s1, CORoutine r)
  | CBuildM t => let (r, s1) := get_mmS false t s in (s1, CORoutine r)
  | CBuildC t => let (r, s1) := get_cdS t s in (s1, COCodec r)
  | CUnmarshal t x =>
      let (v, s1) := bndR (get_umS false t) (fun r => runS true fuel r x) s in (s1, COVal v)
  | CMarshal t x =>
      let (v, s1) := bndR (get_mmS false t) (fun r => runS false fuel r x) s in (s1, COVal v)
  | CEncode t x =>
      let (v, s1) := bndR (get_mmS false t) (fun r => runS false fuel r x) s in (s1, COVal (bind v (wire_out t)))
  | CDecode t x =>
      match wire_in t x with
      | Ok y => let (v, s1) := bndR (get_umS false t) (fun r => runS true fuel r y) s in (s1, COVal v)
      | other => (s, COVal other)
      end
  | CCEncode t x =>
      let (v, s1) := bndR (get_cdS t) (fun mu => runS false fuel (fst mu) x) s in (s1, COVal (bind v (wire_out t)))
  | CCDecode t x =>
      let (v, s1) := bndR (get_cdS t) (fun mu => bndR (ret (wire_in t x)) (fun y => runS true fuel (snd mu) y)) s in
      (s1, COVal v)
  | CMutate g =>
      if alias_load
      then (cflag (cset_load s (map (fun e => (fst e, g (snd e))) (c_load s)))
                  (existsb (fun e => negb (pv_eqb (g (snd e)) (snd e))) (c_load s)), COUnit)
      else (s, COUnit)
  | CClear => (cclear s, COUnit)
  | CClearOne w => (cclear1 w s, COUnit)
  end.

Definition run_histS (fuel : nat) (s : cstate) (h : list cop) : cstate := fold_left (fun s o => fst (stepS fuel s o)) h s.
Fixpoint outsS (fuel : nat) (s : cstate) (h : list cop) : list cout :=
  match h with [] => [] | o :: r => snd (stepS fuel s o) :: outsS fuel (fst (stepS fuel s o)) r end.
(* the guard: no step of the history raises the ghost flag *)
Fixpoint clean_hist (fuel : nat) (s : cstate) (h : list cop) : bool :=
  match h with [] => true | o :: r => negb (c_bad (fst (stepS fuel s o))) && clean_hist fuel (fst (stepS fuel s o)) r end.

(* ================================================================== 3. the stateless reading of an operation *)
Definition codec_spec (t : ty) : res (routine * routine) :=
  bind (build_root E orders false t) (fun m => bind (build_root E orders true t) (fun u => Ok (m, u))).
Definition spec_op (fuel : nat) (o : cop) : cout :=
  match o with
  | CBuildU t => CORoutine (build_root E orders true t)
  | CBuildM t => CORoutine (build_root E orders false t)
  | CBuildC t => COCodec (codec_spec t)
  | CUnmarshal t x => COVal (api_call rt E orders true fuel t x)
  | CMarshal t x => COVal (api_call rt E orders false fuel t x)
  | CEncode t x => COVal (bind (api_call rt E orders false fuel t x) (wire_out t))
  | CDecode t x => COVal (bind (wire_in t x) (fun y => api_call rt E orders true fuel t y))
  | CCEncode t x => COVal (bind (bind (codec_spec t) (fun mu => run rt E orders false fuel (fst mu) x)) (wire_out t))
  | CCDecode t x => COVal (bind (codec_spec t) (fun mu => bind (wire_in t x) (fun y => run rt E orders true fuel (snd mu) y)))
  | CMutate _ | CClear | CClearOne _ => COUnit
  end.

(* the memoised core system as an instance of the generic record (the caller's view is empty: operations carry
   their inputs by content) *)
Definition core_system (fuel : nat) : memo_system cop cout unit :=
  {| ms_state := cstate; ms_init := cinit; ms_step := stepS fuel; ms_bad := c_bad; ms_view := fun _ => tt |}.
End CSys.

(* Model/Cache.v's machine (property C12) in the same record: the caller's view is the state itself as far as the
   held inputs go (KC.spec reads only [inputs]); outputs with identity tags erased *)
Definition c12_system (W : KC.world) : memo_system KC.op KC.out KC.state :=
  {| ms_state := KC.state; ms_init := KC.init;
     ms_step := fun s o => (fst (KC.step W s o), KC.erase_out (snd (KC.step W s o)));
     ms_bad := KC.bad; ms_view := fun s => s |}.

(* ================================================================== comparison helpers for the tie *)
Definition res_eqb {A : Type} (e : A -> A -> bool) (a b : res A) : bool :=
  match a, b with
  | Ok x, Ok y => e x y
  | Raise x, Raise y => exn_eqb x y
  | _, _ => false
  end.

(* ================================================================== a toy instance (witnesses, non-vacuity)
   atoms: 0 None, 1 int 5, 2 str "5", 3 int 1, 4 int 2, 5 str "[1,2]", 6 int 777
   leaves: 1 int, 2 str;  class 0 = C05's recursive example  class N0: kids: list[N0]; val: Optional[int] *)
Definition bt_rt : runtime :=
  {| leaf_u := fun s x =>
       match s, x with
       | 1, PAtom 1 | 1, PAtom 2 => Ok (PAtom 1)
       | 1, PAtom 3 | 1, PAtom 4 | 1, PAtom 6 => Ok x
       | 2, PAtom 2 | 2, PAtom 1 => Ok (PAtom 2)
       | 2, PAtom 5 => Ok x
       | _, _ => Raise EValue
       end;
     leaf_m := fun s x =>
       match s, x with
       | 1, PAtom 1 | 1, PAtom 3 | 1, PAtom 4 | 1, PAtom 6 => Ok x
       | 2, PAtom 2 | 2, PAtom 5 => Ok x
       | _, _ => Raise EType
       end;
     none_u := fun x => match x with PAtom 0 => Ok x | _ => Raise EValue end;
     load_scalar := fun x => match x with PAtom 5 => Ok (PSeq KList [PAtom 3; PAtom 4]) | PAtom 2 => Ok (PAtom 1) | _ => Ok x end;
     values_scalar := fun _ => Raise EType; items_scalar := fun _ => Raise EType; unpack_scalar := fun _ => Raise EType;
     pairlike_scalar := fun _ => false; index := fun i => PAtom (100 + i); unhashable_class := fun _ => false;
     atom_eq := fun _ _ => false; none := PAtom 0; suppressed := fun _ => true |}.
Definition bt_is_text (x : pv) : bool := match x with PAtom 2 | PAtom 5 => true | _ => false end.
Definition bt_env : env := fun n => match n with
  | 0 => Some (NClass {| cflavour := FDataclass;
                          cfields := [ {| fname := 0; fty := TSeq KList (TName 0); fdefault := None |};
                                       {| fname := 1; fty := TUnion [TLeaf 1; TNone]; fdefault := None |} ]; crequired := [] |})
  | _ => None end.
Definition nd (t : ty) : node := {| ntype := t; nunw := t; ncyc := false |}.
Definition nd_cyc (t : ty) : node := {| ntype := t; nunw := t; ncyc := true |}.
Definition U_int_str : ty := TUnion [TLeaf 1; TLeaf 2].
Definition U_str_int : ty := TUnion [TLeaf 2; TLeaf 1].
Definition L_int : ty := TSeq KList (TLeaf 1).
Definition L_N0 : ty := TSeq KList (TName 0).
Definition bt_table : list (ty * list node) :=
  [ (TLeaf 1, [nd (TLeaf 1)]); (TLeaf 2, [nd (TLeaf 2)]);
    (U_int_str, [nd (TLeaf 1); nd (TLeaf 2); nd U_int_str]);
    (U_str_int, [nd (TLeaf 2); nd (TLeaf 1); nd U_str_int]);
    (L_int, [nd (TLeaf 1); nd L_int]);
    (TSeq KList U_int_str, [nd (TLeaf 1); nd (TLeaf 2); nd U_int_str; nd (TSeq KList U_int_str)]);
    (TMap KDict (TLeaf 2) U_str_int, [nd (TLeaf 2); nd (TLeaf 1); nd U_str_int; nd (TMap KDict (TLeaf 2) U_str_int)]);
    (TMap KDict (TLeaf 2) U_int_str, [nd (TLeaf 2); nd (TLeaf 1); nd U_int_str; nd (TMap KDict (TLeaf 2) U_int_str)]);
    (L_N0, [nd_cyc L_N0; nd (TLeaf 1); nd TNone; nd (TUnion [TLeaf 1; TNone]); nd (TName 0); nd L_N0]) ].
Fixpoint bt_lookup (k : ty) (t : list (ty * list node)) : option (list node) :=
  match t with [] => None | (k', a) :: r => if ty_eqb k k' then Some a else bt_lookup k r end.
Definition bt_orders (k : ty) : option (list node) := bt_lookup k bt_table.
Definition bt_node (v : nat) : pv := PDict KDict [(PKey 0, PSeq KList []); (PKey 1, PAtom v)].
Definition bt_append (v : pv) : pv := match v with PSeq KList l => PSeq KList (l ++ [PAtom 6]) | _ => v end.
Definition bt_id (v : pv) : pv := v.

(* finding 11 in core terms: unmarshaller(Union[int, str]), then unmarshal(Union[str, int], "5") *)
Definition bt_h_union : list cop := [CBuildU U_int_str; CUnmarshal U_str_int (PAtom 2)].
(* the same one level down: the routine of list[int | str] is built, dict[str, str | int] is a different key:
   the factory memos miss, the inspection.unwrap memo serves the members in the first order *)
Definition bt_h_union_nested : list cop :=
  [CBuildU (TSeq KList U_int_str); CUnmarshal (TMap KDict (TLeaf 2) U_str_int) (PDict KDict [(PAtom 2, PAtom 2)])].
(* design observation 9 (strload hands out its memoised list): read "[1,2]", the caller appends to what it was
   handed, read again *)
Definition bt_h_alias : list cop := [CUnmarshal L_int (PAtom 5); CMutate bt_append; CUnmarshal L_int (PAtom 5)].
(* a history inside the guard: both member orders of one union separated by cache_clear(), a recursive class
   (Delayed proxy resolved through the factory memo, twice), text loaded twice, a caller that mutates nothing it
   does not own, keyword and positional factory keys, one cache cleared alone *)
(* lru eviction: _strload with room for ONE entry, two texts read in turn *)
Definition bt_h_evict : list cop :=
  [CUnmarshal L_int (PAtom 5); CUnmarshal L_int (PAtom 2); CUnmarshal L_int (PAtom 5); CUnmarshal L_int (PAtom 2);
   CUnmarshal L_int (PAtom 5)].
Definition bt_h_good : list cop :=
  [ CBuildU U_int_str; CUnmarshal U_int_str (PAtom 2); CClear; CUnmarshal U_str_int (PAtom 2);
    CUnmarshal L_N0 (PSeq KList [PDict KDict [(PKey 0, PSeq KList [bt_node 3]); (PKey 1, PAtom 2)]]);
    CUnmarshal L_int (PAtom 5); CMutate bt_append; CUnmarshal L_int (PAtom 5); CBuildC L_int; CCEncode L_int (PSeq KList [PAtom 3]);
    CClearOne TUm; CCDecode L_int (PAtom 5); CMarshal L_N0 (PSeq KList [PObj 0 [(0, PSeq KList []); (1, PAtom 0)]]);
    CEncode L_int (PSeq KList [PAtom 4]); CDecode L_int (PAtom 5) ].

(* ================================================================== for the per-run tie (harness/cachetie.py) *)
Require TL.Model.CoreTables.
(* an observation: None = a unit operation, or a result the harness does not compare *)
Definition obs_ok (strict : bool) (o : cout) (ob : option (res pv)) : bool :=
  match ob with
  | None => true
  | Some r' => match o with COVal r => TL.Model.CoreTables.res_sim strict r r' | _ => false end
  end.
Fixpoint bad_ops (strict : bool) (i : nat) (os : list cout) (obs : list (option (res pv))) : list nat :=
  match os, obs with
  | [], [] => []
  | o :: r, b :: t => (if obs_ok strict o b then [] else [i]) ++ bad_ops strict (S i) r t
  | _, _ => [i]
  end.
Definition first_bad (l : list nat) : nat := match l with [] => 0 | i :: _ => S i end.
Section Tie.
Variable rt : runtime.
Variable E : env.
Variable orders : list (ty * list node).        (* graph.static_order as observed, keyed by the emitted annotation *)
Variable texts : list pv.                       (* the text scalars *)
Variable decs : list (pv * res pv).             (* json.loads on the wire inputs of decode operations *)
Variable bytes_tys : list ty.                   (* annotations codecs.isbyteslike answers True for *)
Variable fuel : nat.
Variable strict : bool.
Definition tie_text (x : pv) : bool := existsb (pv_eqb x) texts.
Definition tie_dec (x : pv) : res pv := TL.Model.CoreTables.or_unmodelled (TL.Model.CoreTables.lookup_pv x decs).
Definition tie_bytes (t : ty) : bool := existsb (ty_eqb t) bytes_tys.
Definition tie_orders (k : ty) : option (list node) := bt_lookup k orders.
(* one history with the observations of the implementation run in ONE process without clearing caches:
   (guard, 1 + first operation where the memoised model differs | 0, the same for the stateless mechanism) *)
Definition tie_check (c : list cop * list (option (res pv))) : nat * (nat * nat) :=
  ((if clean_hist rt E tie_orders 40 tie_text (Some 100000%N) false (@Ok pv) tie_dec tie_bytes fuel cinit (fst c) then 1 else 0),
   (first_bad (bad_ops strict 0 (outsS rt E tie_orders 40 tie_text (Some 100000%N) false (@Ok pv) tie_dec tie_bytes fuel cinit (fst c)) (snd c)),
    first_bad (bad_ops strict 0 (map (spec_op rt E tie_orders (@Ok pv) tie_dec tie_bytes fuel) (fst c)) (snd c)))).
End Tie.
