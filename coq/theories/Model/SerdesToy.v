(* A small concrete Runtime: shows that the hypotheses of the C14 theorems are satisfiable
   and gives the refutation theorems something to compute with.  ASCII only: UTF-8 is the
   identity; the "JSON decoder" knows the two texts [1,2] and 1. Definitions only. *)
From Coq Require Import List ZArith NArith Bool.
Import ListNotations.
Require Import TL.Model.Serdes.

Definition t_list12 : str := [91; 49; 44; 50; 93]%N.     (* the text [1,2] *)
Definition t_one : str := [49]%N.                        (* the text 1 *)
Definition t_abc : str := [97; 98; 99]%N.                (* the text abc *)
Definition v_list12 : pv := PList [PInt 1; PInt 2].

Definition toy_json (s : str) : res pv :=
  if list_N_eqb s t_list12 then Ok v_list12
  else if list_N_eqb s t_one then Ok (PInt 1)
  else Raise EValue.

Definition toy_rt : Runtime := {|
  utf8_encode := fun s => s;
  utf8_decode := fun b => Ok b;
  json_loads_str := toy_json;
  json_loads_bin := toy_json;
  literal_eval := fun _ => Raise ESyntax;
  json_dumps := fun _ => t_list12;
  py_repr := fun _ => t_list12
|}.

(* remainder of a routine: hands back what it was given *)
Definition toy_rest (h : head) (d : pv) : res pv := Ok d.
Definition toy_whole (h : head) (v : pv) : res pv := Ok v.
