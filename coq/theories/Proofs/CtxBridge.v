(* Proofs for Model/CtxBridge.v: Build.v's pure lookup is what C16's verified model of TypeContext says,
   and the routing invariant of the factory survives everything the real class does (memo writes,
   overwrites). *)
From Coq Require Import List Arith Bool Lia PeanoNat.
Import ListNotations.
Require Import TL.Model.Ctx TL.Proofs.CtxLemmas.
Require Import TL.Model.Core TL.Model.Build TL.Proofs.BuildLemmas.
Require Import TL.Model.CtxBridge.

(* ---------------------------------------------------------------- the key family *)
Lemma ty_eqb_true_iff a b : ty_eqb a b = true <-> a = b.
Proof. split; [apply ty_eqb_eq|intros ->; apply ty_eqb_refl]. Qed.

(* The key family is per environment: inspection.unwrap goes through the alias objects of E (Build.unwrap E). *)
Section Env.
Variable E : env.
Local Notation unwrap := (Build.unwrap E).
Local Notation getitem := (Build.getitem E).
Local Notation ctx_get := (Build.ctx_get E).
Local Notation cgetitem := (CtxBridge.cgetitem E).
Local Notation cstep := (CtxBridge.cstep E).
Local Notation crun := (CtxBridge.crun E).
Local Notation cspec_lookup := (CtxBridge.cspec_lookup E).
Local Notation cspec_run := (CtxBridge.cspec_run E).
Local Notation cspec_final := (CtxBridge.cspec_final E).
Local Notation cops_ok := (CtxBridge.cops_ok E).

Lemma fref_tot_ref a : is_ref a = false -> is_ref (fref_tot a) = true.
Proof. unfold fref_tot. destruct a; cbn [fref is_ref]; intros H; try discriminate H; reflexivity. Qed.

(* Core annotations with Build's unwrap / is_ref / (totalised) fref satisfy every law C16 asks of a key family *)
Theorem ty_key_laws : key_laws ty ty_eqb is_ref unwrap fref_tot names_ty.
Proof. constructor.
  - exact ty_eqb_refl.
  - intros a b H. apply ty_eqb_eq in H. subst. apply ty_eqb_refl.
  - intros a b c H1 H2. apply ty_eqb_eq in H1. apply ty_eqb_eq in H2. subst. apply ty_eqb_refl.
  - intros a b H. apply ty_eqb_eq in H. subst. reflexivity.
  - intros a b H. apply ty_eqb_eq in H. subst. apply ty_eqb_refl.
  - intros a _. rewrite (unwrap_idem E). apply ty_eqb_refl.
  - exact fref_tot_ref.
  - intros a b k H. apply ty_eqb_eq in H. subst. reflexivity.
Qed.

(* ---------------------------------------------------------------- states *)
Lemma cfind_cset c k v k2 : cfind (cset c k v) k2 = if ty_eqb k2 k then Some v else cfind c k2.
Proof. exact (find_set ty routine ty_eqb is_ref unwrap fref_tot names_ty ty_key_laws c k v k2). Qed.

(* the dict a Build context denotes answers plain membership like find_key *)
Lemma cfind_state_of cx k : cfind (state_of cx) k = find_key k cx.
Proof. induction cx as [|[k' r] rest IH]; cbn [state_of find_key]; [reflexivity|].
  rewrite cfind_cset, IH. reflexivity. Qed.

Lemma keys_wf_no_dummy cx k : keys_wf cx = true -> fref k = None -> find_key (TRefTo k) cx = None.
Proof. unfold keys_wf. induction cx as [|[k' r] rest IH]; cbn [forallb find_key fst]; intros Hwf Hf; [reflexivity|].
  apply andb_true_iff in Hwf. destruct Hwf as [H1 H2].
  destruct (ty_eqb (TRefTo k) k') eqn:Ek; [|exact (IH H2 Hf)].
  apply ty_eqb_eq in Ek. subst k'. unfold ref_wf in H1. cbn [is_ref evaluate] in H1. rewrite Hf in H1. discriminate H1. Qed.

Lemma find_key_wf cx r v : keys_wf cx = true -> find_key r cx = Some v -> ref_wf r = true.
Proof. unfold keys_wf. induction cx as [|[k' w] rest IH]; cbn [forallb find_key fst]; intros Hwf H; [discriminate H|].
  apply andb_true_iff in Hwf. destruct Hwf as [H1 H2].
  destruct (ty_eqb r k') eqn:Ek; [|exact (IH H2 H)]. apply ty_eqb_eq in Ek. subst k'. exact H1. Qed.

(* the scan of the real __missing__ adds nothing on a module-blind context: a stored reference that evaluates to k
   IS forwardref(k), which has just been missed *)
Lemma no_foreign (S : cst) cx k :
  (forall k', cfind S k' = find_key k' cx) -> keys_wf cx = true -> find_key (fref_tot k) cx = None ->
  Ctx.first_named ty routine is_ref names_ty S k = None.
Proof. intros Hag Hwf Hmiss.
  destruct (Ctx.first_named ty routine is_ref names_ty S k) as [v|] eqn:Efn; [|reflexivity]. exfalso.
  destruct (first_named_in ty routine is_ref names_ty S k v Efn) as (r & Hin & Hp).
  apply andb_true_iff in Hp. destruct Hp as [Hr Hn]. unfold names_ty in Hn. apply ty_eqb_eq in Hn.
  destruct (find_in ty routine ty_eqb is_ref unwrap fref_tot names_ty ty_key_laws S r v Hin) as (w & Hw).
  change (Ctx.find ty routine ty_eqb) with cfind in Hw. rewrite Hag in Hw.
  pose proof (find_key_wf cx r w Hwf Hw) as Hrw. unfold ref_wf in Hrw. rewrite Hr, Hn in Hrw.
  unfold fref_tot in Hmiss. destruct (fref k) as [rf|]; [|discriminate Hrw].
  apply ty_eqb_eq in Hrw. subst rf. rewrite Hw in Hmiss. discriminate Hmiss. Qed.

(* Build's getitem is C16's specification lookup on any dict that agrees with the context on plain membership *)
Lemma getitem_is_spec_lookup (S : cst) cx k :
  (forall k', cfind S k' = find_key k' cx) -> keys_wf cx = true ->
  getitem cx k = match cspec_lookup S k with Some r => Core.Ok r | None => Core.Raise EKey end.
Proof.
  intros Hag Hwf. unfold Build.getitem, CtxBridge.cspec_lookup, spec_lookup, orelse.
  change (Ctx.find ty routine ty_eqb) with cfind. rewrite !Hag.
  destruct (find_key k cx) as [r|]; [reflexivity|].
  destruct (is_ref k); [reflexivity|].
  destruct (find_key (unwrap k) cx) as [r|]; [reflexivity|].
  assert (Hscan : find_key (fref_tot k) cx = None -> Ctx.first_named ty routine is_ref names_ty S k = None)
    by (apply no_foreign; assumption).
  unfold fref_tot in *. destruct (fref k) as [rf|] eqn:Hf.
  - destruct (find_key rf cx); [reflexivity|]. rewrite (Hscan eq_refl). reflexivity.
  - rewrite (keys_wf_no_dummy cx k Hwf Hf) in *. rewrite (Hscan eq_refl). reflexivity.
Qed.

Theorem getitem_spec cx k : keys_wf cx = true ->
  getitem cx k = match cspec_lookup (state_of cx) k with Some r => Core.Ok r | None => Core.Raise EKey end.
Proof. intros Hwf. apply getitem_is_spec_lookup; [intros k'; apply cfind_state_of|exact Hwf]. Qed.

(* ---------------------------------------------------------------- histories *)
Lemma spec_final_agrees ops : forall (S : cst) acc,
  (forall k, cfind S k = find_key k acc) ->
  forall k, cfind (cspec_final S ops) k = find_key k (ctx_of ops acc).
Proof. induction ops as [|o r IH]; intros S acc Hag k; cbn [cspec_final spec_final ctx_of]; [apply Hag|].
  destruct o as [k0 v|k0|k0 d|k0]; cbn [spec_step snd].
  - apply IH. intros k'. change (Ctx.set ty routine ty_eqb) with cset. rewrite cfind_cset.
    unfold ctx_set. cbn [find_key]. rewrite Hag. reflexivity.
  - apply IH. exact Hag.
  - apply IH. exact Hag.
  - apply IH. exact Hag.
Qed.

Lemma ops_ok_snoc_lookup ops l : is_lookup ty routine l = true -> cops_ok [] ops = true -> cops_ok [] (ops ++ [l]) = true.
Proof. intros Hl Hok. unfold cops_ok.
  rewrite (ops_ok_app ty routine ty_eqb is_ref unwrap fref_tot names_ty). unfold cops_ok in Hok. rewrite Hok. cbn [andb ops_ok].
  destruct l; try discriminate Hl; reflexivity. Qed.

(* The real class (C16's machine, memo writes included) after any allowed history answers context[k] exactly as
   Build's getitem does on the context holding the history's insertions. *)
Theorem run_item_is_getitem fuel ops k :
  1 <= fuel -> cops_ok [] ops = true -> keys_wf (ctx_of ops []) = true ->
  crun fuel [] (ops ++ [OItem k]) = cspec_run [] ops ++ [out_item (getitem (ctx_of ops []) k)].
Proof.
  intros Hf Hok Hwf. unfold crun.
  rewrite (refines ty routine ty_eqb is_ref unwrap fref_tot names_ty ty_key_laws fuel (ops ++ [OItem k]) Hf
             (ops_ok_snoc_lookup ops (OItem k) eq_refl Hok)).
  rewrite (spec_run_app ty routine ty_eqb is_ref unwrap fref_tot names_ty). unfold cspec_run. f_equal.
  cbn [spec_run spec_step]. f_equal.
  rewrite (getitem_is_spec_lookup (cspec_final [] ops) (ctx_of ops []) k); [|intros k'; apply spec_final_agrees; reflexivity|exact Hwf].
  unfold cspec_lookup, cspec_final. destruct (spec_lookup ty routine ty_eqb is_ref unwrap fref_tot names_ty _ k); reflexivity.
Qed.

(* ... and context.get(k, d) as Build's ctx_get with the default *)
Theorem run_get_is_ctx_get fuel ops k d :
  1 <= fuel -> cops_ok [] ops = true -> keys_wf (ctx_of ops []) = true ->
  crun fuel [] (ops ++ [OGet k d]) = cspec_run [] ops ++ [out_get (ctx_get (ctx_of ops []) k) d].
Proof.
  intros Hf Hok Hwf. unfold crun.
  rewrite (refines ty routine ty_eqb is_ref unwrap fref_tot names_ty ty_key_laws fuel (ops ++ [OGet k d]) Hf
             (ops_ok_snoc_lookup ops (OGet k d) eq_refl Hok)).
  rewrite (spec_run_app ty routine ty_eqb is_ref unwrap fref_tot names_ty). unfold cspec_run. f_equal.
  cbn [spec_run spec_step]. f_equal. unfold ctx_get, out_get.
  rewrite (getitem_is_spec_lookup (cspec_final [] ops) (ctx_of ops []) k); [|intros k'; apply spec_final_agrees; reflexivity|exact Hwf].
  unfold cspec_lookup, cspec_final. destruct (spec_lookup ty routine ty_eqb is_ref unwrap fref_tot names_ty _ k); reflexivity.
Qed.

(* the two directions the brief asks for, for a context given as a list of insertions *)
Lemma ctx_of_app ops1 ops2 acc : ctx_of (ops1 ++ ops2) acc = ctx_of ops2 (ctx_of ops1 acc).
Proof. revert acc. induction ops1 as [|o r IH]; intros acc; cbn [app ctx_of]; [reflexivity|]. destruct o; apply IH. Qed.
Lemma ctx_of_sets cx : ctx_of (sets_of cx) [] = cx.
Proof. unfold sets_of. induction cx as [|[k r] rest IH]; [reflexivity|]. cbn [rev]. rewrite map_app, ctx_of_app, IH. reflexivity. Qed.

Lemma last_app_single {A} (l : list A) x d : last (l ++ [x]) d = x.
Proof. induction l as [|a l IH]; [reflexivity|]. cbn [app]. destruct (l ++ [x]) eqn:El; [destruct l; discriminate El|]. exact IH. Qed.

Theorem getitem_iff_run fuel cx k r :
  1 <= fuel -> cops_ok [] (sets_of cx) = true -> keys_wf cx = true ->
  (getitem cx k = Core.Ok r <-> last (crun fuel [] (sets_of cx ++ [OItem k])) OOther = OVal r) /\
  ((exists e, getitem cx k = Core.Raise e) <-> last (crun fuel [] (sets_of cx ++ [OItem k])) OOther = OKeyError).
Proof.
  intros Hf Hok Hwf. rewrite (run_item_is_getitem fuel (sets_of cx) k Hf Hok); [|rewrite ctx_of_sets; exact Hwf].
  rewrite ctx_of_sets, last_app_single.
  assert (Hshape : (exists v, getitem cx k = Core.Ok v) \/ getitem cx k = Core.Raise EKey).
  { rewrite (getitem_spec cx k Hwf). destruct (cspec_lookup (state_of cx) k) as [v|]; [left; exists v; reflexivity|right; reflexivity]. }
  destruct Hshape as [[v Hv]|Hv]; rewrite Hv; cbn [out_item].
  - split.
    + split; intros H; injection H as <-; reflexivity.
    + split; [intros [e He]; discriminate He|intros H; discriminate H].
  - split.
    + split; intros H; discriminate H.
    + split; [intros _; reflexivity|intros _; exists EKey; reflexivity].
Qed.

(* ---------------------------------------------------------------- routing survives memo writes and overwrites *)
Section Routing.
Variable dir : bool.
Variable noop_leaf : nat -> bool.
Notation routes := (routes E dir noop_leaf).

Definition st_ok (c : cst) : Prop := forall k r, In (k, r) c -> routes r k.

Lemma cfind_routes c k r : st_ok c -> cfind c k = Some r -> routes r k.
Proof. unfold cfind. induction c as [|[k' r'] rest IH]; cbn [Ctx.find]; intros Hok H; [discriminate H|].
  destruct (ty_eqb k k') eqn:Ek.
  - injection H as <-. apply ty_eqb_eq in Ek. subst k'. apply Hok. left. reflexivity.
  - apply IH; [intros k0 r0 Hin; apply Hok; right; exact Hin|exact H]. Qed.

Lemma cset_ok c k v : st_ok c -> routes v k -> st_ok (cset c k v).
Proof. unfold cset. induction c as [|[k' r'] rest IH]; cbn [Ctx.set]; intros Hok Hr k0 r0 Hin.
  - destruct Hin as [Hin|[]]. injection Hin as <- <-. exact Hr.
  - destruct (ty_eqb k k') eqn:Ek.
    + destruct Hin as [Hin|Hin].
      * injection Hin as <- <-. apply ty_eqb_eq in Ek. subst k'. exact Hr.
      * apply Hok. right. exact Hin.
    + destruct Hin as [Hin|Hin].
      * apply Hok. left. exact Hin.
      * apply (IH (fun k1 r1 H1 => Hok k1 r1 (or_intror H1)) Hr k0 r0 Hin). Qed.

Lemma norm_fref_tot k : norm (fref_tot k) = norm k.
Proof. unfold fref_tot. destruct (fref k) as [rf|] eqn:Hf; [exact (norm_fref k rf Hf)|reflexivity]. Qed.

(* one subscription of the real class: whatever route and memo write, the value routes the key that was asked and
   every entry of the dict still routes its key *)
Lemma cgetitem_routes fuel : forall c k,
  st_ok c -> st_ok (snd (cgetitem fuel c k)) /\ (forall v, fst (cgetitem fuel c k) = Ctx.Ok v -> routes v k).
Proof.
  unfold cgetitem. induction fuel as [|f IH]; intros c k Hok.
  - cbn [Ctx.getitem]. destruct (Ctx.find ty routine ty_eqb c k) as [v|] eqn:Hfd; cbn [fst snd].
    + split; [exact Hok|]. intros v' H. injection H as <-. exact (cfind_routes c k v Hok Hfd).
    + split; [exact Hok|]. intros v' H. discriminate H.
  - cbn [Ctx.getitem]. destruct (Ctx.find ty routine ty_eqb c k) as [v|] eqn:Hfd; cbn [fst snd].
    + split; [exact Hok|]. intros v' H. injection H as <-. exact (cfind_routes c k v Hok Hfd).
    + destruct (is_ref k); cbn [fst snd]; [split; [exact Hok|intros v' H; discriminate H]|].
      destruct (Ctx.contains ty routine ty_eqb c (unwrap k)).
      * destruct (IH c (unwrap k) Hok) as [H1 H2].
        destruct (Ctx.getitem ty routine ty_eqb is_ref unwrap fref_tot names_ty f c (unwrap k)) as [[v| |] c1]; cbn [fst snd] in *.
        -- assert (Hr : routes v k) by (apply (routes_aeq E dir noop_leaf v (unwrap k) k); [apply aeq_unwrap|apply H2; reflexivity]).
           split; [apply cset_ok; assumption|]. intros v' H. injection H as <-. exact Hr.
        -- split; [exact H1|intros v' H; discriminate H].
        -- split; [exact H1|intros v' H; discriminate H].
      * destruct (Ctx.contains ty routine ty_eqb c (fref_tot k)).
        -- destruct (IH c (fref_tot k) Hok) as [H1 H2]. split; [exact H1|].
           intros v' H. apply (routes_norm_eq E dir noop_leaf v' (fref_tot k) k); [apply norm_fref_tot|apply H2; exact H].
        -- destruct (Ctx.scan ty routine is_ref names_ty c k) as [o|] eqn:Es; cbn [fst snd];
             [|split; [exact Hok|intros v' H; discriminate H]].
           destruct (IH c o Hok) as [H1 H2]. split; [exact H1|].
           pose proof (scan_some ty routine is_ref names_ty c k o Es) as Hp.
           apply andb_true_iff in Hp. destruct Hp as [_ Hn]. unfold names_ty in Hn. apply ty_eqb_eq in Hn.
           intros v' H. apply (routes_norm_eq E dir noop_leaf v' o k); [rewrite <- Hn; symmetry; apply norm_evaluate|apply H2; exact H].
Qed.

(* outputs of a history: every value that context[k] shows routes k; context.get(k, d) shows such a value or d *)
Fixpoint outs_route (ops : list cop) (outs : list cout) : Prop :=
  match ops, outs with
  | OItem k :: r, OVal v :: t => routes v k /\ outs_route r t
  | OGet k d :: r, OVal v :: t => (routes v k \/ v = d) /\ outs_route r t
  | _ :: r, _ :: t => outs_route r t
  | _, _ => True
  end.

(* For EVERY history -- overwrites and stale memo entries included, any fuel -- in which each inserted routine
   routes its key, every routine the real class hands out routes the key it was asked for. *)
Theorem run_routes fuel ops : forall c,
  st_ok c -> (forall k v, In (OSet k v) ops -> routes v k) -> outs_route ops (crun fuel c ops).
Proof.
  unfold crun. induction ops as [|o r IH]; intros c Hok Hset; [exact I|]. cbn [Ctx.run].
  assert (Hset' : forall k v, In (OSet k v) r -> routes v k) by (intros k v Hin; apply Hset; right; exact Hin).
  destruct o as [k v|k|k d|k]; cbn [Ctx.step].
  - cbn [outs_route]. apply IH; [|exact Hset']. apply cset_ok; [exact Hok|apply Hset; left; reflexivity].
  - destruct (cgetitem_routes fuel c k Hok) as [H1 H2]. unfold cgetitem in H1, H2.
    destruct (Ctx.getitem ty routine ty_eqb is_ref unwrap fref_tot names_ty fuel c k) as [[v| |] c1]; cbn [fst snd out_of_res outs_route] in *.
    + split; [apply H2; reflexivity|apply IH; assumption].
    + apply IH; assumption.
    + apply IH; assumption.
  - destruct (cgetitem_routes fuel c k Hok) as [H1 H2]. unfold cgetitem in H1, H2. unfold Ctx.get.
    destruct (Ctx.getitem ty routine ty_eqb is_ref unwrap fref_tot names_ty fuel c k) as [[v| |] c1]; cbn [fst snd out_of_res outs_route] in *.
    + split; [left; apply H2; reflexivity|apply IH; assumption].
    + split; [right; reflexivity|apply IH; assumption].
    + apply IH; assumption.
  - cbn [outs_route]. apply IH; assumption.
Qed.

End Routing.

End Env.
