(* Lemmas about Model/Refs.v: text, frames.extract, the repaired resolver (history independence by an
   invariant on the memo tables; the caller's binding decides), and the concrete witnesses. *)
From Coq Require Import List Bool Arith PeanoNat String Ascii Lia.
Import ListNotations.
Require Import TL.Model.Refs.
Local Open Scope string_scope.
Local Open Scope list_scope.

(* ------------------------------------------------------------------------------------------- *)
(* A. text                                                                                       *)
(* ------------------------------------------------------------------------------------------- *)
Lemma prefix_app : forall p r, String.prefix p (p ++ r) = true.
Proof.
  induction p as [|c p IH]; intros r; cbn [String.prefix String.append].
  - destruct r; reflexivity.
  - destruct (ascii_dec c c) as [_|N]; [apply IH | congruence].
Qed.

Lemma drop_skip : forall pat x r, drop_all pat (String.length x) (x ++ r) = drop_all pat 0 r.
Proof.
  induction x as [|c x IH]; intros r; cbn [String.length String.append drop_all].
  - reflexivity.
  - apply IH.
Qed.

Lemma replace_all_prefix : forall p r, p <> "" -> replace_all p (p ++ r) = replace_all p r.
Proof.
  intros p r Hne. destruct p as [|c p]; [congruence|].
  unfold replace_all.
  change (String c p ++ r)%string with (String c (p ++ r)%string).
  cbn [drop_all].
  change (String c (p ++ r)%string) with (String c p ++ r)%string.
  rewrite prefix_app.
  cbn [String.length]. rewrite Nat.sub_succ, Nat.sub_0_r.
  apply drop_skip.
Qed.

Lemma str_app_assoc : forall a b c : string, (a ++ (b ++ c))%string = ((a ++ b) ++ c)%string.
Proof.
  induction a as [|x a IH]; intros b c; cbn [String.append]; [reflexivity|]. rewrite IH. reflexivity.
Qed.

Lemma has_dot_app : forall a b, has_dot (a ++ b) = has_dot a || has_dot b.
Proof.
  induction a as [|c a IH]; intros b; cbn [String.append has_dot]; [reflexivity|].
  rewrite IH, orb_assoc. reflexivity.
Qed.

Lemma prefix_has_dot : forall m x, String.prefix (m ++ ".") x = true -> has_dot x = true.
Proof.
  induction m as [|c m IH]; intros x H; cbn [String.append] in H.
  - destruct x as [|d x]; cbn [String.prefix] in H; [discriminate|].
    destruct (ascii_dec "."%char d) as [E|N]; [|discriminate].
    subst d. reflexivity.
  - destruct x as [|d x]; cbn [String.prefix] in H; [discriminate|].
    destruct (ascii_dec c d) as [E|N]; [|discriminate].
    cbn [has_dot]. rewrite (IH x H). apply orb_true_r.
Qed.

Lemma drop_no_dot : forall m s, has_dot s = false -> drop_all (m ++ ".") 0 s = s.
Proof.
  intros m. induction s as [|c s IH]; intros H; [reflexivity|].
  cbn [drop_all].
  destruct (String.prefix (m ++ ".") (String c s)) eqn:P.
  - apply prefix_has_dot in P. congruence.
  - cbn [has_dot] in H. apply orb_false_elim in H. destruct H as [_ H]. rewrite (IH H). reflexivity.
Qed.

Lemma replace_no_dot : forall m s, has_dot s = false -> replace_all (m ++ ".") s = s.
Proof.
  intros m s H. unfold replace_all.
  destruct (m ++ ".")%string as [|c p] eqn:E.
  - reflexivity.
  - rewrite <- E. apply drop_no_dot. exact H.
Qed.

Lemma drop_lead_skip : forall pat x r,
  drop_lead pat (String.length x) false (x ++ r) = drop_lead pat 0 false r.
Proof.
  induction x as [|c x IH]; intros r; cbn [String.length String.append drop_lead]; [reflexivity | apply IH].
Qed.

Lemma drop_lead_dotted : forall pat s, dotted_text s = true -> drop_lead pat 0 false s = s.
Proof.
  intros pat. induction s as [|c s IH]; intros H; [reflexivity|].
  unfold dotted_text in H. cbn [all_chars] in H. apply andb_true_iff in H. destruct H as [Hc Hs].
  cbn [drop_lead andb]. rewrite Hc. cbn [negb]. rewrite (IH Hs). reflexivity.
Qed.

Lemma strip_lead_prefix : forall m rest,
  dotted_text rest = true -> strip_lead m ((m ++ ".") ++ rest) = rest.
Proof.
  intros m rest H. unfold strip_lead.
  destruct (m ++ ".")%string as [|c p] eqn:E.
  - destruct m; discriminate.
  - change (String c p ++ rest)%string with (String c (p ++ rest)%string).
    cbn [drop_lead andb].
    change (String c (p ++ rest)%string) with (String c p ++ rest)%string.
    rewrite prefix_app. cbn [String.length]. rewrite Nat.sub_succ, Nat.sub_0_r.
    rewrite drop_lead_skip. apply drop_lead_dotted. exact H.
Qed.

Lemma drop_lead_no_dot : forall m s ok, has_dot s = false -> drop_lead (m ++ ".") 0 ok s = s.
Proof.
  intros m. induction s as [|c s IH]; intros ok H; [reflexivity|].
  cbn [drop_lead].
  destruct (String.prefix (m ++ ".") (String c s)) eqn:P.
  - apply prefix_has_dot in P. congruence.
  - rewrite andb_false_r. cbn [has_dot] in H. apply orb_false_elim in H. destruct H as [_ H].
    rewrite (IH _ H). reflexivity.
Qed.

Lemma strip_lead_no_dot : forall m s, has_dot s = false -> strip_lead m s = s.
Proof. intros m s H. unfold strip_lead. apply drop_lead_no_dot. exact H. Qed.

Lemma strip_lead_noprefix : forall m s,
  dotted_text s = true -> String.prefix (m ++ ".") s = false -> strip_lead m s = s.
Proof.
  intros m [|c s] H P; [reflexivity|].
  unfold strip_lead. cbn [drop_lead]. rewrite P. cbn [andb].
  unfold dotted_text in H. cbn [all_chars] in H. apply andb_true_iff in H. destruct H as [Hc Hs].
  rewrite Hc. cbn [negb]. rewrite (drop_lead_dotted _ s Hs). reflexivity.
Qed.

Lemma dotted_text_ident : forall s, is_ident s = true -> dotted_text s = true.
Proof.
  intros [|c s] H; [discriminate|].
  unfold is_ident in H. apply andb_true_iff in H. destruct H as [Hc Hs].
  unfold dotted_text. cbn [all_chars]. unfold is_word. rewrite Hc. cbn [orb andb].
  clear Hc. induction s as [|d s IH]; [reflexivity|].
  cbn [all_chars] in *. apply andb_true_iff in Hs. destruct Hs as [Hd Hs].
  unfold is_word. rewrite Hd. cbn [orb andb]. apply IH. exact Hs.
Qed.

Lemma dotted_text_app : forall a b, dotted_text (a ++ b) = dotted_text a && dotted_text b.
Proof.
  unfold dotted_text. induction a as [|c a IH]; intros b; cbn [String.append all_chars]; [reflexivity|].
  rewrite IH, andb_assoc. reflexivity.
Qed.

Lemma split_dots_qualified : forall m r, has_dot m = false ->
  split_dots (m ++ "." ++ r) = m :: split_dots r.
Proof.
  induction m as [|c m IH]; intros r H.
  - reflexivity.
  - cbn [has_dot] in H. apply orb_false_elim in H. destruct H as [Hc Hm].
    change (String c m ++ "." ++ r)%string with (String c (m ++ "." ++ r)%string).
    cbn [split_dots]. rewrite Hc. rewrite (IH r Hm). reflexivity.
Qed.

Lemma head_of_app : forall m r, has_dot m = false -> head_of (m ++ "." ++ r) = m.
Proof.
  induction m as [|c m IH]; intros r H.
  - reflexivity.
  - cbn [has_dot] in H. apply orb_false_elim in H. destruct H as [Hc Hm].
    cbn [String.append head_of]. rewrite Hc. f_equal. apply IH. exact Hm.
Qed.

Lemma has_dot_qualified : forall m r, has_dot (m ++ "." ++ r) = true.
Proof.
  intros m r. rewrite has_dot_app. cbn [String.append has_dot].
  rewrite Ascii.eqb_refl. cbn [orb]. apply orb_true_r.
Qed.

Lemma ident_char_not_dot : forall c, is_alpha_ c || is_digit c = true -> Ascii.eqb c dot = false.
Proof.
  intros c H.
  destruct c as [[] [] [] [] [] [] [] []]; vm_compute in H |- *; congruence.
Qed.

Lemma all_chars_no_dot : forall s, all_chars (fun x => is_alpha_ x || is_digit x) s = true -> has_dot s = false.
Proof.
  induction s as [|c s IH]; intros H; [reflexivity|].
  cbn [all_chars] in H. apply andb_true_iff in H. destruct H as [Hc Hs].
  cbn [has_dot]. rewrite (ident_char_not_dot c Hc), (IH Hs). reflexivity.
Qed.

Lemma is_ident_no_dot : forall s, is_ident s = true -> has_dot s = false.
Proof.
  intros [|c s] H; [discriminate|].
  unfold is_ident in H. apply andb_true_iff in H. destruct H as [Hc Hs].
  cbn [has_dot]. rewrite (all_chars_no_dot s Hs).
  rewrite (ident_char_not_dot c); [reflexivity|]. rewrite Hc. reflexivity.
Qed.

Lemma split_dots_no_dot : forall s, has_dot s = false -> split_dots s = [s].
Proof.
  induction s as [|c s IH]; intros H; [reflexivity|].
  cbn [has_dot] in H. apply orb_false_elim in H. destruct H as [Hc Hs].
  cbn [split_dots]. rewrite Hc, (IH Hs). reflexivity.
Qed.

Lemma string_eqb_eq : forall a b, String.eqb a b = true -> a = b.
Proof. intros a b H. apply String.eqb_eq. exact H. Qed.

Lemma opt_str_eqb_eq : forall a b, opt_str_eqb a b = true -> a = b.
Proof.
  intros [a|] [b|] H; cbn [opt_str_eqb] in H; try discriminate; [|reflexivity].
  f_equal. apply string_eqb_eq. exact H.
Qed.

Lemma key_eqb_eq : forall a b, key_eqb a b = true -> a = b.
Proof.
  intros [x|n m] [y|n' m'] H; cbn [key_eqb] in H; try discriminate.
  - f_equal. apply string_eqb_eq. exact H.
  - apply andb_true_iff in H. destruct H as [H1 H2].
    rewrite (string_eqb_eq _ _ H1), (opt_str_eqb_eq _ _ H2). reflexivity.
Qed.

Lemma kkey_eqb_eq : forall a b, kkey_eqb a b = true -> a = b.
Proof.
  intros [k b] [k' b'] H. unfold kkey_eqb in H. cbn [fst snd] in H.
  apply andb_true_iff in H. destruct H as [H1 H2].
  rewrite (key_eqb_eq _ _ H1), (Bool.eqb_prop _ _ H2). reflexivity.
Qed.

Lemma find_In : forall {K V} (eqb : K -> K -> bool) k (t : list (K * V)) v,
  find eqb k t = Some v -> exists k', In (k', v) t /\ eqb k k' = true.
Proof.
  intros K V eqb k t. induction t as [|[k0 v0] t IH]; intros v H; cbn [find] in H; [discriminate|].
  destruct (eqb k k0) eqn:E.
  - injection H as <-. exists k0. split; [left; reflexivity | exact E].
  - destruct (IH v H) as [k' [Hin He]]. exists k'. split; [right; exact Hin | exact He].
Qed.

(* ------------------------------------------------------------------------------------------- *)
(* B. frames.extract                                                                             *)
(* ------------------------------------------------------------------------------------------- *)
Definition unbound (n : string) (f : frame) : Prop := frame_binding f n = None.

Lemma extract_skip : forall pre r n, Forall (unbound n) pre -> extract (pre ++ r) n = extract r n.
Proof.
  induction pre as [|f pre IH]; intros r n H; [reflexivity|].
  inversion H as [|? ? Hf Hp]; subst. cbn [app extract]. unfold unbound in Hf. rewrite Hf. apply IH. exact Hp.
Qed.

(* the innermost frame that binds the name decides (its globals before its locals); nothing further
   out -- in particular no local of an outer frame -- can change the answer *)
Lemma extract_innermost : forall pre f post n o,
  Forall (unbound n) pre -> frame_binding f n = Some o -> extract (pre ++ f :: post) n = Some o.
Proof.
  intros pre f post n o Hp Hf. rewrite (extract_skip pre (f :: post) n Hp). cbn [extract]. rewrite Hf. reflexivity.
Qed.

Lemma extract_none : forall st n, Forall (unbound n) st -> extract st n = None.
Proof.
  intros st n H. rewrite <- (app_nil_r st). rewrite (extract_skip st [] n H). reflexivity.
Qed.

(* inside one frame a global wins over a local of the same name (Python's own scoping says the opposite) *)
Lemma extract_global_before_local : forall f post n g,
  lookup n (f_globals f) = Some g -> extract (f :: post) n = Some g.
Proof.
  intros f post n g H. cbn [extract]. unfold frame_binding. rewrite H. reflexivity.
Qed.

(* ------------------------------------------------------------------------------------------- *)
(* C. the repaired resolver: history independence                                                *)
(* ------------------------------------------------------------------------------------------- *)
Section Repaired.
  Variable W : world.
  Variable L : lib.

  Definition fr_spec (st : list frame) (ref : string) : string * option string :=
    let m := resolve_body true L st ref in
    (match m with Some mm => strip_name L mm ref | None => ref end, m).

  Definition q_spec (st : list frame) (t : key) : key :=
    match t with KStr r => KRef (fst (fr_spec st r)) (snd (fr_spec st r)) | KRef _ _ => t end.

  Definition is_ref (t : key) : Prop := match t with KRef _ _ => True | KStr _ => False end.

  Lemma resolve_fixed : forall s st ref, resolve true L s st ref = (s, resolve_body true L st ref).
  Proof. reflexivity. Qed.

  Lemma forwardref_fixed : forall s st ref, forwardref true L s st ref = (s, fr_spec st ref).
  Proof. intros. unfold forwardref. rewrite resolve_fixed. reflexivity. Qed.

  Lemma qualify_fixed : forall s st t, qualify true L s st t = (s, q_spec st t).
  Proof.
    intros s st [r|n m]; cbn [qualify q_spec]; [|reflexivity].
    rewrite forwardref_fixed. destruct (fr_spec st r) as [n m]. reflexivity.
  Qed.

  Definition probe_spec (st : list frame) (t : key) : res obj :=
    match t with KStr x => evaluate W (fr_spec st x) | KRef n m => evaluate W (n, m) end.

  Lemma bytes_probe_fixed : forall s st t, bytes_probe true W L s st t = (s, probe_spec st t).
  Proof.
    intros s st [x|n m]; cbn [bytes_probe probe_spec]; [|reflexivity].
    rewrite forwardref_fixed. reflexivity.
  Qed.

  Lemma q_spec_ref : forall st t, is_ref (q_spec st t).
  Proof. intros st [r|n m]; exact I. Qed.

  Lemma q_spec_idem : forall st' t, is_ref t -> q_spec st' t = t.
  Proof. intros st' [r|n m] H; [destruct H | reflexivity]. Qed.

  Definition Inv (s : state) : Prop :=
    (forall k o, In (k, o) (m_so s) -> eval_key W k = Ok o) /\
    (forall k kw o, In ((k, kw), o) (m_un s) -> eval_key W k = Ok o) /\
    (forall k kw o, In ((k, kw), o) (m_ma s) -> eval_key W k = Ok o) /\
    (forall k om ou, In (k, (om, ou)) (m_cd s) -> eval_key W k = Ok om) /\
    (forall k om ou, In (k, (om, ou)) (m_cd s) -> eval_key W k = Ok ou).

  Lemma Inv_init : Inv init.
  Proof. repeat split; intros; contradiction. Qed.

  Lemma Inv_clear : forall s c, Inv s -> Inv (clear s c).
  Proof.
    intros s c (H1 & H2 & H3 & H4 & H5).
    destruct c; cbn [clear]; try apply Inv_init;
      unfold Inv; cbn [m_so m_un m_ma m_cd set_res set_so set_un set_ma set_cd];
      repeat split; intros; try contradiction; eauto.
  Qed.

  Lemma so_spec : forall s st t,
    Inv s ->
    Inv (fst (static_order true W L s st t)) /\
    snd (static_order true W L s st t) = eval_key W (q_spec st t).
  Proof.
    intros s st t HI. unfold static_order. rewrite qualify_fixed.
    pose proof (q_spec_ref st t) as Hr.
    destruct (q_spec st t) as [x|n m] eqn:Eq; [destruct Hr|].
    destruct (find key_eqb (KRef n m) (m_so s)) as [o|] eqn:F.
    - cbn [fst snd]. split; [exact HI|].
      apply find_In in F. destruct F as [k' [Hin He]]. apply key_eqb_eq in He. subst k'.
      destruct HI as (H1 & _). symmetry. apply H1. exact Hin.
    - cbn [eval_key]. destruct (evaluate W (n, m)) as [o|e] eqn:Ev; cbn [fst snd].
      + split; [|reflexivity].
        destruct HI as (H1 & H2 & H3 & H4 & H5).
        unfold Inv; cbn [m_so m_un m_ma m_cd set_so]. repeat split; eauto.
        intros k o' [E|Hin]; [|eauto]. injection E as <- <-. exact Ev.
      + split; [exact HI | reflexivity].
  Qed.

  Lemma un_spec : forall s st t kw,
    Inv s ->
    Inv (fst (unmarshaller true W L s st t kw)) /\
    snd (unmarshaller true W L s st t kw) = eval_key W (q_spec st t).
  Proof.
    intros s st t kw HI. unfold unmarshaller. rewrite qualify_fixed.
    pose proof (q_spec_ref st t) as Hr.
    destruct (find kkey_eqb (q_spec st t, kw) (m_un s)) as [o|] eqn:F.
    - cbn [fst snd]. split; [exact HI|].
      apply find_In in F. destruct F as [k' [Hin He]]. apply kkey_eqb_eq in He. subst k'.
      destruct HI as (_ & H2 & _). symmetry. eapply H2. exact Hin.
    - destruct (so_spec s st (q_spec st t) HI) as [HI1 Hs].
      rewrite (q_spec_idem st _ Hr) in Hs.
      destruct (static_order true W L s st (q_spec st t)) as [s1 [o|e]]; cbn [fst snd] in *.
      + split; [|exact Hs].
        destruct HI1 as (H1 & H2 & H3 & H4 & H5).
        unfold Inv; cbn [m_so m_un m_ma m_cd set_un]. repeat split; eauto.
        intros k kw' o' [E|Hin]; [|eauto]. injection E as <- _ <-. symmetry. exact Hs.
      + split; [exact HI1 | exact Hs].
  Qed.

  Lemma ma_spec : forall s st t kw,
    Inv s ->
    Inv (fst (marshaller true W L s st t kw)) /\
    snd (marshaller true W L s st t kw) = eval_key W (q_spec st t).
  Proof.
    intros s st t kw HI. unfold marshaller. rewrite qualify_fixed.
    pose proof (q_spec_ref st t) as Hr.
    destruct (find kkey_eqb (q_spec st t, kw) (m_ma s)) as [o|] eqn:F.
    - cbn [fst snd]. split; [exact HI|].
      apply find_In in F. destruct F as [k' [Hin He]]. apply kkey_eqb_eq in He. subst k'.
      destruct HI as (_ & _ & H3 & _). symmetry. eapply H3. exact Hin.
    - destruct (so_spec s st (q_spec st t) HI) as [HI1 Hs].
      rewrite (q_spec_idem st _ Hr) in Hs.
      destruct (static_order true W L s st (q_spec st t)) as [s1 [o|e]]; cbn [fst snd] in *.
      + split; [|exact Hs].
        destruct HI1 as (H1 & H2 & H3 & H4 & H5).
        unfold Inv; cbn [m_so m_un m_ma m_cd set_ma]. repeat split; eauto.
        intros k kw' o' [E|Hin]; [|eauto]. injection E as <- _ <-. symmetry. exact Hs.
      + split; [exact HI1 | exact Hs].
  Qed.

  Definition pair_res (r : res obj) : res (obj * obj) :=
    match r with Ok o => Ok (o, o) | Err e => Err e end.

  Lemma cd_spec : forall s ust t,
    Inv s ->
    Inv (fst (codec true W L s ust t)) /\
    snd (codec true W L s ust t) = pair_res (eval_key W (q_spec (l_chain L ECodec ++ ust) t)).
  Proof.
    intros s ust t HI. unfold codec. rewrite qualify_fixed.
    set (t0 := q_spec (l_chain L ECodec ++ ust) t).
    assert (Hr : is_ref t0) by apply q_spec_ref.
    clearbody t0.
    destruct (find key_eqb t0 (m_cd s)) as [[om ou]|] eqn:F.
    - cbn [fst snd]. split; [exact HI|].
      apply find_In in F. destruct F as [k' [Hin He]]. apply key_eqb_eq in He. subst k'.
      destruct HI as (_ & _ & _ & H4 & H5). pose proof (H4 _ _ _ Hin) as Ha. pose proof (H5 _ _ _ Hin) as Hb.
      rewrite Ha in Hb. injection Hb as <-. rewrite Ha. reflexivity.
    - destruct (ma_spec s (l_chain L ECodecM ++ ust) t0 true HI) as [HI1 Hm].
      rewrite (q_spec_idem _ _ Hr) in Hm.
      destruct (marshaller true W L s (l_chain L ECodecM ++ ust) t0 true) as [s1 [om|e]]; cbn [fst snd] in *.
      2:{ split; [exact HI1|]. rewrite <- Hm. reflexivity. }
      destruct (un_spec s1 (l_chain L ECodecU ++ ust) t0 true HI1) as [HI2 Hu].
      rewrite (q_spec_idem _ _ Hr) in Hu.
      destruct (unmarshaller true W L s1 (l_chain L ECodecU ++ ust) t0 true) as [s2 [ou|e]]; cbn [fst snd] in *.
      2:{ split; [exact HI2|]. rewrite <- Hu in Hm. discriminate. }
      rewrite <- Hm in Hu. injection Hu as ->.
      rewrite bytes_probe_fixed.
      assert (Hp : probe_spec (l_chain L ECodecPost ++ ust) t0 = Ok om).
      { destruct t0 as [x|n m]; [destruct Hr|]. cbn [probe_spec]. symmetry. exact Hm. }
      rewrite Hp. cbn [fst snd].
      split; [|rewrite <- Hm; reflexivity].
      destruct HI2 as (H1 & H2 & H3 & H4 & H5).
      unfold Inv; cbn [m_so m_un m_ma m_cd set_cd]. repeat split; eauto;
        intros k om' ou' [E|Hin]; eauto; injection E as <- <- <-; symmetry; exact Hm.
  Qed.

  (* what a call answers, as a function of the call alone *)
  Definition call_spec (o : op) : result :=
    match o with
    | OClear _ => RUnit
    | OCall e r ust =>
        let st := l_chain L e ++ ust in
        match e with
        | EForwardref =>
            match r with
            | RStr x => RRef (fst (fr_spec st x)) (snd (fr_spec st x)) (evaluate W (fr_spec st x))
            | RFwd _ _ => RErr EUnmodelled
            end
        | ECodec =>
            match pair_res (eval_key W (q_spec st (key_of r))) with
            | Ok (om, ou) => ROk [om; ou]
            | Err e => RErr e
            end
        | EDecode =>
            match probe_spec (l_chain L EDecodePre ++ ust) (key_of r) with
            | Err e => RErr e
            | Ok _ => one (eval_key W (q_spec st (key_of r)))
            end
        | _ => one (eval_key W (q_spec st (key_of r)))
        end
    end.

  Lemma step_spec : forall s o,
    Inv s -> Inv (fst (step true W L s o)) /\ snd (step true W L s o) = call_spec o.
  Proof.
    intros s [e r ust|c] HI.
    2:{ cbn [step fst snd call_spec]. split; [apply Inv_clear; exact HI | reflexivity]. }
    destruct e; cbn [step call_spec].
    - destruct (un_spec s (l_chain L EUnmarshal ++ ust) (key_of r) false HI) as [H1 H2].
      destruct (unmarshaller true W L s (l_chain L EUnmarshal ++ ust) (key_of r) false) as [s1 x]; cbn [fst snd] in *.
      split; [exact H1 | rewrite H2; reflexivity].
    - destruct (ma_spec s (l_chain L EMarshal ++ ust) (key_of r) false HI) as [H1 H2].
      destruct (marshaller true W L s (l_chain L EMarshal ++ ust) (key_of r) false) as [s1 x]; cbn [fst snd] in *.
      split; [exact H1 | rewrite H2; reflexivity].
    - rewrite bytes_probe_fixed.
      destruct (probe_spec (l_chain L EDecodePre ++ ust) (key_of r)) as [o0|e0].
      + destruct (un_spec s (l_chain L EDecode ++ ust) (key_of r) false HI) as [H1 H2].
        destruct (unmarshaller true W L s (l_chain L EDecode ++ ust) (key_of r) false) as [s1 x]; cbn [fst snd] in *.
        split; [exact H1 | rewrite H2; reflexivity].
      + cbn [fst snd]. split; [exact HI | reflexivity].
    - destruct (so_spec s (l_chain L EStaticOrder ++ ust) (key_of r) HI) as [H1 H2].
      destruct (static_order true W L s (l_chain L EStaticOrder ++ ust) (key_of r)) as [s1 x]; cbn [fst snd] in *.
      split; [exact H1 | rewrite H2; reflexivity].
    - destruct r as [x|n m].
      + rewrite forwardref_fixed. cbn [fst snd]. split; [exact HI | reflexivity].
      + cbn [fst snd]. split; [exact HI | reflexivity].
    - destruct (cd_spec s ust (key_of r) HI) as [H1 H2].
      destruct (codec true W L s ust (key_of r)) as [s1 [[om ou]|e0]]; cbn [fst snd] in *.
      + split; [exact H1|]. rewrite <- H2. reflexivity.
      + split; [exact H1|]. rewrite <- H2. reflexivity.
    - destruct (ma_spec s (l_chain L ECodecM ++ ust) (key_of r) false HI) as [H1 H2].
      destruct (marshaller true W L s (l_chain L ECodecM ++ ust) (key_of r) false) as [s1 x]; cbn [fst snd] in *.
      split; [exact H1 | rewrite H2; reflexivity].
    - destruct (un_spec s (l_chain L ECodecU ++ ust) (key_of r) false HI) as [H1 H2].
      destruct (unmarshaller true W L s (l_chain L ECodecU ++ ust) (key_of r) false) as [s1 x]; cbn [fst snd] in *.
      split; [exact H1 | rewrite H2; reflexivity].
    - destruct (un_spec s (l_chain L EDecodePre ++ ust) (key_of r) false HI) as [H1 H2].
      destruct (unmarshaller true W L s (l_chain L EDecodePre ++ ust) (key_of r) false) as [s1 x]; cbn [fst snd] in *.
      split; [exact H1 | rewrite H2; reflexivity].
    - destruct (un_spec s (l_chain L ECodecPost ++ ust) (key_of r) false HI) as [H1 H2].
      destruct (unmarshaller true W L s (l_chain L ECodecPost ++ ust) (key_of r) false) as [s1 x]; cbn [fst snd] in *.
      split; [exact H1 | rewrite H2; reflexivity].
  Qed.

  Lemma run_hist_Inv : forall h s, Inv s -> Inv (run_hist true W L s h).
  Proof.
    induction h as [|o h IH]; intros s HI; [exact HI|].
    cbn [run_hist]. apply IH. apply (step_spec s o HI).
  Qed.

  Lemma warm_spec : forall h o, warm true W L h o = call_spec o.
  Proof.
    intros h o. unfold warm. apply (step_spec _ o). apply run_hist_Inv. apply Inv_init.
  Qed.

  Lemma cold_spec : forall o, cold true W L o = call_spec o.
  Proof. intros o. unfold cold. apply (step_spec _ o). apply Inv_init. Qed.
End Repaired.

Lemma repaired_full : Refs_full true.
Proof. intros W L h o. rewrite warm_spec, cold_spec. reflexivity. Qed.

(* ------------------------------------------------------------------------------------------- *)
(* D. the repaired resolver: the caller's binding decides                                        *)
(* ------------------------------------------------------------------------------------------- *)
Lemma binding_skip : forall pkg pre r ref,
  forallb (passes pkg ref) pre = true -> binding_module pkg (pre ++ r) ref = binding_module pkg r ref.
Proof.
  induction pre as [|f pre IH]; intros r ref H; [reflexivity|].
  cbn [forallb] in H. apply andb_true_iff in H. destruct H as [Hf Hp].
  cbn [app binding_module]. unfold passes, skipped in Hf.
  destruct (lookup ref (f_globals f)) as [o|]; [|apply IH; exact Hp].
  destruct (f_gname f) as [m|]; [|apply IH; exact Hp].
  rewrite orb_false_r in Hf.
  destruct (String.eqb m "") eqn:E1; cbn [negb andb]; [apply IH; exact Hp|].
  cbn [orb] in Hf. rewrite Hf. cbn [negb]. apply IH. exact Hp.
Qed.

Lemma skipped_passes : forall pkg s l, forallb (skipped pkg) l = true -> forallb (passes pkg s) l = true.
Proof.
  intros pkg s. induction l as [|f l IH]; intros H; [reflexivity|].
  cbn [forallb] in *. apply andb_true_iff in H. destruct H as [Hf Hl].
  apply andb_true_iff. split; [unfold passes; rewrite Hf; reflexivity | apply IH; exact Hl].
Qed.

Definition expect (e : entry) (s : string) (m : string) (o : obj) : result :=
  match e with
  | EForwardref => RRef s (Some m) (Ok o)
  | ECodec => ROk [o; o]
  | _ => ROk [o]
  end.

Definition not_module (o : obj) : bool := match o with OMod _ => false | OVal _ _ => true end.

Section Caller.
  Variable W : world.
  Variable L : lib.

  Lemma evaluate_ident : forall s m d o,
    is_ident s = true ->
    lookup m (w_modules W) = Some d -> lookup s d = Some o -> not_module o = true ->
    evaluate W (s, Some m) = Ok o.
  Proof.
    intros s m d o Hid Hm Hs Ho. unfold evaluate.
    rewrite (split_dots_no_dot s (is_ident_no_dot s Hid)).
    cbn [forallb]. rewrite Hid. cbn [andb negb].
    unfold module_dict. rewrite Hm, Hs. cbn [getattrs].
    destruct o; [reflexivity | discriminate].
  Qed.

  Lemma resolve_body_caller : forall chain pre c post s g m,
    is_ident s = true ->
    forallb (skipped (l_pkg L)) chain = true -> forallb (passes (l_pkg L) s) pre = true ->
    lookup s (f_globals c) = Some g -> f_gname c = Some m -> skipped (l_pkg L) c = false ->
    resolve_body true L (chain ++ pre ++ c :: post) s = Some m.
  Proof.
    intros chain pre c post s g m Hid Hl Hp Hg Hn Hs.
    unfold resolve_body. rewrite (is_ident_no_dot s Hid). cbn [andb].
    rewrite (binding_skip _ _ _ _ (skipped_passes _ s _ Hl)), (binding_skip _ _ _ _ Hp).
    cbn [binding_module]. rewrite Hg, Hn.
    unfold skipped in Hs. rewrite Hn in Hs. apply orb_false_elim in Hs. destruct Hs as [H1 H2].
    rewrite H1, H2. reflexivity.
  Qed.

  Lemma strip_name_no_dot : forall m s, has_dot s = false -> strip_name L m s = s.
  Proof.
    intros m s H. unfold strip_name. destruct (l_strip_lead L); [apply strip_lead_no_dot | apply replace_no_dot]; exact H.
  Qed.

  Lemma fr_spec_caller : forall chain pre c post s g m,
    is_ident s = true ->
    forallb (skipped (l_pkg L)) chain = true -> forallb (passes (l_pkg L) s) pre = true ->
    lookup s (f_globals c) = Some g -> f_gname c = Some m -> skipped (l_pkg L) c = false ->
    fr_spec L (chain ++ pre ++ c :: post) s = (s, Some m).
  Proof.
    intros chain pre c post s g m Hid Hl Hp Hg Hn Hs. unfold fr_spec.
    rewrite (resolve_body_caller chain pre c post s g m Hid Hl Hp Hg Hn Hs).
    rewrite (strip_name_no_dot m s (is_ident_no_dot s Hid)). reflexivity.
  Qed.

  (* the main statement about a bare name: every history, every stack *)
  Lemma repaired_bare : forall h e pre c post s g m d o,
    match e with ECodecM | ECodecU | EDecodePre | ECodecPost => False | _ => True end ->
    is_ident s = true ->
    lib_ok L e = true -> forallb (passes (l_pkg L) s) pre = true ->
    lookup s (f_globals c) = Some g -> f_gname c = Some m -> skipped (l_pkg L) c = false ->
    lookup m (w_modules W) = Some d -> lookup s d = Some o -> not_module o = true ->
    warm true W L h (OCall e (RStr s) (pre ++ c :: post)) = expect e s m o.
  Proof.
    intros h e pre c post s g m d o He Hid Hl Hp Hg Hn Hs Hm Hd Ho.
    rewrite warm_spec.
    unfold lib_ok in Hl. apply andb_true_iff in Hl. destruct Hl as [Hl Hl2].
    pose proof (evaluate_ident s m d o Hid Hm Hd Ho) as Hev.
    pose proof (fr_spec_caller (l_chain L e) pre c post s g m Hid Hl Hp Hg Hn Hs) as Hfr.
    destruct e; try destruct He; cbn [call_spec key_of q_spec expect probe_spec];
      try (rewrite (fr_spec_caller (l_chain L EDecodePre) pre c post s g m Hid Hl2 Hp Hg Hn Hs), Hev);
      rewrite Hfr; cbn [fst snd eval_key]; rewrite Hev; reflexivity.
  Qed.

  (* ---- qualified names, for the code with both later repairs (strip only a leading "<module>."; a leading name
     that the calling module binds is a name of that module) ---- *)
  Lemma first_unskipped_skip : forall pre r,
    forallb (skipped (l_pkg L)) pre = true -> first_unskipped (l_pkg L) (pre ++ r) = first_unskipped (l_pkg L) r.
  Proof.
    induction pre as [|f pre IH]; intros r H; [reflexivity|].
    cbn [forallb] in H. apply andb_true_iff in H. destruct H as [Hf Hp].
    cbn [app first_unskipped]. rewrite Hf. apply IH. exact Hp.
  Qed.

  Lemma resolve_body_dotted : forall st m rest,
    is_ident m = true ->
    resolve_body true L st (m ++ "." ++ rest) = Some (head_module true L st m).
  Proof.
    intros st m rest Hid. unfold resolve_body.
    rewrite has_dot_qualified, (head_of_app m rest (is_ident_no_dot m Hid)), Hid. reflexivity.
  Qed.

  (* Q1: the calling module does not bind the leading name (or is the module of that name itself): the rest is
     evaluated in the module the leading name names *)
  Lemma fr_spec_qualified : forall st m rest,
    l_strip_lead L = true ->
    is_ident m = true -> dotted_text rest = true ->
    head_module true L st m = m ->
    fr_spec L st (m ++ "." ++ rest) = (rest, Some m).
  Proof.
    intros st m rest Hs Hid Hd Hh. unfold fr_spec.
    rewrite (resolve_body_dotted st m rest Hid), Hh.
    unfold strip_name. rewrite Hs. rewrite str_app_assoc, (strip_lead_prefix m rest Hd). reflexivity.
  Qed.

  Lemma head_module_free : forall chain ust m,
    forallb (skipped (l_pkg L)) chain = true ->
    (caller_module_binding (l_pkg L) ust m = None \/ caller_module_binding (l_pkg L) ust m = Some m) ->
    head_module true L (chain ++ ust) m = m.
  Proof.
    intros chain ust m Hc H. unfold head_module.
    destruct (true && l_caller_head L); [|reflexivity].
    unfold caller_module_binding in *. rewrite (first_unskipped_skip chain ust Hc).
    destruct H as [H|H]; rewrite H; reflexivity.
  Qed.

  Definition chains_ok (e : entry) : Prop :=
    forallb (skipped (l_pkg L)) (l_chain L e) = true /\
    forallb (skipped (l_pkg L)) (l_chain L EDecodePre) = true.

  Lemma lib_ok_chains : forall e, lib_ok L e = true ->
    forallb (skipped (l_pkg L)) (l_chain L e) = true /\
    (e = EDecode -> forallb (skipped (l_pkg L)) (l_chain L EDecodePre) = true).
  Proof.
    intros e H. unfold lib_ok in H. apply andb_true_iff in H. destruct H as [H1 H2].
    split; [exact H1|]. intros ->. exact H2.
  Qed.

  Lemma repaired_qualified : forall h e ust m rest,
    match e with ECodecM | ECodecU | ECodec | EForwardref | EDecodePre | ECodecPost => False | _ => True end ->
    l_strip_lead L = true ->
    is_ident m = true -> dotted_text rest = true ->
    lib_ok L e = true ->
    (caller_module_binding (l_pkg L) ust m = None \/ caller_module_binding (l_pkg L) ust m = Some m) ->
    warm true W L h (OCall e (RStr (m ++ "." ++ rest)) ust) = one (evaluate W (rest, Some m)).
  Proof.
    intros h e ust m rest He Hs Hid Hd Hl Hb. rewrite warm_spec.
    destruct (lib_ok_chains e Hl) as [Hc Hc2].
    pose proof (fr_spec_qualified (l_chain L e ++ ust) m rest Hs Hid Hd (head_module_free _ ust m Hc Hb)) as Hfr.
    destruct e; try destruct He; cbn [call_spec key_of q_spec probe_spec];
      try (rewrite (fr_spec_qualified (l_chain L EDecodePre ++ ust) m rest Hs Hid Hd
                      (head_module_free _ ust m (Hc2 eq_refl) Hb)));
      rewrite Hfr; cbn [fst snd eval_key]; try reflexivity.
    destruct (evaluate W (rest, Some m)); reflexivity.
  Qed.

  Lemma repaired_qualified_name : forall h e ust m n d o,
    match e with ECodecM | ECodecU | ECodec | EForwardref | EDecodePre | ECodecPost => False | _ => True end ->
    l_strip_lead L = true ->
    is_ident m = true -> is_ident n = true ->
    lib_ok L e = true ->
    (caller_module_binding (l_pkg L) ust m = None \/ caller_module_binding (l_pkg L) ust m = Some m) ->
    lookup m (w_modules W) = Some d -> lookup n d = Some o -> not_module o = true ->
    warm true W L h (OCall e (RStr (m ++ "." ++ n)) ust) = ROk [o].
  Proof.
    intros h e ust m n d o He Hs Hm Hn Hl Hb Hd Ho Hno.
    rewrite (repaired_qualified h e ust m n He Hs Hm (dotted_text_ident n Hn) Hl Hb).
    rewrite (evaluate_ident n m d o Hn Hd Ho Hno). reflexivity.
  Qed.

  (* Q2: the calling module binds the leading name: the whole text is an expression of that module *)
  Lemma head_module_caller : forall chain pre c post m g cm,
    l_caller_head L = true ->
    forallb (skipped (l_pkg L)) chain = true -> forallb (skipped (l_pkg L)) pre = true ->
    skipped (l_pkg L) c = false -> lookup m (f_globals c) = Some g -> f_gname c = Some cm ->
    head_module true L (chain ++ pre ++ c :: post) m = cm.
  Proof.
    intros chain pre c post m g cm Hh Hc Hp Hs Hg Hn. unfold head_module. rewrite Hh. cbn [andb].
    unfold caller_module_binding.
    rewrite (first_unskipped_skip chain _ Hc), (first_unskipped_skip pre _ Hp).
    cbn [first_unskipped]. rewrite Hs, Hg, Hn. reflexivity.
  Qed.

  Lemma repaired_caller_head : forall h e pre c post m rest g cm,
    match e with ECodecM | ECodecU | ECodec | EForwardref | EDecodePre | ECodecPost => False | _ => True end ->
    l_strip_lead L = true -> l_caller_head L = true ->
    is_ident m = true -> dotted_text rest = true ->
    lib_ok L e = true -> forallb (skipped (l_pkg L)) pre = true ->
    skipped (l_pkg L) c = false -> lookup m (f_globals c) = Some g -> f_gname c = Some cm ->
    String.prefix (cm ++ ".") (m ++ "." ++ rest) = false ->
    warm true W L h (OCall e (RStr (m ++ "." ++ rest)) (pre ++ c :: post))
    = one (evaluate W ((m ++ "." ++ rest)%string, Some cm)).
  Proof.
    intros h e pre c post m rest g cm He Hs Hh Hid Hd Hl Hp Hsk Hg Hn Hpre. rewrite warm_spec.
    destruct (lib_ok_chains e Hl) as [Hc Hc2].
    assert (Hdt : dotted_text (m ++ "." ++ rest) = true).
    { rewrite dotted_text_app, (dotted_text_ident m Hid). cbn [andb].
      change ("." ++ rest)%string with (String "."%char rest). unfold dotted_text in *. cbn [all_chars].
      rewrite Hd. reflexivity. }
    assert (Hfr : forall chain, forallb (skipped (l_pkg L)) chain = true ->
              fr_spec L (chain ++ pre ++ c :: post) (m ++ "." ++ rest) = ((m ++ "." ++ rest)%string, Some cm)).
    { intros chain Hch. unfold fr_spec.
      rewrite (resolve_body_dotted _ m rest Hid), (head_module_caller chain pre c post m g cm Hh Hch Hp Hsk Hg Hn).
      unfold strip_name. rewrite Hs, (strip_lead_noprefix cm _ Hdt Hpre). reflexivity. }
    destruct e; try destruct He; cbn [call_spec key_of q_spec probe_spec];
      try (rewrite (Hfr (l_chain L EDecodePre) (Hc2 eq_refl)));
      rewrite (Hfr _ Hc); cbn [fst snd eval_key]; try reflexivity.
    destruct (evaluate W ((m ++ "." ++ rest)%string, Some cm)); reflexivity.
  Qed.

  Lemma evaluate_through_module : forall m n cm dc m' d' o,
    is_ident m = true -> is_ident n = true ->
    lookup cm (w_modules W) = Some dc -> lookup m dc = Some (OMod m') ->
    lookup m' (w_modules W) = Some d' -> lookup n d' = Some o -> not_module o = true ->
    evaluate W ((m ++ "." ++ n)%string, Some cm) = Ok o.
  Proof.
    intros m n cm dc m' d' o Hm Hn Hc Hb Hm' Ho Hno. unfold evaluate.
    rewrite (split_dots_qualified m n (is_ident_no_dot m Hm)), (split_dots_no_dot n (is_ident_no_dot n Hn)).
    cbn [forallb]. rewrite Hm, Hn. cbn [andb negb].
    unfold module_dict. rewrite Hc, Hb. cbn [getattrs getattr]. rewrite Hm', Ho.
    destruct o; [reflexivity | discriminate].
  Qed.

  Lemma repaired_caller_head_name : forall h e pre c post m n g cm dc m' d' o,
    match e with ECodecM | ECodecU | ECodec | EForwardref | EDecodePre | ECodecPost => False | _ => True end ->
    l_strip_lead L = true -> l_caller_head L = true ->
    is_ident m = true -> is_ident n = true ->
    lib_ok L e = true -> forallb (skipped (l_pkg L)) pre = true ->
    skipped (l_pkg L) c = false -> lookup m (f_globals c) = Some g -> f_gname c = Some cm ->
    String.prefix (cm ++ ".") (m ++ "." ++ n) = false ->
    lookup cm (w_modules W) = Some dc -> lookup m dc = Some (OMod m') ->
    lookup m' (w_modules W) = Some d' -> lookup n d' = Some o -> not_module o = true ->
    warm true W L h (OCall e (RStr (m ++ "." ++ n)) (pre ++ c :: post)) = ROk [o].
  Proof.
    intros h e pre c post m n g cm dc m' d' o He Hs Hh Hm Hn Hl Hp Hsk Hg Hgn Hpre Hc Hb Hm' Ho Hno.
    rewrite (repaired_caller_head h e pre c post m n g cm He Hs Hh Hm (dotted_text_ident n Hn) Hl Hp Hsk Hg Hgn Hpre).
    rewrite (evaluate_through_module m n cm dc m' d' o Hm Hn Hc Hb Hm' Ho Hno). reflexivity.
  Qed.
End Caller.

(* ------------------------------------------------------------------------------------------- *)
(* E. witnesses on the concrete instance of Model/RefsEq.v (code before the repair: L0; repaired: L1) *)
(* ------------------------------------------------------------------------------------------- *)
Require Import TL.Model.RefsEq.

(* mod_a asks for "Node", then mod_b asks for "Node": mod_b is served mod_a's class *)
Lemma refuted_cross_module :
  warm false W0 L0 [call_a] call_b = ROk [cls 1 "mod_a"] /\
  cold false W0 L0 call_b = ROk [cls 2 "mod_b"] /\
  lookup "Node" d_mod_b = Some (cls 2 "mod_b").
Proof. vm_compute. repeat split. Qed.

(* each of the two memo layers is enough on its own *)
Lemma refuted_resolver_memo :
  warm false W0 L0 [call_a; OClear CSo; OClear CUn; OClear CMa; OClear CCd] call_b = ROk [cls 1 "mod_a"].
Proof. vm_compute. reflexivity. Qed.

Lemma refuted_factory_key :
  warm false W0 L0 [call_a; OClear CRes] call_b = ROk [cls 1 "mod_a"].
Proof. vm_compute. reflexivity. Qed.

Lemma full_refuted : ~ Refs_full false.
Proof.
  intros H. specialize (H W0 L0 [call_a] call_b).
  vm_compute in H. discriminate.
Qed.

(* without any history: a name the library's own frames bind is taken from there *)
Lemma refuted_library_capture :
  cold false W0 L0 (OCall EUnmarshal (RStr "TypeNode") [fa; fmain]) = ROk [cls 900 "typelib.graph"] /\
  lookup "TypeNode" d_mod_a = Some (cls 4 "mod_a").
Proof. vm_compute. split; reflexivity. Qed.

(* without any history: the module of the OBJECT, not of the binding, is used (Alias = list[int]; an import
   under another name) *)
Lemma refuted_object_module :
  cold false W0 L0 (OCall EUnmarshal (RStr "Alias") [fa; fmain]) = RErr ENameError /\
  lookup "Alias" d_mod_a = Some (cls 3 "builtins") /\
  cold false W0 L0 (OCall EUnmarshal (RStr "Thing") [fc; fmain]) = RErr ENameError /\
  lookup "Thing" d_mod_c = Some (cls 1 "mod_a").
Proof. vm_compute. repeat split. Qed.

(* both variants: forwardref drops EVERY occurrence of "<module>." from the text, so app.webapp.Model
   becomes webModel; the guard of repaired_qualified is necessary *)
Lemma refuted_qualified_mangled :
  forall fixed, cold fixed W0 (if fixed then L1 else L0) (OCall EUnmarshal (RStr "app.webapp.Model") [fc; fmain]) = RErr ENameError /\
  evaluate W0 ("webapp.Model", Some "app") = Ok (cls 7 "app.webapp") /\
  replace_all ("app" ++ ".") "webapp.Model" = "webModel".
Proof. intros [|]; vm_compute; repeat split. Qed.

(* repaired code: a name bound only in the caller's LOCALS (a class defined in the function body) is not
   found in the module: "bound in the caller's globals" is necessary in repaired_bare *)
Lemma repaired_refuted_local_only :
  cold true W0 L1 (OCall EUnmarshal (RStr "Loc") [fc_local; fmain]) = RErr ENameError /\
  frame_binding fc_local "Loc" = Some (cls 60 "mod_c").
Proof. vm_compute. split; reflexivity. Qed.

(* a name no module on the stack binds, found as a local of an OUTER frame: the module of the object is taken
   (both variants), and the name is looked up there *)
Lemma outer_local_falls_to_object_module :
  forall fixed,
  cold fixed W0 (if fixed then L1 else L0) (OCall EForwardref (RStr "Ghost") [fa; fouter_ghost; fmain])
  = RRef "Ghost" (Some "mod_a") (Err ENameError).
Proof. intros [|]; vm_compute; reflexivity. Qed.

(* non-vacuity of repaired_bare and of repaired_qualified_name *)
Lemma repaired_bare_example :
  warm true W0 L1 [call_a; OCall ECodec (RStr "Node") [fa; fmain]] (OCall EUnmarshal (RStr "Node") [fb; fb_local; fmain])
  = ROk [cls 2 "mod_b"] /\
  lib_ok L1 EUnmarshal = true /\ skipped "typelib" fb = false /\ is_ident "Node" = true /\
  libs_ok L1 = true.
Proof. vm_compute. repeat split. Qed.

Lemma repaired_examples :
  warm true W0 L1 [call_a] (OCall EUnmarshal (RStr "Alias") [fa; fmain]) = ROk [cls 3 "builtins"] /\
  warm true W0 L1 [call_a] (OCall EMarshal (RStr "TypeNode") [fa; fmain]) = ROk [cls 4 "mod_a"] /\
  warm true W0 L1 [call_a] (OCall EDecode (RStr "Thing") [fc; fmain]) = ROk [cls 1 "mod_a"] /\
  warm true W0 L1 [call_b] (OCall EUnmarshal (RStr "mod_a.Node") [fb; fmain]) = ROk [cls 1 "mod_a"] /\
  warm true W0 L1 [call_b] (OCall EForwardref (RStr "Node") [fa; fb_local; fmain]) = RRef "Node" (Some "mod_a") (Ok (cls 1 "mod_a")).
Proof. vm_compute. repeat split. Qed.

(* ---- the two later repairs (L2: both; L2_head_pinned: only the first; L0 / L1: neither = the pinned forwardref) ---- *)
Lemma repaired_mangled_example :
  cold true W0 L2 (OCall EUnmarshal (RStr "app.webapp.Model") [fc; fmain]) = ROk [cls 7 "app.webapp"] /\
  strip_lead "app" "app.webapp.Model" = "webapp.Model" /\
  strip_lead "app" "dict[app.K, xapp.app.V] | app.W" = "dict[K, xapp.app.V] | W".
Proof. vm_compute. repeat split. Qed.

(* the head rule pinned: `import mod_a as ma` in the calling module, the text "ma.Node" is looked up in a module
   called ma *)
Lemma refuted_dotted_head_pinned :
  cold true W0 L2_head_pinned (OCall EUnmarshal (RStr "ma.Node") [fd; fmain]) = RErr ENameError /\
  cold true W0 L2 (OCall EUnmarshal (RStr "ma.Node") [fd; fmain]) = ROk [cls 1 "mod_a"] /\
  lookup "ma" d_mod_d = Some (OMod "mod_a").
Proof. vm_compute. repeat split. Qed.

(* repaired: where the calling module binds the leading name, that binding wins over the module of that name
   (`import mod_a as mod_b`): the hypothesis of repaired_qualified about the caller is necessary *)
Lemma repaired_caller_name_wins :
  cold true W0 L2 (OCall EUnmarshal (RStr "mod_b.Node") [fd; fmain]) = ROk [cls 1 "mod_a"] /\
  evaluate W0 ("Node", Some "mod_b") = Ok (cls 2 "mod_b") /\
  caller_module_binding "typelib" [fd; fmain] "mod_b" = Some "mod_d".
Proof. vm_compute. repeat split. Qed.

Lemma repaired_qualified_examples :
  warm true W0 L2 [call_a] (OCall EUnmarshal (RStr "mod_b.Node") [fc; fmain]) = ROk [cls 2 "mod_b"] /\
  caller_module_binding "typelib" [fc; fmain] "mod_b" = None /\
  warm true W0 L2 [call_b] (OCall EDecode (RStr "mod_a.Node") [fc; fmain]) = ROk [cls 1 "mod_a"] /\
  caller_module_binding "typelib" [fc; fmain] "mod_a" = Some "mod_c" /\
  libs_ok L2 = true /\ l_strip_lead L2 = true /\ l_caller_head L2 = true.
Proof. vm_compute. repeat split. Qed.

(* the reference is issued by a helper module that does not bind the name, on behalf of mod_a, then of mod_b (with mod_a
   further out): each gets the class of the NEAREST module that binds the name *)
Lemma repaired_helper_example :
  warm true W0 L2 [OCall EUnmarshal (RStr "Node") [fh; fa; fmain]] (OCall EUnmarshal (RStr "Node") [fh; fh; fb; fa; fmain])
  = ROk [cls 2 "mod_b"] /\
  cold true W0 L2 (OCall EUnmarshal (RStr "Node") [fh; fa; fmain]) = ROk [cls 1 "mod_a"] /\
  forallb (passes "typelib" "Node") [fh; fh] = true /\ skipped "typelib" fh = false.
Proof. vm_compute. repeat split. Qed.
