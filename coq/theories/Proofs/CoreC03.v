(* Proofs for C03 on the core value model: whatever unm returns conforms to the annotation.
   Proof scripts only; the definitions are in Model/Core.v and Model/CoreC03.v. *)
From Coq Require Import List Arith Bool PeanoNat Lia.
Import ListNotations.
Require Import TL.Model.Core TL.Model.CoreTables TL.Model.CoreC03.
Require TL.Proofs.CoreHash.

(* ------------------------------------------------------------------ generic lemmas *)
Lemma bind_ok : forall {A B} (r : res A) (f : A -> res B) (b : B),
  bind r f = Ok b -> exists a, r = Ok a /\ f a = Ok b.
Proof. intros A B r f b H. destruct r as [a| | |]; cbn in H; try discriminate. exists a. split; [reflexivity|exact H]. Qed.

Lemma bind_ext : forall {A B} (r : res A) (f g : A -> res B),
  (forall a, f a = g a) -> bind r f = bind r g.
Proof. intros A B r f g H. destruct r; cbn; [apply H|reflexivity|reflexivity|reflexivity]. Qed.

Lemma mapM_ok_all : forall {A B} (f : A -> res B) (l : list A) (rs : list B),
  mapM f l = Ok rs -> forall r, In r rs -> exists x, In x l /\ f x = Ok r.
Proof.
  intros A B f l. induction l as [|x l IHl]; intros rs H r Hr; cbn in H.
  - inversion H; subst. destruct Hr.
  - apply bind_ok in H. destruct H as [y [Hy H]]. apply bind_ok in H. destruct H as [t [Ht H]].
    inversion H; subst. destruct Hr as [Hr|Hr].
    + subst. exists x. split; [left; reflexivity|exact Hy].
    + destruct (IHl t Ht r Hr) as [x' [Hin Hx']]. exists x'. split; [right; exact Hin|exact Hx'].
Qed.

Lemma mapM_ext : forall {A B} (f g : A -> res B) (l : list A),
  (forall x, In x l -> f x = g x) -> mapM f l = mapM g l.
Proof.
  intros A B f g l. induction l as [|x l IHl]; intros H; cbn; [reflexivity|].
  rewrite (H x (or_introl eq_refl)). rewrite IHl; [reflexivity|]. intros y Hy. apply H. right. exact Hy.
Qed.

Lemma fold_left_ext : forall {A B} (f g : A -> B -> A) (l : list B) (a : A),
  (forall a b, In b l -> f a b = g a b) -> fold_left f l a = fold_left g l a.
Proof.
  intros A B f g l. induction l as [|b l IHl]; intros a H; cbn; [reflexivity|].
  rewrite (H a b (or_introl eq_refl)). apply IHl. intros a' b' Hb'. apply H. right. exact Hb'.
Qed.

Lemma all2_map_snd : forall {A B C} (p : A -> B * C -> bool) (q : A -> C -> bool) (a : list A) (l : list (B * C)),
  (forall x y, p x y = true -> q x (snd y) = true) ->
  all2 p a l = true -> all2 q a (map snd l) = true.
Proof.
  intros A B C p q a. induction a as [|x a IHa]; intros l Hpq H; destruct l as [|y l]; cbn in *; try discriminate; [reflexivity|].
  apply andb_true_iff in H. destruct H as [H1 H2]. rewrite (Hpq _ _ H1). cbn. apply IHa; assumption.
Qed.

Lemma seqkind_eqb_refl : forall k, seqkind_eqb k k = true.
Proof. destruct k; reflexivity. Qed.
Lemma dictkind_eqb_refl : forall k, dictkind_eqb k k = true.
Proof. destruct k; reflexivity. Qed.

Lemma pv_eqb_refl : forall v, pv_eqb v v = true.
Proof.
  fix IH 1. intros v. destruct v as [a|f|k l|k l|c l|c l]; cbn [pv_eqb].
  - apply Nat.eqb_refl.
  - apply Nat.eqb_refl.
  - rewrite seqkind_eqb_refl. cbn [andb]. induction l as [|x r IHr]; [reflexivity|]. rewrite (IH x). exact IHr.
  - rewrite dictkind_eqb_refl. cbn [andb]. induction l as [|[x1 x2] r IHr]; [reflexivity|].
    rewrite (IH x1), (IH x2). exact IHr.
  - rewrite Nat.eqb_refl. cbn [andb]. induction l as [|[g x] r IHr]; [reflexivity|].
    rewrite Nat.eqb_refl, (IH x). exact IHr.
  - rewrite Nat.eqb_refl. cbn [andb]. induction l as [|x r IHr]; [reflexivity|]. rewrite (IH x). exact IHr.
Qed.

(* ------------------------------------------------------------------ laws and well-formedness *)
(* what the proofs need from the scalar routines: a leaf routine returns an instance of its leaf type,
   the None routine returns None *)
Record LeafLaws (rt : runtime) (leaf_ok : nat -> pv -> bool) : Prop := {
  leaf_u_ok : forall s x v, leaf_u rt s x = Ok v -> leaf_ok s v = true;
  none_u_none : forall x v, none_u rt x = Ok v -> v = none rt
}.

(* field names of a class are pairwise distinct (Python guarantees it) *)
Definition wf_env (E : env) : Prop :=
  forall c cd, E c = Some (NClass cd) -> NoDup (map fname (cfields cd)).

Section Proofs.
Variable rt : runtime.
Variable E : env.
Variable leaf_ok : nat -> pv -> bool.
Hypothesis L : LeafLaws rt leaf_ok.
Hypothesis WF : wf_env E.

Notation conf := (conforms rt E leaf_ok).
Notation unmf := (unm rt E).

(* ---- unions ---- *)
Lemma first_ok_some : forall (A : Type) (f : A -> pv -> res pv) (l : list A) (x v : pv),
  first_ok rt (map f l) x = Ok v -> exists t, In t l /\ f t x = Ok v.
Proof.
  intros A f l x v. induction l as [|t l IHl]; intros H; cbn in H; [discriminate|].
  destruct (f t x) as [a|e| |] eqn:Hf; try discriminate.
  - inversion H; subst. exists t. split; [left; reflexivity|exact Hf].
  - destruct (suppressed rt e); [|discriminate].
    destruct (IHl H) as [t' [Hin Ht']]. exists t'. split; [right; exact Hin|exact Ht'].
Qed.

Lemma first_ok_ext : forall (A : Type) (f g : A -> pv -> res pv) (l : list A) (x : pv),
  (forall t, In t l -> f t x = g t x) -> first_ok rt (map f l) x = first_ok rt (map g l) x.
Proof.
  intros A f g l x. induction l as [|t l IHl]; intros H; cbn; [reflexivity|].
  rewrite (H t (or_introl eq_refl)). rewrite IHl; [reflexivity|]. intros t' Ht'. apply H. right. exact Ht'.
Qed.

Lemma union_stack_in : forall ts t, In t (union_stack_u ts) -> In t ts.
Proof.
  intros ts t H. unfold union_stack_u, none_first in H. destruct (isoptional ts); [|exact H].
  apply in_app_or in H. destruct H as [H|H]; apply filter_In in H; exact (proj1 H).
Qed.

(* ---- sequences ---- *)
Lemma dedupe_incl : forall l seen x, In x (dedupe rt l seen) -> In x l.
Proof.
  induction l as [|y l IHl]; intros seen x H; cbn in H; [exact H|].
  destruct (mem_pv rt y seen).
  - right. exact (IHl _ _ H).
  - destruct H as [H|H]; [left; exact H|right; exact (IHl _ _ H)].
Qed.

Lemma construct_seq_ok : forall k rs v, construct_seq rt k rs = Ok v ->
  exists l, v = PSeq k l /\ forall x, In x l -> In x rs.
Proof.
  intros k rs v H. unfold construct_seq in H.
  destruct k; try (inversion H; subst; exists rs; split; [reflexivity|auto]);
  destruct (existsb (unhashable rt) rs); try discriminate; inversion H; subst;
  (eexists; split; [reflexivity|]; intros x Hx; exact (dedupe_incl _ _ _ Hx)).
Qed.

(* ---- mappings ---- *)
Lemma dict_set_all : forall (P Q : pv -> Prop) k v d,
  P k -> Q v -> (forall kv, In kv d -> P (fst kv) /\ Q (snd kv)) ->
  forall kv, In kv (dict_set rt k v d) -> P (fst kv) /\ Q (snd kv).
Proof.
  intros P Q k v d Hk Hv. induction d as [|[k' v'] d IHd]; intros Hd kv Hin; cbn in Hin.
  - destruct Hin as [Hin|[]]. subst. split; assumption.
  - destruct (pv_pyeq rt k k').
    + destruct Hin as [Hin|Hin].
      * subst. cbn. split; [exact (proj1 (Hd (k', v') (or_introl eq_refl)))|exact Hv].
      * apply Hd. right. exact Hin.
    + destruct Hin as [Hin|Hin].
      * subst. apply Hd. left. reflexivity.
      * apply IHd; [|exact Hin]. intros kv' Hkv'. apply Hd. right. exact Hkv'.
Qed.

Lemma dict_of_all : forall (P Q : pv -> Prop) l,
  (forall kv, In kv l -> P (fst kv) /\ Q (snd kv)) ->
  forall kv, In kv (dict_of rt l) -> P (fst kv) /\ Q (snd kv).
Proof.
  intros P Q l. unfold dict_of.
  assert (G : forall l d, (forall kv, In kv l -> P (fst kv) /\ Q (snd kv)) ->
                          (forall kv, In kv d -> P (fst kv) /\ Q (snd kv)) ->
                          forall kv, In kv (fold_left (fun d kv => dict_set rt (fst kv) (snd kv) d) l d) ->
                                     P (fst kv) /\ Q (snd kv)).
  { clear l. induction l as [|[k v] l IHl]; intros d Hl Hd kv Hin; cbn in Hin; [exact (Hd _ Hin)|].
    apply (IHl (dict_set rt k v d)); [intros kv' Hkv'; apply Hl; right; exact Hkv'| |exact Hin].
    destruct (Hl (k, v) (or_introl eq_refl)) as [Hk Hv].
    apply dict_set_all; assumption. }
  intros Hl. apply G; [exact Hl|]. intros kv [].
Qed.

(* ---- fixed tuples ---- *)
Lemma zip_all2 : forall (f : ty -> pv -> res pv) (p : ty -> pv -> bool) ts vs rs,
  length ts <= length vs ->
  mapM (fun tv => f (fst tv) (snd tv)) (zip_trunc ts vs) = Ok rs ->
  (forall t x r, In t ts -> f t x = Ok r -> p t r = true) ->
  all2 p ts rs = true.
Proof.
  intros f p ts. induction ts as [|t ts IHts]; intros vs rs Hlen H Hp.
  - cbn in H. inversion H; subst. reflexivity.
  - destruct vs as [|x vs]; [cbn in Hlen; lia|]. cbn in H.
    apply bind_ok in H. destruct H as [r [Hr H]]. apply bind_ok in H. destruct H as [tl [Htl H]].
    inversion H; subst. cbn [all2]. rewrite (Hp t x r (or_introl eq_refl) Hr). cbn [andb].
    apply (IHts vs tl); [cbn in Hlen; lia|exact Htl|]. intros t' x' r' Hin. apply Hp. right. exact Hin.
Qed.

(* ---- structured classes ---- *)
Lemma field_ty_in : forall cd f ft, field_ty cd f = Some ft -> exists fd, In fd (cfields cd) /\ fty fd = ft /\ fname fd = f.
Proof.
  intros cd f ft H. unfold field_ty in H.
  destruct (find (fun fd => Nat.eqb (fname fd) f) (cfields cd)) as [fd|] eqn:Hf; [|discriminate].
  inversion H; subst. apply find_some in Hf. destruct Hf as [Hin Heq]. apply Nat.eqb_eq in Heq.
  exists fd. repeat split; assumption.
Qed.

Lemma find_nodup : forall (fs : list field) fd,
  NoDup (map fname fs) -> In fd fs -> find (fun g => Nat.eqb (fname g) (fname fd)) fs = Some fd.
Proof.
  induction fs as [|g fs IHfs]; intros fd Hnd Hin; [destruct Hin|]. cbn.
  inversion Hnd as [|? ? Hnotin Hnd']; subst. destruct Hin as [Hin|Hin].
  - subst. rewrite Nat.eqb_refl. reflexivity.
  - destruct (Nat.eqb (fname g) (fname fd)) eqn:Heq.
    + apply Nat.eqb_eq in Heq. exfalso. apply Hnotin. rewrite Heq. apply in_map. exact Hin.
    + apply IHfs; assumption.
Qed.

Lemma field_ty_nodup : forall cd fd, NoDup (map fname (cfields cd)) -> In fd (cfields cd) ->
  field_ty cd (fname fd) = Some (fty fd).
Proof. intros cd fd Hnd Hin. unfold field_ty. rewrite (find_nodup _ _ Hnd Hin). reflexivity. Qed.

Lemma kw_lookup_in : forall f kw v, kw_lookup f kw = Some v -> In (f, v) kw.
Proof.
  intros f kw v. induction kw as [|[g w] kw IHkw]; intros H; cbn in H; [discriminate|].
  destruct (Nat.eqb f g) eqn:Heq.
  - apply Nat.eqb_eq in Heq. inversion H; subst. left. reflexivity.
  - right. exact (IHkw H).
Qed.

Lemma kw_set_all : forall (P : nat * pv -> Prop) f v kw,
  P (f, v) -> (forall fv, In fv kw -> P fv) -> forall fv, In fv (kw_set f v kw) -> P fv.
Proof.
  intros P f v kw Hfv. induction kw as [|[g w] kw IHkw]; intros Hkw fv Hin; cbn in Hin.
  - destruct Hin as [Hin|[]]. subst. exact Hfv.
  - destruct (Nat.eqb f g) eqn:Heq.
    + apply Nat.eqb_eq in Heq. subst g. destruct Hin as [Hin|Hin]; [subst; exact Hfv|apply Hkw; right; exact Hin].
    + destruct Hin as [Hin|Hin]; [subst; apply Hkw; left; reflexivity|].
      apply IHkw; [|exact Hin]. intros fv' Hfv'. apply Hkw. right. exact Hfv'.
Qed.

Lemma has_kw_key : forall f kw, has_kw f kw = true ->
  has_key f (map (fun fv : nat * pv => (PKey (fst fv), snd fv)) kw) = true.
Proof.
  intros f kw. unfold has_kw, has_key. induction kw as [|[g w] kw IHkw]; intros H; cbn in *; [discriminate|].
  destruct (Nat.eqb f g); [reflexivity|]. cbn. exact (IHkw H).
Qed.

(* the keyword arguments collected by the StructuredType loop: each belongs to a declared field and its
   value satisfies Q for that field's annotation *)
Definition kw_inv (cd : classdef) (Q : ty -> pv -> Prop) (kw : list (nat * pv)) : Prop :=
  forall fv, In fv kw -> exists ft, field_ty cd (fst fv) = Some ft /\ Q ft (snd fv).

Lemma fold_kw_inv : forall (cd : classdef) (u : ty -> pv -> res pv) (Q : ty -> pv -> Prop),
  (forall fd x v, In fd (cfields cd) -> u (fty fd) x = Ok v -> Q (fty fd) v) ->
  forall kvs acc kw,
  fold_left (fun acc kv =>
     bind acc (fun kw =>
       match fst kv with
       | PKey f => match field_ty cd f with
                   | Some ft => bind (u ft (snd kv)) (fun v' => Ok (kw_set f v' kw))
                   | None => Ok kw end
       | k => if unhashable rt k then Raise EType else Ok kw
       end)) kvs acc = Ok kw ->
  exists kw0, acc = Ok kw0 /\ (kw_inv cd Q kw0 -> kw_inv cd Q kw).
Proof.
  intros cd u Q HQ. induction kvs as [|kv kvs IHkvs]; intros acc kw H; cbn [fold_left] in H.
  - exists kw. split; [exact H|auto].
  - destruct (IHkvs _ _ H) as [kw1 [H1 Hinv1]]. apply bind_ok in H1. destruct H1 as [kw0 [Hacc H1]].
    exists kw0. split; [exact Hacc|]. intros Hinv0. apply Hinv1. clear Hinv1 H IHkvs.
    destruct (fst kv) as [a|f|k l|k l|c l|c l]; cbv beta iota in H1.
    2: { destruct (field_ty cd f) as [ft|] eqn:Hft; [|inversion H1; subst; exact Hinv0].
         apply bind_ok in H1. destruct H1 as [v' [Hv' H1]]. inversion H1; subst.
         unfold kw_inv. apply kw_set_all; [|exact Hinv0]. cbn. exists ft. split; [exact Hft|].
         destruct (field_ty_in _ _ _ Hft) as [fd [Hin [Hty _]]]. subst ft. exact (HQ fd _ _ Hin Hv'). }
    all: destruct (unhashable rt _); [discriminate|inversion H1; subst; exact Hinv0].
Qed.

Lemma fill_fields_all2 : forall (cd : classdef) n kw,
  kw_inv cd (fun ft v => conf n ft v = true) kw ->
  forall fs l,
  (forall fd, In fd fs -> field_ty cd (fname fd) = Some (fty fd)) ->
  fill_fields fs kw = Ok l ->
  all2 (fun fd fv => Nat.eqb (fname fd) (fst fv) && (conf n (fty fd) (snd fv) || is_default fd (snd fv))) fs l = true.
Proof.
  intros cd n kw Hinv. induction fs as [|fd fs IHfs]; intros l Hgood H; cbn in H.
  - inversion H; subst. reflexivity.
  - destruct (kw_lookup (fname fd) kw) as [v|] eqn:Hlk.
    + apply bind_ok in H. destruct H as [t [Ht H]]. inversion H; subst. cbn [all2 fst snd].
      rewrite Nat.eqb_refl. cbn [andb].
      destruct (Hinv _ (kw_lookup_in _ _ _ Hlk)) as [ft [Hft Hc]]. cbn [fst snd] in Hft, Hc.
      rewrite (Hgood fd (or_introl eq_refl)) in Hft. inversion Hft; subst ft. rewrite Hc. cbn [orb].
      apply IHfs; [|exact Ht]. intros fd' Hfd'. apply Hgood. right. exact Hfd'.
    + destruct (fdefault fd) as [d|] eqn:Hd; [|discriminate].
      apply bind_ok in H. destruct H as [t [Ht H]]. inversion H; subst. cbn [all2 fst snd].
      rewrite Nat.eqb_refl. cbn [andb]. unfold is_default. rewrite Hd, pv_eqb_refl, orb_true_r.
      apply IHfs; [|exact Ht]. intros fd' Hfd'. apply Hgood. right. exact Hfd'.
Qed.

(* the body of StructuredTypeUnmarshaller.__call__, for a class cd registered as c *)
Lemma class_conforms : forall n c cd x v,
  (forall T x v, unmf n T x = Ok v -> conf n T v = true) ->
  E c = Some (NClass cd) ->
  bind (load rt x) (fun d => bind (iteritems rt E d) (fun kvs =>
    bind (fold_left (fun acc kv =>
            bind acc (fun kw =>
              match fst kv with
              | PKey f => match field_ty cd f with
                          | Some ft => bind (unmf n ft (snd kv)) (fun v' => Ok (kw_set f v' kw))
                          | None => Ok kw end
              | k => if unhashable rt k then Raise EType else Ok kw
              end)) kvs (Ok []))
         (fun kw => construct_class c cd kw))) = Ok v ->
  match cflavour cd, v with
  | (FDataclass | FPlain), PObj c' fs =>
      Nat.eqb c c' &&
      all2 (fun fd fv => Nat.eqb (fname fd) (fst fv) &&
                         (conf n (fty fd) (snd fv) || is_default fd (snd fv))) (cfields cd) fs
  | FNamedTuple, PNamed c' l =>
      Nat.eqb c c' && all2 (fun fd x => conf n (fty fd) x || is_default fd x) (cfields cd) l
  | FTypedDict, PDict KDict l =>
      forallb (fun kv => match fst kv with
                         | PKey f => match field_ty cd f with
                                     | Some ft => conf n ft (snd kv)
                                     | None => false end
                         | _ => false end) l &&
      forallb (fun fd => negb (existsb (Nat.eqb (fname fd)) (crequired cd)) || has_key (fname fd) l) (cfields cd)
  | _, _ => false
  end = true.
Proof.
  intros n c cd x v IH HE H.
  apply bind_ok in H. destruct H as [d [_ H]]. apply bind_ok in H. destruct H as [kvs [_ H]].
  apply bind_ok in H. destruct H as [kw [Hfold H]].
  assert (Hinv : kw_inv cd (fun ft v => conf n ft v = true) kw).
  { destruct (fold_kw_inv cd (unmf n) (fun ft v => conf n ft v = true)
                (fun fd x v _ Hu => IH _ _ _ Hu) _ _ _ Hfold) as [kw0 [Hkw0 Hi]].
    inversion Hkw0; subst kw0. apply Hi. intros fv []. }
  pose proof (WF c cd HE) as Hnd.
  assert (Hgood : forall fd, In fd (cfields cd) -> field_ty cd (fname fd) = Some (fty fd)).
  { intros fd Hin. apply field_ty_nodup; assumption. }
  unfold construct_class in H. destruct (cflavour cd).
  - (* dataclass *)
    apply bind_ok in H. destruct H as [l [Hl H]]. inversion H; subst. rewrite Nat.eqb_refl. cbn [andb].
    exact (fill_fields_all2 cd n kw Hinv _ _ Hgood Hl).
  - (* named tuple *)
    apply bind_ok in H. destruct H as [l [Hl H]]. inversion H; subst. rewrite Nat.eqb_refl. cbn [andb].
    apply (all2_map_snd (fun fd fv => Nat.eqb (fname fd) (fst fv) && (conf n (fty fd) (snd fv) || is_default fd (snd fv)))).
    + intros fd fv Hp. apply andb_true_iff in Hp. exact (proj2 Hp).
    + exact (fill_fields_all2 cd n kw Hinv _ _ Hgood Hl).
  - (* typed dict *)
    destruct (forallb (fun fd => negb (existsb (Nat.eqb (fname fd)) (crequired cd)) || has_kw (fname fd) kw) (cfields cd)) eqn:Hreq; [|discriminate].
    inversion H; subst. apply andb_true_iff. split.
    + apply forallb_forall. intros kv Hkv. apply in_map_iff in Hkv. destruct Hkv as [fv [Heq Hin]]. subst kv. cbn [fst snd].
      destruct (Hinv fv Hin) as [ft [Hft Hc]]. rewrite Hft. exact Hc.
    + apply forallb_forall. intros fd Hfd. pose proof (proj1 (forallb_forall _ _) Hreq fd Hfd) as Hr.
      apply orb_true_iff in Hr. apply orb_true_iff. destruct Hr as [Hr|Hr]; [left; exact Hr|right; apply has_kw_key; exact Hr].
  - (* plain *)
    apply bind_ok in H. destruct H as [l [Hl H]]. inversion H; subst. rewrite Nat.eqb_refl. cbn [andb].
    exact (fill_fields_all2 cd n kw Hinv _ _ Hgood Hl).
Qed.

(* ------------------------------------------------------------------ whatever unm returns conforms *)
Theorem unm_conforms : forall fuel T x v, unmf fuel T x = Ok v -> conf fuel T v = true.
Proof.
  induction fuel as [|n IH]; intros T x v H; [discriminate|].
  destruct T as [s| |k a|k kt vt|ts|ts|c|c|s|t'|i t'|i t'|i c|t'|t']; cbn [unm conforms] in *.
  - (* leaf *) exact (leaf_u_ok _ _ L _ _ _ H).
  - (* None *) rewrite (none_u_none _ _ L _ _ H). apply pv_eqb_refl.
  - (* seq *)
    apply bind_ok in H. destruct H as [d [_ H]]. apply bind_ok in H. destruct H as [vs [_ H]].
    apply (proj1 (TL.Proofs.CoreHash.seq_step_ok_iff _ _ _ _ _)) in H.
    apply bind_ok in H. destruct H as [rs [Hrs H]]. apply construct_seq_ok in H. destruct H as [l [Hv Hl]]. subst v.
    rewrite seqkind_eqb_refl. cbn [andb]. apply forallb_forall. intros r Hr.
    destruct (mapM_ok_all _ _ _ Hrs r (Hl r Hr)) as [x' [_ Hx']]. exact (IH _ _ _ Hx').
  - (* map *)
    apply bind_ok in H. destruct H as [d [_ H]]. apply bind_ok in H. destruct H as [kvs [_ H]].
    apply (proj1 (TL.Proofs.CoreHash.map_step_ok_iff _ _ _ _ _)) in H.
    apply bind_ok in H. destruct H as [rs [Hrs H]]. unfold construct_map in H.
    destruct (existsb (fun kv => unhashable rt (fst kv)) rs); [discriminate|]. inversion H; subst v.
    rewrite dictkind_eqb_refl. cbn [andb]. apply forallb_forall. intros kv Hkv.
    assert (G : conf n kt (fst kv) = true /\ conf n vt (snd kv) = true).
    { apply (dict_of_all (fun a => conf n kt a = true) (fun b => conf n vt b = true) rs); [|exact Hkv].
      intros [k' v'] Hin. destruct (mapM_ok_all _ _ _ Hrs _ Hin) as [kv0 [_ H0]].
      apply bind_ok in H0. destruct H0 as [k1 [Hk1 H0]]. apply bind_ok in H0. destruct H0 as [v1 [Hv1 H0]].
      inversion H0; subst. cbn. split; [exact (IH _ _ _ Hk1)|exact (IH _ _ _ Hv1)]. }
    destruct G as [G1 G2]. rewrite G1, G2. reflexivity.
  - (* fixed tuple *)
    apply bind_ok in H. destruct H as [d [_ H]]. apply bind_ok in H. destruct H as [vs [_ H]].
    destruct (Nat.ltb (length vs) (length ts)) eqn:Hlt; [discriminate|]. apply Nat.ltb_ge in Hlt.
    apply bind_ok in H. destruct H as [rs [Hrs H]]. inversion H; subst v.
    apply (zip_all2 (unmf n) (conf n) ts vs rs Hlt Hrs). intros t x' r _ Hr. exact (IH _ _ _ Hr).
  - (* union *)
    apply first_ok_some in H. destruct H as [t [Hin Ht]]. apply existsb_exists. exists t.
    split; [exact (union_stack_in _ _ Hin)|exact (IH _ _ _ Ht)].
  - (* TName *)
    destruct (E c) as [[cd|t']|] eqn:HE; [|exact (IH _ _ _ H)|discriminate].
    exact (class_conforms n c cd x v IH HE H).
  - (* TRef *)
    destruct (E c) as [[cd|t']|] eqn:HE; [|exact (IH _ _ _ H)|discriminate].
    exact (class_conforms n c cd x v IH HE H).
  - (* TRefLeaf *) exact (leaf_u_ok _ _ L _ _ _ H).
  - exact (IH _ _ _ H).
  - exact (IH _ _ _ H).
  - exact (IH _ _ _ H).
  - (* TAliasStr *)
    destruct (E c) as [[cd|t']|] eqn:HE; [|exact (IH _ _ _ H)|discriminate].
    exact (class_conforms n c cd x v IH HE H).
  - exact (IH _ _ _ H).
  - exact (IH _ _ _ H).
Qed.

End Proofs.

(* ------------------------------------------------------------------ conformance does not depend on the fuel once it suffices *)
Section Mono.
Variable rt : runtime.
Variable E : env.
Variable leaf_ok : nat -> pv -> bool.
Notation conf := (conforms rt E leaf_ok).

Lemma all2_impl : forall {A B} (p q : A -> B -> bool) a b,
  (forall x y, In x a -> p x y = true -> q x y = true) -> all2 p a b = true -> all2 q a b = true.
Proof.
  intros A B p q a. induction a as [|x a IHa]; intros b Hpq H; destruct b as [|y b]; cbn in *; try discriminate; [reflexivity|].
  apply andb_true_iff in H. destruct H as [H1 H2]. rewrite (Hpq x y (or_introl eq_refl) H1). cbn.
  apply IHa; [|exact H2]. intros x' y' Hx'. apply Hpq. right. exact Hx'.
Qed.

Lemma forallb_impl : forall {A} (p q : A -> bool) l,
  (forall x, p x = true -> q x = true) -> forallb p l = true -> forallb q l = true.
Proof.
  intros A p q l Hpq H. apply forallb_forall. intros x Hx. apply Hpq. exact (proj1 (forallb_forall _ _) H x Hx).
Qed.

Lemma conforms_S : forall n T v, conf n T v = true -> conf (S n) T v = true.
Proof.
  induction n as [|n IH]; intros T v H; [discriminate|].
  assert (HC : forall c cd,
    match cflavour cd, v with
    | (FDataclass | FPlain), PObj c' fs =>
        Nat.eqb c c' &&
        all2 (fun fd fv => Nat.eqb (fname fd) (fst fv) && (conf n (fty fd) (snd fv) || is_default fd (snd fv))) (cfields cd) fs
    | FNamedTuple, PNamed c' l =>
        Nat.eqb c c' && all2 (fun fd x => conf n (fty fd) x || is_default fd x) (cfields cd) l
    | FTypedDict, PDict KDict l =>
        forallb (fun kv => match fst kv with
                           | PKey f => match field_ty cd f with Some ft => conf n ft (snd kv) | None => false end
                           | _ => false end) l &&
        forallb (fun fd => negb (existsb (Nat.eqb (fname fd)) (crequired cd)) || has_key (fname fd) l) (cfields cd)
    | _, _ => false
    end = true ->
    match cflavour cd, v with
    | (FDataclass | FPlain), PObj c' fs =>
        Nat.eqb c c' &&
        all2 (fun fd fv => Nat.eqb (fname fd) (fst fv) && (conf (S n) (fty fd) (snd fv) || is_default fd (snd fv))) (cfields cd) fs
    | FNamedTuple, PNamed c' l =>
        Nat.eqb c c' && all2 (fun fd x => conf (S n) (fty fd) x || is_default fd x) (cfields cd) l
    | FTypedDict, PDict KDict l =>
        forallb (fun kv => match fst kv with
                           | PKey f => match field_ty cd f with Some ft => conf (S n) ft (snd kv) | None => false end
                           | _ => false end) l &&
        forallb (fun fd => negb (existsb (Nat.eqb (fname fd)) (crequired cd)) || has_key (fname fd) l) (cfields cd)
    | _, _ => false
    end = true).
  { intros c cd Hc.
    assert (Hor : forall fd x, conf n (fty fd) x || is_default fd x = true -> conf (S n) (fty fd) x || is_default fd x = true).
    { intros fd x Hx. apply orb_true_iff in Hx. apply orb_true_iff. destruct Hx as [Hx|Hx]; [left; exact (IH _ _ Hx)|right; exact Hx]. }
    destruct (cflavour cd); destruct v as [a|f|k l|k l|c' l|c' l]; try discriminate.
    - apply andb_true_iff in Hc. destruct Hc as [Hc1 Hc2]. rewrite Hc1. cbn [andb].
      revert Hc2. apply all2_impl. intros fd fv _ Hp. apply andb_true_iff in Hp. destruct Hp as [Hp1 Hp2].
      rewrite Hp1. cbn [andb]. exact (Hor _ _ Hp2).
    - apply andb_true_iff in Hc. destruct Hc as [Hc1 Hc2]. rewrite Hc1. cbn [andb].
      revert Hc2. apply all2_impl. intros fd y _ Hp. exact (Hor _ _ Hp).
    - destruct k; try discriminate. apply andb_true_iff in Hc. destruct Hc as [Hc1 Hc2]. rewrite Hc2, andb_true_r.
      revert Hc1. apply forallb_impl. intros kv Hkv. destruct (fst kv); try discriminate.
      destruct (field_ty cd f); [exact (IH _ _ Hkv)|discriminate].
    - apply andb_true_iff in Hc. destruct Hc as [Hc1 Hc2]. rewrite Hc1. cbn [andb].
      revert Hc2. apply all2_impl. intros fd fv _ Hp. apply andb_true_iff in Hp. destruct Hp as [Hp1 Hp2].
      rewrite Hp1. cbn [andb]. exact (Hor _ _ Hp2). }
  destruct T as [s| |k a|k kt vt|ts|ts|c|c|s|t'|i t'|i t'|i c|t'|t'];
    cbn [conforms] in H; cbn [conforms]; try exact H; try (exact (IH _ _ H)).
  - destruct v as [a0|f|k' l|k' l|c' l|c' l]; try discriminate.
    apply andb_true_iff in H. destruct H as [H1 H2]. rewrite H1. cbn [andb].
    revert H2. apply forallb_impl. intros y Hy. exact (IH _ _ Hy).
  - destruct v as [a0|f|k' l|k' l|c' l|c' l]; try discriminate.
    apply andb_true_iff in H. destruct H as [H1 H2]. rewrite H1. cbn [andb].
    revert H2. apply forallb_impl. intros kv Hkv. apply andb_true_iff in Hkv. destruct Hkv as [Ha Hb].
    apply andb_true_iff. split; [exact (IH _ _ Ha)|exact (IH _ _ Hb)].
  - destruct v as [a0|f|k' l|k' l|c' l|c' l]; try discriminate. destruct k'; try discriminate.
    revert H. apply all2_impl. intros t y _ Hy. exact (IH _ _ Hy).
  - apply existsb_exists in H. destruct H as [t [Hin Ht]]. apply existsb_exists. exists t. split; [exact Hin|exact (IH _ _ Ht)].
  - destruct (E c) as [[cd|t']|]; [exact (HC c cd H)|exact (IH _ _ H)|discriminate].
  - destruct (E c) as [[cd|t']|]; [exact (HC c cd H)|exact (IH _ _ H)|discriminate].
  - destruct (E c) as [[cd|t']|]; [exact (HC c cd H)|exact (IH _ _ H)|discriminate].
Qed.

Theorem conforms_mono : forall n m T v, n <= m -> conf n T v = true -> conf m T v = true.
Proof. intros n m T v Hle. induction Hle as [|m Hle IHle]; intros H; [exact H|]. apply conforms_S. exact (IHle H). Qed.

End Mono.
