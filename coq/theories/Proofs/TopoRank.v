(* A graph whose edges strictly decrease a rank that respects node equality has a topological order
   in the sense of Topo.is_topo_order: sort the distinct nodes by rank. *)
From Coq Require Import List Arith Bool PeanoNat String Lia.
Import ListNotations.
Require Import TL.Model.Graph TL.Model.Topo TL.Proofs.GraphLemmas TL.Proofs.TopoLemmas.

Lemma node_eqb_sym : forall a b, node_eqb a b = node_eqb b a.
Proof.
  intros a b. destruct (node_eqb a b) eqn:H1; destruct (node_eqb b a) eqn:H2; auto.
  - pose proof (node_eqb_cong _ _ H1 a) as H. rewrite node_eqb_refl in H. congruence.
  - pose proof (node_eqb_cong _ _ H2 b) as H. rewrite node_eqb_refl in H. congruence.
Qed.

Lemma inb_cong : forall a b l, node_eqb a b = true -> inb a l = inb b l.
Proof.
  intros a b l H. unfold inb. induction l as [|x r IH]; cbn; [reflexivity|].
  rewrite (node_eqb_cong _ _ H x), IH. reflexivity.
Qed.

Lemma inb_cons : forall n x l, inb n (x :: l) = node_eqb n x || inb n l.
Proof. reflexivity. Qed.

Lemma inb_In : forall n l, In n l -> inb n l = true.
Proof. intros n l H. unfold inb. apply existsb_exists. exists n; split; [exact H | apply node_eqb_refl]. Qed.

Section Rank.
  Variable rk : node -> nat.
  Hypothesis rk_cong : forall a b, node_eqb a b = true -> rk a = rk b.

  (* distinct representatives *)
  Fixpoint dedup (l : list node) : list node :=
    match l with [] => [] | x :: r => if inb x (dedup r) then dedup r else x :: dedup r end.

  Lemma dedup_inb : forall n l, inb n (dedup l) = inb n l.
  Proof.
    intros n l; induction l as [|x r IH]; [reflexivity|]. cbn [dedup]. rewrite inb_cons.
    destruct (inb x (dedup r)) eqn:Hx.
    - rewrite IH. destruct (node_eqb n x) eqn:Hnx; cbn [orb]; [|reflexivity].
      rewrite <- IH. rewrite (inb_cong _ _ _ Hnx). exact Hx.
    - rewrite inb_cons, IH. reflexivity.
  Qed.
  Lemma dedup_nodup : forall l, nodupb (dedup l) = true.
  Proof.
    induction l as [|x r IH]; [reflexivity|]. cbn [dedup].
    destruct (inb x (dedup r)) eqn:Hx; [exact IH|]. cbn [nodupb]. rewrite Hx, IH. reflexivity.
  Qed.

  (* insertion sort by rank *)
  Fixpoint insert (x : node) (l : list node) : list node :=
    match l with [] => [x] | y :: r => if rk x <=? rk y then x :: y :: r else y :: insert x r end.
  Fixpoint isort (l : list node) : list node :=
    match l with [] => [] | x :: r => insert x (isort r) end.

  Lemma insert_inb : forall n x l, inb n (insert x l) = node_eqb n x || inb n l.
  Proof.
    intros n x l; induction l as [|y r IH]; [reflexivity|]. cbn [insert].
    destruct (rk x <=? rk y); [reflexivity|]. rewrite !inb_cons, IH.
    destruct (node_eqb n x), (node_eqb n y); reflexivity.
  Qed.
  Lemma isort_inb : forall n l, inb n (isort l) = inb n l.
  Proof. intros n l; induction l as [|x r IH]; [reflexivity|]. cbn [isort]. rewrite insert_inb, inb_cons, IH. reflexivity. Qed.

  Lemma insert_nodup : forall x l, inb x l = false -> nodupb l = true -> nodupb (insert x l) = true.
  Proof.
    intros x l; induction l as [|y r IH]; intros Hx Hl; [reflexivity|].
    rewrite inb_cons in Hx. cbn [nodupb] in Hl.
    apply orb_false_iff in Hx; destruct Hx as [Hxy Hxr]. apply andb_true_iff in Hl; destruct Hl as [Hy Hr].
    cbn [insert]. destruct (rk x <=? rk y); cbn [nodupb].
    - rewrite inb_cons, Hxy, Hxr, Hy, Hr. reflexivity.
    - rewrite insert_inb. rewrite node_eqb_sym, Hxy. cbn [orb]. rewrite Hy. cbn [andb]. apply IH; assumption.
  Qed.
  Lemma isort_nodup : forall l, nodupb l = true -> nodupb (isort l) = true.
  Proof.
    induction l as [|x r IH]; intros H; [reflexivity|]. cbn [nodupb] in H. cbn [isort].
    apply andb_true_iff in H; destruct H as [Hx Hr]. apply insert_nodup; [|apply IH; exact Hr].
    rewrite isort_inb. apply negb_true_iff in Hx. exact Hx.
  Qed.

  Inductive sorted : list node -> Prop :=
  | sorted_nil : sorted []
  | sorted_cons : forall x l, (forall y, In y l -> rk x <= rk y) -> sorted l -> sorted (x :: l).

  Lemma insert_In : forall y x l, In y (insert x l) -> y = x \/ In y l.
  Proof.
    intros y x l; induction l as [|z r IH]; cbn; intros H.
    - destruct H as [H|[]]; auto.
    - destruct (rk x <=? rk z); cbn in H.
      + destruct H as [H|H]; auto.
      + destruct H as [H|H]; [auto|]. destruct (IH H); auto.
  Qed.
  Lemma insert_sorted : forall x l, sorted l -> sorted (insert x l).
  Proof.
    intros x l H; induction H as [|z l Hz Hl IH]; cbn.
    - constructor; [intros y []|constructor].
    - destruct (rk x <=? rk z) eqn:Hc.
      + apply Nat.leb_le in Hc. constructor; [|constructor; assumption].
        intros y [Hy|Hy]; [subst; exact Hc | specialize (Hz y Hy); lia].
      + apply Nat.leb_gt in Hc. constructor; [|exact IH].
        intros y Hy. destruct (insert_In _ _ _ Hy) as [Hy'|Hy']; [subst; lia | apply Hz; exact Hy'].
  Qed.
  Lemma isort_sorted : forall l, sorted (isort l).
  Proof. induction l as [|x r IH]; cbn; [constructor | apply insert_sorted; exact IH]. Qed.

  (* in a sorted list a node of strictly smaller rank is found strictly earlier *)
  Lemma pos_In : forall n l i, pos n l = Some i -> exists x, In x l /\ node_eqb n x = true.
  Proof.
    intros n l; induction l as [|y r IH]; cbn; intros i H; [discriminate|].
    destruct (node_eqb n y) eqn:Hny; [exists y; auto|].
    destruct (pos n r) as [j|] eqn:Hp; [|discriminate]. destruct (IH j eq_refl) as [x [Hx Hnx]]. exists x; auto.
  Qed.
  Lemma inb_pos : forall n l, inb n l = true -> exists i, pos n l = Some i.
  Proof.
    intros n l; induction l as [|y r IH]; intros H; [discriminate|]. rewrite inb_cons in H. cbn [pos].
    destruct (node_eqb n y); [eauto|]. cbn [orb] in H. destruct (IH H) as [i Hi]. rewrite Hi. eauto.
  Qed.

  Lemma sorted_before : forall l a b, sorted l -> inb a l = true -> inb b l = true -> rk a < rk b -> before a b l.
  Proof.
    intros l a b Hs; induction Hs as [|x l Hx Hl IH]; intros Ha Hb Hlt; [discriminate|].
    rewrite inb_cons in Ha, Hb. unfold before. cbn [pos].
    destruct (node_eqb a x) eqn:Hax.
    - (* a is found at the head *)
      destruct (node_eqb b x) eqn:Hbx.
      + rewrite (rk_cong _ _ Hax), (rk_cong _ _ Hbx) in Hlt. lia.
      + cbn [orb] in Hb. destruct (inb_pos _ _ Hb) as [j Hj]. rewrite Hj. exists 0, (S j). repeat split; auto; lia.
    - cbn [orb] in Ha. destruct (node_eqb b x) eqn:Hbx.
      + (* b at the head but a later: contradicts sortedness *)
        destruct (inb_pos _ _ Ha) as [i Hi]. destruct (pos_In _ _ _ Hi) as [y [Hy Hay]].
        specialize (Hx y Hy). rewrite (rk_cong _ _ Hay), (rk_cong _ _ Hbx) in Hlt. lia.
      + cbn [orb] in Hb. destruct (IH Ha Hb Hlt) as [i [j [Hi [Hj Hij]]]]. rewrite Hi, Hj.
        exists (S i), (S j). repeat split; auto; lia.
  Qed.

  Theorem rank_topo : forall g : adjacency,
    (forall p preds m, In (p, preds) g -> In m preds -> rk m < rk p) ->
    exists order, is_topo_order g order.
  Proof.
    intros g Hedge. exists (isort (dedup (adj_nodes g))). unfold is_topo_order.
    assert (Hin : forall n, inb n (isort (dedup (adj_nodes g))) = inb n (adj_nodes g))
      by (intros n; rewrite isort_inb, dedup_inb; reflexivity).
    split; [apply isort_nodup, dedup_nodup|]. split; [|split].
    - intros n Hn. rewrite Hin. apply inb_In; exact Hn.
    - intros n Hn. rewrite <- Hin. apply inb_In; exact Hn.
    - intros p preds c Hp Hc. apply sorted_before.
      + apply isort_sorted.
      + rewrite Hin. apply inb_In. unfold adj_nodes. apply in_flat_map. exists (p, preds); split; [exact Hp | right; exact Hc].
      + rewrite Hin. apply inb_In. unfold adj_nodes. apply in_flat_map. exists (p, preds); split; [exact Hp | left; reflexivity].
      + eapply Hedge; eauto.
  Qed.
End Rank.
