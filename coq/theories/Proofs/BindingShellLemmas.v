(* Proofs about Model/BindingShell.v. *)
From Coq Require Import String List Arith Bool Lia PeanoNat ZArith.
Import ListNotations.
Require Import TL.Model.Binding TL.Proofs.BindingLemmas TL.Model.BindingShell.

(* ====================================================================== *)
(* Part 1: the translated tables                                           *)
(* ====================================================================== *)

Lemma posmode_eqb_eq a b : posmode_eqb a b = true -> a = b.
Proof. destruct a, b; cbn; intros H; try reflexivity; discriminate H. Qed.
Lemma kwmode_eqb_eq a b : kwmode_eqb a b = true -> a = b.
Proof. destruct a, b; cbn; intros H; try reflexivity; discriminate H. Qed.

Lemma matrix_lookup_in rows t c : matrix_lookup rows t = Some c -> exists t', In (t', c) rows.
Proof. induction rows as [|[t' c'] r IH]; cbn [matrix_lookup]; intros H; [discriminate H|].
  destruct (truth_eqb t t').
  - injection H as ->. exists t'. left. reflexivity.
  - destruct (IH H) as [t'' Hin]. exists t''. right. exact Hin. Qed.

Lemma modes_agree_lookup t c : modes_agree t c = true ->
  tbl_lookup (bcls_name c) t = Some (posmode_of c, kwmode_of c).
Proof. unfold modes_agree. destruct (tbl_lookup (bcls_name c) t) as [[p k]|]; [|intros H; discriminate H].
  intros H. apply andb_true_iff in H. destruct H as [H1 H2].
  rewrite (posmode_eqb_eq _ _ H1), (kwmode_eqb_eq _ _ H2). reflexivity. Qed.

Lemma run_binder_src_eq val t c b args kw : modes_agree t c = true ->
  run_binder_src val t c b args kw = run_binder val c b args kw.
Proof. intros H. unfold run_binder_src, run_binder. rewrite (modes_agree_lookup t c H). reflexivity. Qed.

(* if the translated table agrees with posmode_of / kwmode_of on every class the matrix names,
   the call with the source's idioms IS the call of the hand model *)
Theorem bound_call_src_eq val t rows s args kw : modes_tied t rows = true ->
  bound_call_src val t rows s args kw = bound_call val rows s args kw.
Proof. intros H. unfold bound_call_src, bound_call.
  destruct (matrix_lookup rows (truth_of s)) as [c|] eqn:E; [|reflexivity].
  destruct (matrix_lookup_in rows _ c E) as [t' Hin].
  unfold modes_tied in H. rewrite forallb_forall in H. apply run_binder_src_eq. exact (H (t', c) Hin). Qed.

Theorem converts_src val t rows s args kw ea ek :
  modes_tied t rows = true -> wfb s = true -> matrix_ok rows = true ->
  expected_pos val s args = Some ea -> expected_kw val s kw = Some ek ->
  bound_call_src val t rows s args kw = Ok (ea, ek).
Proof. intros Ht Hwf Hm Ha Hk. rewrite (bound_call_src_eq val t rows s args kw Ht).
  exact (converts val rows s args kw ea ek Hwf Hm Ha Hk). Qed.

Theorem rejected_or_shape_src val t rows s (args : list val) kw :
  modes_tied t rows = true ->
  bound_call_src val t rows s args kw = RaiseType \/
  exists ua uk, bound_call_src val t rows s args kw = Ok (ua, uk) /\ length ua = length args /\ map fst uk = map fst kw.
Proof. intros Ht. rewrite (bound_call_src_eq val t rows s args kw Ht). apply rejected_or_shape. Qed.

(* ---------- max_pos / startpos ---------- *)
Definition mp_apply (c : option Z) (i : Z) (a : option Z) : option Z :=
  match c with Some off => Some (i + off)%Z | None => a end.

Lemma mp_step_effect rules i p cur a :
  mp_step rules i p (mp_apply cur i a) = mp_apply (mp_effect rules (pkind p) cur) i a.
Proof. revert cur. induction rules as [|r rest IH]; intros cur; cbn [mp_step mp_effect]; [reflexivity|].
  unfold is_k. destruct (kind_eqb (pkind p) (mr_kind r)); [|apply IH].
  destruct (mr_off r) as [off|]; destruct (mr_cont r).
  - reflexivity.
  - apply (IH (Some off)).
  - reflexivity.
  - apply IH. Qed.

Lemma optZ_eqb_eq a b : optZ_eqb a b = true -> a = b.
Proof. destruct a, b; cbn; intros H; try discriminate H; [apply Z.eqb_eq in H; subst|]; reflexivity. Qed.

(* the canonical loop body *)
Definition mp_stepc (i : Z) (p : param) (acc : option Z) : option Z :=
  match pkind p with PO => Some i | VP => Some (i - 1)%Z | _ => acc end.

Lemma mp_step_canon rules fin i p acc : mp_rules_ok rules fin = true -> mp_step rules i p acc = mp_stepc i p acc.
Proof. unfold mp_rules_ok. rewrite !andb_true_iff. intros [[[[[H1 H2] H3] H4] H5] _].
  apply optZ_eqb_eq in H1, H2, H3, H4, H5.
  change acc with (mp_apply None i acc) at 1. rewrite mp_step_effect. unfold mp_stepc.
  destruct (pkind p).
  - rewrite H1. cbn. f_equal. lia.
  - rewrite H3. reflexivity.
  - rewrite H2. cbn. f_equal.
  - rewrite H4. reflexivity.
  - rewrite H5. reflexivity. Qed.

Fixpoint mp_loopc (s : sig) (i : Z) (acc : option Z) : option Z :=
  match s with [] => acc | p :: r => mp_loopc r (i + 1)%Z (mp_stepc i p acc) end.
Lemma mp_loop_canon rules fin s i acc : mp_rules_ok rules fin = true -> mp_loop rules s i acc = mp_loopc s i acc.
Proof. intros H. revert i acc. induction s as [|p r IH]; intros i acc; cbn [mp_loop mp_loopc]; [reflexivity|].
  rewrite (mp_step_canon rules fin i p acc H). apply IH. Qed.

Lemma mp_loopc_app a b i acc : mp_loopc (a ++ b) i acc = mp_loopc b (i + Z.of_nat (length a))%Z (mp_loopc a i acc).
Proof. revert i acc. induction a as [|p a IH]; intros i acc; cbn [app mp_loopc length].
  - f_equal. lia.
  - rewrite IH. f_equal. lia. Qed.
Lemma mp_loopc_inert k (l : sig) i acc : allk k l -> (k = PK \/ k = KO \/ k = VK) -> mp_loopc l i acc = acc.
Proof. intros H Hk. revert i. induction l as [|p l IH]; intros i; cbn [mp_loopc]; [reflexivity|].
  apply Forall_cons_iff in H. destruct H as [Hp Hl]. unfold mp_stepc. rewrite Hp.
  destruct Hk as [->|[->| ->]]; apply (IH Hl). Qed.
Lemma mp_loopc_po (l : sig) i acc : allk PO l ->
  mp_loopc l i acc = match l with [] => acc | _ => Some (i + Z.of_nat (length l) - 1)%Z end.
Proof. intros H. revert i acc. induction l as [|p l IH]; intros i acc; cbn [mp_loopc]; [reflexivity|].
  apply Forall_cons_iff in H. destruct H as [Hp Hl]. unfold mp_stepc at 1. rewrite Hp. rewrite (IH Hl).
  destruct l; cbn [length]; f_equal; lia. Qed.
Lemma mp_loopc_vp (l : sig) i acc : allk VP l -> length l <= 1 ->
  mp_loopc l i acc = match l with [] => acc | _ => Some (i - 1)%Z end.
Proof. intros H L. destruct l as [|p [|q l]]; cbn [mp_loopc]; [reflexivity| |cbn in L; lia].
  apply Forall_cons_iff in H. destruct H as [Hp _]. unfold mp_stepc. rewrite Hp. reflexivity. Qed.

(* on every well-formed signature the loop the translator read computes the model's startpos *)
Theorem startpos_src_sound rules fin s : mp_rules_ok rules fin = true -> wfb s = true ->
  startpos_src rules fin s = option_map Z.of_nat (get_startpos s).
Proof. intros Hr Hwf. pose (S := wfb_segs s Hwf).
  assert (Hfin : fin = 1%Z).
  { unfold mp_rules_ok in Hr. rewrite !andb_true_iff in Hr. destruct Hr as [_ Hf]. apply Z.eqb_eq in Hf. exact Hf. }
  unfold startpos_src. rewrite (mp_loop_canon rules fin s 0%Z None Hr).
  rewrite (startpos_segs s S), (has_k s S VP), (has_k s S PO), (npos_segs s S).
  rewrite (s_eq s S) at 1. rewrite !mp_loopc_app.
  rewrite (mp_loopc_inert VK _ _ _ (s_vk_k s S)) by tauto.
  rewrite (mp_loopc_inert KO _ _ _ (s_ko_k s S)) by tauto.
  rewrite (mp_loopc_vp _ _ _ (s_vp_k s S) (s_vp_1 s S)).
  rewrite (mp_loopc_inert PK _ _ _ (s_pk_k s S)) by tauto.
  rewrite (mp_loopc_po _ _ _ (s_po_k s S)). subst fin.
  destruct (s_vp s S) as [|v vl]; cbn [nonempty negb].
  - destruct (s_po s S) as [|p pl]; cbn [nonempty negb option_map]; [reflexivity|]. f_equal. lia.
  - cbn [option_map]. f_equal. lia. Qed.

(* a rule list that moves the *args boundary is caught: non-vacuity of the guard *)
Lemma kind_in_same ks f p : kinds_same ks f = true -> kind_in ks p = f (pkind p).
Proof. unfold kinds_same, all_kinds. cbn [forallb]. rewrite !andb_true_iff. intros [H1 [H2 [H3 [H4 [H5 _]]]]].
  apply eqb_prop in H1, H2, H3, H4, H5. unfold kind_in.
  change (existsb (fun k => is_k k p) ks) with (existsb (kind_eqb (pkind p)) ks). destruct (pkind p); assumption. Qed.

Theorem reg_src_sound ik nk s i : reg_kinds_ok ik nk = true ->
  idx_map_src ik s i = idx_map s i /\ name_map_src nk s i = name_map s i.
Proof. unfold reg_kinds_ok. rewrite andb_true_iff. intros [H1 H2]. revert i.
  induction s as [|p r IH]; intros i; cbn [idx_map_src idx_map name_map_src name_map]; [split; reflexivity|].
  destruct (IH (Datatypes.S i)) as [IH1 IH2]. rewrite IH1, IH2.
  rewrite (kind_in_same ik _ p H1), (kind_in_same nk _ p H2).
  unfold pos_capable, kw_capable, is_k. split; destruct (pkind p); reflexivity. Qed.
