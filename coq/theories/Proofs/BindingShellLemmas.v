(* Proofs about Model/BindingShell.v. *)
From Coq Require Import String List Arith Bool Lia PeanoNat ZArith.
Import ListNotations.
Require Import TL.Model.Binding TL.Proofs.BindingLemmas TL.Model.BindingShell.

(* ====================================================================== *)
(* Part 1: the translated tables                                           *)
(* ====================================================================== *)

Lemma posmode_eqb_eq a b : posmode_eqb a b = true -> a = b.
Proof. destruct a, b; cbn; intros H; try reflexivity; discriminate H. Qed.
Lemma kwmode_eqb_eq a b : kwmode_eqb a b = true -> a = b.
Proof. destruct a, b; cbn; intros H; try reflexivity; discriminate H. Qed.

Lemma matrix_lookup_in rows t c : matrix_lookup rows t = Some c -> exists t', In (t', c) rows.
Proof. induction rows as [|[t' c'] r IH]; cbn [matrix_lookup]; intros H; [discriminate H|].
  destruct (truth_eqb t t').
  - injection H as ->. exists t'. left. reflexivity.
  - destruct (IH H) as [t'' Hin]. exists t''. right. exact Hin. Qed.

Lemma modes_agree_lookup t c : modes_agree t c = true ->
  tbl_lookup (bcls_name c) t = Some (posmode_of c, kwmode_of c).
Proof. unfold modes_agree. destruct (tbl_lookup (bcls_name c) t) as [[p k]|]; [|intros H; discriminate H].
  intros H. apply andb_true_iff in H. destruct H as [H1 H2].
  rewrite (posmode_eqb_eq _ _ H1), (kwmode_eqb_eq _ _ H2). reflexivity. Qed.

Lemma run_binder_src_eq val t c b args kw : modes_agree t c = true ->
  run_binder_src val t c b args kw = run_binder val c b args kw.
Proof. intros H. unfold run_binder_src, run_binder. rewrite (modes_agree_lookup t c H). reflexivity. Qed.

(* if the translated table agrees with posmode_of / kwmode_of on every class the matrix names,
   the call with the source's idioms IS the call of the hand model *)
Theorem bound_call_src_eq val t rows s args kw : modes_tied t rows = true ->
  bound_call_src val t rows s args kw = bound_call val rows s args kw.
Proof. intros H. unfold bound_call_src, bound_call.
  destruct (matrix_lookup rows (truth_of s)) as [c|] eqn:E; [|reflexivity].
  destruct (matrix_lookup_in rows _ c E) as [t' Hin].
  unfold modes_tied in H. rewrite forallb_forall in H. apply run_binder_src_eq. exact (H (t', c) Hin). Qed.

Theorem converts_src val t rows s args kw ea ek :
  modes_tied t rows = true -> wfb s = true -> matrix_ok rows = true ->
  expected_pos val s args = Some ea -> expected_kw val s kw = Some ek ->
  bound_call_src val t rows s args kw = Ok (ea, ek).
Proof. intros Ht Hwf Hm Ha Hk. rewrite (bound_call_src_eq val t rows s args kw Ht).
  exact (converts val rows s args kw ea ek Hwf Hm Ha Hk). Qed.

Theorem rejected_or_shape_src val t rows s (args : list val) kw :
  modes_tied t rows = true ->
  bound_call_src val t rows s args kw = RaiseType \/
  exists ua uk, bound_call_src val t rows s args kw = Ok (ua, uk) /\ length ua = length args /\ map fst uk = map fst kw.
Proof. intros Ht. rewrite (bound_call_src_eq val t rows s args kw Ht). apply rejected_or_shape. Qed.

(* ---------- max_pos / startpos ---------- *)
Definition mp_apply (c : option Z) (i : Z) (a : option Z) : option Z :=
  match c with Some off => Some (i + off)%Z | None => a end.

Lemma mp_step_effect rules i p cur a :
  mp_step rules i p (mp_apply cur i a) = mp_apply (mp_effect rules (pkind p) cur) i a.
Proof. revert cur. induction rules as [|r rest IH]; intros cur; cbn [mp_step mp_effect]; [reflexivity|].
  unfold is_k. destruct (kind_eqb (pkind p) (mr_kind r)); [|apply IH].
  destruct (mr_off r) as [off|]; destruct (mr_cont r).
  - reflexivity.
  - apply (IH (Some off)).
  - reflexivity.
  - apply IH. Qed.

Lemma optZ_eqb_eq a b : optZ_eqb a b = true -> a = b.
Proof. destruct a, b; cbn; intros H; try discriminate H; [apply Z.eqb_eq in H; subst|]; reflexivity. Qed.

(* the canonical loop body *)
Definition mp_stepc (i : Z) (p : param) (acc : option Z) : option Z :=
  match pkind p with PO => Some i | VP => Some (i - 1)%Z | _ => acc end.

Lemma mp_step_canon rules fin i p acc : mp_rules_ok rules fin = true -> mp_step rules i p acc = mp_stepc i p acc.
Proof. unfold mp_rules_ok. rewrite !andb_true_iff. intros [[[[[H1 H2] H3] H4] H5] _].
  apply optZ_eqb_eq in H1, H2, H3, H4, H5.
  change acc with (mp_apply None i acc) at 1. rewrite mp_step_effect. unfold mp_stepc.
  destruct (pkind p).
  - rewrite H1. cbn. f_equal. lia.
  - rewrite H3. reflexivity.
  - rewrite H2. cbn. f_equal.
  - rewrite H4. reflexivity.
  - rewrite H5. reflexivity. Qed.

Fixpoint mp_loopc (s : sig) (i : Z) (acc : option Z) : option Z :=
  match s with [] => acc | p :: r => mp_loopc r (i + 1)%Z (mp_stepc i p acc) end.
Lemma mp_loop_canon rules fin s i acc : mp_rules_ok rules fin = true -> mp_loop rules s i acc = mp_loopc s i acc.
Proof. intros H. revert i acc. induction s as [|p r IH]; intros i acc; cbn [mp_loop mp_loopc]; [reflexivity|].
  rewrite (mp_step_canon rules fin i p acc H). apply IH. Qed.

Lemma mp_loopc_app a b i acc : mp_loopc (a ++ b) i acc = mp_loopc b (i + Z.of_nat (length a))%Z (mp_loopc a i acc).
Proof. revert i acc. induction a as [|p a IH]; intros i acc; cbn [app mp_loopc length].
  - f_equal. lia.
  - rewrite IH. f_equal. lia. Qed.
Lemma mp_loopc_inert k (l : sig) i acc : allk k l -> (k = PK \/ k = KO \/ k = VK) -> mp_loopc l i acc = acc.
Proof. intros H Hk. revert i. induction l as [|p l IH]; intros i; cbn [mp_loopc]; [reflexivity|].
  apply Forall_cons_iff in H. destruct H as [Hp Hl]. unfold mp_stepc. rewrite Hp.
  destruct Hk as [->|[->| ->]]; apply (IH Hl). Qed.
Lemma mp_loopc_po (l : sig) i acc : allk PO l ->
  mp_loopc l i acc = match l with [] => acc | _ => Some (i + Z.of_nat (length l) - 1)%Z end.
Proof. intros H. revert i acc. induction l as [|p l IH]; intros i acc; cbn [mp_loopc]; [reflexivity|].
  apply Forall_cons_iff in H. destruct H as [Hp Hl]. unfold mp_stepc at 1. rewrite Hp. rewrite (IH Hl).
  destruct l; cbn [length]; f_equal; lia. Qed.
Lemma mp_loopc_vp (l : sig) i acc : allk VP l -> length l <= 1 ->
  mp_loopc l i acc = match l with [] => acc | _ => Some (i - 1)%Z end.
Proof. intros H L. destruct l as [|p [|q l]]; cbn [mp_loopc]; [reflexivity| |cbn in L; lia].
  apply Forall_cons_iff in H. destruct H as [Hp _]. unfold mp_stepc. rewrite Hp. reflexivity. Qed.

(* on every well-formed signature the loop the translator read computes the model's startpos *)
Theorem startpos_src_sound rules fin s : mp_rules_ok rules fin = true -> wfb s = true ->
  startpos_src rules fin s = option_map Z.of_nat (get_startpos s).
Proof. intros Hr Hwf. pose (S := wfb_segs s Hwf).
  assert (Hfin : fin = 1%Z).
  { unfold mp_rules_ok in Hr. rewrite !andb_true_iff in Hr. destruct Hr as [_ Hf]. apply Z.eqb_eq in Hf. exact Hf. }
  unfold startpos_src. rewrite (mp_loop_canon rules fin s 0%Z None Hr).
  rewrite (startpos_segs s S), (has_k s S VP), (has_k s S PO), (npos_segs s S).
  rewrite (s_eq s S) at 1. rewrite !mp_loopc_app.
  rewrite (mp_loopc_inert VK _ _ _ (s_vk_k s S)) by tauto.
  rewrite (mp_loopc_inert KO _ _ _ (s_ko_k s S)) by tauto.
  rewrite (mp_loopc_vp _ _ _ (s_vp_k s S) (s_vp_1 s S)).
  rewrite (mp_loopc_inert PK _ _ _ (s_pk_k s S)) by tauto.
  rewrite (mp_loopc_po _ _ _ (s_po_k s S)). subst fin.
  destruct (s_vp s S) as [|v vl]; cbn [nonempty negb].
  - destruct (s_po s S) as [|p pl]; cbn [nonempty negb option_map]; [reflexivity|]. f_equal. lia.
  - cbn [option_map]. f_equal. lia. Qed.

(* a rule list that moves the *args boundary is caught: non-vacuity of the guard *)
Lemma kind_in_same ks f p : kinds_same ks f = true -> kind_in ks p = f (pkind p).
Proof. unfold kinds_same, all_kinds. cbn [forallb]. rewrite !andb_true_iff. intros [H1 [H2 [H3 [H4 [H5 _]]]]].
  apply eqb_prop in H1, H2, H3, H4, H5. unfold kind_in.
  change (existsb (fun k => is_k k p) ks) with (existsb (kind_eqb (pkind p)) ks). destruct (pkind p); assumption. Qed.

Theorem reg_src_sound ik nk s i : reg_kinds_ok ik nk = true ->
  idx_map_src ik s i = idx_map s i /\ name_map_src nk s i = name_map s i.
Proof. unfold reg_kinds_ok. rewrite andb_true_iff. intros [H1 H2]. revert i.
  induction s as [|p r IH]; intros i; cbn [idx_map_src idx_map name_map_src name_map]; [split; reflexivity|].
  destruct (IH (Datatypes.S i)) as [IH1 IH2]. rewrite IH1, IH2.
  rewrite (kind_in_same ik _ p H1), (kind_in_same nk _ p H2).
  unfold pos_capable, kw_capable, is_k. split; destruct (pkind p); reflexivity. Qed.

(* ====================================================================== *)
(* Part 2: the shell                                                       *)
(* ====================================================================== *)

(* ---------- traces refine Binding.run_pos / run_kw ---------- *)
Lemma sequence_map_some {A} (l : list A) : sequence (map Some l) = Ok l.
Proof. induction l as [|a l IH]; cbn [map sequence]; [reflexivity|]. rewrite IH. reflexivity. Qed.
Lemma sequence_app_some {A} (l : list A) (t : list (option A)) :
  sequence (map Some l ++ t) = match sequence t with Ok u => Ok (l ++ u) | RaiseType => RaiseType end.
Proof. induction l as [|a l IH]; cbn [map app sequence].
  - destruct (sequence t); reflexivity.
  - rewrite IH. destruct (sequence t); reflexivity. Qed.
Lemma sequence_ok {A} (l : list (option A)) t : sequence l = Ok t -> l = map Some t.
Proof. revert t. induction l as [|[a|] l IH]; intros t H; cbn [sequence] in H.
  - injection H as <-. reflexivity.
  - destruct (sequence l) as [u|]; [|discriminate H]. injection H as <-. cbn [map]. f_equal. apply IH. reflexivity.
  - discriminate H. Qed.
Lemma sequence_raise {A} (l : list (option A)) : sequence l = RaiseType -> In None l.
Proof. induction l as [|[a|] l IH]; cbn [sequence]; intros H.
  - discriminate H.
  - destruct (sequence l); [discriminate H|]. right. apply IH. reflexivity.
  - left. reflexivity. Qed.
Lemma sequence_kw_ok {A} (l : list (nat * option A)) t :
  sequence_kw l = Ok t -> l = map (fun kc => (fst kc, Some (snd kc))) t.
Proof. revert t. induction l as [|[k [a|]] l IH]; intros t H; cbn [sequence_kw] in H.
  - injection H as <-. reflexivity.
  - destruct (sequence_kw l) as [u|]; [|discriminate H]. injection H as <-. cbn [map fst snd]. f_equal. apply IH. reflexivity.
  - discriminate H. Qed.
Lemma sequence_kw_raise {A} (l : list (nat * option A)) : sequence_kw l = RaiseType -> exists k, In (k, None) l.
Proof. induction l as [|[k [a|]] l IH]; cbn [sequence_kw]; intros H.
  - discriminate H.
  - destruct (sequence_kw l); [discriminate H|]. destruct (IH eq_refl) as [k' Hk]. exists k'. right. exact Hk.
  - exists k. left. reflexivity. Qed.

Section TraceLemmas.
Variable val : Type.
Notation cv := (cv val).

Lemma sequence_var_trace vp (l : list val) : sequence (var_trace val vp l) = all_var val vp l.
Proof. destruct vp as [p|]; unfold var_trace.
  - destruct l as [|a l]; [reflexivity|]. cbn [all_var].
    rewrite <- (map_map (Conv p) Some). apply sequence_map_some.
  - destruct l; reflexivity. Qed.

Theorem run_pos_trace m b (args : list val) : run_pos val m b args = sequence (trace_pos val m b args).
Proof. destruct m; cbn [run_pos trace_pos].
  - rewrite sequence_app_some, sequence_var_trace. reflexivity.
  - rewrite sequence_map_some. reflexivity.
  - rewrite sequence_var_trace. reflexivity.
  - rewrite sequence_map_some. reflexivity. Qed.

Theorem run_kw_trace m b (kw : list (nat * val)) : run_kw val m b kw = sequence_kw (trace_kw val m b kw).
Proof. induction kw as [|[k v] r IH]; cbn [run_kw trace_kw map sequence_kw fst snd]; [reflexivity|].
  unfold trace_kw in IH. rewrite IH. unfold trace_kw1.
  destruct (run_kw1 val m b k v); [|reflexivity].
  destruct (sequence_kw _); reflexivity. Qed.
End TraceLemmas.

Section ShellLemmas.
Variables (val E : Type) (type_error : E) (um : nat -> val -> val + E) (key_val : nat -> val).
Notation cv := (cv val).
Notation eval_cv := (eval_cv val E type_error um key_val).
Notation eval_seq := (eval_seq val E type_error um key_val).
Notation eval_kws := (eval_kws val E type_error um key_val).
Notation binder_eval := (binder_eval val E type_error um key_val).
Notation conv_call := (conv_call val E type_error um key_val).

(* an exception of the shell is TypeError or something an unmarshaller raised *)
Definition raised_by_um (e : E) : Prop := exists p v, um p v = inr e.

Lemma eval_cv_error c e : eval_cv c = inr e -> e = type_error \/ raised_by_um e.
Proof. destruct c as [[p v|v|k]|]; cbn [BindingShell.eval_cv]; intros H.
  - right. exists p, v. exact H.
  - discriminate H.
  - discriminate H.
  - injection H as <-. left. reflexivity. Qed.
Lemma eval_seq_error l e : eval_seq l = inr e -> e = type_error \/ raised_by_um e.
Proof. induction l as [|c l IH]; cbn [BindingShell.eval_seq]; intros H; [discriminate H|].
  destruct (eval_cv c) as [v|e'] eqn:Ec.
  - destruct (eval_seq l) as [t|e'']; [discriminate H|]. injection H as <-. apply IH. reflexivity.
  - injection H as <-. exact (eval_cv_error c e' Ec). Qed.
Lemma eval_kws_error l e : eval_kws l = inr e -> e = type_error \/ raised_by_um e.
Proof. induction l as [|[k c] l IH]; cbn [BindingShell.eval_kws]; intros H; [discriminate H|].
  destruct (eval_cv c) as [v|e'] eqn:Ec.
  - destruct (eval_kws l) as [t|e'']; [discriminate H|]. injection H as <-. apply IH. reflexivity.
  - injection H as <-. exact (eval_cv_error c e' Ec). Qed.
Lemma eval_seq_none l : In None l -> exists e, eval_seq l = inr e.
Proof. induction l as [|c l IH]; intros H; [destruct H|]. cbn [BindingShell.eval_seq].
  destruct H as [->|H].
  - exists type_error. reflexivity.
  - destruct (eval_cv c) as [v|e]; [|exists e; reflexivity].
    destruct (IH H) as [e He]. rewrite He. exists e. reflexivity. Qed.
Lemma eval_kws_none l k : In (k, None) l -> exists e, eval_kws l = inr e.
Proof. induction l as [|[k' c] l IH]; intros H; [destruct H|]. cbn [BindingShell.eval_kws].
  destruct H as [H|H].
  - injection H as -> ->. exists type_error. reflexivity.
  - destruct (eval_cv c) as [v|e]; [|exists e; reflexivity].
    destruct (IH H) as [e He]. rewrite He. exists e. reflexivity. Qed.
Lemma eval_seq_length l t : eval_seq l = inl t -> length t = length l.
Proof. revert t. induction l as [|c l IH]; intros t H; cbn [BindingShell.eval_seq] in H.
  - injection H as <-. reflexivity.
  - destruct (eval_cv c); [|discriminate H]. destruct (eval_seq l) as [u|]; [|discriminate H].
    injection H as <-. cbn [length]. f_equal. apply IH. reflexivity. Qed.
Lemma eval_kws_keys l t : eval_kws l = inl t -> map fst t = map fst l.
Proof. revert t. induction l as [|[k c] l IH]; intros t H; cbn [BindingShell.eval_kws] in H.
  - injection H as <-. reflexivity.
  - destruct (eval_cv c); [|discriminate H]. destruct (eval_kws l) as [u|]; [|discriminate H].
    injection H as <-. cbn [map fst]. f_equal. apply IH. reflexivity. Qed.

(* the binder as executed, when the model says which unmarshaller meets which argument *)
Lemma binder_eval_ok c b args kw ea ek : run_binder val c b args kw = Ok (ea, ek) ->
  binder_eval (posmode_of c) (kwmode_of c) b args kw =
  match eval_seq (map Some ea) with
  | inr e => inr e
  | inl ua => match eval_kws (map (fun kc => (fst kc, Some (snd kc))) ek) with
              | inr e => inr e | inl uk => inl (ua, uk) end
  end.
Proof. unfold run_binder. rewrite run_pos_trace, run_kw_trace. intros H.
  destruct (sequence (trace_pos val (posmode_of c) b args)) as [a|] eqn:E1; [|discriminate H].
  destruct (sequence_kw (trace_kw val (kwmode_of c) b kw)) as [k|] eqn:E2; [|discriminate H].
  injection H as <- <-. unfold BindingShell.binder_eval.
  rewrite (sequence_ok _ _ E1), (sequence_kw_ok _ _ E2). reflexivity. Qed.
Lemma binder_eval_raise c b args kw : run_binder val c b args kw = RaiseType ->
  exists e, binder_eval (posmode_of c) (kwmode_of c) b args kw = inr e.
Proof. unfold run_binder. rewrite run_pos_trace, run_kw_trace. intros H. unfold BindingShell.binder_eval.
  destruct (sequence (trace_pos val (posmode_of c) b args)) as [a|] eqn:E1.
  - destruct (sequence_kw (trace_kw val (kwmode_of c) b kw)) as [k|] eqn:E2; [discriminate H|].
    destruct (sequence_kw_raise _ E2) as [k Hk]. destruct (eval_kws_none _ k Hk) as [e He].
    destruct (eval_seq _) as [ua|e']; [|exists e'; reflexivity]. rewrite He. exists e. reflexivity.
  - destruct (eval_seq_none _ (sequence_raise _ E1)) as [e He]. rewrite He. exists e. reflexivity. Qed.
Lemma binder_eval_error pm km b args kw e : binder_eval pm km b args kw = inr e -> e = type_error \/ raised_by_um e.
Proof. unfold BindingShell.binder_eval. destruct (eval_seq _) as [ua|e1] eqn:E1.
  - destruct (eval_kws _) as [uk|e2] eqn:E2; intros H; [discriminate H|]. injection H as <-. exact (eval_kws_error _ _ E2).
  - intros H. injection H as <-. exact (eval_seq_error _ _ E1). Qed.

(* shape: what reaches the callable has as many positionals and the same keyword names *)
Lemma binder_eval_shape c s args kw ua uk :
  binder_eval (posmode_of c) (kwmode_of c) (get_binding s) args kw = inl (ua, uk) ->
  length ua = length args /\ map fst uk = map fst kw.
Proof. intros H. destruct (run_binder val c (get_binding s) args kw) as [[ea ek]|] eqn:Er.
  - rewrite (binder_eval_ok _ _ _ _ _ _ Er) in H. destruct (shape val c s args kw ea ek Er) as [H1 H2].
    destruct (eval_seq (map Some ea)) as [a|] eqn:E1; [|discriminate H].
    destruct (eval_kws _) as [k|] eqn:E2; [|discriminate H]. injection H as <- <-.
    rewrite (eval_seq_length _ _ E1), map_length, H1. rewrite (eval_kws_keys _ _ E2), map_map. cbn [fst]. split; [reflexivity|exact H2].
  - destruct (binder_eval_raise _ _ _ _ Er) as [e He]. rewrite He in H. discriminate H. Qed.

Section Calls.
Variable R : Type.
Notation callable := (callable val E R).
Notation shell_call := (shell_call val E type_error um key_val R).
Notation bind := (bind val E type_error um key_val R).
Notation wrap_fn := (wrap_fn val E type_error um key_val R).

(* For every callable f, well-formed signature and call the interpreter can bind: the shell calls f on
   the arguments converted per their own parameter (or raises the first conversion error, in call order) *)
Theorem shell_call_converts rows s c (f : callable) args kw r :
  wfb s = true -> matrix_ok rows = true -> matrix_lookup rows (truth_of s) = Some c ->
  conv_call s args kw = Some r ->
  shell_call c (get_binding s) f args kw = match r with inl (ua, uk) => f ua uk | inr e => Raise e end.
Proof. intros Hwf Hm Hc Hr. unfold BindingShell.conv_call in Hr.
  destruct (expected_pos val s args) as [ea|] eqn:Ea; [|discriminate Hr].
  destruct (expected_kw val s kw) as [ek|] eqn:Ek; [|discriminate Hr]. injection Hr as <-.
  pose proof (converts val rows s args kw ea ek Hwf Hm Ea Ek) as Hb. unfold bound_call in Hb. rewrite Hc in Hb.
  unfold BindingShell.shell_call. rewrite (binder_eval_ok _ _ _ _ _ _ Hb).
  destruct (eval_seq (map Some ea)) as [ua|e]; [|reflexivity].
  destruct (eval_kws _) as [uk|e]; reflexivity. Qed.

(* whatever the call: an exception of the shell itself is TypeError or an unmarshaller's; otherwise f is
   called with the same number of positionals and the same keyword names in the same order *)
Theorem shell_call_cases c s (f : callable) args kw :
  (exists e, shell_call c (get_binding s) f args kw = Raise e /\ (e = type_error \/ raised_by_um e)) \/
  (exists ua uk, shell_call c (get_binding s) f args kw = f ua uk /\ length ua = length args /\ map fst uk = map fst kw).
Proof. unfold BindingShell.shell_call.
  destruct (binder_eval (posmode_of c) (kwmode_of c) (get_binding s) args kw) as [[ua uk]|e] eqn:Eb.
  - right. exists ua, uk. split; [reflexivity|]. exact (binder_eval_shape c s args kw ua uk Eb).
  - left. exists e. split; [reflexivity|]. exact (binder_eval_error _ _ _ _ _ _ Eb). Qed.

Theorem bind_converts rows s (f : callable) args kw r :
  wfb s = true -> matrix_ok rows = true ->
  conv_call s args kw = Some r ->
  exists g, bind rows s f = Some g /\
            g args kw = match r with inl (ua, uk) => f ua uk | inr e => Raise e end.
Proof. intros Hwf Hm Hr. destruct (matrix_ok_lookup rows (truth_of s) Hm) as [c [Hc _]].
  unfold BindingShell.bind. rewrite Hc. eexists. split; [reflexivity|].
  exact (shell_call_converts rows s c f args kw r Hwf Hm Hc Hr). Qed.
Theorem wrap_converts rows s (f : callable) args kw r :
  wfb s = true -> matrix_ok rows = true ->
  conv_call s args kw = Some r ->
  exists g, wrap_fn rows s f = Some g /\
            g args kw = match r with inl (ua, uk) => f ua uk | inr e => Raise e end.
Proof. intros Hwf Hm Hr. destruct (matrix_ok_lookup rows (truth_of s) Hm) as [c [Hc _]].
  unfold BindingShell.wrap_fn. rewrite Hc. eexists. split; [reflexivity|].
  exact (shell_call_converts rows s c f args kw r Hwf Hm Hc Hr). Qed.
End Calls.
End ShellLemmas.

(* ---------- the interpreter's call rule ---------- *)
Definition is_some {A} (o : option A) : bool := match o with Some _ => true | None => false end.

Lemma index_where_none_iff f (l : sig) i : index_where f l i = None <-> existsb f l = false.
Proof. revert i. induction l as [|p l IH]; intros i; cbn [index_where existsb]; [tauto|].
  destruct (f p); cbn [orb]; [split; intros H; discriminate H|apply IH]. Qed.

Section CallRule.
Variables (val E : Type) (type_error : E) (um : nat -> val -> val + E) (key_val : nat -> val).
Notation cv := (cv val).
Notation eval_seq := (eval_seq val E type_error um key_val).
Notation eval_kws := (eval_kws val E type_error um key_val).
Notation conv_call := (conv_call val E type_error um key_val).
Notation conv_frame := (conv_frame val E um).
Notation conv_slot := (conv_slot val E um).
Notation conv_list := (conv_list val E um).
Notation conv_kwlist := (conv_kwlist val E um).
Notation kw_find := (kw_find val).
Notation bind_params := (bind_params val).
Notation py_bind := (py_bind val).
Notation kw_accepted := (kw_accepted val).
Notation exp_pos_suffix := (exp_pos_suffix val).

(* -- acceptance depends on the shape of the call only -- *)
Lemma kw_find_keys k (kw kw' : list (nat * val)) : map fst kw = map fst kw' ->
  is_some (kw_find k kw) = is_some (kw_find k kw').
Proof. revert kw'. induction kw as [|[a v] kw IH]; intros [|[a' v'] kw'] H; cbn [map fst] in H; try discriminate H; [reflexivity|].
  injection H as <- H. cbn [BindingShell.kw_find]. destruct (Nat.eqb k a); [reflexivity|apply IH; exact H]. Qed.
Lemma ocons_some (a : option (slot val)) (r : option (frame val)) :
  @is_some (frame val) (ocons a r) = is_some a && is_some r.
Proof. destruct a, r; reflexivity. Qed.
Lemma kw_or_default_keys def p i (kw kw' : list (nat * val)) : map fst kw = map fst kw' ->
  is_some (kw_or_default val def p i kw) = is_some (kw_or_default val def p i kw').
Proof. intros H. unfold kw_or_default. pose proof (kw_find_keys (pname p) kw kw' H) as Hk.
  destruct (kw_find (pname p) kw), (kw_find (pname p) kw'); cbn in Hk; try discriminate Hk; reflexivity. Qed.

Lemma bind_params_shape def sall s i (args args' : list val) kw kw' :
  length args = length args' -> map fst kw = map fst kw' ->
  is_some (bind_params def sall s i args kw) = is_some (bind_params def sall s i args' kw').
Proof. intros Hl Hk. revert i args args' Hl. induction s as [|p r IH]; intros i args args' Hl; cbn [BindingShell.bind_params].
  - destruct args, args'; cbn [length] in Hl; try discriminate Hl; reflexivity.
  - destruct (pkind p).
    + destruct args as [|a args], args' as [|a' args']; cbn [length] in Hl; try discriminate Hl; rewrite !ocons_some.
      * rewrite (IH (S i) [] [] eq_refl). reflexivity.
      * injection Hl as Hl. rewrite (IH (S i) args args' Hl). reflexivity.
    + destruct args as [|a args], args' as [|a' args']; cbn [length] in Hl; try discriminate Hl.
      * rewrite !ocons_some, (IH (S i) [] [] eq_refl), (kw_or_default_keys def p i kw kw' Hk). reflexivity.
      * injection Hl as Hl. pose proof (kw_find_keys (pname p) kw kw' Hk) as Hf.
        destruct (kw_find (pname p) kw), (kw_find (pname p) kw'); cbn in Hf; try discriminate Hf; [reflexivity|].
        rewrite !ocons_some, (IH (S i) args args' Hl). reflexivity.
    + rewrite !ocons_some, (IH (S i) [] [] eq_refl). reflexivity.
    + destruct args as [|a args], args' as [|a' args']; cbn [length] in Hl; try discriminate Hl; [|reflexivity].
      rewrite !ocons_some, (IH (S i) [] [] eq_refl), (kw_or_default_keys def p i kw kw' Hk). reflexivity.
    + destruct args as [|a args], args' as [|a' args']; cbn [length] in Hl; try discriminate Hl; [|reflexivity].
      rewrite !ocons_some, (IH (S i) [] [] eq_refl). reflexivity. Qed.

Lemma kw_accepted_keys s (kw kw' : list (nat * val)) : map fst kw = map fst kw' -> kw_accepted s kw = kw_accepted s kw'.
Proof. intros H. unfold BindingShell.kw_accepted. f_equal. revert kw' H.
  induction kw as [|[a v] kw IH]; intros [|[a' v'] kw'] H; cbn [map fst] in H; try discriminate H; [reflexivity|].
  injection H as <- H. cbn [forallb fst]. rewrite (IH kw' H). reflexivity. Qed.
End CallRule.

Section CallRule2.
Variables (val E : Type) (type_error : E) (um : nat -> val -> val + E) (key_val : nat -> val).
Notation cv := (cv val).
Notation eval_seq := (eval_seq val E type_error um key_val).
Notation eval_kws := (eval_kws val E type_error um key_val).
Notation conv_call := (conv_call val E type_error um key_val).
Notation conv_frame := (conv_frame val E um).
Notation conv_slot := (conv_slot val E um).
Notation conv_list := (conv_list val E um).
Notation conv_kwlist := (conv_kwlist val E um).
Notation kw_find := (kw_find val).
Notation bind_params := (bind_params val).
Notation py_bind := (py_bind val).
Notation kw_accepted := (kw_accepted val).
Notation exp_pos_suffix := (exp_pos_suffix val).
Notation convi := (fun iv : nat * val => Conv (fst iv) (snd iv)).

(* -- the recursive reading of positional binding is Binding.expected_pos on well-formed signatures -- *)
Definition pos_kind (p : param) : Prop := pkind p = PO \/ pkind p = PK.

Lemma exp_pos_prefix (l rest : sig) i (args : list val) : Forall pos_kind l ->
  exp_pos_suffix (l ++ rest) i args =
  if length args <=? length l then Some (map convi (combine (seq i (length args)) args))
  else match exp_pos_suffix rest (i + length l) (skipn (length l) args) with
       | Some t => Some (map convi (combine (seq i (length l)) (firstn (length l) args)) ++ t)
       | None => None end.
Proof. intros Hl. revert i args. induction l as [|p l IH]; intros i args.
  - cbn [app length]. destruct args as [|a args]; [reflexivity|]. cbn [length Nat.leb skipn firstn seq combine map app].
    rewrite Nat.add_0_r. destruct (exp_pos_suffix rest i (a :: args)); reflexivity.
  - apply Forall_cons_iff in Hl. destruct Hl as [Hp Hl]. destruct args as [|a args]; [reflexivity|].
    assert (Hstep : exp_pos_suffix ((p :: l) ++ rest) i (a :: args) =
                    match exp_pos_suffix (l ++ rest) (S i) args with Some t => Some (Conv i a :: t) | None => None end).
    { cbn [app BindingShell.exp_pos_suffix]. destruct Hp as [-> | ->]; reflexivity. }
    rewrite Hstep. rewrite (IH Hl (S i) args). cbn [length].
    change (S (length args) <=? S (length l)) with (length args <=? length l).
    destruct (length args <=? length l).
    + reflexivity.
    + cbn [skipn firstn seq combine map app fst snd]. replace (S i + length l) with (i + S (length l)) by lia.
      destruct (exp_pos_suffix rest (i + S (length l)) (skipn (length l) args)); reflexivity. Qed.

Lemma exp_pos_suffix_wf s (args : list val) : wfb s = true -> exp_pos_suffix s 0 args = expected_pos val s args.
Proof. intros Hwf. pose (S := wfb_segs s Hwf). unfold expected_pos.
  rewrite (vp_index s S), (has_k s S VP), (npos_segs s S).
  assert (Hpp : Forall pos_kind (s_po s S ++ s_pk s S)).
  { apply Forall_app. split.
    - eapply Forall_impl; [|exact (s_po_k s S)]. intros p Hp. left. exact Hp.
    - eapply Forall_impl; [|exact (s_pk_k s S)]. intros p Hp. right. exact Hp. }
  rewrite (s_eq s S) at 1. rewrite app_assoc.
  rewrite (exp_pos_prefix _ _ 0 args Hpp). rewrite app_length. cbn [Nat.add].
  destruct (length args <=? length (s_po s S) + length (s_pk s S)) eqn:Hlen; [reflexivity|].
  apply Nat.leb_gt in Hlen.
  destruct (skipn (length (s_po s S) + length (s_pk s S)) args) as [|a rest] eqn:Hs.
  { exfalso. revert Hs. apply skipn_nonempty. exact Hlen. }
  destruct (s_vp s S) as [|v vl] eqn:Ev; cbn [nonempty negb app].
  - (* no *args: the next parameter, if any, is keyword-only or var-keyword *)
    assert (Hn : exp_pos_suffix (s_ko s S ++ s_vk s S) (length (s_po s S) + length (s_pk s S)) (a :: rest) = None).
    { destruct (s_ko s S) as [|q ql] eqn:Eko; cbn [app].
      - destruct (s_vk s S) as [|q ql] eqn:Evk; [reflexivity|]. cbn [BindingShell.exp_pos_suffix].
        pose proof (s_vk_k s S) as A. rewrite Evk in A. apply Forall_cons_iff in A. destruct A as [-> _]. reflexivity.
      - cbn [BindingShell.exp_pos_suffix].
        pose proof (s_ko_k s S) as A. rewrite Eko in A. apply Forall_cons_iff in A. destruct A as [-> _]. reflexivity. }
    rewrite Hn. reflexivity.
  - cbn [BindingShell.exp_pos_suffix]. pose proof (s_vp_k s S) as A. rewrite Ev in A. apply Forall_cons_iff in A.
    destruct A as [-> _]. reflexivity. Qed.

(* -- a call the interpreter accepts is a call the specification can bind -- *)
Lemma bind_params_exp_pos def sall r i (args : list val) kw fr :
  bind_params def sall r i args kw = Some fr -> exists ea, exp_pos_suffix r i args = Some ea.
Proof. revert i args fr. induction r as [|p r IH]; intros i args fr H; cbn [BindingShell.bind_params] in H.
  - destruct args; [exists []; reflexivity|discriminate H].
  - destruct args as [|a args]; [exists []; reflexivity|]. cbn [BindingShell.exp_pos_suffix].
    destruct (pkind p).
    + destruct (bind_params def sall r (S i) args kw) as [fr0|] eqn:E0; [|discriminate H].
      destruct (IH _ _ _ E0) as [ea Hea]. rewrite Hea. eexists; reflexivity.
    + destruct (kw_find (pname p) kw); [discriminate H|].
      destruct (bind_params def sall r (S i) args kw) as [fr0|] eqn:E0; [|discriminate H].
      destruct (IH _ _ _ E0) as [ea Hea]. rewrite Hea. eexists; reflexivity.
    + eexists; reflexivity.
    + discriminate H.
    + discriminate H. Qed.

Definition owner (s : sig) (k : nat) : option nat :=
  match named_index s k with Some i => Some i | None => index_where (is_k VK) s 0 end.
Lemma expected_kw1_owner s k (v : val) :
  expected_kw1 val s k v = match owner s k with Some i => Some (Conv i v) | None => None end.
Proof. unfold expected_kw1, owner. destruct (named_index s k); [reflexivity|].
  destruct (index_where (is_k VK) s 0); reflexivity. Qed.
Lemma named_index_named s k : named_index s k = None <-> named s k = false.
Proof. unfold named_index, named. apply index_where_none_iff. Qed.

Lemma kw_accepted_expected s (kw : list (nat * val)) : kw_accepted s kw = true -> exists ek, expected_kw val s kw = Some ek.
Proof. unfold BindingShell.kw_accepted. intros H. induction kw as [|[k v] kw IH]; [exists []; reflexivity|].
  cbn [expected_kw].
  assert (Hk : exists i, owner s k = Some i).
  { unfold owner. destruct (named_index s k) as [i|] eqn:En; [exists i; reflexivity|].
    apply named_index_named in En. destruct (has VK s) eqn:Hv.
    - destruct (index_where (is_k VK) s 0) as [j|] eqn:Ej; [exists j; reflexivity|].
      apply index_where_none_iff in Ej. unfold has in Hv. rewrite Hv in Ej. discriminate Ej.
    - cbn [orb forallb fst] in H. rewrite En in H. discriminate H. }
  destruct Hk as [i Hi]. rewrite expected_kw1_owner, Hi.
  assert (H' : has VK s || forallb (fun kv : nat * val => named s (fst kv)) kw = true).
  { destruct (has VK s); [reflexivity|]. cbn [orb forallb] in H |- *. apply andb_true_iff in H. tauto. }
  destruct (IH H') as [ek Hek]. rewrite Hek. eexists; reflexivity. Qed.

(* -- naturality: converting each passed value by its owner commutes with the interpreter's binding -- *)
(* uk is kw with every value converted by the parameter the keyword binds to *)
Definition kw_rel (s : sig) (kw uk : list (nat * val)) : Prop :=
  Forall2 (fun kv ku => fst kv = fst ku /\ exists i, owner s (fst kv) = Some i /\ um i (snd kv) = inl (snd ku)) kw uk.

Lemma kw_rel_spec s kw ek uk : expected_kw val s kw = Some ek ->
  eval_kws (map (fun kc => (fst kc, Some (snd kc))) ek) = inl uk -> kw_rel s kw uk.
Proof. revert ek uk. induction kw as [|[k v] kw IH]; intros ek uk He Hu; cbn [expected_kw] in He.
  - injection He as <-. cbn in Hu. injection Hu as <-. constructor.
  - rewrite expected_kw1_owner in He. destruct (owner s k) as [i|] eqn:Eo; [|discriminate He].
    destruct (expected_kw val s kw) as [t|] eqn:Et; [|discriminate He]. injection He as <-.
    cbn [map fst snd BindingShell.eval_kws BindingShell.eval_cv] in Hu.
    destruct (um i v) as [u|] eqn:Eu; [|discriminate Hu].
    destruct (eval_kws (map (fun kc => (fst kc, Some (snd kc))) t)) as [ut|] eqn:Eut; [|discriminate Hu].
    injection Hu as <-. constructor.
    + cbn [fst snd]. split; [reflexivity|]. exists i. split; assumption.
    + apply (IH t ut eq_refl Eut). Qed.

Lemma kw_rel_keys s kw uk : kw_rel s kw uk -> map fst kw = map fst uk.
Proof. induction 1 as [|kv ku kw uk [Hk _] _ IH]; [reflexivity|]. cbn [map]. rewrite Hk, IH. reflexivity. Qed.
Lemma kw_rel_find s kw uk k : kw_rel s kw uk ->
  match kw_find k kw with
  | Some v => exists u i, kw_find k uk = Some u /\ owner s k = Some i /\ um i v = inl u
  | None => kw_find k uk = None end.
Proof. induction 1 as [|[k1 v1] [k2 u2] kw uk [Hk [i [Ho Hu]]] _ IH]; [reflexivity|].
  cbn [fst snd] in *. subst k2. cbn [BindingShell.kw_find]. destruct (Nat.eqb k k1) eqn:Ek; [|exact IH].
  apply Nat.eqb_eq in Ek. subst k1. exists u2, i. repeat split; assumption. Qed.
Lemma kw_rel_filter s kw uk j : kw_rel s kw uk -> index_where (is_k VK) s 0 = Some j ->
  conv_kwlist j (filter (fun kv => negb (named s (fst kv))) kw) = inl (filter (fun kv => negb (named s (fst kv))) uk).
Proof. intros H Hj. induction H as [|[k1 v1] [k2 u2] kw uk [Hk [i [Ho Hu]]] _ IH]; [reflexivity|].
  cbn [fst snd] in *. subst k2. cbn [filter fst]. destruct (named s k1) eqn:En; cbn [negb]; [exact IH|].
  cbn [BindingShell.conv_kwlist]. unfold owner in Ho. apply named_index_named in En. rewrite En, Hj in Ho.
  injection Ho as <-. rewrite Hu, IH. reflexivity. Qed.

Lemma conv_list_eval j (l : list val) : eval_seq (map Some (map (Conv j) l)) = conv_list j l.
Proof. induction l as [|v l IH]; [reflexivity|]. cbn [map BindingShell.eval_seq BindingShell.eval_cv BindingShell.conv_list].
  rewrite IH. reflexivity. Qed.

Section Natural.
Variable def : nat -> option val.
Variable sall : sig.
(* a keyword-capable parameter is found under its own name at its own index; the var-keyword
   parameter is the first (only) one of its kind *)
Hypothesis H_named : forall pre p r, sall = pre ++ p :: r -> kw_capable p = true ->
  named_index sall (pname p) = Some (length pre).
Hypothesis H_vk : forall pre p r, sall = pre ++ p :: r -> pkind p = VK ->
  index_where (is_k VK) sall 0 = Some (length pre).

Lemma kw_or_default_natural pre p r kw uk sl : sall = pre ++ p :: r -> kw_capable p = true -> kw_rel sall kw uk ->
  kw_or_default val def p (length pre) kw = Some sl ->
  exists sl', conv_slot (length pre) sl = inl sl' /\ kw_or_default val def p (length pre) uk = Some sl'.
Proof. intros Hs Hc Hr H. unfold kw_or_default in *. pose proof (kw_rel_find sall kw uk (pname p) Hr) as Hf.
  destruct (kw_find (pname p) kw) as [v|].
  - destruct Hf as [u [i [Hu [Ho Hi]]]]. injection H as <-. unfold owner in Ho. rewrite (H_named pre p r Hs Hc) in Ho.
    injection Ho as <-. exists (SArg u). cbn [BindingShell.conv_slot]. rewrite Hi, Hu. split; reflexivity.
  - rewrite Hf. destruct (def (length pre)) as [d|]; [|discriminate H]. injection H as <-.
    exists (SDefault d). split; reflexivity. Qed.

Lemma bind_params_natural r : forall pre args kw uk fr ea ua,
  sall = pre ++ r -> kw_rel sall kw uk ->
  bind_params def sall r (length pre) args kw = Some fr ->
  exp_pos_suffix r (length pre) args = Some ea -> eval_seq (map Some ea) = inl ua ->
  exists fr', conv_frame (length pre) fr = inl fr' /\ bind_params def sall r (length pre) ua uk = Some fr'.
Proof. induction r as [|p r IH]; intros pre args kw uk fr ea ua Hs Hr Hb He Hu; cbn [BindingShell.bind_params] in Hb.
  - destruct args; [|discriminate Hb]. injection Hb as <-. cbn in He. injection He as <-. cbn in Hu. injection Hu as <-.
    exists []. split; reflexivity.
  - assert (Hs' : sall = (pre ++ [p]) ++ r) by (rewrite <- app_assoc; exact Hs).
    assert (Hl' : length (pre ++ [p]) = S (length pre)) by (rewrite app_length; cbn; lia).
    specialize (IH (pre ++ [p])). rewrite Hl' in IH.
    destruct (pkind p) eqn:Ek.
    + (* positional-only *)
      destruct args as [|a args].
      * cbn in He. injection He as <-. cbn in Hu. injection Hu as <-.
        destruct (def (length pre)) as [d|] eqn:Ed; [|discriminate Hb].
        destruct (bind_params def sall r (S (length pre)) [] kw) as [fr0|] eqn:E0; [|discriminate Hb]. injection Hb as <-.
        destruct (IH [] kw uk fr0 [] [] Hs' Hr E0 eq_refl eq_refl) as [fr' [Hc Hb']].
        exists (SDefault d :: fr'). cbn [BindingShell.conv_frame BindingShell.conv_slot BindingShell.bind_params].
        rewrite Hc, Ek, Ed, Hb'. split; reflexivity.
      * destruct (bind_params def sall r (S (length pre)) args kw) as [fr0|] eqn:E0; [|discriminate Hb]. injection Hb as <-.
        cbn [BindingShell.exp_pos_suffix] in He. rewrite Ek in He.
        destruct (exp_pos_suffix r (S (length pre)) args) as [ea0|] eqn:Ee; [|discriminate He]. injection He as <-.
        cbn [map BindingShell.eval_seq BindingShell.eval_cv] in Hu. destruct (um (length pre) a) as [u|] eqn:Eu; [|discriminate Hu].
        destruct (eval_seq (map Some ea0)) as [ua0|] eqn:Eua; [|discriminate Hu]. injection Hu as <-.
        destruct (IH args kw uk fr0 ea0 ua0 Hs' Hr E0 Ee Eua) as [fr' [Hc Hb']].
        exists (SArg u :: fr'). cbn [BindingShell.conv_frame BindingShell.conv_slot BindingShell.bind_params].
        rewrite Eu, Hc, Ek, Hb'. split; reflexivity.
    + (* positional-or-keyword *)
      assert (Hcap : kw_capable p = true) by (unfold kw_capable, is_k; rewrite Ek; reflexivity).
      destruct args as [|a args].
      * cbn in He. injection He as <-. cbn in Hu. injection Hu as <-.
        destruct (kw_or_default val def p (length pre) kw) as [sl|] eqn:Ekd; [|discriminate Hb].
        destruct (bind_params def sall r (S (length pre)) [] kw) as [fr0|] eqn:E0; [|discriminate Hb]. injection Hb as <-.
        destruct (IH [] kw uk fr0 [] [] Hs' Hr E0 eq_refl eq_refl) as [fr' [Hc Hb']].
        destruct (kw_or_default_natural pre p r kw uk sl Hs Hcap Hr Ekd) as [sl' [Hsl Hkd']].
        exists (sl' :: fr'). cbn [BindingShell.conv_frame BindingShell.bind_params].
        rewrite Hsl, Hc, Ek, Hkd', Hb'. split; reflexivity.
      * pose proof (kw_rel_find sall kw uk (pname p) Hr) as Hf.
        destruct (kw_find (pname p) kw); [discriminate Hb|].
        destruct (bind_params def sall r (S (length pre)) args kw) as [fr0|] eqn:E0; [|discriminate Hb]. injection Hb as <-.
        cbn [BindingShell.exp_pos_suffix] in He. rewrite Ek in He.
        destruct (exp_pos_suffix r (S (length pre)) args) as [ea0|] eqn:Ee; [|discriminate He]. injection He as <-.
        cbn [map BindingShell.eval_seq BindingShell.eval_cv] in Hu. destruct (um (length pre) a) as [u|] eqn:Eu; [|discriminate Hu].
        destruct (eval_seq (map Some ea0)) as [ua0|] eqn:Eua; [|discriminate Hu]. injection Hu as <-.
        destruct (IH args kw uk fr0 ea0 ua0 Hs' Hr E0 Ee Eua) as [fr' [Hc Hb']].
        exists (SArg u :: fr'). cbn [BindingShell.conv_frame BindingShell.conv_slot BindingShell.bind_params].
        rewrite Eu, Hc, Ek, Hf, Hb'. split; reflexivity.
    + (* var-positional: takes every remaining positional *)
      destruct (bind_params def sall r (S (length pre)) [] kw) as [fr0|] eqn:E0; [|discriminate Hb]. injection Hb as <-.
      assert (Hea : ea = map (Conv (length pre)) args).
      { destruct args as [|a args]; cbn [BindingShell.exp_pos_suffix] in He; [injection He as <-; reflexivity|].
        rewrite Ek in He. injection He as <-. reflexivity. }
      subst ea. rewrite conv_list_eval in Hu.
      destruct (IH [] kw uk fr0 [] [] Hs' Hr E0 eq_refl eq_refl) as [fr' [Hc Hb']].
      exists (SVarPos ua :: fr'). cbn [BindingShell.conv_frame BindingShell.conv_slot BindingShell.bind_params].
      rewrite Hu, Hc, Ek, Hb'. split; reflexivity.
    + (* keyword-only *)
      assert (Hcap : kw_capable p = true) by (unfold kw_capable, is_k; rewrite Ek; destruct (kind_eqb KO PK); reflexivity).
      destruct args as [|a args]; [|discriminate Hb].
      cbn in He. injection He as <-. cbn in Hu. injection Hu as <-.
      destruct (kw_or_default val def p (length pre) kw) as [sl|] eqn:Ekd; [|discriminate Hb].
      destruct (bind_params def sall r (S (length pre)) [] kw) as [fr0|] eqn:E0; [|discriminate Hb]. injection Hb as <-.
      destruct (IH [] kw uk fr0 [] [] Hs' Hr E0 eq_refl eq_refl) as [fr' [Hc Hb']].
      destruct (kw_or_default_natural pre p r kw uk sl Hs Hcap Hr Ekd) as [sl' [Hsl Hkd']].
      exists (sl' :: fr'). cbn [BindingShell.conv_frame BindingShell.bind_params].
      rewrite Hsl, Hc, Ek, Hkd', Hb'. split; reflexivity.
    + (* var-keyword: takes every keyword no parameter is named like *)
      destruct args as [|a args]; [|discriminate Hb].
      cbn in He. injection He as <-. cbn in Hu. injection Hu as <-.
      destruct (bind_params def sall r (S (length pre)) [] kw) as [fr0|] eqn:E0; [|discriminate Hb]. injection Hb as <-.
      destruct (IH [] kw uk fr0 [] [] Hs' Hr E0 eq_refl eq_refl) as [fr' [Hc Hb']].
      exists (SVarKw (filter (fun kv => negb (named sall (fst kv))) uk) :: fr').
      cbn [BindingShell.conv_frame BindingShell.conv_slot BindingShell.bind_params].
      rewrite (kw_rel_filter sall kw uk (length pre) Hr (H_vk pre p r Hs Ek)), Hc, Ek, Hb'. split; reflexivity.
Qed.
End Natural.
End CallRule2.

(* -- discharging the two hypotheses of naturality -- *)
Lemma distinct_names_app pre p r : distinct_names (pre ++ p :: r) = true -> forall q, In q pre -> Nat.eqb (pname q) (pname p) = false.
Proof. induction pre as [|q0 pre IH]; intros H q Hq; [destruct Hq|]. cbn [app distinct_names] in H.
  apply andb_true_iff in H. destruct H as [H1 H2]. destruct Hq as [<-|Hq]; [|exact (IH H2 q Hq)].
  apply negb_true_iff in H1. destruct (Nat.eqb (pname q0) (pname p)) eqn:Eq; [|reflexivity].
  exfalso. assert (X : existsb (fun q => Nat.eqb (pname q) (pname q0)) (pre ++ p :: r) = true).
  { apply existsb_exists. exists p. split; [apply in_or_app; right; left; reflexivity|].
    rewrite Nat.eqb_sym. exact Eq. }
  rewrite X in H1. discriminate H1. Qed.

Lemma named_index_own sall pre p r : distinct_names sall = true -> sall = pre ++ p :: r -> kw_capable p = true ->
  named_index sall (pname p) = Some (length pre).
Proof. intros Hd Hs Hc. subst sall. unfold named_index.
  rewrite index_where_skip.
  - cbn [index_where]. rewrite Hc, Nat.eqb_refl. reflexivity.
  - intros q Hq. rewrite (distinct_names_app pre p r Hd q Hq). apply andb_false_r. Qed.

Lemma index_where_le f (pre : sig) p r i : f p = true -> exists j, index_where f (pre ++ p :: r) i = Some j /\ j <= i + length pre.
Proof. intros Hp. revert i. induction pre as [|q pre IH]; intros i; cbn [app index_where length].
  - rewrite Hp. exists i. split; [reflexivity|lia].
  - destruct (f q); [exists i; split; [reflexivity|lia]|]. destruct (IH (S i)) as [j [Hj Hle]]. exists j. split; [exact Hj|lia]. Qed.

Lemma vk_index_own sall pre p r : wfb sall = true -> sall = pre ++ p :: r -> pkind p = VK ->
  index_where (is_k VK) sall 0 = Some (length pre).
Proof. intros Hwf Hs Hk. pose (S := wfb_segs sall Hwf). pose proof (vk_index sall S) as Hv.
  assert (Hp : is_k VK p = true) by (apply is_k_eq; exact Hk).
  assert (Hh : has VK sall = true).
  { unfold has. apply existsb_exists. exists p. split; [rewrite Hs; apply in_or_app; right; left; reflexivity|exact Hp]. }
  rewrite Hh in Hv. destruct (index_where_le (is_k VK) pre p r 0 Hp) as [j [Hj Hle]].
  rewrite <- Hs in Hj. rewrite Hj in Hv. injection Hv as Hv.
  assert (Hlen : length sall = length pre + Datatypes.S (length r)) by (rewrite Hs, app_length; reflexivity).
  rewrite Hj. f_equal. lia. Qed.

Section Frames.
Variables (val E : Type) (type_error : E) (um : nat -> val -> val + E) (key_val : nat -> val) (R : Type).
Notation conv_call := (conv_call val E type_error um key_val).
Notation conv_frame := (conv_frame val E um).
Notation py_bind := (py_bind val).
Notation shell_call := (shell_call val E type_error um key_val R).
Notation call_fn := (@call_fn val E type_error R).
Notation raised_by_um := (raised_by_um val E um).

Lemma py_bind_shape def s (args args' : list val) kw kw' :
  length args = length args' -> map fst kw = map fst kw' ->
  is_some (py_bind def s args kw) = is_some (py_bind def s args' kw').
Proof. intros Hl Hk. unfold BindingShell.py_bind. rewrite (kw_accepted_keys val s kw kw' Hk).
  destruct (kw_accepted val s kw'); [|reflexivity]. apply bind_params_shape; assumption. Qed.

(* END TO END, a call the interpreter accepts.  The raw call binds to frame fr.  Then the specification can
   bind it (conv_call is defined); if a conversion fails, the first failure in call order is raised and
   the body never runs; otherwise the body runs on the frame in which every passed value is converted by
   its own parameter's unmarshaller, defaults untouched -- and that frame is what the interpreter binds
   the converted call to. *)
Theorem shell_frame_accepts rows (pf : pyfun val E R) c args kw fr :
  wfb (f_sig pf) = true -> distinct_names (f_sig pf) = true ->
  matrix_ok rows = true -> matrix_lookup rows (truth_of (f_sig pf)) = Some c ->
  py_bind (f_def pf) (f_sig pf) args kw = Some fr ->
  exists r, conv_call (f_sig pf) args kw = Some r /\
    match r with
    | inr e => shell_call c (get_binding (f_sig pf)) (call_fn pf) args kw = Raise e
    | inl (ua, uk) => exists fr', conv_frame 0 fr = inl fr' /\ py_bind (f_def pf) (f_sig pf) ua uk = Some fr' /\
                                  shell_call c (get_binding (f_sig pf)) (call_fn pf) args kw = f_body pf fr'
    end.
Proof. intros Hwf Hd Hm Hc Hb. set (s := f_sig pf) in *. unfold BindingShell.py_bind in Hb.
  destruct (kw_accepted val s kw) eqn:Hka; [|discriminate Hb].
  destruct (bind_params_exp_pos val (f_def pf) s s 0 args kw fr Hb) as [ea Hea].
  destruct (kw_accepted_expected val E um key_val s kw Hka) as [ek Hek].
  pose proof Hea as Hea'. rewrite (exp_pos_suffix_wf val s args Hwf) in Hea'.
  assert (Hcc : exists r, conv_call s args kw = Some r).
  { unfold BindingShell.conv_call. rewrite Hea', Hek. eexists; reflexivity. }
  destruct Hcc as [r Hr]. exists r. split; [exact Hr|].
  pose proof (shell_call_converts val E type_error um key_val R rows s c (call_fn pf) args kw r Hwf Hm Hc Hr) as Hsc.
  unfold BindingShell.conv_call in Hr. rewrite Hea', Hek in Hr. injection Hr as Hr.
  destruct (eval_seq val E type_error um key_val (map Some ea)) as [ua|e] eqn:Eua.
  2:{ subst r. exact Hsc. }
  destruct (eval_kws val E type_error um key_val (map (fun kc => (fst kc, Some (snd kc))) ek)) as [uk|e] eqn:Euk.
  2:{ subst r. exact Hsc. }
  subst r. pose proof (kw_rel_spec val E type_error um key_val s kw ek uk Hek Euk) as Hrel.
  destruct (bind_params_natural val E type_error um key_val (f_def pf) s
              (fun pre p r Hs Hcap => named_index_own s pre p r Hd Hs Hcap)
              (fun pre p r Hs Hk => vk_index_own s pre p r Hwf Hs Hk)
              s [] args kw uk fr ea ua eq_refl Hrel Hb Hea Eua) as [fr' [Hcf Hb']].
  cbn [length] in Hcf, Hb'. exists fr'. split; [exact Hcf|].
  assert (Hpb : py_bind (f_def pf) s ua uk = Some fr').
  { unfold BindingShell.py_bind. rewrite <- (kw_accepted_keys val s kw uk (kw_rel_keys val E um s kw uk Hrel)), Hka. exact Hb'. }
  split; [exact Hpb|]. rewrite Hsc. unfold BindingShell.call_fn. fold s. rewrite Hpb. reflexivity. Qed.

(* a call the interpreter rejects is rejected by the shell too: an exception, TypeError unless an
   unmarshaller raised first; the body never runs *)
Theorem shell_frame_rejects (pf : pyfun val E R) c args kw :
  py_bind (f_def pf) (f_sig pf) args kw = None ->
  exists e, shell_call c (get_binding (f_sig pf)) (call_fn pf) args kw = Raise e /\ (e = type_error \/ raised_by_um e).
Proof. intros Hb.
  destruct (shell_call_cases val E type_error um key_val R c (f_sig pf) (call_fn pf) args kw) as [[e [He Hc]]|[ua [uk [He [Hl Hk]]]]].
  - exists e. split; assumption.
  - exists type_error. split; [|left; reflexivity]. rewrite He. unfold BindingShell.call_fn.
    pose proof (py_bind_shape (f_def pf) (f_sig pf) ua args uk kw Hl Hk) as Hs. rewrite Hb in Hs.
    destruct (py_bind (f_def pf) (f_sig pf) ua uk); [discriminate Hs|reflexivity]. Qed.

(* when no unmarshaller raises: TypeError exactly *)
Corollary shell_frame_rejects_total (pf : pyfun val E R) c args kw :
  (forall p v, exists u, um p v = inl u) ->
  py_bind (f_def pf) (f_sig pf) args kw = None ->
  shell_call c (get_binding (f_sig pf)) (call_fn pf) args kw = Raise type_error.
Proof. intros Ht Hb. destruct (shell_frame_rejects pf c args kw Hb) as [e [He [->|[p [v Hv]]]]]; [exact He|].
  destruct (Ht p v) as [u Hu]. rewrite Hu in Hv. discriminate Hv. Qed.

(* the self parameter: wrap(cls) wraps __init__(self, ...); self is unannotated (NoOp): it reaches the body
   as it is, in the first slot *)
Theorem shell_frame_init rows (pf : pyfun val E R) self_name s c inst args kw fr :
  f_sig pf = init_sig self_name s -> (forall v, um 0 v = inl v) ->
  wfb (f_sig pf) = true -> distinct_names (f_sig pf) = true ->
  matrix_ok rows = true -> matrix_lookup rows (truth_of (f_sig pf)) = Some c ->
  py_bind (f_def pf) (f_sig pf) (inst :: args) kw = Some fr ->
  exists fr0, fr = SArg inst :: fr0 /\
  exists r, conv_call (f_sig pf) (inst :: args) kw = Some r /\
    match r with
    | inr e => shell_call c (get_binding (f_sig pf)) (call_fn pf) (inst :: args) kw = Raise e
    | inl _ => exists fr0', conv_frame 1 fr0 = inl fr0' /\
                            shell_call c (get_binding (f_sig pf)) (call_fn pf) (inst :: args) kw = f_body pf (SArg inst :: fr0')
    end.
Proof. intros Hsig Hnoop Hwf Hd Hm Hc Hb.
  assert (Hfr : exists fr0, fr = SArg inst :: fr0).
  { unfold BindingShell.py_bind in Hb. destruct (kw_accepted val (f_sig pf) kw); [|discriminate Hb].
    rewrite Hsig in Hb. unfold init_sig in Hb. cbn [BindingShell.bind_params self_param pkind] in Hb.
    destruct (has PO s).
    - destruct (bind_params val _ _ s 1 args kw) as [fr0|]; [|discriminate Hb]. injection Hb as <-. exists fr0. reflexivity.
    - destruct (kw_find val _ kw); [discriminate Hb|].
      destruct (bind_params val _ _ s 1 args kw) as [fr0|]; [|discriminate Hb]. injection Hb as <-. exists fr0. reflexivity. }
  destruct Hfr as [fr0 ->]. exists fr0. split; [reflexivity|].
  destruct (shell_frame_accepts rows pf c (inst :: args) kw _ Hwf Hd Hm Hc Hb) as [r [Hr Hres]].
  exists r. split; [exact Hr|]. destruct r as [[ua uk]|e]; [|exact Hres].
  destruct Hres as [fr' [Hcf [_ Hsc]]]. cbn [BindingShell.conv_frame BindingShell.conv_slot] in Hcf. rewrite Hnoop in Hcf.
  destruct (conv_frame 1 fr0) as [fr0'|]; [|discriminate Hcf]. injection Hcf as <-.
  exists fr0'. split; [reflexivity|exact Hsc]. Qed.
End Frames.

(* ---------- wrapping twice ---------- *)
Section Twice.
Variables (val E : Type) (type_error : E) (um : nat -> val -> val + E) (key_val : nat -> val) (R : Type).
Notation cv := (cv val).
Notation eval_cv := (eval_cv val E type_error um key_val).
Notation eval_seq := (eval_seq val E type_error um key_val).
Notation eval_kws := (eval_kws val E type_error um key_val).
Notation binder_eval := (binder_eval val E type_error um key_val).
Notation conv_call := (conv_call val E type_error um key_val).
Notation shell_call := (shell_call val E type_error um key_val R).
Notation callable := (callable val E R).

(* two layers = two conversions, each by the same parameter's unmarshaller *)
Theorem shell_call_twice rows s c (f : callable) args kw ua uk r2 :
  wfb s = true -> matrix_ok rows = true -> matrix_lookup rows (truth_of s) = Some c ->
  conv_call s args kw = Some (inl (ua, uk)) -> conv_call s ua uk = Some r2 ->
  shell_call c (get_binding s) (shell_call c (get_binding s) f) args kw =
  match r2 with inl (ua2, uk2) => f ua2 uk2 | inr e => Raise e end.
Proof. intros Hwf Hm Hc H1 H2.
  rewrite (shell_call_converts val E type_error um key_val R rows s c _ args kw _ Hwf Hm Hc H1).
  exact (shell_call_converts val E type_error um key_val R rows s c f ua uk r2 Hwf Hm Hc H2). Qed.

(* the second conversion is always defined: the specification's routing depends on the shape only *)
Lemma conv_call_shape s (args args' : list val) kw kw' r :
  conv_call s args kw = Some r -> length args' = length args -> map fst kw' = map fst kw ->
  exists r', conv_call s args' kw' = Some r'.
Proof. unfold BindingShell.conv_call. intros H Hl Hk.
  destruct (expected_pos val s args) as [ea|] eqn:Ea; [|discriminate H].
  destruct (expected_kw val s kw) as [ek|] eqn:Ek; [|discriminate H].
  assert (Ha' : exists ea', expected_pos val s args' = Some ea').
  { unfold expected_pos in *. rewrite Hl. destruct (length args <=? npos s); [eexists; reflexivity|].
    destruct (index_where (is_k VP) s 0); [eexists; reflexivity|discriminate Ea]. }
  assert (Hk' : exists ek', expected_kw val s kw' = Some ek').
  { clear H Ea. revert kw ek Ek Hk. induction kw' as [|[k v'] kw' IH]; intros kw ek Ek Hk; [exists []; reflexivity|].
    destruct kw as [|[k0 v] kw]; [discriminate Hk|]. cbn [map fst] in Hk. injection Hk as -> Hk.
    cbn [expected_kw] in *. rewrite expected_kw1_owner in *.
    destruct (owner s k0) as [i|]; [|discriminate Ek].
    destruct (expected_kw val s kw) as [t|] eqn:Et; [|discriminate Ek].
    destruct (IH kw t Et Hk) as [t' Ht']. rewrite Ht'. eexists; reflexivity. }
  destruct Ha' as [ea' ->]. destruct Hk' as [ek' ->]. eexists; reflexivity. Qed.

(* idempotent unmarshallers: a value an unmarshaller returned is returned unchanged by that unmarshaller *)
Definition um_idem : Prop := forall p v u, um p v = inl u -> um p u = inl u.
(* holds of every state _get_binding computes (Binding.get_startpos) *)
Definition sp_vp_ok (b : bstate) : Prop := startpos b = None -> varpos b = None.
Lemma get_binding_sp_vp s : sp_vp_ok (get_binding s).
Proof. unfold sp_vp_ok. cbn [get_binding startpos varpos]. unfold get_startpos.
  destruct (index_where (is_k VP) s 0); [intros H; discriminate H|reflexivity]. Qed.

Lemma eval_seq_app l1 l2 u : eval_seq (l1 ++ l2) = inl u ->
  exists u1 u2, u = u1 ++ u2 /\ eval_seq l1 = inl u1 /\ eval_seq l2 = inl u2.
Proof. revert u. induction l1 as [|c l1 IH]; intros u H; cbn [app BindingShell.eval_seq] in *.
  - exists [], u. repeat split. exact H.
  - destruct (eval_cv c) as [v|]; [|discriminate H]. destruct (eval_seq (l1 ++ l2)) as [t|] eqn:Et; [|discriminate H].
    injection H as <-. destruct (IH t eq_refl) as [u1 [u2 [-> [H1 H2]]]]. exists (v :: u1), u2. rewrite H1. repeat split. exact H2. Qed.
Lemma eval_seq_app_ok l1 l2 u1 u2 : eval_seq l1 = inl u1 -> eval_seq l2 = inl u2 -> eval_seq (l1 ++ l2) = inl (u1 ++ u2).
Proof. revert u1. induction l1 as [|c l1 IH]; intros u1 H1 H2; cbn [app BindingShell.eval_seq] in *.
  - injection H1 as <-. exact H2.
  - destruct (eval_cv c) as [v|]; [|discriminate H1]. destruct (eval_seq l1) as [t|]; [|discriminate H1].
    injection H1 as <-. rewrite (IH t eq_refl H2). reflexivity. Qed.

Section Idem.
Hypothesis Hidem : um_idem.

Lemma by_index_idem ix i (l u : list val) : eval_seq (map Some (by_index val ix i l)) = inl u ->
  eval_seq (map Some (by_index val ix i u)) = inl u.
Proof. revert i u. induction l as [|v l IH]; intros i u H; cbn [by_index map BindingShell.eval_seq] in H.
  - injection H as <-. reflexivity.
  - destruct (eval_cv (Some (if mem i ix then Conv i v else Raw v))) as [w|] eqn:Ew; [|discriminate H].
    destruct (eval_seq (map Some (by_index val ix (S i) l))) as [t|] eqn:Et; [|discriminate H]. injection H as <-.
    cbn [by_index map BindingShell.eval_seq]. rewrite (IH (S i) t Et).
    destruct (mem i ix); cbn [BindingShell.eval_cv] in *.
    + rewrite (Hidem i v w Ew). reflexivity.
    + injection Ew as <-. reflexivity. Qed.
Lemma raw_eval (l : list val) : eval_seq (map Some (map Raw l)) = inl l.
Proof. induction l as [|v l IH]; [reflexivity|]. cbn [map BindingShell.eval_seq BindingShell.eval_cv]. rewrite IH. reflexivity. Qed.
Lemma var_trace_idem vp (l u : list val) : eval_seq (var_trace val vp l) = inl u -> eval_seq (var_trace val vp u) = inl u.
Proof. revert u. induction l as [|v l IH]; intros u H; cbn [var_trace map BindingShell.eval_seq] in H.
  - injection H as <-. reflexivity.
  - destruct vp as [p|]; cbn [BindingShell.eval_cv] in H; [|discriminate H].
    destruct (um p v) as [w|] eqn:Ew; [|discriminate H].
    fold (var_trace val (Some p) l) in H. destruct (eval_seq (var_trace val (Some p) l)) as [t|] eqn:Et; [|discriminate H].
    injection H as <-. cbn [var_trace map BindingShell.eval_seq BindingShell.eval_cv]. rewrite (Hidem p v w Ew).
    fold (var_trace val (Some p) t). rewrite (IH t eq_refl). reflexivity. Qed.
Lemma var_trace_none_ok (l u : list val) : eval_seq (var_trace val None l) = inl u -> l = [] /\ u = [].
Proof. destruct l; cbn; intros H; [injection H as <-; split; reflexivity|discriminate H]. Qed.

Lemma trace_pos_idem m b (args ua : list val) : sp_vp_ok b ->
  eval_seq (trace_pos val m b args) = inl ua -> eval_seq (trace_pos val m b ua) = inl ua.
Proof. intros Hb H. destruct m; cbn [trace_pos] in *.
  - (* PosSplit *)
    destruct (eval_seq_app _ _ _ H) as [u1 [u2 [-> [H1 H2]]]].
    destruct (startpos b) as [n|] eqn:Esp; cbn [slice_to slice_from] in *.
    + pose proof (eval_seq_length val E type_error um key_val _ _ H1) as L1. rewrite map_length, by_index_length, firstn_length in L1.
      pose proof (eval_seq_length val E type_error um key_val _ _ H2) as L2. unfold var_trace in L2. rewrite map_length, skipn_length in L2.
      assert (Hf : firstn n (u1 ++ u2) = u1 /\ skipn n (u1 ++ u2) = u2).
      { destruct (Nat.le_gt_cases n (length args)) as [Hle|Hgt].
        - assert (length u1 = n) by lia. subst n. rewrite firstn_app, Nat.sub_diag, firstn_all, skipn_app, Nat.sub_diag, skipn_all.
          cbn [firstn skipn app]. rewrite app_nil_r. split; reflexivity.
        - assert (length u2 = 0) by lia. destruct u2; [|discriminate]. rewrite app_nil_r.
          split; [apply firstn_all2; lia|apply skipn_all2; lia]. }
      destruct Hf as [-> ->]. apply eval_seq_app_ok; [exact (by_index_idem _ _ _ _ H1)|exact (var_trace_idem _ _ _ H2)].
    + rewrite (Hb Esp) in *. destruct (var_trace_none_ok _ _ H2) as [-> ->].
      cbn in H1. injection H1 as <-. reflexivity.
  - exact (by_index_idem _ _ _ _ H).
  - exact (var_trace_idem _ _ _ H).
  - rewrite raw_eval in H. injection H as <-. apply raw_eval. Qed.

Lemma trace_kw_idem m b (kw uk : list (nat * val)) :
  eval_kws (trace_kw val m b kw) = inl uk -> eval_kws (trace_kw val m b uk) = inl uk.
Proof. revert uk. induction kw as [|[k v] kw IH]; intros uk H; cbn [trace_kw map fst snd BindingShell.eval_kws] in H.
  - injection H as <-. reflexivity.
  - destruct (eval_cv (trace_kw1 val m b k v)) as [w|] eqn:Ew; [|discriminate H].
    fold (trace_kw val m b kw) in H. destruct (eval_kws (trace_kw val m b kw)) as [t|] eqn:Et; [|discriminate H].
    injection H as <-. cbn [trace_kw map fst snd BindingShell.eval_kws]. fold (trace_kw val m b t). rewrite (IH t eq_refl).
    assert (Hw : eval_cv (trace_kw1 val m b k w) = inl w).
    { unfold trace_kw1 in *. destruct m; cbn [run_kw1] in *.
      - destruct (lookup k (names b)) as [i|]; [cbn in *; exact (Hidem i v w Ew)|].
        destruct (varkwd b) as [p|]; [cbn in *; exact (Hidem p v w Ew)|discriminate Ew].
      - destruct (varkwd b) as [p|]; [cbn in *; exact (Hidem p v w Ew)|discriminate Ew].
      - destruct (lookup k (names b)) as [i|]; [cbn in *; exact (Hidem i v w Ew)|]. cbn in *. injection Ew as <-. reflexivity.
      - destruct (lookup k (names b)) as [i|]; [cbn in *; exact (Hidem i v w Ew)|]. cbn in *. exact Ew.
      - cbn in *. injection Ew as <-. reflexivity. }
    rewrite Hw. reflexivity. Qed.

Theorem binder_eval_idem pm km b args kw ua uk : sp_vp_ok b ->
  binder_eval pm km b args kw = inl (ua, uk) -> binder_eval pm km b ua uk = inl (ua, uk).
Proof. intros Hb. unfold BindingShell.binder_eval.
  destruct (eval_seq (trace_pos val pm b args)) as [a|] eqn:E1; [|intros H; discriminate H].
  destruct (eval_kws (trace_kw val km b kw)) as [k|] eqn:E2; [|intros H; discriminate H].
  intros H. injection H as <- <-. rewrite (trace_pos_idem pm b args a Hb E1), (trace_kw_idem km b kw k E2). reflexivity. Qed.

(* with idempotent unmarshallers a second layer changes nothing, on ANY call (accepted or not) *)
Theorem shell_call_idem c b (f : callable) args kw : sp_vp_ok b ->
  shell_call c b (shell_call c b f) args kw = shell_call c b f args kw.
Proof. intros Hb. unfold BindingShell.shell_call.
  destruct (binder_eval (posmode_of c) (kwmode_of c) b args kw) as [[ua uk]|e] eqn:Eb; [|reflexivity].
  rewrite (binder_eval_idem _ _ b args kw ua uk Hb Eb). reflexivity. Qed.

Lemma kw_find_keys_none k (kw kw' : list (nat * val)) : map fst kw = map fst kw' -> kw_find val k kw = None -> kw_find val k kw' = None.
Proof. intros Hk H. pose proof (kw_find_keys val k kw kw' Hk) as Hs. rewrite H in Hs.
  destruct (kw_find val k kw'); [discriminate Hs|reflexivity]. Qed.
Lemma trace_kw_keys m b (kw : list (nat * val)) : map fst (trace_kw val m b kw) = map fst kw.
Proof. unfold trace_kw. rewrite map_map. reflexivity. Qed.

Lemma binder_eval_keys pm km b args kw ua uk : binder_eval pm km b args kw = inl (ua, uk) -> map fst kw = map fst uk.
Proof. unfold BindingShell.binder_eval. destruct (eval_seq _) as [a|]; [|intros H; discriminate H].
  destruct (eval_kws (trace_kw val km b kw)) as [k|] eqn:E2; [|intros H; discriminate H]. intros H. injection H as <- <-.
  rewrite (eval_kws_keys val E type_error um key_val _ _ E2), trace_kw_keys. reflexivity. Qed.

End Idem.
End Twice.

(* ---------- wrap(cls) on a hierarchy ---------- *)
Lemma resolve_init_wrap_class n fuel Ev c k f :
  Ev c = Some k -> resolve_init fuel Ev c = Some f ->
  resolve_init (S n) (wrap_class fuel Ev c) c = Some (FWrap f).
Proof. intros Hk Hf. unfold wrap_class. rewrite Hk, Hf. cbn [resolve_init]. unfold cenv_set. rewrite Nat.eqb_refl. reflexivity. Qed.
(* a class with an __init__ of its own is not affected by wrapping another class *)
Lemma resolve_init_wrap_other n fuel Ev c d kd g :
  d <> c -> Ev d = Some kd -> c_init kd = Some g ->
  resolve_init (S n) (wrap_class fuel Ev c) d = Some g.
Proof. intros Hd Hk Hg. unfold wrap_class.
  assert (X : resolve_init (S n) Ev d = Some g) by (cbn [resolve_init]; rewrite Hk, Hg; reflexivity).
  destruct (Ev c) as [k|]; [|exact X]. destruct (resolve_init fuel Ev c); [|exact X].
  cbn [resolve_init]. unfold cenv_set. apply Nat.eqb_neq in Hd. rewrite Hd, Hk, Hg. reflexivity. Qed.

(* base B with its own __init__ f; subclass S of B, with its own __init__ (Some g) or inheriting (None) *)
Definition two_classes (B S : nat) (f : fnobj) (sub_init : option fnobj) : cenv :=
  fun d => if Nat.eqb d S then Some {| c_base := Some B; c_init := sub_init |}
           else if Nat.eqb d B then Some {| c_base := None; c_init := Some f |} else None.

Theorem wrap_order_inherited B S f : B <> S ->
  let Ev := two_classes B S f None in
  (* base first, then the subclass: the subclass re-wraps the wrapper it inherits *)
  resolve_init 2 (wrap_classes 2 Ev [B; S]) S = Some (FWrap (FWrap f)) /\
  resolve_init 2 (wrap_classes 2 Ev [B; S]) B = Some (FWrap f) /\
  (* subclass first: one layer each *)
  resolve_init 2 (wrap_classes 2 Ev [S; B]) S = Some (FWrap f) /\
  resolve_init 2 (wrap_classes 2 Ev [S; B]) B = Some (FWrap f).
Proof. intros Hne. apply Nat.eqb_neq in Hne. assert (Hne' : Nat.eqb S B = false) by (rewrite Nat.eqb_sym; exact Hne).
  cbn [wrap_classes]. unfold wrap_class, two_classes, cenv_set. cbn [resolve_init c_init c_base].
  repeat (rewrite ?Nat.eqb_refl, ?Hne, ?Hne'; cbn [resolve_init c_init c_base]). repeat split. Qed.

Theorem wrap_order_own_init B S f g : B <> S ->
  let Ev := two_classes B S f (Some g) in
  forall order, order = [B; S] \/ order = [S; B] ->
  resolve_init 2 (wrap_classes 2 Ev order) S = Some (FWrap g) /\
  resolve_init 2 (wrap_classes 2 Ev order) B = Some (FWrap f).
Proof. intros Hne. apply Nat.eqb_neq in Hne. assert (Hne' : Nat.eqb S B = false) by (rewrite Nat.eqb_sym; exact Hne).
  intros Ev order [-> | ->]; subst Ev; cbn [wrap_classes]; unfold wrap_class, two_classes, cenv_set; cbn [resolve_init c_init c_base];
  repeat (rewrite ?Nat.eqb_refl, ?Hne, ?Hne'; cbn [resolve_init c_init c_base]); split; reflexivity. Qed.

(* ---------- functools.wraps ---------- *)
Theorem wraps_meta src_id src own :
  m_wrapped (wraps src_id src own) = Some src_id /\
  (forall x, m_name src = Some x -> m_name (wraps src_id src own) = Some x) /\
  (forall x, m_qualname src = Some x -> m_qualname (wraps src_id src own) = Some x) /\
  (forall x, m_doc src = Some x -> m_doc (wraps src_id src own) = Some x) /\
  (forall x, m_module src = Some x -> m_module (wraps src_id src own) = Some x) /\
  (m_name src = None -> m_name (wraps src_id src own) = m_name own) /\
  (m_qualname src = None -> m_qualname (wraps src_id src own) = m_qualname own).
Proof. unfold wraps; cbn. repeat split; intros; try (rewrite H; reflexivity). Qed.

Fixpoint dict_get (k : nat) (d : list (nat * nat)) : option nat :=
  match d with [] => None | (k', v) :: r => if Nat.eqb k k' then Some v else dict_get k r end.
Lemma dict_get_set k v d k' : dict_get k' (dict_set k v d) = if Nat.eqb k' k then Some v else dict_get k' d.
Proof. induction d as [|[a b] d IH]; cbn [dict_set dict_get].
  - reflexivity.
  - destruct (Nat.eqb k a) eqn:Eka; cbn [dict_get].
    + apply Nat.eqb_eq in Eka. subst a. destruct (Nat.eqb k' k); reflexivity.
    + rewrite IH. destruct (Nat.eqb k' a) eqn:Ea; [|reflexivity]. apply Nat.eqb_eq in Ea. subst a.
      rewrite (Nat.eqb_sym k' k), Eka. reflexivity. Qed.
(* every attribute of the wrapped function's __dict__ is on the wrapper with the same value *)
Theorem wraps_dict src_id src own k v : NoDup (map fst (m_dict src)) -> In (k, v) (m_dict src) ->
  dict_get k (m_dict (wraps src_id src own)) = Some v.
Proof. unfold wraps; cbn [m_dict]. generalize (m_dict own) as d. induction (m_dict src) as [|[a b] upd IH]; intros d Hnd Hin; [destruct Hin|].
  cbn [map fst] in Hnd. apply NoDup_cons_iff in Hnd. destruct Hnd as [Hna Hnd]. cbn [dict_update].
  destruct Hin as [Heq|Hin]; [|exact (IH _ Hnd Hin)]. injection Heq as -> ->.
  clear IH Hnd. revert d. induction upd as [|[a b] upd IH]; intros d; cbn [dict_update].
  - rewrite dict_get_set, Nat.eqb_refl. reflexivity.
  - cbn [map fst] in Hna. assert (Hk : k <> a) by (intros ->; apply Hna; left; reflexivity).
    assert (Hna' : ~ In k (map fst upd)) by (intros X; apply Hna; right; exact X).
    revert d. clear IH.
    assert (Hgen : forall upd0 d0, ~ In k (map fst upd0) -> dict_get k (dict_update d0 upd0) = dict_get k d0).
    { induction upd0 as [|[a0 b0] upd0 IH0]; intros d0 Hn0; cbn [dict_update]; [reflexivity|].
      cbn [map fst] in Hn0. rewrite IH0 by (intros X; apply Hn0; right; exact X).
      rewrite dict_get_set. destruct (Nat.eqb k a0) eqn:E0; [|reflexivity].
      apply Nat.eqb_eq in E0. subst a0. exfalso. apply Hn0. left. reflexivity. }
    intros d. rewrite (Hgen upd _ Hna'). rewrite dict_get_set. apply Nat.eqb_neq in Hk. rewrite Hk.
    rewrite dict_get_set, Nat.eqb_refl. reflexivity. Qed.

(* ---------- the API level: bind(f) and wrap(f) ARE the shell, on every call ---------- *)
Section Api.
Variables (val E : Type) (type_error : E) (um : nat -> val -> val + E) (key_val : nat -> val) (R : Type).
Notation shell_call := (shell_call val E type_error um key_val R).
Notation bind := (bind val E type_error um key_val R).
Notation wrap_fn := (wrap_fn val E type_error um key_val R).
Notation bind_pinned := (bind_pinned val E type_error um key_val R).
Notation wrap_fn_pinned := (wrap_fn_pinned val E type_error um key_val R).
Notation callable := (callable val E R).

Theorem api_is_shell rows s (f : callable) : matrix_ok rows = true ->
  exists c, matrix_lookup rows (truth_of s) = Some c /\
            wrap_fn rows s f = Some (shell_call c (get_binding s) f) /\
            bind rows s f = Some (shell_call c (get_binding s) f).
Proof. intros Hm. destruct (matrix_ok_lookup rows (truth_of s) Hm) as [c [Hc _]]. exists c. split; [exact Hc|].
  unfold BindingShell.wrap_fn, BindingShell.bind. rewrite Hc. split; reflexivity. Qed.

(* the code as pinned: outside the reserved keyword it was the same shell ... *)
Theorem pinned_is_shell reserved self_name rows s (f : callable) : matrix_ok rows = true ->
  exists c, matrix_lookup rows (truth_of s) = Some c /\
    (exists g, wrap_fn_pinned reserved rows s f = Some g /\
               forall args kw, kw_find val reserved kw = None -> g args kw = shell_call c (get_binding s) f args kw) /\
    (exists h, bind_pinned self_name rows s f = Some h /\
               forall args kw, kw_find val self_name kw = None -> h args kw = shell_call c (get_binding s) f args kw).
Proof. intros Hm. destruct (matrix_ok_lookup rows (truth_of s) Hm) as [c [Hc _]]. exists c. split; [exact Hc|].
  unfold BindingShell.wrap_fn_pinned, BindingShell.bind_pinned. rewrite Hc. split; eexists; (split; [reflexivity|]); intros args kw Hk.
  - unfold BindingShell.wrapper_call_pinned. rewrite Hk. reflexivity.
  - unfold BindingShell.bound_routine_call_pinned. rewrite Hk. reflexivity. Qed.
(* ... a caller's keyword named like the closure's keyword-only parameter replaced the binder *)
Theorem wrap_pinned_hijacked reserved rows s (f : callable) g args kw x :
  wrap_fn_pinned reserved rows s f = Some g -> kw_find val reserved kw = Some x ->
  g args kw = Hijacked x args (kw_remove val reserved kw).
Proof. unfold BindingShell.wrap_fn_pinned. destruct (matrix_lookup rows (truth_of s)); intros H Hk; [|discriminate H].
  injection H as <-. unfold BindingShell.wrapper_call_pinned. rewrite Hk. reflexivity. Qed.
(* ... and a caller's keyword named like BoundRoutine.__call__'s first parameter was refused *)
Theorem bind_pinned_self_refused self_name rows s (f : callable) h args kw x :
  bind_pinned self_name rows s f = Some h -> kw_find val self_name kw = Some x -> h args kw = Raise type_error.
Proof. unfold BindingShell.bind_pinned. destruct (matrix_lookup rows (truth_of s)); intros H Hk; [|discriminate H].
  injection H as <-. unfold BindingShell.bound_routine_call_pinned. rewrite Hk. reflexivity. Qed.
End Api.

(* ---------- end to end at the API level ---------- *)
Section ApiFrames.
Variables (val E : Type) (type_error : E) (um : nat -> val -> val + E) (key_val : nat -> val) (R : Type).
Notation conv_call := (conv_call val E type_error um key_val).
Notation conv_frame := (conv_frame val E um).
Notation py_bind := (py_bind val).
Notation call_fn := (@call_fn val E type_error R).
Notation api_apply := (api_apply val E type_error um key_val R).

Theorem api_frame_accepts api rows (pf : pyfun val E R) args kw fr :
  wfb (f_sig pf) = true -> distinct_names (f_sig pf) = true -> matrix_ok rows = true ->
  py_bind (f_def pf) (f_sig pf) args kw = Some fr ->
  exists g r, api_apply api rows (f_sig pf) (call_fn pf) = Some g /\
    conv_call (f_sig pf) args kw = Some r /\
    match r with
    | inr e => g args kw = Raise e
    | inl (ua, uk) => exists fr', conv_frame 0 fr = inl fr' /\ py_bind (f_def pf) (f_sig pf) ua uk = Some fr' /\
                                  g args kw = f_body pf fr'
    end.
Proof. intros Hwf Hd Hm Hb.
  destruct (api_is_shell val E type_error um key_val R rows (f_sig pf) (call_fn pf) Hm) as [c [Hc [Hg Hh]]].
  destruct (shell_frame_accepts val E type_error um key_val R rows pf c args kw fr Hwf Hd Hm Hc Hb) as [r [Hr Hres]].
  eexists. exists r. split; [destruct api; cbn [BindingShell.api_apply]; [exact Hg|exact Hh]|]. split; [exact Hr|exact Hres]. Qed.

Theorem api_frame_rejects api rows (pf : pyfun val E R) args kw :
  matrix_ok rows = true -> py_bind (f_def pf) (f_sig pf) args kw = None ->
  exists g e, api_apply api rows (f_sig pf) (call_fn pf) = Some g /\
              g args kw = Raise e /\ (e = type_error \/ raised_by_um val E um e).
Proof. intros Hm Hb.
  destruct (api_is_shell val E type_error um key_val R rows (f_sig pf) (call_fn pf) Hm) as [c [Hc [Hg Hh]]].
  destruct (shell_frame_rejects val E type_error um key_val R pf c args kw Hb) as [e [He Hk]].
  eexists. exists e. split; [destruct api; cbn [BindingShell.api_apply]; [exact Hg|exact Hh]|]. split; assumption. Qed.
End ApiFrames.

(* ---------- the _get_binding cache ---------- *)
Section CacheLemmas.
Variables (obj key B : Type) (key_eqb : key -> key -> bool) (key_of : obj -> key) (sig_of : obj -> sig) (build : sig -> B).
(* two callables that share a cache slot have the same signature *)
Hypothesis key_sound : forall a b, key_eqb (key_of a) (key_of b) = true -> sig_of a = sig_of b.
Notation cache_find := (cache_find key B key_eqb).
Notation get_binding_cached := (get_binding_cached obj key B key_eqb key_of sig_of build).
Notation run_history := (run_history obj key B key_eqb key_of sig_of build).

(* every entry is the binding of the signature of whoever can hit it *)
Definition cache_inv (c : bcache key B) : Prop :=
  forall k b, In (k, b) c -> forall o, key_eqb (key_of o) k = true -> b = build (sig_of o).

Lemma cache_find_in k c b : cache_find k c = Some b -> exists k', In (k', b) c /\ key_eqb k k' = true.
Proof. induction c as [|[k' b'] c IH]; cbn [BindingShell.cache_find]; intros H; [discriminate H|].
  destruct (key_eqb k k') eqn:E.
  - injection H as ->. exists k'. split; [left; reflexivity|exact E].
  - destruct (IH H) as [k'' [Hin Hk]]. exists k''. split; [right; exact Hin|exact Hk]. Qed.

Lemma cached_step c o : cache_inv c ->
  fst (get_binding_cached c o) = build (sig_of o) /\ cache_inv (snd (get_binding_cached c o)).
Proof. intros Hc. unfold BindingShell.get_binding_cached. destruct (cache_find (key_of o) c) as [b|] eqn:E; cbn [fst snd].
  - destruct (cache_find_in _ _ _ E) as [k' [Hin Hk]]. split; [exact (Hc k' b Hin o Hk)|exact Hc].
  - split; [reflexivity|]. intros k b [Heq|Hin] o' Hk.
    + injection Heq as <- <-. f_equal. symmetry. exact (key_sound o' o Hk).
    + exact (Hc k b Hin o' Hk). Qed.

Lemma run_history_inv h c : cache_inv c -> cache_inv (run_history c h).
Proof. revert c. induction h as [|o h IH]; intros c Hc; cbn [BindingShell.run_history]; [exact Hc|].
  apply IH. exact (proj2 (cached_step c o Hc)). Qed.

(* whatever was bound or wrapped before, in any order: each callable gets the binding of ITS OWN signature *)
Theorem binding_after_own h o : binding_after obj key B key_eqb key_of sig_of build h o = build (sig_of o).
Proof. unfold binding_after. apply cached_step. apply run_history_inv. intros k b []. Qed.
End CacheLemmas.
