(* Proofs/CapstoneLemmas.v -- WP-T "capstone: the bridges compose".

   The bridge theorems of session 3 each close ONE hypothesis of another model.  This file chains them:
     LeafBridge (scalar model -> leaf laws)  o  IoBridge (Serdes / Iter models -> serdes fields)   : ONE runtime
     C05Bridge (graph model -> order contract)  o  C05 (mechanism = reference semantics)
     C01 / C03 / C13 / C06 (value theorems)  o  C12Bridge (any clean history)  o  C02Bridge / C02Json (codec, JSON)
     C08Bridge (union step)  o  C06Heap (object identity).
   Definitions of the composed objects (cap_runtime, the mechanism-level codec encM / decM, the example instance)
   and the proof scripts; the theorems are restated in Props/Capstone.v.  The core model's names are unqualified,
   the scalar model's are qualified (Sc., LBm.). *)
From Coq Require Import List Arith Bool PeanoNat ZArith NArith Ascii String Lia.
Import ListNotations.
Require Import TL.Model.Core TL.Model.Build TL.Proofs.CoreMono TL.Proofs.BuildLemmas TL.Proofs.BuildSemLemmas.
Require TL.Model.CoreC01 TL.Proofs.CoreC01 TL.Props.C01.
Require TL.Model.CoreC03 TL.Proofs.CoreC03 TL.Props.C03.
Require TL.Model.CoreValid TL.Props.C13.
Require TL.Model.CoreC06 TL.Props.C06.
Require TL.Model.Temporal TL.Model.Scalars TL.Model.ScalarsToy TL.Proofs.ScalarsToyLemmas.
Require TL.Model.LeafBridge TL.Proofs.LeafBridge.
Require TL.Model.Iter TL.Model.Serdes TL.Model.SerdesToy TL.Proofs.SerdesLemmas.
Require TL.Model.IoBridge TL.Model.IoBridgeEq TL.Proofs.IoBridge.
Require TL.Model.Graph TL.Model.Topo TL.Model.GraphBridge TL.Proofs.GraphBridge.
Require TL.Props.C05 TL.Props.C05Bridge.
Require TL.Model.Codec TL.Model.Json TL.Model.JsonEq TL.Proofs.JsonLemmas TL.Proofs.CodecBridge.
Require TL.Model.UnionBridge TL.Proofs.UnionBridge.
Require TL.Model.CacheBridge TL.Proofs.CacheBridge TL.Props.C12Bridge.
Require TL.Props.C02.
Require TL.Model.Heap TL.Proofs.HeapLemmas TL.Props.C06Heap.

Module Sc := TL.Model.Scalars.
Module Tm := TL.Model.Temporal.
Module LBm := TL.Model.LeafBridge.
Module LBp := TL.Proofs.LeafBridge.
Module IOm := TL.Model.IoBridge.
Module IOp := TL.Proofs.IoBridge.
Module GBm := TL.Model.GraphBridge.
Module GBp := TL.Proofs.GraphBridge.
Module CB := TL.Proofs.CodecBridge.
Module Js := TL.Model.Json.
Module Cd := TL.Model.Codec.
Module V13 := TL.Model.CoreValid.
Module M01 := TL.Model.CoreC01.
Module M03 := TL.Model.CoreC03.
Module M06 := TL.Model.CoreC06.
Module P03 := TL.Proofs.CoreC03.

(* ================================================================== A. ONE runtime *)
(* leaves = the scalar model (LeafBridge.bridged), serdes fields = the Serdes / Iter models (IoBridge.io_runtime);
   what neither construction defines (==, hashability, the kinds a union swallows) comes from [base] *)
Definition cap_runtime (C : LBm.coding) (kind_of : nat -> option LBm.leafkind) (rts : nat -> Tm.Runtime)
    (ev : Tm.tok -> Tm.res Tm.val) (rt0 : Tm.Runtime)
    (P : IOm.shape) (E : env) (ib : TL.Model.Iter.val -> option pv) (T : IOm.tshape) (srt : TL.Model.Serdes.Runtime)
    (base : runtime) : runtime :=
  LBm.bridged C kind_of rts ev rt0 (IOm.io_runtime P E ib T srt base).

Section OneRuntime.
Variable C : LBm.coding.
Variable kind_of : nat -> option LBm.leafkind.
Variable rts : nat -> Tm.Runtime.
Variable ev : Tm.tok -> Tm.res Tm.val.
Variable rt0 : Tm.Runtime.
Variable P : IOm.shape.
Variable E : env.
Variable ib : TL.Model.Iter.val -> option pv.
Variable T : IOm.tshape.
Variable srt : TL.Model.Serdes.Runtime.
Variable base : runtime.

Notation crt := (cap_runtime C kind_of rts ev rt0 P E ib T srt base).
Notation iob := (IOm.io_runtime P E ib T srt base).

(* the two constructions touch disjoint fields: applying them in either order gives the same runtime *)
Lemma cap_commute :
  crt = IOm.io_runtime P E ib T srt (LBm.bridged C kind_of rts ev rt0 base).
Proof. reflexivity. Qed.

(* IoBridge's laws only speak about the serdes fields, which [bridged] hands through *)
Lemma cap_iter_laws : IOm.BackLaws P E ib -> IOm.IterLaws P E crt.
Proof.
  intros BL. destruct (IOp.induced_iter_laws P E ib BL T srt base) as [h1 h2 h3 h4 h5].
  constructor; [exact h1 | exact h2 | exact h3 | exact h4 | exact h5].
Qed.
Lemma cap_load_law : IOm.LoadLaw T srt crt.
Proof. exact (IOp.induced_load_law T srt P E ib base). Qed.

(* LeafBridge's laws hold for every base, in particular for the io runtime *)
Lemma cap_round_laws : LBm.coding_law C -> (forall s, Sc.RuntimeLaws (rts s)) -> (forall s, LBm.FoldLaws (rts s)) ->
  M01.RoundLaws crt (LBm.lv C kind_of rts ev true).
Proof. intros CL HL HF. exact (LBp.bridged_round_laws C kind_of rts ev rt0 iob CL HL HF). Qed.

Lemma cap_leaf_m_inj : LBm.coding_law C -> (forall s, Sc.RuntimeLaws (rts s)) -> (forall s, LBm.FoldLaws (rts s)) ->
  (forall a b, atom_eq base a b = true -> a = b) ->
  M01.leaf_m_inj crt (LBm.lv C kind_of rts ev true).
Proof. intros CL HL HF HA. exact (LBp.bridged_leaf_m_inj C kind_of rts ev rt0 iob CL HL HF HA). Qed.

Lemma cap_none_laws : LBm.coding_law C -> LBp.Utf8Total rt0 -> (forall e, suppressed base (LBm.exn_map e) = true) ->
  V13.NoneLaws crt.
Proof. intros CL HU HS. exact (LBp.bridged_none_laws C kind_of rts ev rt0 iob CL HU HS). Qed.

Lemma cap_pass_laws : LBm.coding_law C -> forall strict, LBp.Utf8Total rt0 ->
  (forall e, suppressed base (LBm.exn_map e) = true) -> (forall s, LBm.LoadLaws (rts s)) ->
  V13.PassLaws crt (LBm.lv C kind_of rts ev strict).
Proof. intros CL strict HU HS HLd. exact (LBp.bridged_pass_laws C kind_of rts ev rt0 iob CL strict HU HS HLd). Qed.

Lemma cap_pass_laws_inst : LBm.coding_law C -> LBp.Utf8Total rt0 ->
  (forall e, suppressed base (LBm.exn_map e) = true) -> (forall s, LBm.LoadLaws (rts s)) ->
  V13.PassLaws crt (LBm.lv_inst C kind_of rts).
Proof. intros CL HU HS HLd. exact (LBp.bridged_pass_laws_inst C kind_of rts ev rt0 iob CL HU HS HLd). Qed.

Lemma cap_idem_laws : LBm.coding_law C -> LBp.Utf8Total rt0 ->
  (forall e, suppressed base (LBm.exn_map e) = true) -> (forall s, LBm.LoadLaws (rts s)) ->
  (forall s w m, Tm.enum_of_val (rts s) w = Tm.Ok m -> Tm.is_member (rts s) m = true) ->
  LBp.base_idem kind_of base -> V13.IdemLaws crt.
Proof. intros CL HU HS HLd HE HB. exact (LBp.bridged_idem_laws C kind_of rts ev rt0 iob CL HU HS HLd HE HB). Qed.

Lemma cap_leaf_laws : LBm.coding_law C -> P03.LeafLaws crt (LBm.leaf_class_ok C kind_of rts).
Proof. intros CL. exact (LBp.bridged_leaf_laws C kind_of rts ev rt0 iob CL). Qed.

Lemma cap_marshal_laws : LBm.coding_law C -> forall strict,
  M06.MarshalLaws crt (LBm.prim_atom C) (LBm.robust_leaf kind_of) (LBm.robust_leaf kind_of)
    (LBm.lv C kind_of rts ev strict) (LBm.lit_leaf kind_of) (LBm.lit_member C kind_of rts).
Proof. intros CL strict. exact (LBp.bridged_marshal_laws C kind_of rts ev rt0 iob CL strict). Qed.

(* the scalar model's own serdes.load (UUIDUnmarshaller) and the core model's load_scalar can be ONE Serdes runtime:
   LoadLaws of LeafBridge from the same [srt] that io_runtime uses *)
Lemma cap_load_laws_same_serdes : forall Tz,
  (forall s, LBm.SLoadLaw Tz srt (rts s)) -> (forall s, LBm.SShapeLaws Tz (rts s)) ->
  (forall s, LBm.LoadLaws (rts s)) /\ IOm.LoadLaw T srt crt.
Proof.
  intros Tz H1 H2. split; [|exact cap_load_law].
  intros s. exact (LBp.load_laws_from_serdes Tz srt (rts s) (H1 s) (H2 s)).
Qed.

(* ---- pass-through leaves: the kind LAny of the leaf table (typing.Any / object / unresolvable: NoOp routines) hands
   every core value back; a scalar kind answers Unmodelled on a container.  So whatever satisfies C05's hypothesis
   "noop_leaf s -> leaf_u rt s x = Ok x for every x" is a pass-through leaf of the table, or a leaf the table does not
   know (its routine is the base runtime's) *)
Lemma cap_any_u : forall s x, LBm.any_leaf kind_of s = true -> leaf_u crt s x = Ok x.
Proof. intros s x H. exact (LBp.any_leaf_u C kind_of rts ev rt0 iob s x H). Qed.
Lemma cap_any_m : forall s x, LBm.any_leaf kind_of s = true -> leaf_m crt s x = Ok x.
Proof. intros s x H. exact (LBp.any_leaf_m C kind_of rts ev rt0 iob s x H). Qed.
Lemma cap_leaf_u_container : forall s k kd l, kind_of s = Some kd -> kd <> LBm.LAny -> leaf_u crt s (PSeq k l) = Unmodelled.
Proof. intros s k kd l Hk Hn. cbn. unfold LBm.b_leaf_u. rewrite Hk. destruct kd; try reflexivity. congruence. Qed.
Lemma cap_leaf_m_container : forall s k kd l, kind_of s = Some kd -> kd <> LBm.LAny -> leaf_m crt s (PSeq k l) <> Ok (PSeq k l).
Proof.
  intros s k kd l Hk Hn. cbn. unfold LBm.b_leaf_m. rewrite Hk. destruct kd; cbn; try discriminate. congruence.
Qed.
Lemma cap_noop_forced_u (noop_leaf : nat -> bool) :
  (forall s x, noop_leaf s = true -> leaf_u crt s x = Ok x) ->
  forall s, noop_leaf s = true -> LBm.any_leaf kind_of s = true \/ kind_of s = None.
Proof.
  intros H s Hs. unfold LBm.any_leaf. destruct (kind_of s) as [kd|] eqn:Hk; [|right; reflexivity].
  assert (Dk : kd = LBm.LAny \/ kd <> LBm.LAny) by (destruct kd; try (right; discriminate); left; reflexivity).
  destruct Dk as [->|Hn]; [left; reflexivity|].
  specialize (H s (PSeq KList []) Hs). rewrite (cap_leaf_u_container s KList kd [] Hk Hn) in H. discriminate H.
Qed.
Lemma cap_noop_forced_m (noop_leaf : nat -> bool) :
  (forall s x, noop_leaf s = true -> leaf_m crt s x = Ok x) ->
  forall s, noop_leaf s = true -> LBm.any_leaf kind_of s = true \/ kind_of s = None.
Proof.
  intros H s Hs. unfold LBm.any_leaf. destruct (kind_of s) as [kd|] eqn:Hk; [|right; reflexivity].
  assert (Dk : kd = LBm.LAny \/ kd <> LBm.LAny) by (destruct kd; try (right; discriminate); left; reflexivity).
  destruct Dk as [->|Hn]; [left; reflexivity|].
  exfalso. exact (cap_leaf_m_container s KList kd [] Hk Hn (H s (PSeq KList []) Hs)).
Qed.

Lemma cap_none_is_atom : exists a, none crt = PAtom a.
Proof. eexists. reflexivity. Qed.

End OneRuntime.

(* ================================================================== B. C01 through the mechanism *)
Lemma ev_unique {A} (f : nat -> res A) r1 r2 : ev f r1 -> ev f r2 -> r1 = r2.
Proof. intros [m1 H1] [m2 H2]. rewrite <- (H1 (max m1 m2) (Nat.le_max_l _ _)). apply H2. apply Nat.le_max_r. Qed.

(* a terminal result at fuel n is the eventual result *)
Lemma mar_done_ev rt E n T v r : done (mar rt E n T v) = true -> ev (fun m => mar rt E m T v) r -> mar rt E n T v = r.
Proof.
  intros Hd [m0 Hm0].
  destruct (TL.Proofs.CoreC01.mar_ge rt E n (max n m0) T v (Nat.le_max_l _ _)) as [Ho|Ho].
  - rewrite Ho in Hd. discriminate Hd.
  - rewrite Ho. apply Hm0. apply Nat.le_max_r.
Qed.
Lemma unm_done_ev rt E n T v r : done (unm rt E n T v) = true -> ev (fun m => unm rt E m T v) r -> unm rt E n T v = r.
Proof.
  intros Hd [m0 Hm0].
  destruct (TL.Proofs.CoreC01.unm_ge rt E n (max n m0) T v (Nat.le_max_l _ _)) as [Ho|Ho].
  - rewrite Ho in Hd. discriminate Hd.
  - rewrite Ho. apply Hm0. apply Nat.le_max_r.
Qed.

Section Mechanism.
Variable rt : runtime.
Variable E : env.
Variable noop_leaf : nat -> bool.
Variable orders : ty -> option (list node).
Hypothesis Hou : TL.Props.C05.orders_contract E true noop_leaf orders.
Hypothesis Hom : TL.Props.C05.orders_contract E false noop_leaf orders.
Hypothesis Hnu : forall s x, noop_leaf s = true -> leaf_u rt s x = Ok x.
Hypothesis Hnm : forall s x, noop_leaf s = true -> leaf_m rt s x = Ok x.

Lemma api_u_ev T fuel x : done (api_call rt E orders true fuel T x) = true ->
  ev (fun m => unm rt E m T x) (api_call rt E orders true fuel T x).
Proof. exact (TL.Props.C05.C05_unmarshal rt E noop_leaf orders Hou Hnu T fuel x). Qed.
Lemma api_m_ev T fuel x : done (api_call rt E orders false fuel T x) = true ->
  ev (fun m => mar rt E m T x) (api_call rt E orders false fuel T x).
Proof. exact (TL.Props.C05.C05_marshal rt E noop_leaf orders Hom Hnm T fuel x). Qed.

(* C01_roundtrip o C05_marshal o C05_unmarshal *)
Lemma mech_roundtrip lv : M01.RoundLaws rt lv ->
  forall n T v fm fu w,
    M01.valid rt lv E n T v = true -> M01.c01_guard rt E n T v = true -> M01.union_unamb rt lv E n T v = true ->
    done (mar rt E n T v) = true ->
    api_call rt E orders false fm T v = Ok w ->
    done (api_call rt E orders true fu T w) = true ->
    api_call rt E orders true fu T w = Ok v.
Proof.
  intros L n T v fm fu w Hv Hg Hu Hd Hm Hdu.
  assert (Hm' : mar rt E n T v = Ok w).
  { apply mar_done_ev; [exact Hd|]. rewrite <- Hm. apply api_m_ev. rewrite Hm. reflexivity. }
  destruct (TL.Props.C01.C01_roundtrip rt lv E L n n T v w (le_n n) Hv Hg Hu Hm') as [m Hround].
  apply (ev_unique (fun m' => unm rt E m' T w)); [exact (api_u_ev T fu w Hdu)|].
  exists m. exact Hround.
Qed.

(* C01_union_fixpoint through the mechanism: marshal (unmarshal m) = m for m = marshal v *)
Lemma mech_fixpoint lv : M01.RoundLaws rt lv ->
  forall n T v fm fu fm' m v',
    M01.fix_ok rt lv E n T v = true -> done (mar rt E n T v) = true ->
    api_call rt E orders false fm T v = Ok m ->
    api_call rt E orders true fu T m = Ok v' ->
    done (api_call rt E orders false fm' T v') = true ->
    api_call rt E orders false fm' T v' = Ok m.
Proof.
  intros L n T v fm fu fm' m v' Hf Hd Hm Hu Hdm.
  assert (Hm' : mar rt E n T v = Ok m).
  { apply mar_done_ev; [exact Hd|]. rewrite <- Hm. apply api_m_ev. rewrite Hm. reflexivity. }
  destruct (TL.Props.C01.C01_union_fixpoint rt lv E L n n T v m (le_n n) Hf Hm') as [v0 [Hu0 Hm0]].
  assert (Hv : Ok v' = Ok v0).
  { apply (ev_unique (fun k => unm rt E k T m)).
    - rewrite <- Hu. apply api_u_ev. rewrite Hu. reflexivity.
    - exists n. exact Hu0. }
  injection Hv as ->.
  apply (ev_unique (fun k => mar rt E k T v0)); [exact (api_m_ev T fm' v0 Hdm)|].
  exists n. exact Hm0.
Qed.

(* C03 / C13 through the mechanism *)
Lemma mech_conforms leaf_ok : P03.LeafLaws rt leaf_ok -> P03.wf_env E ->
  forall fuel T x v, api_call rt E orders true fuel T x = Ok v -> exists n, M03.conforms rt E leaf_ok n T v = true.
Proof.
  intros L WF fuel T x v H.
  destruct (api_u_ev T fuel x) as [m Hm]; [rewrite H; reflexivity|].
  rewrite H in Hm. exact (TL.Props.C03.C03_conforms rt E leaf_ok L WF m T x v (Hm m (le_n m))).
Qed.

Lemma mech_passthrough lv : V13.PassLaws rt lv -> V13.wf_env E ->
  forall n fuel T v, V13.optional_only E n T = true -> V13.valid lv rt E n T v = true ->
    done (api_call rt E orders true fuel T v) = true -> api_call rt E orders true fuel T v = Ok v.
Proof.
  intros L WF n fuel T v Ho Hv Hd.
  destruct (TL.Props.C13.C13_passthrough rt E lv L WF n T v Ho Hv) as [m Hm].
  apply (ev_unique (fun k => unm rt E k T v)); [exact (api_u_ev T fuel v Hd)|].
  exists m. intros m' Hm'. apply Hm. exact Hm'.
Qed.

Lemma mech_idempotent : V13.IdemLaws rt -> V13.wf_env E -> V13.DefaultsConform rt E ->
  forall T, (forall k, V13.optional_only E k T = true) ->
  forall f1 f2 x y, api_call rt E orders true f1 T x = Ok y ->
    done (api_call rt E orders true f2 T y) = true -> api_call rt E orders true f2 T y = Ok y.
Proof.
  intros L WF DC T Ho f1 f2 x y H1 Hd.
  destruct (api_u_ev T f1 x) as [m1 Hm1]; [rewrite H1; reflexivity|]. rewrite H1 in Hm1.
  destruct (TL.Props.C13.C13_idempotent rt E L WF DC T Ho m1 x y (Hm1 m1 (le_n m1))) as [m Hm].
  apply (ev_unique (fun k => unm rt E k T y)); [exact (api_u_ev T f2 y Hd)|].
  exists m. intros m' Hm'. apply Hm. exact Hm'.
Qed.

(* C06 through the mechanism: wire data, built *)
Lemma mech_wire prim_atom robust_leaf wire_leaf R F leaf_valid lit_leaf lit_member :
  M06.MarshalLaws rt prim_atom robust_leaf wire_leaf leaf_valid lit_leaf lit_member ->
  forall T, M06.fully_annotated E robust_leaf wire_leaf true R F T ->
  forall fuel n v w, M06.valid rt E leaf_valid n T v = true -> api_call rt E orders false fuel T v = Ok w ->
    M06.is_wire prim_atom w = true /\ M06.built rt w.
Proof.
  intros L T FA fuel n v w Hv H.
  destruct (api_m_ev T fuel v) as [m Hm]; [rewrite H; reflexivity|]. rewrite H in Hm.
  exact (TL.Props.C06.C06_full rt E prim_atom robust_leaf wire_leaf R F leaf_valid lit_leaf lit_member L T FA m n v w Hv (Hm m (le_n m))).
Qed.

(* C08 inside C05: the union step of the mechanism is C08's first acceptor over the DECLARED member order, each
   member run by the reference semantics of its own annotation *)
Lemma mech_union_first_acceptor : V13.NoneLaws rt ->
  forall fuel ts x y, x <> none rt \/ isoptional ts = false ->
    api_call rt E orders true fuel (TUnion ts) x = Ok y ->
    exists n, forall k, k >= n ->
      exists i t, nth_error ts i = Some t /\ unm rt E (S k) t x = Ok y /\
        forall j tj, j < i -> nth_error ts j = Some tj -> TL.Proofs.UnionBridge.c_rejects rt (unm rt E (S k) tj) x.
Proof.
  intros NL fuel ts x y Hx H.
  destruct (api_u_ev (TUnion ts) fuel x) as [m Hm]; [rewrite H; reflexivity|]. rewrite H in Hm.
  exists m. intros k Hk.
  apply (proj1 (TL.Proofs.UnionBridge.core_union_first_acceptor rt E k ts x y NL Hx)).
  apply Hm. unfold ge in *. apply Nat.le_trans with k; [exact Hk|]. apply Nat.le_trans with (S k); apply Nat.le_succ_diag_r.
Qed.

End Mechanism.

(* ================================================================== C. everything composed: the runtime of A, the
   environment and node orders of the graph model (C05Bridge), the mechanism (C05), the value theorems *)
Definition no_noop : nat -> bool := fun _ => false.
Lemma no_noop_sub (kind_of : nat -> option LBm.leafkind) : forall s, no_noop s = true -> LBm.any_leaf kind_of s = true.
Proof. intros s H. discriminate H. Qed.

Section Composed.
Variable C : LBm.coding.
Variable kind_of : nat -> option LBm.leafkind.
Variable rts : nat -> Tm.Runtime.
Variable mv : Tm.tok -> Tm.res Tm.val.      (* m.value of an enum member *)
Variable rt0 : Tm.Runtime.
Variable P : IOm.shape.
Variable ib : TL.Model.Iter.val -> option pv.
Variable T : IOm.tshape.
Variable srt : TL.Model.Serdes.Runtime.
Variable base : runtime.
Variable N : GBm.naming.
Variable G : TL.Model.Graph.env.
Variable orders : ty -> option (list node).
Variable noop : nat -> bool.                (* C05's noop_leaf: any set of pass-through leaves of the leaf table *)

Notation E := (GBm.tr_env N G).
Notation crt := (cap_runtime C kind_of rts mv rt0 P E ib T srt base).
Notation lvs := (LBm.lv C kind_of rts mv true).

Hypothesis CL : LBm.coding_law C.
Hypothesis NS : forall s, noop s = true -> LBm.any_leaf kind_of s = true.
Hypothesis GO : GBp.graph_orders N G noop orders.

Lemma cap_contract dir : TL.Props.C05.orders_contract E dir noop orders.
Proof. exact (GBp.contract_from_graph N G dir noop orders GO). Qed.
Lemma cap_noop_u : forall s x, noop s = true -> leaf_u crt s x = Ok x.
Proof. intros s x H. exact (cap_any_u C kind_of rts mv rt0 P E ib T srt base s x (NS s H)). Qed.
Lemma cap_noop_m : forall s x, noop s = true -> leaf_m crt s x = Ok x.
Proof. intros s x H. exact (cap_any_m C kind_of rts mv rt0 P E ib T srt base s x (NS s H)). Qed.

(* the mechanism along ANY translated topological order computes the reference semantics on the composed runtime *)
Lemma cap_mech_is_reference : forall Ty fuel x,
  (done (api_call crt E orders true fuel Ty x) = true -> ev (fun m => unm crt E m Ty x) (api_call crt E orders true fuel Ty x)) /\
  (done (api_call crt E orders false fuel Ty x) = true -> ev (fun m => mar crt E m Ty x) (api_call crt E orders false fuel Ty x)).
Proof.
  intros Ty fuel x. split.
  - exact (api_u_ev crt E noop orders (cap_contract true) cap_noop_u Ty fuel x).
  - exact (api_m_ev crt E noop orders (cap_contract false) cap_noop_m Ty fuel x).
Qed.

(* (1) C01 end to end *)
Lemma cap_C01_roundtrip : (forall s, Sc.RuntimeLaws (rts s)) -> (forall s, LBm.FoldLaws (rts s)) ->
  forall n Ty v fm fu w,
    M01.valid crt lvs E n Ty v = true -> M01.c01_guard crt E n Ty v = true -> M01.union_unamb crt lvs E n Ty v = true ->
    done (mar crt E n Ty v) = true ->
    api_call crt E orders false fm Ty v = Ok w ->
    done (api_call crt E orders true fu Ty w) = true ->
    api_call crt E orders true fu Ty w = Ok v.
Proof.
  intros HL HF.
  exact (mech_roundtrip crt E noop orders (cap_contract true) (cap_contract false) cap_noop_u cap_noop_m lvs
           (cap_round_laws C kind_of rts mv rt0 P E ib T srt base CL HL HF)).
Qed.

Lemma cap_C01_fixpoint : (forall s, Sc.RuntimeLaws (rts s)) -> (forall s, LBm.FoldLaws (rts s)) ->
  forall n Ty v fm fu fm' m v',
    M01.fix_ok crt lvs E n Ty v = true -> done (mar crt E n Ty v) = true ->
    api_call crt E orders false fm Ty v = Ok m ->
    api_call crt E orders true fu Ty m = Ok v' ->
    done (api_call crt E orders false fm' Ty v') = true ->
    api_call crt E orders false fm' Ty v' = Ok m.
Proof.
  intros HL HF.
  exact (mech_fixpoint crt E noop orders (cap_contract true) (cap_contract false) cap_noop_u cap_noop_m lvs
           (cap_round_laws C kind_of rts mv rt0 P E ib T srt base CL HL HF)).
Qed.

(* (1b) ... and the JSON text of the wire form, in any of the five text carriers, unmarshals to the value too:
   C01 o C05 o IoBridge_C14_unm_json_text (the load of the composed runtime IS Serdes.load) *)
Lemma cap_C01_roundtrip_text : (forall s, Sc.RuntimeLaws (rts s)) -> (forall s, LBm.FoldLaws (rts s)) ->
  TL.Model.Serdes.RuntimeLaws srt ->
  forall n Ty v fm fu w a k s r,
    M01.valid crt lvs E n Ty v = true -> M01.c01_guard crt E n Ty v = true -> M01.union_unamb crt lvs E n Ty v = true ->
    done (mar crt E n Ty v) = true ->
    api_call crt E orders false fm Ty v = Ok w ->
    IOm.load_first_ty E Ty = true -> is_scalar w = false ->
    TL.Model.Serdes.encodable s = true -> TL.Model.Serdes.json_loads_str srt s = TL.Model.Serdes.Ok r ->
    IOm.unS T r = Some w -> IOm.a_ser T a = TL.Model.Serdes.carrier srt k s ->
    done (api_call crt E orders true fu Ty (PAtom a)) = true ->
    api_call crt E orders true fu Ty (PAtom a) = Ok v.
Proof.
  intros HL HF SL n Ty v fm fu w a k s r Hv Hg Hu Hd Hm Hlf Hsc He Hj HunS Ha Hdu.
  assert (Hm' : mar crt E n Ty v = Ok w).
  { apply mar_done_ev; [exact Hd|]. rewrite <- Hm. apply (proj2 (cap_mech_is_reference Ty fm v)). rewrite Hm. reflexivity. }
  destruct (TL.Props.C01.C01_roundtrip crt lvs E (cap_round_laws C kind_of rts mv rt0 P E ib T srt base CL HL HF)
              n n Ty v w (le_n n) Hv Hg Hu Hm') as [m Hround].
  apply (ev_unique (fun m' => unm crt E m' Ty (PAtom a))); [exact (proj1 (cap_mech_is_reference Ty fu (PAtom a)) Hdu)|].
  exists m. intros m' Hm'0.
  rewrite (IOp.unm_json_text T srt crt E m' Ty a k s r w (cap_load_law C kind_of rts mv rt0 P E ib T srt base) SL He Hj HunS Hsc Ha Hlf).
  apply Hround. exact Hm'0.
Qed.

(* (4) C03: whatever the mechanism returns conforms -- NO interpreter law *)
Lemma cap_C03_conforms : P03.wf_env E ->
  forall fuel Ty x v, api_call crt E orders true fuel Ty x = Ok v ->
    exists n, M03.conforms crt E (LBm.leaf_class_ok C kind_of rts) n Ty v = true.
Proof.
  intros WF.
  exact (mech_conforms crt E noop orders (cap_contract true) cap_noop_u _
           (cap_leaf_laws C kind_of rts mv rt0 P E ib T srt base CL) WF).
Qed.

(* (4) C13, serdes.load of the scalar routines taken from the SAME Serdes runtime as the core model's load *)
Lemma cap_C13_passthrough : forall Tz, LBp.Utf8Total rt0 -> (forall e, suppressed base (LBm.exn_map e) = true) ->
  (forall s, LBm.SLoadLaw Tz srt (rts s)) -> (forall s, LBm.SShapeLaws Tz (rts s)) ->
  V13.wf_env E ->
  forall n fuel Ty v, V13.optional_only E n Ty = true ->
    V13.valid (LBm.lv_inst C kind_of rts) crt E n Ty v = true ->
    done (api_call crt E orders true fuel Ty v) = true -> api_call crt E orders true fuel Ty v = Ok v.
Proof.
  intros Tz HU HS H1 H2 WF.
  exact (mech_passthrough crt E noop orders (cap_contract true) cap_noop_u _
           (cap_pass_laws_inst C kind_of rts mv rt0 P E ib T srt base CL HU HS
              (proj1 (cap_load_laws_same_serdes C kind_of rts mv rt0 P E ib T srt base Tz H1 H2))) WF).
Qed.

Lemma cap_C13_idempotent : forall Tz, LBp.Utf8Total rt0 -> (forall e, suppressed base (LBm.exn_map e) = true) ->
  (forall s, LBm.SLoadLaw Tz srt (rts s)) -> (forall s, LBm.SShapeLaws Tz (rts s)) ->
  (forall s w m, Tm.enum_of_val (rts s) w = Tm.Ok m -> Tm.is_member (rts s) m = true) ->
  LBp.base_idem kind_of base ->
  V13.wf_env E -> V13.DefaultsConform crt E ->
  forall Ty, (forall k, V13.optional_only E k Ty = true) ->
  forall f1 f2 x y, api_call crt E orders true f1 Ty x = Ok y ->
    done (api_call crt E orders true f2 Ty y) = true -> api_call crt E orders true f2 Ty y = Ok y.
Proof.
  intros Tz HU HS H1 H2 HE HB WF DC.
  exact (mech_idempotent crt E noop orders (cap_contract true) cap_noop_u
           (cap_idem_laws C kind_of rts mv rt0 P E ib T srt base CL HU HS
              (proj1 (cap_load_laws_same_serdes C kind_of rts mv rt0 P E ib T srt base Tz H1 H2)) HE HB) WF DC).
Qed.

(* (4) C06: wire output of the mechanism -- NO interpreter law *)
Lemma cap_C06_wire : forall strict R F Ty,
  M06.fully_annotated E (LBm.robust_leaf kind_of) (LBm.robust_leaf kind_of) true R F Ty ->
  forall fuel n v w, M06.valid crt E (LBm.lv C kind_of rts mv strict) n Ty v = true ->
    api_call crt E orders false fuel Ty v = Ok w ->
    M06.is_wire (LBm.prim_atom C) w = true /\ M06.built crt w.
Proof.
  intros strict R F Ty FA.
  exact (mech_wire crt E noop orders (cap_contract false) cap_noop_m _ _ _ R F _ _ _
           (cap_marshal_laws C kind_of rts mv rt0 P E ib T srt base CL strict) Ty FA).
Qed.

(* (5) C08 inside C05 *)
Lemma cap_C08_first_acceptor : LBp.Utf8Total rt0 -> (forall e, suppressed base (LBm.exn_map e) = true) ->
  forall fuel ts x y, x <> none crt \/ isoptional ts = false ->
    api_call crt E orders true fuel (TUnion ts) x = Ok y ->
    exists n, forall k, k >= n ->
      exists i t, nth_error ts i = Some t /\ unm crt E (S k) t x = Ok y /\
        forall j tj, j < i -> nth_error ts j = Some tj -> TL.Proofs.UnionBridge.c_rejects crt (unm crt E (S k) tj) x.
Proof.
  intros HU HS.
  exact (mech_union_first_acceptor crt E noop orders (cap_contract true) cap_noop_u
           (cap_none_laws C kind_of rts mv rt0 P E ib T srt base CL HU HS)).
Qed.

End Composed.

(* ================================================================== D. the codec layer over the MECHANISM *)
(* Proofs/CodecBridge.v instantiates Model/Codec.v with marshaller(T) = Core.mar (the reference semantics).  Here the
   routines the codec holds are the ones the factory builds: marshaller(T)(v) = Build.api_call ... false, with the JSON
   layer of Model/Json.v as the configured encoder / decoder. *)
Section MechCodec.
Variable atab : nat -> option Js.jv.
Variable ktab : nat -> option (list N).
Variable unat : Js.jv -> pv.
Variable rt : runtime.
Variable E : env.
Variable orders : ty -> option (list node).
Variable st : Js.style.
Variables strict surr : bool.
Variable dom : Js.jv -> bool.
Variable isb : ty -> bool.
Variable class_of : CB.obj -> ty.

Definition mk_marM (fm : nat) (Ty : ty) : Cd.res (Cd.routine CB.obj) :=
  Cd.Ok (CB.routine_of (api_call rt E orders false fm Ty)).
Definition mk_unmM (fu : nat) (Ty : ty) : Cd.res (Cd.routine CB.obj) :=
  Cd.Ok (CB.routine_of (api_call rt E orders true fu Ty)).
Notation jd := (CB.json_dumps atab ktab st dom).
Notation jl := (CB.json_loads unat strict surr).
(* codec(T).encode(v) / codec(T).decode(b) *)
Definition encM (fm fu : nat) (Ty : ty) (v : pv) : Cd.res CB.obj :=
  Cd.codec_encode ty CB.obj (mk_marM fm) (mk_unmM fu) isb jd jl Ty None None (CB.OVal v).
Definition decM (fm fu : nat) (Ty : ty) (b : CB.obj) : Cd.res CB.obj :=
  Cd.codec_decode ty CB.obj (mk_marM fm) (mk_unmM fu) isb jd jl Ty None None b.
(* typelib.encode(v, t=T) / typelib.decode(T, b) *)
Definition api_encM (fm : nat) (Ty : ty) (v : pv) : Cd.res CB.obj :=
  Cd.api_encode ty CB.obj (mk_marM fm) isb class_of jd (CB.OVal v) (Some Ty) None.
Definition api_decM (fu : nat) (Ty : ty) (b : CB.obj) : Cd.res CB.obj :=
  Cd.api_decode ty CB.obj (mk_unmM fu) isb jl Ty b None.

Hypothesis TLw : CB.TableLaws atab ktab unat.
Hypothesis Hsp : forallb Js.is_ws (Js.st_sp st) = true.

Lemma mechM_entry_points fm fu Ty v b :
  api_encM fm Ty v = encM fm fu Ty v /\ api_decM fu Ty b = decM fm fu Ty b.
Proof.
  split.
  - exact (proj1 (TL.Props.C02.C02_entry_points_encode ty CB.obj (mk_marM fm) (mk_unmM fu) isb class_of jd jl
                    Ty (CB.OVal v) None None eq_refl)).
  - exact (proj1 (TL.Props.C02.C02_entry_points_decode ty CB.obj (mk_marM fm) (mk_unmM fu) isb jd jl
                    Ty b None None eq_refl)).
Qed.

Lemma mechM_roundtrip fm fu Ty v w j :
  api_call rt E orders false fm Ty v = Ok w -> CB.tr atab ktab w = Some j -> dom j = true -> CB.nodup_keys j = true ->
  api_call rt E orders true fu Ty w = Ok v ->
  Cd.bind (encM fm fu Ty v) (decM fm fu Ty) = Cd.Ok (CB.OVal v).
Proof.
  intros Hm Ht Hd Hn Hu. unfold encM, decM.
  apply (TL.Props.C02.C02_roundtrip ty CB.obj (mk_marM fm) (mk_unmM fu) isb class_of jd jl
           Ty (CB.OVal v) None None (fun o => o = CB.OVal w)).
  - unfold Cd.marshal_fn, Cd.unmarshal_fn, mk_marM, mk_unmM. cbn [Cd.bind CB.routine_of]. rewrite Hm.
    cbn [CB.lift Cd.bind CB.routine_of]. rewrite Hu. reflexivity.
  - intros w' H. unfold Cd.marshal_fn, mk_marM in H. cbn [Cd.bind CB.routine_of] in H. rewrite Hm in H.
    cbn [CB.lift] in H. inversion H. reflexivity.
  - intros w' ->. cbn [Cd.dflt]. exact (CB.encoder_law atab ktab unat st strict surr dom TLw Hsp w j Ht Hd Hn).
Qed.

Lemma mechM_encode_value fm fu Ty v w j : isb Ty = false ->
  api_call rt E orders false fm Ty v = Ok w -> CB.tr atab ktab w = Some j -> dom j = true ->
  encM fm fu Ty v = Cd.Ok (CB.OBytes (Js.json_write st j)).
Proof.
  intros Hb Hm Ht Hd. unfold encM, Cd.codec_encode, Cd.codec, mk_marM, mk_unmM. cbn [Cd.bind]. rewrite Hb.
  cbn [Cd.bind]. unfold Cd.Codec_encode. cbn [Cd.marshal Cd.encoder Cd.dflt CB.routine_of].
  rewrite Hm. cbn [CB.lift Cd.bind]. unfold CB.json_dumps. rewrite Ht, Hd. reflexivity.
Qed.

Lemma mechM_valid_json fm fu Ty v w j : isb Ty = false ->
  api_call rt E orders false fm Ty v = Ok w -> CB.tr atab ktab w = Some j -> dom j = true ->
  exists b, encM fm fu Ty v = Cd.Ok (CB.OBytes b) /\
            (forall s' u', Js.json_read_gen s' u' b = Some j) /\ CB.untr unat j = w /\
            (TL.Proofs.JsonLemmas.known_style st -> Js.std_loads b = Some j /\ Js.std_utf8_branch b = true).
Proof.
  intros Hb Hm Ht Hd. exists (Js.json_write st j). pose proof (CB.tr_ok atab ktab unat TLw w j Ht) as Hok.
  split; [exact (mechM_encode_value fm fu Ty v w j Hb Hm Ht Hd)|].
  split; [intros s' u'; exact (TL.Proofs.JsonLemmas.read_write st Hsp s' u' j Hok)|].
  split; [exact (CB.untr_tr atab ktab unat TLw w j Ht)|].
  intros K. split; [exact (TL.Proofs.JsonLemmas.std_loads_write st Hsp j Hok)|].
  exact (proj2 (proj2 (TL.Proofs.JsonLemmas.output_wellformed st j K Hok))).
Qed.

End MechCodec.

(* ================================================================== E. (3) C02 end to end, (2) any history *)
Section ComposedCodec.
Variable C : LBm.coding.
Variable kind_of : nat -> option LBm.leafkind.
Variable rts : nat -> Tm.Runtime.
Variable mv : Tm.tok -> Tm.res Tm.val.
Variable rt0 : Tm.Runtime.
Variable P : IOm.shape.
Variable ib : TL.Model.Iter.val -> option pv.
Variable T : IOm.tshape.
Variable srt : TL.Model.Serdes.Runtime.
Variable base : runtime.
Variable N : GBm.naming.
Variable G : TL.Model.Graph.env.
Variable orders : ty -> option (list node).
Variable noop : nat -> bool.

Notation E := (GBm.tr_env N G).
Notation crt := (cap_runtime C kind_of rts mv rt0 P E ib T srt base).
Notation lvs := (LBm.lv C kind_of rts mv true).

Hypothesis CL : LBm.coding_law C.
Hypothesis NS : forall s, noop s = true -> LBm.any_leaf kind_of s = true.
Hypothesis GO : GBp.graph_orders N G noop orders.
Hypothesis HL : forall s, Sc.RuntimeLaws (rts s).
Hypothesis HF : forall s, LBm.FoldLaws (rts s).

(* (3) codec(T).decode(codec(T).encode(v)) = v and the bytes are valid JSON for marshal(v, t=T): the codec holds the
   routines the factory built along a graph order, the leaves are the scalar model, the JSON layer is Model/Json.v *)
Lemma cap_C02_roundtrip atab ktab unat st strict surr dom isb class_of :
  CB.TableLaws atab ktab unat -> forallb Js.is_ws (Js.st_sp st) = true ->
  forall n Ty v fm fu w j,
    M01.valid crt lvs E n Ty v = true -> M01.c01_guard crt E n Ty v = true -> M01.union_unamb crt lvs E n Ty v = true ->
    done (mar crt E n Ty v) = true ->
    api_call crt E orders false fm Ty v = Ok w ->
    CB.tr atab ktab w = Some j -> dom j = true -> CB.nodup_keys j = true ->
    done (api_call crt E orders true fu Ty w) = true ->
    Cd.bind (encM atab ktab unat crt E orders st strict surr dom isb fm fu Ty v)
            (decM atab ktab unat crt E orders st strict surr dom isb fm fu Ty) = Cd.Ok (CB.OVal v) /\
    api_encM atab ktab crt E orders st dom isb class_of fm Ty v = encM atab ktab unat crt E orders st strict surr dom isb fm fu Ty v /\
    (isb Ty = false ->
       exists b, encM atab ktab unat crt E orders st strict surr dom isb fm fu Ty v = Cd.Ok (CB.OBytes b) /\
                 (forall s' u', Js.json_read_gen s' u' b = Some j) /\ CB.untr unat j = w /\
                 (TL.Proofs.JsonLemmas.known_style st -> Js.std_loads b = Some j /\ Js.std_utf8_branch b = true)).
Proof.
  intros TLw Hsp n Ty v fm fu w j Hv Hg Hu Hd Hm Ht Hdm Hn Hdu.
  pose proof (cap_C01_roundtrip C kind_of rts mv rt0 P ib T srt base N G orders noop CL NS GO HL HF n Ty v fm fu w Hv Hg Hu Hd Hm Hdu) as Hr.
  split; [exact (mechM_roundtrip atab ktab unat crt E orders st strict surr dom isb class_of TLw Hsp fm fu Ty v w j Hm Ht Hdm Hn Hr)|].
  split; [exact (proj1 (mechM_entry_points atab ktab unat crt E orders st strict surr dom isb class_of fm fu Ty v (CB.OVal v)))|].
  intros Hb. exact (mechM_valid_json atab ktab unat crt E orders st strict surr dom isb TLw Hsp fm fu Ty v w j Hb Hm Ht Hdm).
Qed.

(* (2) the same round trip between two calls of ANY clean history of the memoised system (C12Bridge): what call i
   marshalled, call j -- earlier or later, whatever ran in between, whichever caches were warm -- unmarshals back *)
Lemma cap_C01_any_history uw_fuel is_text max_load alias_load enc dec byteslike :
  forall fuel h,
    TL.Model.CacheBridge.clean_hist crt E orders uw_fuel is_text max_load alias_load enc dec byteslike fuel
      TL.Model.CacheBridge.cinit h = true ->
  forall i j n Ty v w r,
    nth_error h i = Some (TL.Model.CacheBridge.CMarshal Ty v) ->
    nth_error (TL.Model.CacheBridge.outsS crt E orders uw_fuel is_text max_load alias_load enc dec byteslike fuel
                 TL.Model.CacheBridge.cinit h) i = Some (TL.Model.CacheBridge.COVal (Ok w)) ->
    M01.valid crt lvs E n Ty v = true -> M01.c01_guard crt E n Ty v = true -> M01.union_unamb crt lvs E n Ty v = true ->
    done (mar crt E n Ty v) = true ->
    nth_error h j = Some (TL.Model.CacheBridge.CUnmarshal Ty w) ->
    nth_error (TL.Model.CacheBridge.outsS crt E orders uw_fuel is_text max_load alias_load enc dec byteslike fuel
                 TL.Model.CacheBridge.cinit h) j = Some (TL.Model.CacheBridge.COVal r) ->
    done r = true ->
    r = Ok v.
Proof.
  exact (TL.Props.C12Bridge.C01_roundtrip_in_any_history crt E orders uw_fuel is_text max_load alias_load enc dec byteslike
           noop (cap_contract N G orders noop GO true) (cap_contract N G orders noop GO false)
           (cap_noop_u C kind_of rts mv rt0 P ib T srt base N G noop NS)
           (cap_noop_m C kind_of rts mv rt0 P ib T srt base N G noop NS)
           lvs (cap_round_laws C kind_of rts mv rt0 P E ib T srt base CL HL HF)).
Qed.

End ComposedCodec.

(* C03 in any history needs no interpreter law at all *)
Lemma cap_C03_any_history C kind_of rts mv rt0 P ib T srt base N G orders noop :
  LBm.coding_law C -> (forall s, noop s = true -> LBm.any_leaf kind_of s = true) ->
  GBp.graph_orders N G noop orders -> P03.wf_env (GBm.tr_env N G) ->
  forall uw_fuel is_text max_load alias_load enc dec byteslike fuel h,
    TL.Model.CacheBridge.clean_hist (cap_runtime C kind_of rts mv rt0 P (GBm.tr_env N G) ib T srt base) (GBm.tr_env N G)
      orders uw_fuel is_text max_load alias_load enc dec byteslike fuel TL.Model.CacheBridge.cinit h = true ->
  forall k Ty x v,
    nth_error h k = Some (TL.Model.CacheBridge.CUnmarshal Ty x) ->
    nth_error (TL.Model.CacheBridge.outsS (cap_runtime C kind_of rts mv rt0 P (GBm.tr_env N G) ib T srt base) (GBm.tr_env N G)
                 orders uw_fuel is_text max_load alias_load enc dec byteslike fuel TL.Model.CacheBridge.cinit h) k
      = Some (TL.Model.CacheBridge.COVal (Ok v)) ->
    exists n, M03.conforms (cap_runtime C kind_of rts mv rt0 P (GBm.tr_env N G) ib T srt base) (GBm.tr_env N G)
                (LBm.leaf_class_ok C kind_of rts) n Ty v = true.
Proof.
  intros CL NS GO WF uw_fuel is_text max_load alias_load enc dec byteslike.
  exact (TL.Props.C12Bridge.C03_conforms_in_any_history _ _ orders uw_fuel is_text max_load alias_load enc dec byteslike
           noop (cap_contract N G orders noop GO true) (cap_noop_u C kind_of rts mv rt0 P ib T srt base N G noop NS)
           _ (cap_leaf_laws C kind_of rts mv rt0 P (GBm.tr_env N G) ib T srt base CL) WF).
Qed.

(* ================================================================== F. (4) C06 with object identity *)
(* the heap model (Model/Heap.v) runs the same routine bodies on located values.  Composed: the OBJECT it returns
   denotes exactly the value the mechanism returns, that value is wire data, no mutable object of it existed before the
   call, and every object that existed before is unchanged. *)
Module Hp := TL.Model.Heap.
Lemma cap_C06_heap C kind_of rts mv rt0 P ib T srt base N G orders noop :
  LBm.coding_law C -> (forall s, noop s = true -> LBm.any_leaf kind_of s = true) -> GBp.graph_orders N G noop orders ->
  forall (hr : Hp.hruntime) fu strict R F Ty,
  Hp.AllocLaws hr -> Hp.FreshLaws hr (LBm.robust_leaf kind_of) fu ->
  M06.fully_annotated (GBm.tr_env N G) (LBm.robust_leaf kind_of) (LBm.robust_leaf kind_of) true R F Ty ->
  forall fuel fm n h l v h' l' w,
    Hp.read fuel h l = Some v ->
    M06.valid (cap_runtime C kind_of rts mv rt0 P (GBm.tr_env N G) ib T srt base) (GBm.tr_env N G)
      (LBm.lv C kind_of rts mv strict) n Ty v = true ->
    Hp.hmar (cap_runtime C kind_of rts mv rt0 P (GBm.tr_env N G) ib T srt base) hr (GBm.tr_env N G) fuel Ty h l = Ok (h', l') ->
    api_call (cap_runtime C kind_of rts mv rt0 P (GBm.tr_env N G) ib T srt base) (GBm.tr_env N G) orders false fm Ty v = Ok w ->
    Hp.reads h' l' w /\ M06.is_wire (LBm.prim_atom C) w = true /\
    (forall p, Hp.reach h' l' p -> Hp.mutable_at h' p = true -> List.length h <= p) /\
    (forall k p x, Hp.read k h p = Some x -> Hp.read k h' p = Some x).
Proof.
  intros CL NS GO hr fu strict R F Ty HA HFr FA fuel fm n h l v h' l' w Hr Hv Hh Hm.
  set (crt := cap_runtime C kind_of rts mv rt0 P (GBm.tr_env N G) ib T srt base) in *.
  pose proof (TL.Props.C06Heap.C06H_marshal_refines crt hr (GBm.tr_env N G) HA fuel Ty h l v Hr) as Hrf.
  rewrite Hh in Hrf. unfold Hp.refines in Hrf.
  destruct (mar crt (GBm.tr_env N G) fuel Ty v) as [w0| | |] eqn:Hm0; try contradiction.
  assert (Hw : Ok w0 = Ok w).
  { rewrite <- Hm0. apply mar_done_ev; [rewrite Hm0; reflexivity|]. rewrite <- Hm.
    apply (proj2 (cap_mech_is_reference C kind_of rts mv rt0 P ib T srt base N G orders noop NS GO Ty fm v)).
    fold crt. rewrite Hm. reflexivity. }
  injection Hw as ->.
  split; [exact Hrf|].
  split; [exact (proj1 (cap_C06_wire C kind_of rts mv rt0 P ib T srt base N G orders noop CL NS GO strict R F Ty FA fm n v w Hv Hm))|].
  split.
  - exact (TL.Props.C06Heap.C06H_fresh_fully_annotated crt hr (GBm.tr_env N G) (LBm.robust_leaf kind_of) (LBm.robust_leaf kind_of)
             (LBm.robust_leaf kind_of) fu R F HA HFr (cap_none_is_atom C kind_of rts mv rt0 P (GBm.tr_env N G) ib T srt base)
             (fun s H => H) (fun s H => H) Ty FA fuel h l h' l' Hh).
  - exact (proj2 (TL.Props.C06Heap.C06H_marshal_frame crt hr (GBm.tr_env N G) HA fuel Ty h l h' l' Hh)).
Qed.

(* ================================================================== G. Any fields: the pass-through kind of the leaf table *)
(* C05Bridge's guard classes_ok asks, for a class with a field annotated typing.Any, that Any be a pass-through leaf
   (noop_leaf (any_id N) = true: graph.py gives the field no node and the structured routine falls back to the no-op
   routine); C05 then asks leaf_u rt s x = Ok x for EVERY x at such a leaf.  The OLD leaf table had no such leaf (every
   kind was a scalar kind and answered Unmodelled on a container): if the table binds any_id N to a scalar kind, every
   environment with an Any field is outside the composition, whatever noop_leaf is chosen. *)
Lemma cap_any_field_excluded C kind_of rts mv rt0 P E' ib T srt base :
  forall (N : GBm.naming) (G : TL.Model.Graph.env) (noop_leaf : nat -> bool) (g : TL.Model.Graph.adjacency) p preds c d kd,
    kind_of (GBm.any_id N) = Some kd -> kd <> LBm.LAny ->
    In (p, preds) g -> TL.Model.Graph.nunw p = TL.Model.Graph.GClass c -> G c = Some d ->
    In TL.Model.Graph.GAny (map snd (TL.Model.Graph.cfields d)) ->
    GBp.bridge_guard N G noop_leaf g = true ->
    (forall s x, noop_leaf s = true -> leaf_u (cap_runtime C kind_of rts mv rt0 P E' ib T srt base) s x = Ok x) ->
    False.
Proof.
  intros N G noop_leaf g p preds c d kd Hk Hkd Hin Hp Hc Hany Hb Hn.
  unfold GBp.bridge_guard in Hb. apply andb_prop in Hb. destruct Hb as [Hcl _].
  unfold GBp.classes_ok in Hcl. rewrite forallb_forall in Hcl. specialize (Hcl (p, preds) Hin). cbn [fst] in Hcl.
  rewrite Hp in Hcl. destruct (GBp.class_guard_rel N G noop_leaf c Hcl) as [d' [Hd' [_ Ha]]].
  rewrite Hc in Hd'. injection Hd' as <-.
  destruct (cap_noop_forced_u C kind_of rts mv rt0 P E' ib T srt base noop_leaf Hn (GBm.any_id N) (Ha Hany)) as [Hf|Hf].
  - unfold LBm.any_leaf in Hf. rewrite Hk in Hf. destruct kd; try discriminate Hf. congruence.
  - rewrite Hk in Hf. discriminate Hf.
Qed.

(* With the pass-through kind the composition covers environments WITH Any fields: bind any_id N to LAny.  [with_any a
   kind_of] is that table; anything is valid at the leaf, and noop_leaf = exactly that leaf is accepted. *)
Definition with_any (a : nat) (kind_of : nat -> option LBm.leafkind) : nat -> option LBm.leafkind :=
  fun s => if Nat.eqb s a then Some LBm.LAny else kind_of s.
Definition only_leaf (a : nat) : nat -> bool := fun s => Nat.eqb s a.
Lemma only_leaf_sub a kind_of : forall s, only_leaf a s = true -> LBm.any_leaf (with_any a kind_of) s = true.
Proof. intros s H. unfold only_leaf in H. unfold LBm.any_leaf, with_any. rewrite H. reflexivity. Qed.
Lemma with_any_noop_u C a kind_of rts mv rt0 P E ib T srt base : forall s x, only_leaf a s = true ->
  leaf_u (cap_runtime C (with_any a kind_of) rts mv rt0 P E ib T srt base) s x = Ok x.
Proof. intros s x H. exact (cap_any_u C _ rts mv rt0 P E ib T srt base s x (only_leaf_sub a kind_of s H)). Qed.
Lemma with_any_lv C a kind_of rts mv strict : forall x, LBm.lv C (with_any a kind_of) rts mv strict a x = true.
Proof. intros x. unfold LBm.lv, with_any. rewrite Nat.eqb_refl. reflexivity. Qed.
Lemma with_any_other C a kind_of rts mv strict : forall s x, Nat.eqb s a = false ->
  LBm.lv C (with_any a kind_of) rts mv strict s x = LBm.lv C kind_of rts mv strict s x.
Proof. intros s x H. unfold LBm.lv, with_any. rewrite H. reflexivity. Qed.

Lemma cap_C01_roundtrip_with_any C kind_of rts mv rt0 P ib T srt base N G orders :
  LBm.coding_law C -> (forall s, Sc.RuntimeLaws (rts s)) -> (forall s, LBm.FoldLaws (rts s)) ->
  GBp.graph_orders N G (only_leaf (GBm.any_id N)) orders ->
  forall n Ty v fm fu w,
    let rt := cap_runtime C (with_any (GBm.any_id N) kind_of) rts mv rt0 P (GBm.tr_env N G) ib T srt base in
    let lva := LBm.lv C (with_any (GBm.any_id N) kind_of) rts mv true in
    M01.valid rt lva (GBm.tr_env N G) n Ty v = true -> M01.c01_guard rt (GBm.tr_env N G) n Ty v = true ->
    M01.union_unamb rt lva (GBm.tr_env N G) n Ty v = true ->
    done (mar rt (GBm.tr_env N G) n Ty v) = true ->
    api_call rt (GBm.tr_env N G) orders false fm Ty v = Ok w ->
    done (api_call rt (GBm.tr_env N G) orders true fu Ty w) = true ->
    api_call rt (GBm.tr_env N G) orders true fu Ty w = Ok v.
Proof.
  intros CL HL HF GO n Ty v fm fu w rt lva.
  exact (cap_C01_roundtrip C (with_any (GBm.any_id N) kind_of) rts mv rt0 P ib T srt base N G orders
           (only_leaf (GBm.any_id N)) CL (only_leaf_sub _ kind_of) GO HL HF n Ty v fm fu w).
Qed.

(* ================================================================== H. the example instance *)
(* ONE instance in which every hypothesis of the compositions holds, fully computed:
     module:   class N0: kids: list[N0]; val: Optional[int]                 (Props/C05Bridge.v: brE, brN)
     roots:    list[N0] (node order = Kahn's order of the graph model's adjacency, translated) and list[int]
     leaves:   the scalar model on the toy interpreter (Model/ScalarsToy.v), leaf 0 = int
     serdes:   the Iter / Serdes models on the toy text runtime (Model/IoBridgeEq.v, Model/SerdesToy.v)
     atoms:    0 = None, 261 + n = the int n (the numbering of IoBridgeEq's toy shape; the coding agrees with it on
               None and on the ints 0..7 and sends everything else above 268), 2 = the bytes b"[1,2]"
     fields:   PKey 0 = "kids", PKey 1 = "val" *)
Local Open Scope string_scope.
Definition ex_enc (v : Tm.val) : nat :=
  match v with
  | Tm.VNone => 0
  | Tm.VInt z => if ((0 <=? z)%Z && (z <? 8)%Z)%bool then 261 + Z.to_nat z else 269 + LBm.std_enc v
  | _ => 269 + LBm.std_enc v
  end.
Definition ex_dec (a : nat) : option Tm.val :=
  match a with
  | 0 => Some Tm.VNone
  | _ => if Nat.ltb a 261 then None
         else if Nat.ltb a 269 then Some (Tm.VInt (Z.of_nat (a - 261))) else LBm.std_dec (a - 269)
  end.
Definition ex_coding : LBm.coding := {|
  LBm.enc := ex_enc; LBm.dec := ex_dec;
  LBm.key_text := fun f => match f with 0 => Some "kids" | 1 => Some "val" | _ => None end;
  LBm.key_of := fun s => if String.eqb s "kids" then Some 0 else if String.eqb s "val" then Some 1 else None |}.
Local Close Scope string_scope.

Lemma ex_dec_enc v : ex_dec (ex_enc v) = Some v.
Proof.
  assert (Hstd : forall x, ex_dec (269 + LBm.std_enc x) = Some x).
  { intros x. unfold ex_dec. destruct (269 + LBm.std_enc x) as [|k] eqn:Hk; [lia|]. rewrite <- Hk.
    replace (Nat.ltb (269 + LBm.std_enc x) 261) with false by (symmetry; apply Nat.ltb_ge; lia).
    replace (Nat.ltb (269 + LBm.std_enc x) 269) with false by (symmetry; apply Nat.ltb_ge; lia).
    replace (269 + LBm.std_enc x - 269) with (LBm.std_enc x) by lia. apply LBp.std_dec_enc. }
  destruct v; try apply Hstd; [reflexivity|].
  unfold ex_enc. destruct ((0 <=? z)%Z && (z <? 8)%Z)%bool eqn:Hz; [|apply Hstd].
  apply andb_prop in Hz. destruct Hz as [H0 H8]. apply Z.leb_le in H0. apply Z.ltb_lt in H8.
  unfold ex_dec. destruct (261 + Z.to_nat z) as [|k] eqn:Hk; [lia|]. rewrite <- Hk.
  replace (Nat.ltb (261 + Z.to_nat z) 261) with false by (symmetry; apply Nat.ltb_ge; lia).
  replace (Nat.ltb (261 + Z.to_nat z) 269) with true by (symmetry; apply Nat.ltb_lt; lia).
  replace (261 + Z.to_nat z - 261) with (Z.to_nat z) by lia. rewrite Z2Nat.id by exact H0. reflexivity.
Qed.

Lemma ex_coding_law : LBm.coding_law ex_coding.
Proof.
  split; [exact ex_dec_enc|]. split.
  - intros [|[|f]] s H; cbn in H; try discriminate H; injection H as <-; reflexivity.
  - intros s f H. cbn in H |- *.
    destruct (String.eqb s "kids") eqn:H1; [apply String.eqb_eq in H1; subst s; injection H as <-; reflexivity|].
    destruct (String.eqb s "val") eqn:H2; [apply String.eqb_eq in H2; subst s; injection H as <-; reflexivity|].
    discriminate H.
Qed.

Definition ex_kind (s : nat) : option LBm.leafkind := match s with 0 => Some LBm.LInt | _ => None end.
Definition ex_rts (s : nat) : Tm.Runtime := TL.Model.ScalarsToy.toy_rt.
Definition ex_N : GBm.naming := TL.Props.C05Bridge.brN.
Definition ex_G : TL.Model.Graph.env := TL.Props.C05Bridge.brE.
Definition ex_E : env := GBm.tr_env ex_N ex_G.
Definition ex_rt : runtime :=
  cap_runtime ex_coding ex_kind ex_rts LBm.ex_ev TL.Model.ScalarsToy.toy_rt
    TL.Model.IoBridgeEq.toy_shape ex_E TL.Model.IoBridgeEq.toy_back TL.Model.IoBridgeEq.toy_tshape
    TL.Model.SerdesToy.toy_rt LBm.ex_base.
Definition ex_lv : nat -> pv -> bool := LBm.lv ex_coding ex_kind ex_rts LBm.ex_ev true.

(* BackLaws does not look at the class environment when the back table only names scalars *)
Lemma emb_scalar_env P E1 E2 v : is_scalar v = true -> IOm.emb P E1 v = IOm.emb P E2 v.
Proof. destruct v; try discriminate; reflexivity. Qed.
Lemma back_laws_env P E1 E2 ib : (forall x v, ib x = Some v -> is_scalar v = true) ->
  IOm.BackLaws P E1 ib -> IOm.BackLaws P E2 ib.
Proof.
  intros Hs [h1 h2 h3 h4 h5]. constructor.
  - intros x v H. rewrite (emb_scalar_env P E2 E1 v (Hs x v H)). exact (h1 x v H).
  - intros v l Hv H. rewrite (emb_scalar_env P E2 E1 v Hv) in H. exact (h2 v l Hv H).
  - intros v l Hv H. rewrite (emb_scalar_env P E2 E1 v Hv) in H. exact (h3 v l Hv H).
  - intros v a b Hv H. rewrite (emb_scalar_env P E2 E1 v Hv) in H. exact (h4 v a b Hv H).
  - exact h5.
Qed.
Lemma toy_back_scalar x v : TL.Model.IoBridgeEq.toy_back x = Some v -> is_scalar v = true.
Proof.
  unfold TL.Model.IoBridgeEq.toy_back. intros H.
  destruct x as [| z | s | | | | | |]; try discriminate H.
  - injection H as <-. reflexivity.
  - destruct (z <? 0)%Z; [discriminate H|]. injection H as <-. reflexivity.
  - destruct s as [|c [|c2 s']].
    + repeat match type of H with context [if ?b then _ else _] => destruct b end;
        try discriminate H; injection H as <-; reflexivity.
    + destruct (Ascii.eqb c "x"%char); injection H as <-; reflexivity.
    + repeat match type of H with context [if ?b then _ else _] => destruct b end;
        try discriminate H; injection H as <-; reflexivity.
Qed.
Lemma ex_back_laws : IOm.BackLaws TL.Model.IoBridgeEq.toy_shape ex_E TL.Model.IoBridgeEq.toy_back.
Proof. exact (back_laws_env _ _ ex_E _ toy_back_scalar IOp.toy_back_laws). Qed.

(* node orders: list[N0] as in Props/C05Bridge.v, and list[int] *)
Definition ex_Tn : ty := TSeq KList (TName 0).
Definition ex_Ti : ty := TSeq KList (TLeaf 0).
Definition ex_order_i : list node :=
  [ {| ntype := TLeaf 0; nunw := TLeaf 0; ncyc := false |}; {| ntype := ex_Ti; nunw := ex_Ti; ncyc := false |} ].
Definition ex_orders (t : ty) : option (list node) :=
  if ty_eqb t ex_Tn then Some (TL.Props.C05.exOrder ++ [TL.Props.C05.exRoot])
  else if ty_eqb t ex_Ti then Some ex_order_i else None.

Lemma ex_graph_i :
  exists g order, TL.Model.Graph.type_graph 20 ex_G (TL.Model.Graph.GGen TL.Model.Graph.GList [TL.Model.Graph.GScalar TL.Model.Graph.SInt])
                    = TL.Model.Graph.Ok g /\
    TL.Model.Topo.is_topo_order g order /\ GBp.bridge_guard ex_N ex_G no_noop g = true /\
    GBm.tr_order ex_N order = Some ex_order_i.
Proof.
  destruct (TL.Model.Graph.type_graph 20 ex_G (TL.Model.Graph.GGen TL.Model.Graph.GList [TL.Model.Graph.GScalar TL.Model.Graph.SInt]))
    as [g| |] eqn:Hg; [|vm_compute in Hg; discriminate|vm_compute in Hg; discriminate].
  destruct (TL.Model.Topo.kahn g) as [order|] eqn:Hk; [|vm_compute in Hg; inversion Hg; subst; vm_compute in Hk; discriminate].
  exists g, order. split; [reflexivity|].
  vm_compute in Hg. inversion Hg; subst; clear Hg. vm_compute in Hk. inversion Hk; subst; clear Hk.
  split; [apply GBp.is_topo_orderb_sound; vm_compute; reflexivity|]. split; vm_compute; reflexivity.
Qed.

Lemma ex_graph_orders : GBp.graph_orders ex_N ex_G no_noop ex_orders.
Proof.
  intros t ns H. unfold ex_orders in H. destruct (ty_eqb t ex_Tn) eqn:Ht.
  - apply ty_eqb_eq in Ht. subst t. injection H as <-.
    destruct TL.Props.C05Bridge.C05Bridge_hyps_satisfiable as [_ [HT [g [order [Hg [_ [Ho [Hb Htr]]]]]]]].
    exists 20, TL.Props.C05Bridge.brRoot, g, order.
    split; [exact HT|]. split; [exact Hg|]. split; [exact Ho|]. split; [exact Hb|exact Htr].
  - destruct (ty_eqb t ex_Ti) eqn:Hi; [|discriminate H]. apply ty_eqb_eq in Hi. subst t. injection H as <-.
    destruct ex_graph_i as [g [order [Hg [Ho [Hb Htr]]]]].
    exists 20, (TL.Model.Graph.GGen TL.Model.Graph.GList [TL.Model.Graph.GScalar TL.Model.Graph.SInt]), g, order.
    split; [reflexivity|]. split; [exact Hg|]. split; [exact Ho|]. split; [exact Hb|exact Htr].
Qed.

(* the value  [N0(kids=[N0(kids=[], val=None)], val=5), N0(kids=[], val=7)]  and its wire form *)
Definition ex_int (n : nat) : pv := PAtom (261 + n).
Definition ex_none : pv := PAtom 0.
Definition ex_obj (kids : list pv) (v : pv) : pv := PObj 0 [(0, PSeq KList kids); (1, v)].
Definition ex_wobj (kids : list pv) (v : pv) : pv := PDict KDict [(PKey 0, PSeq KList kids); (PKey 1, v)].
Definition ex_value : pv := PSeq KList [ex_obj [ex_obj [] ex_none] (ex_int 5); ex_obj [] (ex_int 7)].
Definition ex_wire : pv := PSeq KList [ex_wobj [ex_wobj [] ex_none] (ex_int 5); ex_wobj [] (ex_int 7)].

Lemma ex_instance :
  M01.valid ex_rt ex_lv ex_E 8 ex_Tn ex_value = true /\
  M01.c01_guard ex_rt ex_E 8 ex_Tn ex_value = true /\
  M01.union_unamb ex_rt ex_lv ex_E 8 ex_Tn ex_value = true /\
  done (mar ex_rt ex_E 8 ex_Tn ex_value) = true /\
  api_call ex_rt ex_E ex_orders false 20 ex_Tn ex_value = Ok ex_wire /\
  api_call ex_rt ex_E ex_orders true 20 ex_Tn ex_wire = Ok ex_value.
Proof. repeat split; vm_compute; reflexivity. Qed.

(* (1b): list[int], the value [1, 2], and the bytes b"[1,2]" (atom 2 of the toy text shape) *)
Definition ex_ints : pv := PSeq KList [ex_int 1; ex_int 2].
Lemma ex_text_instance :
  M01.valid ex_rt ex_lv ex_E 4 ex_Ti ex_ints = true /\
  M01.c01_guard ex_rt ex_E 4 ex_Ti ex_ints = true /\
  M01.union_unamb ex_rt ex_lv ex_E 4 ex_Ti ex_ints = true /\
  done (mar ex_rt ex_E 4 ex_Ti ex_ints) = true /\
  api_call ex_rt ex_E ex_orders false 20 ex_Ti ex_ints = Ok ex_ints /\
  IOm.load_first_ty ex_E ex_Ti = true /\ is_scalar ex_ints = false /\
  TL.Model.Serdes.encodable TL.Model.SerdesToy.t_list12 = true /\
  TL.Model.Serdes.json_loads_str TL.Model.SerdesToy.toy_rt TL.Model.SerdesToy.t_list12 = TL.Model.Serdes.Ok TL.Model.SerdesToy.v_list12 /\
  IOm.unS TL.Model.IoBridgeEq.toy_tshape TL.Model.SerdesToy.v_list12 = Some ex_ints /\
  IOm.a_ser TL.Model.IoBridgeEq.toy_tshape 2 =
    TL.Model.Serdes.carrier TL.Model.SerdesToy.toy_rt TL.Model.Serdes.CBytes TL.Model.SerdesToy.t_list12 /\
  api_call ex_rt ex_E ex_orders true 20 ex_Ti (PAtom 2) = Ok ex_ints.
Proof. repeat split; vm_compute; reflexivity. Qed.

(* (3): the atom table of the JSON layer for the atoms of the example: None <-> null, the int n <-> n; field names *)
Definition ex_atab (a : nat) : option Js.jv :=
  match a with
  | 0 => Some Js.JNull
  | _ => if Nat.ltb a 261 then None else if Nat.ltb a 269 then Some (Js.JInt (Z.of_nat (a - 261))) else None
  end.
Definition ex_ktab (f : nat) : option (list N) :=
  match f with 0 => Some [107; 105; 100; 115]%N | 1 => Some [118; 97; 108]%N | _ => None end.
Definition ex_unat (j : Js.jv) : pv :=
  match j with
  | Js.JNull => PAtom 0
  | Js.JInt z => PAtom (261 + Z.to_nat z)
  | Js.JStr s => if TL.Model.JsonEq.text_eqb s [107; 105; 100; 115]%N then PKey 0 else PKey 1
  | _ => PAtom 1
  end.
Lemma ex_tables : CB.TableLaws ex_atab ex_ktab ex_unat.
Proof.
  split.
  - intros a j H _. unfold ex_atab in H. destruct a as [|a]; [injection H as <-; split; reflexivity|].
    destruct (Nat.ltb (S a) 261) eqn:H1; [discriminate H|]. destruct (Nat.ltb (S a) 269) eqn:H2; [|discriminate H].
    injection H as <-. split; [reflexivity|]. cbn [ex_unat]. f_equal. apply Nat.ltb_ge in H1. rewrite Nat2Z.id. lia.
  - intros f s H. destruct f as [|[|f]]; cbn in H; try discriminate H; injection H as <-; split; reflexivity.
Qed.

Lemma ex_codec_instance :
  exists j, CB.tr ex_atab ex_ktab ex_wire = Some j /\ Js.orjson_dom j = true /\ CB.nodup_keys j = true /\
    encM ex_atab ex_ktab ex_unat ex_rt ex_E ex_orders Js.orjson_style true false Js.orjson_dom (fun _ => false) 20 20 ex_Tn ex_value
      = Cd.Ok (CB.OBytes (Js.json_write Js.orjson_style j)) /\
    Js.json_write Js.orjson_style j =
      (* [{"kids":[{"kids":[],"val":null}],"val":5},{"kids":[],"val":7}] *)
      [91; 123; 34; 107; 105; 100; 115; 34; 58; 91; 123; 34; 107; 105; 100; 115; 34; 58; 91; 93; 44; 34; 118; 97; 108; 34; 58;
       110; 117; 108; 108; 125; 93; 44; 34; 118; 97; 108; 34; 58; 53; 125; 44; 123; 34; 107; 105; 100; 115; 34; 58; 91; 93; 44;
       34; 118; 97; 108; 34; 58; 55; 125; 93]%N /\
    Cd.bind (encM ex_atab ex_ktab ex_unat ex_rt ex_E ex_orders Js.orjson_style true false Js.orjson_dom (fun _ => false) 20 20 ex_Tn ex_value)
            (decM ex_atab ex_ktab ex_unat ex_rt ex_E ex_orders Js.orjson_style true false Js.orjson_dom (fun _ => false) 20 20 ex_Tn)
      = Cd.Ok (CB.OVal ex_value).
Proof. eexists. repeat split; vm_compute; reflexivity. Qed.

(* the exclusion is not vacuous: for  class Node: nxt: Optional[Node]; kids: list[Node]; s: int; t: Any
   (Props/C05Bridge.v: brE2, brN2) the graph side of the bridge IS satisfiable (Any passes through), yet no runtime of
   the form cap_runtime whose table binds Any to a scalar kind satisfies C05's pass-through hypothesis for any noop_leaf accepted by the guard *)
Lemma cap_any_witness :
  exists g, TL.Model.Graph.type_graph 20 TL.Props.C05Bridge.brE2 (TL.Model.Graph.GClass 0) = TL.Model.Graph.Ok g /\
    GBp.bridge_guard TL.Props.C05Bridge.brN2 TL.Props.C05Bridge.brE2 TL.Props.C05Bridge.any_leaf g = true /\
    forall C kind_of rts mv rt0 P E' ib T srt base noop_leaf kd,
      kind_of (GBm.any_id TL.Props.C05Bridge.brN2) = Some kd -> kd <> LBm.LAny ->
      GBp.bridge_guard TL.Props.C05Bridge.brN2 TL.Props.C05Bridge.brE2 noop_leaf g = true ->
      ~ (forall s x, noop_leaf s = true -> leaf_u (cap_runtime C kind_of rts mv rt0 P E' ib T srt base) s x = Ok x).
Proof.
  destruct (TL.Model.Graph.type_graph 20 TL.Props.C05Bridge.brE2 (TL.Model.Graph.GClass 0)) as [g| |] eqn:Hg;
    [|vm_compute in Hg; discriminate|vm_compute in Hg; discriminate].
  exists g. split; [reflexivity|].
  destruct (find (fun e => match TL.Model.Graph.nunw (fst e) with TL.Model.Graph.GClass _ => true | _ => false end) g)
    as [[p preds]|] eqn:Hf; [|vm_compute in Hg; inversion Hg; subst; vm_compute in Hf; discriminate].
  pose proof (find_some _ _ Hf) as [Hin _].
  vm_compute in Hg. inversion Hg; subst; clear Hg. vm_compute in Hf. inversion Hf; subst; clear Hf.
  split; [vm_compute; reflexivity|].
  intros C kind_of rts mv rt0 P E' ib T srt base noop_leaf kd Hk Hkd Hb Hn.
  eapply (cap_any_field_excluded C kind_of rts mv rt0 P E' ib T srt base TL.Props.C05Bridge.brN2 TL.Props.C05Bridge.brE2
            noop_leaf _ _ _ 0 _ kd Hk Hkd Hin); [reflexivity | reflexivity | | exact Hb | exact Hn].
  cbn. tauto.
Qed.

(* ================================================================== I. one Serdes runtime for both loads: a JOINT law *)
(* Capstone_one_runtime asks Scalars.RuntimeLaws (rts s) AND SLoadLaw Tz srt (rts s) of the same interpreter.
   RuntimeLaws has one field about load on TEXT (uuid_text_not_loadable).  Once load is Serdes.load, that field is a
   constraint on the TEXT interpreter srt (its JSON decoder and literal_eval reject the text of a UUID) -- a law no
   single bridge states.  Exactly that, and nothing else, is what must be added: *)
Lemma with_load_runtime_laws rt f : Sc.RuntimeLaws rt ->
  (forall u c, Sc.hashable c = true ->
     f (Tm.text rt c (Tm.canon_text rt (Tm.VUuid u))) = Tm.Ok (Tm.VText Tm.CStr (Tm.canon_text rt (Tm.VUuid u)))) ->
  Sc.RuntimeLaws (LBm.with_load rt f).
Proof. intros [] Hf. constructor; assumption. Qed.

Lemma same_serdes_joint rt Tz srt : Sc.RuntimeLaws rt -> LBm.FoldLaws rt ->
  (forall u c, Sc.hashable c = true ->
     LBm.ind_load Tz srt (Tm.text rt c (Tm.canon_text rt (Tm.VUuid u))) = Tm.Ok (Tm.VText Tm.CStr (Tm.canon_text rt (Tm.VUuid u)))) ->
  Sc.RuntimeLaws (LBm.with_load rt (LBm.ind_load Tz srt)) /\ LBm.FoldLaws (LBm.with_load rt (LBm.ind_load Tz srt)) /\
  LBm.SLoadLaw Tz srt (LBm.with_load rt (LBm.ind_load Tz srt)).
Proof.
  intros HL [h1 h2] Hf. split; [exact (with_load_runtime_laws rt _ HL Hf)|].
  split; [constructor; assumption|]. exact (LBp.with_load_law Tz srt rt).
Qed.

(* ... and that law is C14's theorem (C14_load_plain_text) transported, given the shape of text carriers and the two
   interpreter facts about the text of a UUID (the JSON decoder rejects it, literal_eval rejects it) *)
Lemma same_serdes_from_c14 rt Tz srt cp : Sc.RuntimeLaws rt -> LBm.FoldLaws rt -> TL.Model.Serdes.RuntimeLaws srt ->
  LBm.STextLaws Tz srt rt cp -> LBm.UuidTextFacts srt rt cp ->
  Sc.RuntimeLaws (LBm.with_load rt (LBm.ind_load Tz srt)) /\ LBm.FoldLaws (LBm.with_load rt (LBm.ind_load Tz srt)) /\
  LBm.SLoadLaw Tz srt (LBm.with_load rt (LBm.ind_load Tz srt)).
Proof.
  intros HL HF SL ST UF. apply (same_serdes_joint rt Tz srt HL HF).
  intros u c Hc.
  assert (ST' : LBm.STextLaws Tz srt (LBm.with_load rt (LBm.ind_load Tz srt)) cp) by (destruct ST; constructor; assumption).
  exact (LBp.uuid_text_from_serdes Tz srt (LBm.with_load rt (LBm.ind_load Tz srt)) cp (LBp.with_load_law Tz srt rt) SL ST' UF u c Hc).
Qed.

(* the two EXISTING toy interpreters do not satisfy it together: a UUID of the scalar toy is any token and its text is
   the token; the text toy's JSON decoder reads "1" as the int 1 *)
Lemma cap_refuted_joined_toys :
  ~ Sc.RuntimeLaws (LBm.with_load TL.Model.ScalarsToy.toy_rt (LBm.ind_load LBm.std_sshape TL.Model.SerdesToy.toy_rt)).
Proof.
  intros H. pose proof (Sc.uuid_text_not_loadable _ H "1"%string Tm.CStr eq_refl) as Hu.
  vm_compute in Hu. discriminate Hu.
Qed.

(* a text interpreter in which nothing is JSON and nothing is a Python literal: with it the joint law holds *)
Definition srt_nojson : TL.Model.Serdes.Runtime := {|
  TL.Model.Serdes.utf8_encode := fun s => s; TL.Model.Serdes.utf8_decode := fun b => TL.Model.Serdes.Ok b;
  TL.Model.Serdes.json_loads_str := fun _ => TL.Model.Serdes.Raise TL.Model.Serdes.EValue;
  TL.Model.Serdes.json_loads_bin := fun _ => TL.Model.Serdes.Raise TL.Model.Serdes.EValue;
  TL.Model.Serdes.literal_eval := fun _ => TL.Model.Serdes.Raise TL.Model.Serdes.ESyntax;
  TL.Model.Serdes.json_dumps := fun _ => []; TL.Model.Serdes.py_repr := fun _ => [] |}.
Definition ex2_srt_rt : Tm.Runtime := LBm.with_load TL.Model.ScalarsToy.toy_rt (LBm.ind_load LBm.std_sshape srt_nojson).
Lemma ex2_uuid_text u c : Sc.hashable c = true ->
  LBm.ind_load LBm.std_sshape srt_nojson (Tm.text TL.Model.ScalarsToy.toy_rt c (Tm.canon_text TL.Model.ScalarsToy.toy_rt (Tm.VUuid u)))
  = Tm.Ok (Tm.VText Tm.CStr (Tm.canon_text TL.Model.ScalarsToy.toy_rt (Tm.VUuid u))).
Proof.
  intros Hc. destruct c; try discriminate Hc; cbn;
    rewrite map_map, (map_ext _ (fun a => a) ascii_N_embedding), map_id, string_of_list_ascii_of_string; reflexivity.
Qed.
Lemma srt_nojson_laws : TL.Model.Serdes.RuntimeLaws srt_nojson.
Proof.
  constructor; intros; cbn in *; try reflexivity;
    match goal with H : TL.Model.Serdes.Raise _ = TL.Model.Serdes.Raise _ |- _ => injection H as <-; reflexivity end.
Qed.
Lemma codes_encodable s : TL.Model.Serdes.encodable (LBm.codes s) = true.
Proof.
  unfold TL.Model.Serdes.encodable, LBm.codes. apply forallb_forall. intros c Hc.
  apply in_map_iff in Hc as [a [<- _]]. pose proof (N_ascii_bounded a) as Hb.
  unfold TL.Model.Serdes.scalar_cp. apply andb_true_iff. split; [apply orb_true_iff; left|]; apply N.ltb_lt; lia.
Qed.
Lemma ex2_uuid_facts : LBm.UuidTextFacts srt_nojson TL.Model.ScalarsToy.toy_rt LBm.codes.
Proof. intros u. split; [apply codes_encodable|]. split; eexists; reflexivity. Qed.
Lemma ex2_joint_from_c14 :
  Sc.RuntimeLaws ex2_srt_rt /\ LBm.FoldLaws ex2_srt_rt /\ LBm.SLoadLaw LBm.std_sshape srt_nojson ex2_srt_rt.
Proof.
  exact (same_serdes_from_c14 TL.Model.ScalarsToy.toy_rt LBm.std_sshape srt_nojson LBm.codes
           TL.Proofs.ScalarsToyLemmas.toy_laws LBp.toy_fold_laws srt_nojson_laws
           (LBp.std_text_laws srt_nojson TL.Model.ScalarsToy.toy_rt (fun _ => eq_refl) (fun _ => eq_refl)) ex2_uuid_facts).
Qed.
Lemma ex2_joint :
  Sc.RuntimeLaws ex2_srt_rt /\ LBm.FoldLaws ex2_srt_rt /\ LBm.SLoadLaw LBm.std_sshape srt_nojson ex2_srt_rt /\
  LBm.SShapeLaws LBm.std_sshape ex2_srt_rt /\ LBp.Utf8Total ex2_srt_rt.
Proof.
  destruct (same_serdes_joint TL.Model.ScalarsToy.toy_rt LBm.std_sshape srt_nojson TL.Proofs.ScalarsToyLemmas.toy_laws
              LBp.toy_fold_laws ex2_uuid_text) as [h1 [h2 h3]].
  split; [exact h1|]. split; [exact h2|]. split; [exact h3|]. split; [exact (LBp.std_sshape_laws _)|].
  exact LBp.toy_utf8_total.
Qed.

(* ================================================================== J. the example instance, continued *)
Lemma ex_E_is c : ex_E c = TL.Props.C05.exE c.
Proof. exact (proj1 TL.Props.C05Bridge.C05Bridge_hyps_satisfiable c). Qed.
Lemma ex_wf : V13.wf_env ex_E.
Proof.
  intros c cd H. rewrite ex_E_is in H. destruct c as [|c]; [|discriminate H]. injection H as <-. cbn.
  constructor; [intros [H|[]]; discriminate H|]. constructor; [intros []|constructor].
Qed.

(* (2): a history of the memoised system on the instance: marshal, then unmarshal what it returned *)
Definition ex_hist : list TL.Model.CacheBridge.cop :=
  [TL.Model.CacheBridge.CMarshal ex_Tn ex_value; TL.Model.CacheBridge.CUnmarshal ex_Tn ex_wire;
   TL.Model.CacheBridge.CUnmarshal ex_Ti (PAtom 2); TL.Model.CacheBridge.CUnmarshal ex_Tn ex_wire].
Lemma ex_history_instance :
  TL.Model.CacheBridge.clean_hist ex_rt ex_E ex_orders 6 (fun x => match x with PAtom 2 => true | _ => false end) None false
    (@Ok pv) (@Ok pv) (fun _ => false) 20 TL.Model.CacheBridge.cinit ex_hist = true /\
  TL.Model.CacheBridge.outsS ex_rt ex_E ex_orders 6 (fun x => match x with PAtom 2 => true | _ => false end) None false
    (@Ok pv) (@Ok pv) (fun _ => false) 20 TL.Model.CacheBridge.cinit ex_hist =
  [TL.Model.CacheBridge.COVal (Ok ex_wire); TL.Model.CacheBridge.COVal (Ok ex_value);
   TL.Model.CacheBridge.COVal (Ok ex_ints); TL.Model.CacheBridge.COVal (Ok ex_value)].
Proof. split; vm_compute; reflexivity. Qed.

(* (4): the same value is already valid (pass-through), the annotation is fully annotated over robust leaves, the
   environment is well formed; the runtime whose scalar load is the Serdes model's (ex2_srt_rt) *)
Definition ex2_rt : runtime :=
  cap_runtime ex_coding ex_kind (fun _ => ex2_srt_rt) LBm.ex_ev ex2_srt_rt
    TL.Model.IoBridgeEq.toy_shape ex_E TL.Model.IoBridgeEq.toy_back TL.Model.IoBridgeEq.toy_tshape srt_nojson LBm.ex_base.
Definition ex_R (c : nat) : bool := Nat.eqb c 0.
Lemma ex_fully_annotated :
  M06.fully_annotated ex_E (LBm.robust_leaf ex_kind) (LBm.robust_leaf ex_kind) true ex_R ex_R ex_Tn.
Proof.
  split; [|split; [|vm_compute; reflexivity]].
  - intros c d Hc H. destruct c as [|c]; [|discriminate Hc]. rewrite ex_E_is in H. injection H as <-. vm_compute. reflexivity.
  - intros c d Hc H. destruct c as [|c]; [|discriminate Hc]. rewrite ex_E_is in H. injection H as <-. vm_compute. reflexivity.
Qed.
Lemma ex_value_instance :
  V13.optional_only ex_E 8 ex_Tn = true /\
  V13.valid (LBm.lv_inst ex_coding ex_kind (fun _ => ex2_srt_rt)) ex2_rt ex_E 8 ex_Tn ex_value = true /\
  api_call ex2_rt ex_E ex_orders true 20 ex_Tn ex_value = Ok ex_value /\
  M06.valid ex_rt ex_E (LBm.lv ex_coding ex_kind ex_rts LBm.ex_ev true) 8 ex_Tn ex_value = true /\
  M06.is_wire (LBm.prim_atom ex_coding) ex_wire = true /\
  M03.conforms ex_rt ex_E (LBm.leaf_class_ok ex_coding ex_kind ex_rts) 8 ex_Tn ex_value = true.
Proof. repeat split; vm_compute; reflexivity. Qed.

(* (5): Optional[int] as a root: the str "5" is not in the coding's domain here, so the instance uses the int 5 and None *)
Definition ex_Tu : ty := TUnion [TLeaf 0; TNone].
Definition ex_gu : TL.Model.Graph.gty :=
  TL.Model.Graph.GUnion TL.Model.Graph.UOptional [TL.Model.Graph.GScalar TL.Model.Graph.SInt; TL.Model.Graph.GNone].
Definition ex_order_u : list node :=
  match TL.Model.Graph.type_graph 20 ex_G ex_gu with
  | TL.Model.Graph.Ok g => match TL.Model.Topo.kahn g with
                           | Some o => match GBm.tr_order ex_N o with Some ns => ns | None => [] end
                           | None => [] end
  | _ => [] end.
Definition ex_orders_u (t : ty) : option (list node) := if ty_eqb t ex_Tu then Some ex_order_u else None.
Lemma ex_graph_orders_u : GBp.graph_orders ex_N ex_G no_noop ex_orders_u.
Proof.
  intros t ns H. unfold ex_orders_u in H. destruct (ty_eqb t ex_Tu) eqn:Ht; [|discriminate H].
  apply ty_eqb_eq in Ht. subst t. injection H as <-.
  destruct (TL.Model.Graph.type_graph 20 ex_G ex_gu) as [g| |] eqn:Hg; [|vm_compute in Hg; discriminate|vm_compute in Hg; discriminate].
  destruct (TL.Model.Topo.kahn g) as [order|] eqn:Hk; [|vm_compute in Hg; inversion Hg; subst; vm_compute in Hk; discriminate].
  exists 20, ex_gu, g, order. split; [reflexivity|]. split; [exact Hg|].
  unfold ex_order_u. rewrite Hg, Hk.
  vm_compute in Hg. inversion Hg; subst; clear Hg. vm_compute in Hk. inversion Hk; subst; clear Hk.
  split; [apply GBp.is_topo_orderb_sound; vm_compute; reflexivity|]. split; vm_compute; reflexivity.
Qed.
Lemma ex_union_instance :
  api_call ex_rt ex_E ex_orders_u true 20 ex_Tu (ex_int 5) = Ok (ex_int 5) /\ ex_int 5 <> none ex_rt /\
  api_call ex_rt ex_E ex_orders_u true 20 ex_Tu ex_none = Ok ex_none /\ none ex_rt = ex_none /\ isoptional [TLeaf 0; TNone] = true.
Proof. repeat split; try (vm_compute; reflexivity). vm_compute. discriminate. Qed.

(* ================================================================== K. the JSON atom table FROM the scalar coding *)
(* C02Bridge's TableLaws (atab / ktab / unat: which JSON scalar a wire atom is, and back) is a hypothesis about the
   harness' identification of atoms; LeafBridge's coding says what scalar VALUE an atom stands for.  Composed: the
   table is definable from the coding -- None <-> null, bool, int, str (by character codes; field-name strs are the
   PKeys) -- and TableLaws FOLLOWS from coding_law.  (Floats are left out: a float atom has no row, so a wire value
   holding one fails the guard tr w = Some j; their token form is the JSON layer's business.) *)
Definition jv_of_val (x : Tm.val) : option Js.jv :=
  match x with
  | Tm.VNone => Some Js.JNull
  | Tm.VBool b => Some (Js.JBool b)
  | Tm.VInt z => Some (Js.JInt z)
  | Tm.VText Tm.CStr s => Some (Js.JStr (LBm.codes s))
  | _ => None
  end.
Definition val_of_jv (j : Js.jv) : Tm.val :=
  match j with
  | Js.JBool b => Tm.VBool b
  | Js.JInt z => Tm.VInt z
  | Js.JStr l => Tm.VText Tm.CStr (LBm.uncodes l)
  | _ => Tm.VNone
  end.
Definition cap_atab (C : LBm.coding) (a : nat) : option Js.jv :=
  match LBm.decp C (PAtom a) with Some x => jv_of_val x | None => None end.
Definition cap_ktab (C : LBm.coding) (f : nat) : option (list N) := option_map LBm.codes (LBm.key_text C f).
Definition cap_unat (C : LBm.coding) (j : Js.jv) : pv := LBm.encp C (val_of_jv j).

Lemma uncodes_codes s : LBm.uncodes (LBm.codes s) = s.
Proof.
  unfold LBm.uncodes, LBm.codes.
  rewrite map_map, (map_ext _ (fun a => a) ascii_N_embedding), map_id. apply string_of_list_ascii_of_string.
Qed.
Lemma codes_ok s : Js.str_ok (LBm.codes s) = true.
Proof.
  unfold Js.str_ok, LBm.codes. apply forallb_forall. intros c Hc. apply in_map_iff in Hc. destruct Hc as [a [<- _]].
  unfold Js.cp_ok. apply orb_true_intro. left. apply N.ltb_lt.
  pose proof (N_ascii_bounded a). lia.
Qed.
Lemma val_of_jv_of x j : jv_of_val x = Some j -> val_of_jv j = x /\ Js.jv_ok j = true.
Proof.
  destruct x; try discriminate; cbn.
  - intros H. injection H as <-. split; reflexivity.
  - intros H. injection H as <-. split; reflexivity.
  - intros H. injection H as <-. split; reflexivity.
  - destruct c; try discriminate. intros H. injection H as <-. cbn. rewrite uncodes_codes. split; [reflexivity|apply codes_ok].
Qed.

Lemma cap_table_laws C : LBm.coding_law C -> CB.TableLaws (cap_atab C) (cap_ktab C) (cap_unat C).
Proof.
  intros CL. split.
  - intros a j H _. unfold cap_atab in H. destruct (LBm.decp C (PAtom a)) as [x|] eqn:Hd; [|discriminate H].
    destruct (val_of_jv_of x j H) as [Hv Hok]. split; [exact Hok|].
    unfold cap_unat. rewrite Hv. symmetry. exact (LBp.decp_inv C CL (PAtom a) x Hd).
  - intros f s H. unfold cap_ktab in H. destruct (LBm.key_text C f) as [t|] eqn:Ht; [|discriminate H].
    injection H as <-. split; [apply codes_ok|].
    unfold cap_unat. cbn [val_of_jv]. rewrite uncodes_codes.
    symmetry. apply (LBp.decp_inv C CL (PKey f) (Tm.VText Tm.CStr t)). cbn. rewrite Ht. reflexivity.
Qed.

Lemma ex_codec_from_coding :
  exists j, CB.tr (cap_atab ex_coding) (cap_ktab ex_coding) ex_wire = Some j /\ Js.orjson_dom j = true /\ CB.nodup_keys j = true /\
    Js.json_write Js.orjson_style j =
      [91; 123; 34; 107; 105; 100; 115; 34; 58; 91; 123; 34; 107; 105; 100; 115; 34; 58; 91; 93; 44; 34; 118; 97; 108; 34; 58;
       110; 117; 108; 108; 125; 93; 44; 34; 118; 97; 108; 34; 58; 53; 125; 44; 123; 34; 107; 105; 100; 115; 34; 58; 91; 93; 44;
       34; 118; 97; 108; 34; 58; 55; 125; 93]%N /\
    Cd.bind (encM (cap_atab ex_coding) (cap_ktab ex_coding) (cap_unat ex_coding) ex_rt ex_E ex_orders Js.orjson_style true false
               Js.orjson_dom (fun _ => false) 20 20 ex_Tn ex_value)
            (decM (cap_atab ex_coding) (cap_ktab ex_coding) (cap_unat ex_coding) ex_rt ex_E ex_orders Js.orjson_style true false
               Js.orjson_dom (fun _ => false) 20 20 ex_Tn)
      = Cd.Ok (CB.OVal ex_value).
Proof. eexists. repeat split; vm_compute; reflexivity. Qed.
