(* Proofs about the Slotted model (Model/Slotted.v).  The property theorems themselves are
   restated in Props/C19.v and closed there by `exact`. *)
From Coq Require Import List String Bool Arith PeanoNat Lia.
Import ListNotations.
Require Import TL.Model.Slotted.

(* ---------------------------------------------------------------------------------- *)
(* strings, membership                                                                 *)
(* ---------------------------------------------------------------------------------- *)
Lemma seqb_refl : forall a, String.eqb a a = true.
Proof. intro a. apply String.eqb_refl. Qed.

Lemma seqb_true : forall a b, String.eqb a b = true -> a = b.
Proof. intros a b H. apply String.eqb_eq. exact H. Qed.

Lemma seqb_false : forall a b, String.eqb a b = false -> a <> b.
Proof. intros a b H. apply String.eqb_neq. exact H. Qed.

Lemma seqb_neq : forall a b, a <> b -> String.eqb a b = false.
Proof. intros a b H. apply String.eqb_neq. exact H. Qed.

Lemma mem_In : forall a l, mem a l = true <-> In a l.
Proof.
  intros a l. unfold mem. rewrite existsb_exists. split.
  - intros [x [Hin Heq]]. apply seqb_true in Heq. subst x. exact Hin.
  - intros Hin. exists a. split; [exact Hin | apply seqb_refl].
Qed.

Lemma mem_false_notin : forall a l, mem a l = false <-> ~ In a l.
Proof.
  intros a l. split.
  - intros Hm Hin. apply mem_In in Hin. congruence.
  - intros Hn. destruct (mem a l) eqn:E; [|reflexivity]. apply mem_In in E. contradiction.
Qed.

Lemma mem_app : forall a l k, mem a (l ++ k) = mem a l || mem a k.
Proof. intros a l k. unfold mem. apply existsb_app. Qed.

Lemma mem_cons : forall a x l, mem a (x :: l) = String.eqb a x || mem a l.
Proof. reflexivity. Qed.

Lemma mem_filter : forall a f l, mem a (filter f l) = mem a l && f a.
Proof.
  intros a f l. induction l as [|x r IH]; [reflexivity|].
  cbn [filter]. destruct (f x) eqn:Fx.
  - rewrite !mem_cons, IH. destruct (String.eqb a x) eqn:E.
    + apply seqb_true in E. subst x. rewrite Fx. reflexivity.
    + reflexivity.
  - rewrite mem_cons, IH. destruct (String.eqb a x) eqn:E.
    + apply seqb_true in E. subst x. rewrite Fx. rewrite andb_false_r. reflexivity.
    + reflexivity.
Qed.

(* ---------------------------------------------------------------------------------- *)
(* class dictionaries                                                                  *)
(* ---------------------------------------------------------------------------------- *)
Lemma has_key_In : forall a d, has_key a d = true <-> exists o, In (a, o) d.
Proof.
  intros a d. unfold has_key. rewrite existsb_exists. split.
  - intros [[k o] [Hin Heq]]. cbn [fst] in Heq. apply seqb_true in Heq. subst k. exists o. exact Hin.
  - intros [o Hin]. exists (a, o). split; [exact Hin | apply seqb_refl].
Qed.

Lemma has_key_app : forall a d e, has_key a (d ++ e) = has_key a d || has_key a e.
Proof. intros. unfold has_key. apply existsb_app. Qed.

Lemma has_key_filter : forall a (f : attr -> bool) d,
  has_key a (filter (fun p => f (fst p)) d) = has_key a d && f a.
Proof.
  intros a f d. induction d as [|[k o] r IH]; [reflexivity|].
  cbn [filter fst]. destruct (f k) eqn:Fk.
  - unfold has_key in *. cbn [existsb fst]. rewrite IH. destruct (String.eqb a k) eqn:E.
    + apply seqb_true in E. subst k. rewrite Fk. reflexivity.
    + reflexivity.
  - unfold has_key in *. cbn [existsb fst]. rewrite IH. destruct (String.eqb a k) eqn:E.
    + apply seqb_true in E. subst k. rewrite Fk. rewrite andb_false_r. reflexivity.
    + reflexivity.
Qed.

Lemma has_key_remove_keys : forall a l d, has_key a (remove_keys l d) = has_key a d && negb (mem a l).
Proof. intros a l d. unfold remove_keys. apply (has_key_filter a (fun k => negb (mem k l))). Qed.

Lemma has_key_remove_key : forall a b d, has_key a (remove_key b d) = has_key a d && negb (String.eqb b a).
Proof. intros a b d. unfold remove_key. apply (has_key_filter a (fun k => negb (String.eqb b k))). Qed.

Lemma has_key_map_val : forall a b o d,
  has_key a (map (fun p : attr * obj => if String.eqb b (fst p) then (fst p, o) else p) d) = has_key a d.
Proof.
  intros a b o d. induction d as [|[k x] r IH]; [reflexivity|].
  unfold has_key in *. cbn [map existsb fst]. rewrite IH.
  destruct (String.eqb b k); reflexivity.
Qed.

Lemma has_key_set_key : forall a b o d, has_key a (set_key b o d) = String.eqb a b || has_key a d.
Proof.
  intros a b o d. unfold set_key. destruct (has_key b d) eqn:Hb.
  - rewrite has_key_map_val. destruct (String.eqb a b) eqn:E; [|reflexivity].
    apply seqb_true in E. subst b. rewrite Hb. reflexivity.
  - rewrite has_key_app. unfold has_key at 2. cbn [existsb fst]. rewrite orb_false_r. apply orb_comm.
Qed.

Lemma assoc_none_has_key : forall a d, assoc a d = None <-> has_key a d = false.
Proof.
  intros a d. induction d as [|[k o] r IH]; [split; reflexivity|].
  unfold has_key in *. cbn [assoc existsb fst snd]. destruct (String.eqb a k); [split; discriminate|exact IH].
Qed.

Lemma assoc_filter : forall a (f : attr -> bool) d, f a = true ->
  assoc a (filter (fun p => f (fst p)) d) = assoc a d.
Proof.
  intros a f d Fa. induction d as [|[k o] r IH]; [reflexivity|].
  cbn [filter fst]. destruct (String.eqb a k) eqn:E.
  - apply seqb_true in E. subst k. rewrite Fa. cbn [assoc fst snd]. rewrite seqb_refl. reflexivity.
  - destruct (f k); cbn [assoc fst snd]; rewrite ?E; exact IH.
Qed.

Lemma assoc_remove_keys : forall a l d, mem a l = false -> assoc a (remove_keys l d) = assoc a d.
Proof. intros a l d H. unfold remove_keys. apply (assoc_filter a (fun k => negb (mem k l))). rewrite H. reflexivity. Qed.

Lemma assoc_remove_key : forall a b d, String.eqb b a = false -> assoc a (remove_key b d) = assoc a d.
Proof. intros a b d H. unfold remove_key. apply (assoc_filter a (fun k => negb (String.eqb b k))). rewrite H. reflexivity. Qed.

Lemma assoc_app_l : forall a d e, has_key a d = true -> assoc a (d ++ e) = assoc a d.
Proof.
  intros a d e. induction d as [|[k o] r IH]; [discriminate|].
  unfold has_key in *. cbn [existsb fst app assoc snd]. destruct (String.eqb a k); [reflexivity|exact IH].
Qed.

Lemma assoc_app_r : forall a d e, has_key a d = false -> assoc a (d ++ e) = assoc a e.
Proof.
  intros a d e. induction d as [|[k o] r IH]; [reflexivity|].
  unfold has_key in *. cbn [existsb fst app assoc snd]. destruct (String.eqb a k); [discriminate|exact IH].
Qed.

Lemma assoc_set_key_same : forall a o d, assoc a (set_key a o d) = Some o.
Proof.
  intros a o d. unfold set_key. destruct (has_key a d) eqn:Ha.
  - induction d as [|[k x] r IH]; [discriminate|].
    unfold has_key in Ha. cbn [existsb fst] in Ha. cbn [map fst]. destruct (String.eqb a k) eqn:E.
    + cbn [assoc fst snd]. rewrite E. reflexivity.
    + cbn [assoc fst snd]. rewrite E. apply IH. exact Ha.
  - rewrite assoc_app_r by exact Ha. cbn [assoc fst snd]. rewrite seqb_refl. reflexivity.
Qed.

Lemma assoc_set_key_other : forall a b o d, String.eqb a b = false -> assoc a (set_key b o d) = assoc a d.
Proof.
  intros a b o d Hab. unfold set_key. destruct (has_key b d) eqn:Hb.
  - clear Hb. induction d as [|[k x] r IH]; [reflexivity|].
    cbn [map fst]. destruct (String.eqb b k) eqn:E.
    + apply seqb_true in E. subst k. cbn [assoc fst snd]. rewrite Hab. exact IH.
    + cbn [assoc fst snd]. destruct (String.eqb a k); [reflexivity|exact IH].
  - destruct (has_key a d) eqn:Ha.
    + apply assoc_app_l. exact Ha.
    + rewrite assoc_app_r by exact Ha. cbn [assoc fst snd]. rewrite Hab.
      symmetry. apply assoc_none_has_key. exact Ha.
Qed.

Lemma In_filter_key : forall (a : attr) (o : obj) (f : attr -> bool) (d : cdict), In (a, o) d -> f a = true ->
  In (a, o) (filter (fun p => f (fst p)) d).
Proof. intros a o f d Hin Fa. apply filter_In. split; [exact Hin | exact Fa]. Qed.

Lemma In_set_key_other : forall (a : attr) (o : obj) b o' d, In (a, o) d -> String.eqb b a = false -> In (a, o) (set_key b o' d).
Proof.
  intros a o b o' d Hin Hba. unfold set_key. destruct (has_key b d).
  - apply in_map_iff. exists (a, o). cbn [fst]. rewrite Hba. split; [reflexivity | exact Hin].
  - apply in_or_app. left. exact Hin.
Qed.

Lemma In_set_key_inv : forall (a : attr) (o : obj) b o' d, In (a, o) (set_key b o' d) -> In (a, o) d \/ (a = b /\ o = o').
Proof.
  intros a o b o' d. unfold set_key. destruct (has_key b d).
  - intros Hin. apply in_map_iff in Hin. destruct Hin as [[k x] [Heq Hin]]. cbn [fst] in Heq.
    destruct (String.eqb b k) eqn:E.
    + apply seqb_true in E. inversion Heq. subst. right. split; reflexivity.
    + inversion Heq. subst. left. exact Hin.
  - intros Hin. apply in_app_or in Hin. destruct Hin as [Hin|[Heq|[]]].
    + left. exact Hin.
    + inversion Heq. right. split; reflexivity.
Qed.

(* ---------------------------------------------------------------------------------- *)
(* field names under the guard                                                         *)
(* ---------------------------------------------------------------------------------- *)
Lemma filter_id : forall {A} (f : A -> bool) l, (forall x, In x l -> f x = true) -> filter f l = l.
Proof.
  intros A f l H. induction l as [|x r IH]; [reflexivity|].
  cbn [filter]. rewrite (H x (or_introl eq_refl)). f_equal. apply IH. intros y Hy. apply H. right. exact Hy.
Qed.

Lemma existsb_false : forall {A} (f : A -> bool) l, (forall x, In x l -> f x = false) -> existsb f l = false.
Proof.
  intros A f l H. induction l as [|x r IH]; [reflexivity|].
  cbn [existsb]. rewrite (H x (or_introl eq_refl)). apply IH. intros y Hy. apply H. right. exact Hy.
Qed.

Lemma nodupb_dedup : forall l, nodupb l = true -> dedup l = l.
Proof.
  induction l as [|x r IH]; [reflexivity|].
  cbn [nodupb dedup]. intros H. apply andb_true_iff in H. destruct H as [Hx Hr].
  rewrite (IH Hr). f_equal. apply filter_id. intros y Hy.
  destruct (String.eqb x y) eqn:E; [|reflexivity].
  apply seqb_true in E. subst y. apply negb_true_iff in Hx. apply mem_false_notin in Hx. contradiction.
Qed.

Section Guarded.
Variable c : cls.
Variable d : dcinfo.
Hypothesis Hdc : c_dc c = Some d.
Hypothesis Hng : names_guard c = true.

Lemma guard_nodup : nodupb (fnames d) = true.
Proof. unfold names_guard in Hng. rewrite Hdc in Hng. apply andb_true_iff in Hng. exact (proj1 Hng). Qed.

Lemma guard_not_reserved : forall n, In n (fnames d) -> mem n reserved = false.
Proof.
  unfold names_guard in Hng. rewrite Hdc in Hng. apply andb_true_iff in Hng. destruct Hng as [_ H].
  rewrite forallb_forall in H. intros n Hn. unfold fnames in Hn. apply in_map_iff in Hn.
  destruct Hn as [f [Hf Hin]]. subst n. apply negb_true_iff. apply H. exact Hin.
Qed.

Lemma reserved_neq : forall n k, mem n reserved = false -> mem k reserved = true -> String.eqb n k = false.
Proof.
  intros n k Hn Hk. destruct (String.eqb n k) eqn:E; [|reflexivity].
  apply seqb_true in E. subst k. congruence.
Qed.

Lemma field_names_eq : field_names d = fnames d.
Proof.
  unfold field_names. fold (fnames d). rewrite filter_id.
  - apply nodupb_dedup. exact guard_nodup.
  - intros n Hn. rewrite (reserved_neq n ""%string (guard_not_reserved n Hn) eq_refl). reflexivity.
Qed.

Lemma fnames_no : forall k, mem k reserved = true -> mem k (fnames d) = false.
Proof.
  intros k Hk. apply mem_false_notin. intros Hin. pose proof (guard_not_reserved k Hin). congruence.
Qed.

Definition extras_v (v : variant) (fl : flags) : list attr :=
  (if want v (fl_dict fl) k_dict c then [k_dict] else []) ++ (if want v (fl_weakref fl) k_weakref c then [k_weakref] else []).

Lemma all_names_eq : forall v fl, all_names v fl c d = fnames d ++ extras_v v fl.
Proof.
  intros v fl. unfold all_names, extras_v. rewrite field_names_eq.
  pose proof (fnames_no k_dict eq_refl) as Hd. pose proof (fnames_no k_weakref eq_refl) as Hw.
  destruct (want v (fl_dict fl) k_dict c); destruct (want v (fl_weakref fl) k_weakref c); unfold add_name.
  - rewrite Hd. rewrite mem_app, Hw. cbn [mem existsb orb]. replace (String.eqb k_weakref k_dict) with false by reflexivity.
    cbn [orb]. rewrite <- app_assoc. reflexivity.
  - rewrite Hd. rewrite app_nil_r. reflexivity.
  - rewrite Hw. reflexivity.
  - rewrite app_nil_r. reflexivity.
Qed.

Lemma extras_repaired : forall fl, extras_v repaired fl = extras_for fl c.
Proof. intros fl. reflexivity. Qed.

Lemma In_extras_v : forall v fl s, In s (extras_v v fl) ->
  (s = k_dict /\ want v (fl_dict fl) k_dict c = true) \/ (s = k_weakref /\ want v (fl_weakref fl) k_weakref c = true).
Proof.
  intros v fl s H. unfold extras_v in H. apply in_app_or in H. destruct H as [H|H].
  - destruct (want v (fl_dict fl) k_dict c); [|contradiction]. destruct H as [H|[]]. left. split; [symmetry; exact H|reflexivity].
  - destruct (want v (fl_weakref fl) k_weakref c); [|contradiction]. destruct H as [H|[]]. right. split; [symmetry; exact H|reflexivity].
Qed.

Lemma extras_is_extra : forall v fl s, In s (extras_v v fl) -> is_extra s = true.
Proof. intros v fl s H. apply In_extras_v in H. destruct H as [[H _]|[H _]]; subst s; reflexivity. Qed.

Lemma fnames_not_extra : forall s, In s (fnames d) -> is_extra s = false.
Proof.
  intros s H. pose proof (guard_not_reserved s H) as Hr. unfold is_extra.
  rewrite (reserved_neq s k_dict Hr eq_refl), (reserved_neq s k_weakref Hr eq_refl). reflexivity.
Qed.

End Guarded.

(* ---------------------------------------------------------------------------------- *)
(* inherited slots and layout                                                          *)
(* ---------------------------------------------------------------------------------- *)
Lemma getattr_layout : forall x m, mem x (getattr_slots m) = true -> layout_has x m = true.
Proof.
  intros x m. induction m as [|s r IH]; [discriminate|].
  cbn [getattr_slots]. unfold layout_has. cbn [existsb]. unfold provides at 1.
  destruct (s_slots s) as [l|].
  - intros H. rewrite H. reflexivity.
  - intros _. reflexivity.
Qed.

Lemma inherited_layout : forall x m, mem x (inherited_slots m) = true -> layout_has x m = true.
Proof.
  intros x m. induction m as [|s r IH]; [discriminate|].
  cbn [inherited_slots]. rewrite mem_app. intros H. apply orb_true_iff in H. destruct H as [H|H].
  - apply getattr_layout. exact H.
  - unfold layout_has. cbn [existsb]. apply orb_true_iff. right. apply IH. exact H.
Qed.

Lemma getattr_in_inherited : forall x m, mem x (getattr_slots m) = true -> mem x (inherited_slots m) = true.
Proof.
  intros x m H. destruct m as [|s r]; [discriminate|].
  cbn [inherited_slots]. rewrite mem_app. rewrite H. reflexivity.
Qed.

Lemma inherited_full : forall c x, own_slots (c_dict c) = None ->
  mem x (inherited_slots (full_mro c)) = mem x (inherited_slots (c_mro c)).
Proof.
  intros c x Hown. unfold full_mro. cbn [inherited_slots getattr_slots own_sum s_slots]. rewrite Hown.
  rewrite mem_app. destruct (mem x (getattr_slots (c_mro c))) eqn:E; [|reflexivity].
  cbn [orb]. symmetry. apply getattr_in_inherited. exact E.
Qed.

(* the union over the MRO equals the union of the own __slots__ entries: the getattr
   lookups only ever find a tuple owned by a class further down the same MRO *)
Lemma inherited_as_union : forall x m,
  mem x (inherited_slots m) = existsb (fun s => match s_slots s with Some l => mem x l | None => false end) m.
Proof.
  intros x m. induction m as [|s r IH]; [reflexivity|].
  cbn [inherited_slots existsb]. rewrite mem_app, IH. cbn [getattr_slots].
  destruct (s_slots s) as [l|]; [reflexivity|].
  cbn [orb]. destruct (mem x (getattr_slots r)) eqn:E; [|reflexivity].
  cbn [orb]. apply getattr_in_inherited in E. rewrite IH in E. symmetry. exact E.
Qed.

(* ---------------------------------------------------------------------------------- *)
(* the rebuilt class dict and type()                                                   *)
(* ---------------------------------------------------------------------------------- *)
Definition doc_of (d5 : cdict) : cdict := if has_key k_doc d5 then [] else [(k_doc, ONone)].

Definition result (v : variant) (fl : flags) (c : cls) (d : dcinfo) : cls :=
  let d4 := new_dict v fl c d in
  let d5 := d4 ++ map descr (new_slots v fl c d) ++ doc_of d4 in
  {| c_name := c_name c; c_qualname := c_qualname c; c_module := c_module c;
     c_plain_meta := true; c_mro := c_mro c; c_dict := d5; c_dc := c_dc c;
     c_cells := [];
     c_stale := filter (fun a => has_key a d5) (c_stale c ++ c_cells c) |}.

Section Build.
Variable c : cls.
Variable d : dcinfo.
Hypothesis Hdc : c_dc c = Some d.
Hypothesis Hng : names_guard c = true.
Variable v : variant.
Variable fl : flags.

Let names := all_names v fl c d.
Let slots := new_slots v fl c d.
Let d1 := set_key k_slots (OSlots slots) (c_dict c).
Let d3 := remove_key k_weakref (remove_key k_dict (remove_keys names d1)).

Lemma names_split : forall s, mem s names = true -> In s (fnames d) \/ In s (extras_v c v fl).
Proof.
  intros s H. unfold names in H. rewrite (all_names_eq c d Hdc Hng) in H. apply mem_In in H.
  apply in_app_or in H. exact H.
Qed.

Lemma names_no : forall k, mem k reserved = true -> is_extra k = false -> mem k names = false.
Proof.
  intros k Hr He. destruct (mem k names) eqn:E; [|reflexivity].
  apply names_split in E. destruct E as [E|E].
  - pose proof (guard_not_reserved c d Hdc Hng k E). congruence.
  - apply extras_is_extra in E. congruence.
Qed.

Lemma slots_in_names : forall s, In s slots -> mem s names = true.
Proof. intros s H. unfold slots, new_slots in H. apply filter_In in H. apply mem_In. exact (proj1 H). Qed.

Lemma has_key_d3 : forall s, has_key s d3 =
  has_key s d1 && negb (mem s names) && negb (String.eqb k_dict s) && negb (String.eqb k_weakref s).
Proof. intros s. unfold d3. rewrite !has_key_remove_key, has_key_remove_keys. reflexivity. Qed.

Lemma new_dict_cases : new_dict v fl c d = d3 \/ new_dict v fl c d = set_key k_setstate OSetstateFix d3.
Proof.
  unfold new_dict. fold names. fold slots. fold d1. fold d3.
  match goal with |- context [if ?b then _ else _] => destruct b end; [right|left]; reflexivity.
Qed.

Lemma assoc_slots_d3 : assoc k_slots d3 = Some (OSlots slots).
Proof.
  unfold d3. rewrite assoc_remove_key by reflexivity. rewrite assoc_remove_key by reflexivity.
  rewrite assoc_remove_keys by (apply names_no; reflexivity). unfold d1. apply assoc_set_key_same.
Qed.

Lemma assoc_slots_new_dict : assoc k_slots (new_dict v fl c d) = Some (OSlots slots).
Proof.
  destruct new_dict_cases as [H|H]; rewrite H.
  - exact assoc_slots_d3.
  - rewrite assoc_set_key_other by reflexivity. exact assoc_slots_d3.
Qed.

Lemma no_conflict : forall s, In s slots -> negb (is_extra s) && has_key s (new_dict v fl c d) = false.
Proof.
  intros s Hs. destruct (is_extra s) eqn:Ex; [reflexivity|]. cbn [negb andb].
  pose proof (slots_in_names s Hs) as Hn.
  assert (Hd3 : has_key s d3 = false).
  { rewrite has_key_d3, Hn. cbn [negb]. rewrite andb_false_r. reflexivity. }
  destruct new_dict_cases as [H|H]; rewrite H.
  - exact Hd3.
  - rewrite has_key_set_key, Hd3, orb_false_r.
    destruct (names_split s Hn) as [Hf|He].
    + apply (reserved_neq s k_setstate (guard_not_reserved c d Hdc Hng s Hf)). reflexivity.
    + apply extras_is_extra in He. congruence.
Qed.

Lemma extra_slot_wanted : forall x requested, is_extra x = true -> mem x reserved = true ->
  (forall s, In s (extras_v c v fl) -> s = x -> want v requested x c = true) ->
  v_skip_provided v = true -> layout_has x (c_mro c) = true -> mem x slots = false.
Proof.
  intros x requested Hex Hres Hw Hskip Hlay. destruct (mem x slots) eqn:E; [|reflexivity].
  apply mem_In in E. pose proof (slots_in_names x E) as Hn. destruct (names_split x Hn) as [Hf|He].
  - pose proof (guard_not_reserved c d Hdc Hng x Hf). congruence.
  - pose proof (Hw x He eq_refl) as W. unfold want in W. rewrite Hskip, Hlay in W.
    rewrite andb_false_r in W. discriminate.
Qed.

Lemma type_new_ok : v_skip_provided v = true ->
  type_new (c_mro c) (new_dict v fl c d)
  = Ok (new_dict v fl c d ++ map descr slots ++ doc_of (new_dict v fl c d)).
Proof.
  intros Hskip. unfold type_new. rewrite assoc_slots_new_dict. cbn [slots_of_obj].
  assert (H1 : mem k_dict slots && layout_has k_dict (c_mro c) = false).
  { destruct (layout_has k_dict (c_mro c)) eqn:L; [|apply andb_false_r].
    rewrite (extra_slot_wanted k_dict (fl_dict fl)); try reflexivity; try assumption.
    intros s Hs Heq. apply In_extras_v in Hs. destruct Hs as [[_ W]|[Hk _]]; [exact W|].
    subst s. discriminate. }
  assert (H2 : mem k_weakref slots && layout_has k_weakref (c_mro c) = false).
  { destruct (layout_has k_weakref (c_mro c)) eqn:L; [|apply andb_false_r].
    rewrite (extra_slot_wanted k_weakref (fl_weakref fl)); try reflexivity; try assumption.
    intros s Hs Heq. apply In_extras_v in Hs. destruct Hs as [[Hk _]|[_ W]]; [|exact W].
    subst s. discriminate. }
  rewrite H1, H2. rewrite (existsb_false _ slots no_conflict). reflexivity.
Qed.

Lemma build_ok : v_skip_provided v = true -> c_plain_meta c = true ->
  build v fl c = Ok (result v fl c d).
Proof.
  intros Hskip Hplain. unfold build, result. rewrite Hdc, Hplain, (type_new_ok Hskip). reflexivity.
Qed.

End Build.

(* ---------------------------------------------------------------------------------- *)
(* the guard _stack                                                                    *)
(* ---------------------------------------------------------------------------------- *)
Lemma remove_str_notin : forall k (st : stack), mem k st = false -> remove_str k st = st.
Proof.
  intros k st H. unfold remove_str. apply filter_id. intros x Hx.
  destruct (String.eqb k x) eqn:E; [|reflexivity].
  apply seqb_true in E. subst x. apply mem_false_notin in H. contradiction.
Qed.

Lemma remove_str_head : forall k (st : stack), mem k st = false -> remove_str k (k :: st) = st.
Proof.
  intros k st H. unfold remove_str. cbn [filter]. rewrite seqb_refl. cbn [negb].
  apply (remove_str_notin k st H).
Qed.

Lemma wrap_stack_restored : forall fl (st : stack) c, fst (wrap repaired fl st c) = st.
Proof.
  intros fl st c. unfold wrap. destruct (mem (repr c) st) eqn:E; [reflexivity|].
  destruct (build repaired fl c) as [n|e|]; cbn [v_release repaired fst]; apply remove_str_head; exact E.
Qed.

Lemma run_stack_restored : forall l st, fst (run repaired st l) = st.
Proof.
  induction l as [|[fl c] r IH]; intros st; [reflexivity|].
  cbn [run]. pose proof (wrap_stack_restored fl st c) as W.
  destruct (wrap repaired fl st c) as [st1 x]. cbn [fst] in W. subst st1.
  pose proof (IH st) as R. destruct (run repaired st r) as [st2 xs]. exact R.
Qed.

Lemma wrap_busy : forall v fl (st : stack) c, mem (repr c) st = true -> wrap v fl st c = (st, Raise EType).
Proof. intros v fl st c H. unfold wrap. rewrite H. reflexivity. Qed.

Lemma wrap_ok : forall fl (st : stack) c d, c_dc c = Some d -> names_guard c = true -> c_plain_meta c = true ->
  mem (repr c) st = false -> wrap repaired fl st c = (st, Ok (result repaired fl c d)).
Proof.
  intros fl st c d Hdc Hng Hpl Hst. unfold wrap. rewrite Hst. cbv zeta.
  rewrite (build_ok c d Hdc Hng repaired fl eq_refl Hpl). cbv iota beta. cbn [v_release repaired].
  f_equal. apply remove_str_head. exact Hst.
Qed.

Lemma names_guard_dc : forall c, names_guard c = true -> exists d, c_dc c = Some d.
Proof. intros c H. unfold names_guard in H. destruct (c_dc c) as [d|]; [exists d; reflexivity|discriminate]. Qed.

Lemma wrap_ok_inv : forall fl (st st' : stack) c n, names_guard c = true -> wrap repaired fl st c = (st', Ok n) ->
  exists d, c_dc c = Some d /\ c_plain_meta c = true /\ mem (repr c) st = false /\ st' = st /\ n = result repaired fl c d.
Proof.
  intros fl st st' c n Hng W. destruct (names_guard_dc c Hng) as [d Hdc]. exists d.
  destruct (mem (repr c) st) eqn:Hst.
  - rewrite (wrap_busy _ _ _ _ Hst) in W. inversion W.
  - destruct (c_plain_meta c) eqn:Hpl.
    + rewrite (wrap_ok fl st c d Hdc Hng Hpl Hst) in W. inversion W. split; [exact Hdc|]. repeat split; reflexivity.
    + unfold wrap in W. rewrite Hst in W. unfold build in W. rewrite Hdc, Hpl in W. inversion W.
Qed.

(* the outcome of a decoration as a function of the class alone *)
Definition result_of (fl : flags) (c : cls) : res cls :=
  match c_dc c with Some d => Ok (result repaired fl c d) | None => Raise EType end.

Definition decorable (fc : flags * cls) : Prop :=
  c_plain_meta (snd fc) = true /\ names_guard (snd fc) = true.

Lemma run_results : forall l, Forall decorable l ->
  run repaired [] l = ([], map (fun fc => result_of (fst fc) (snd fc)) l).
Proof.
  induction l as [|[fl c] r IH]; intros H; [reflexivity|].
  inversion H as [|x y [Hpl Hng] Hr]. subst x y. cbn [snd] in Hpl, Hng.
  destruct (names_guard_dc c Hng) as [d Hdc].
  cbn [run]. rewrite (wrap_ok fl [] c d Hdc Hng Hpl eq_refl). rewrite (IH Hr).
  cbn [map fst snd]. unfold result_of at 2. rewrite Hdc. reflexivity.
Qed.

Lemma never_raises : forall l, Forall decorable l ->
  fst (run repaired [] l) = [] /\
  List.length (snd (run repaired [] l)) = List.length l /\
  Forall (fun r => is_ok r = true) (snd (run repaired [] l)).
Proof.
  intros l H. rewrite (run_results l H). cbn [fst snd]. split; [reflexivity|]. split.
  - apply map_length.
  - apply Forall_forall. intros r Hr. apply in_map_iff in Hr. destruct Hr as [[fl c] [Heq Hin]]. subst r.
    rewrite Forall_forall in H. destruct (H _ Hin) as [_ Hng]. cbn [snd] in Hng.
    destruct (names_guard_dc c Hng) as [d Hdc]. cbn [fst snd]. unfold result_of. rewrite Hdc. reflexivity.
Qed.

(* ---------------------------------------------------------------------------------- *)
(* what the new class looks like                                                       *)
(* ---------------------------------------------------------------------------------- *)
Lemma c19_guard_names : forall c, c19_guard c = true -> names_guard c = true.
Proof. intros c H. unfold c19_guard in H. apply andb_true_iff in H. exact (proj1 H). Qed.

Lemma c19_guard_own : forall c, c19_guard c = true -> own_slots (c_dict c) = None.
Proof.
  intros c H. unfold c19_guard in H. apply andb_true_iff in H. destruct H as [_ H].
  destruct (own_slots (c_dict c)); [discriminate|reflexivity].
Qed.

Definition not_inherited (c : cls) (f : attr) : bool := negb (mem f (inherited_slots (c_mro c))).

Lemma filter_ext_in : forall {A} (f g : A -> bool) l, (forall x, In x l -> f x = g x) -> filter f l = filter g l.
Proof.
  intros A f g l H. induction l as [|x r IH]; [reflexivity|].
  cbn [filter]. rewrite (H x (or_introl eq_refl)). rewrite IH; [reflexivity|].
  intros y Hy. apply H. right. exact Hy.
Qed.

Lemma In_extras_for : forall fl c s, In s (extras_for fl c) ->
  is_extra s = true /\ layout_has s (c_mro c) = false.
Proof.
  intros fl c s H. unfold extras_for in H. apply in_app_or in H. destruct H as [H|H].
  - destruct (fl_dict fl); [|contradiction]. cbn [andb] in H.
    destruct (layout_has k_dict (c_mro c)) eqn:L; [contradiction|]. destruct H as [H|[]]. subst s. split; [reflexivity|exact L].
  - destruct (fl_weakref fl); [|contradiction]. cbn [andb] in H.
    destruct (layout_has k_weakref (c_mro c)) eqn:L; [contradiction|]. destruct H as [H|[]]. subst s. split; [reflexivity|exact L].
Qed.

Lemma slots_exact : forall fl c d, c_dc c = Some d -> c19_guard c = true ->
  new_slots repaired fl c d = filter (not_inherited c) (fnames d) ++ extras_for fl c.
Proof.
  intros fl c d Hdc Hg. pose proof (c19_guard_names c Hg) as Hng. pose proof (c19_guard_own c Hg) as Hown.
  unfold new_slots. rewrite (all_names_eq c d Hdc Hng). rewrite filter_app. f_equal.
  - apply filter_ext_in. intros x _. unfold not_inherited. rewrite (inherited_full c x Hown). reflexivity.
  - rewrite extras_repaired. apply filter_id. intros s Hs. apply In_extras_for in Hs. destruct Hs as [_ L].
    rewrite (inherited_full c s Hown). destruct (mem s (inherited_slots (c_mro c))) eqn:E; [|reflexivity].
    apply inherited_layout in E. congruence.
Qed.

Lemma own_fields : forall c (fs : list field),
  (forall f, In f fs -> mem (f_name f) (inherited_slots (c_mro c)) = f_inh f) ->
  filter (not_inherited c) (map f_name fs) = map f_name (filter (fun f => negb (f_inh f)) fs).
Proof.
  intros c fs H. induction fs as [|f r IH]; [reflexivity|].
  cbn [map filter]. unfold not_inherited at 1. rewrite (H f (or_introl eq_refl)).
  destruct (f_inh f); cbn [negb map]; [|f_equal]; apply IH; intros g Hg; apply H; right; exact Hg.
Qed.

Lemma result_assoc_slots : forall fl c d, c_dc c = Some d -> names_guard c = true ->
  assoc k_slots (c_dict (result repaired fl c d)) = Some (OSlots (new_slots repaired fl c d)).
Proof.
  intros fl c d Hdc Hng. unfold result. cbn [c_dict].
  pose proof (assoc_slots_new_dict c d Hdc Hng repaired fl) as A.
  rewrite assoc_app_l; [exact A|].
  destruct (has_key k_slots (new_dict repaired fl c d)) eqn:E; [reflexivity|].
  apply assoc_none_has_key in E. congruence.
Qed.

Lemma result_own_slots : forall fl c d, c_dc c = Some d -> names_guard c = true ->
  own_slots (c_dict (result repaired fl c d)) = Some (new_slots repaired fl c d).
Proof. intros fl c d Hdc Hng. unfold own_slots. rewrite (result_assoc_slots fl c d Hdc Hng). reflexivity. Qed.

Lemma mem_if : forall x k (b : bool), mem x (if b then [k] else []) = b && String.eqb x k.
Proof. intros x k b. destruct b; cbn [mem existsb andb]; [apply orb_false_r | reflexivity]. Qed.

Lemma mem_extras_for : forall fl c x, layout_has x (c_mro c) = false ->
  mem x (extras_for fl c) = (String.eqb x k_dict && fl_dict fl) || (String.eqb x k_weakref && fl_weakref fl).
Proof.
  intros fl c x L. unfold extras_for. rewrite mem_app, !mem_if. f_equal.
  - destruct (String.eqb x k_dict) eqn:E; [|rewrite andb_false_r; reflexivity].
    apply seqb_true in E. subst x. rewrite L. cbn [negb andb]. rewrite !andb_true_r. reflexivity.
  - destruct (String.eqb x k_weakref) eqn:E; [|rewrite andb_false_r; reflexivity].
    apply seqb_true in E. subst x. rewrite L. cbn [negb andb]. rewrite !andb_true_r. reflexivity.
Qed.

Lemma layout_cons : forall x s m, layout_has x (s :: m) = provides x s || layout_has x m.
Proof. reflexivity. Qed.

(* instances of the result carry x (= __dict__ / __weakref__) iff requested or inherited *)
Lemma layout_iff : forall fl c d x (requested : bool), c_dc c = Some d -> c19_guard c = true ->
  (x = k_dict /\ requested = fl_dict fl) \/ (x = k_weakref /\ requested = fl_weakref fl) ->
  layout_has x (full_mro (result repaired fl c d)) = requested || layout_has x (c_mro c).
Proof.
  intros fl c d x requested Hdc Hg Hx. pose proof (c19_guard_names c Hg) as Hng.
  unfold full_mro. rewrite layout_cons.
  unfold provides. cbn [own_sum s_slots]. rewrite (result_own_slots fl c d Hdc Hng).
  replace (c_mro (result repaired fl c d)) with (c_mro c) by reflexivity.
  destruct (layout_has x (c_mro c)) eqn:L; [rewrite !orb_true_r; reflexivity|]. rewrite !orb_false_r.
  rewrite (slots_exact fl c d Hdc Hg), mem_app, mem_filter.
  assert (Hres : mem x reserved = true) by (destruct Hx as [[Hx _]|[Hx _]]; subst x; reflexivity).
  rewrite (fnames_no c d Hdc Hng x Hres). cbn [andb orb].
  rewrite (mem_extras_for fl c x L).
  destruct Hx as [[Hx Hr]|[Hx Hr]]; subst x requested; cbn [String.eqb]; destruct (fl_dict fl); destruct (fl_weakref fl); reflexivity.
Qed.

(* ---------------------------------------------------------------------------------- *)
(* preserved entries                                                                   *)
(* ---------------------------------------------------------------------------------- *)
Section Preserved.
Variable c : cls.
Variable d : dcinfo.
Hypothesis Hdc : c_dc c = Some d.
Hypothesis Hng : names_guard c = true.
Variable fl : flags.

Let names := all_names repaired fl c d.
Let slots := new_slots repaired fl c d.
Let d1 := set_key k_slots (OSlots slots) (c_dict c).
Let d3 := remove_key k_weakref (remove_key k_dict (remove_keys names d1)).

Definition fix_applies : bool :=
  negb (existsb s_getstate (full_mro c)) && negb (existsb s_setstate (full_mro c)) && d_frozen d.

Lemma new_dict_repaired : new_dict repaired fl c d = if fix_applies then set_key k_setstate OSetstateFix d3 else d3.
Proof. reflexivity. Qed.

Lemma is_extra_false : forall a, is_extra a = false -> String.eqb k_dict a = false /\ String.eqb k_weakref a = false.
Proof.
  intros a H. unfold is_extra in H. apply orb_false_iff in H. destruct H as [H1 H2].
  rewrite String.eqb_sym in H1. rewrite String.eqb_sym in H2. split; assumption.
Qed.

Lemma not_named : forall a, mem a (fnames d) = false -> is_extra a = false -> mem a names = false.
Proof.
  intros a Hf He. destruct (mem a names) eqn:E; [|reflexivity].
  destruct (names_split c d Hdc Hng repaired fl a E) as [H|H].
  - apply mem_In in H. congruence.
  - apply extras_is_extra in H. congruence.
Qed.

Lemma In_d3 : forall (a : attr) (o : obj), In (a, o) (c_dict c) ->
  mem a (fnames d) = false -> is_extra a = false -> String.eqb k_slots a = false -> In (a, o) d3.
Proof.
  intros a o Hin Hf He Hs. destruct (is_extra_false a He) as [E1 E2].
  unfold d3, remove_key, remove_keys.
  apply (In_filter_key a o (fun k => negb (String.eqb k_weakref k))); [|rewrite E2; reflexivity].
  apply (In_filter_key a o (fun k => negb (String.eqb k_dict k))); [|rewrite E1; reflexivity].
  apply (In_filter_key a o (fun k => negb (mem k names))); [|rewrite (not_named a Hf He); reflexivity].
  unfold d1. apply In_set_key_other; assumption.
Qed.

Lemma own_setstate_blocks_fix : has_key k_setstate (c_dict c) = true -> fix_applies = false.
Proof.
  intros H. unfold fix_applies, full_mro. cbn [existsb own_sum s_setstate]. rewrite H.
  cbn [orb negb]. rewrite andb_false_r. reflexivity.
Qed.

Lemma preserved : forall (a : attr) (o : obj), In (a, o) (c_dict c) ->
  mem a (fnames d) = false -> is_extra a = false -> a <> k_slots ->
  In (a, o) (c_dict (result repaired fl c d)).
Proof.
  intros a o Hin Hf He Hs. unfold result. cbn [c_dict]. apply in_or_app. left.
  assert (Hs' : String.eqb k_slots a = false) by (apply seqb_neq; congruence).
  pose proof (In_d3 a o Hin Hf He Hs') as H3.
  rewrite new_dict_repaired. destruct fix_applies eqn:F; [|exact H3].
  apply In_set_key_other; [exact H3|].
  destruct (String.eqb k_setstate a) eqn:E; [|reflexivity].
  apply seqb_true in E. subst a.
  assert (has_key k_setstate (c_dict c) = true) by (apply has_key_In; exists o; exact Hin).
  rewrite (own_setstate_blocks_fix H) in F. discriminate.
Qed.

Lemma In_d3_inv : forall (a : attr) (o : obj), In (a, o) d3 -> In (a, o) (c_dict c) \/ (a = k_slots /\ o = OSlots slots).
Proof.
  intros a o H. unfold d3, remove_key, remove_keys in H.
  apply filter_In in H. destruct H as [H _]. apply filter_In in H. destruct H as [H _].
  apply filter_In in H. destruct H as [H _]. unfold d1 in H. apply In_set_key_inv in H. exact H.
Qed.

Lemma nothing_else : forall (a : attr) (o : obj), In (a, o) (c_dict (result repaired fl c d)) ->
  In (a, o) (c_dict c)
  \/ (a = k_slots /\ o = OSlots slots)
  \/ (a = k_setstate /\ o = OSetstateFix /\ fix_applies = true)
  \/ (In a slots /\ o = snd (descr a))
  \/ (a = k_doc /\ o = ONone).
Proof.
  intros a o H. unfold result in H. cbn [c_dict] in H. apply in_app_or in H. destruct H as [H|H].
  - rewrite new_dict_repaired in H. destruct fix_applies eqn:F.
    + apply In_set_key_inv in H. destruct H as [H|[H1 H2]].
      * apply In_d3_inv in H. destruct H as [H|H]; [left; exact H|right; left; exact H].
      * right. right. left. repeat split; assumption.
    + apply In_d3_inv in H. destruct H as [H|H]; [left; exact H|right; left; exact H].
  - apply in_app_or in H. destruct H as [H|H].
    + apply in_map_iff in H. destruct H as [s [Heq Hs]]. right. right. right. left.
      unfold descr in Heq. inversion Heq. subst a. split; [exact Hs|reflexivity].
    + unfold doc_of in H. destruct (has_key k_doc (new_dict repaired fl c d)); [contradiction|].
      destruct H as [H|[]]. inversion H. right. right. right. right. split; reflexivity.
Qed.

(* user-defined pickle hooks anywhere in the MRO: nothing is installed over them *)
Lemma hooks_respected : existsb s_getstate (full_mro c) || existsb s_setstate (full_mro c) = true ->
  assoc k_setstate (c_dict (result repaired fl c d)) = assoc k_setstate (c_dict c).
Proof.
  intros H. assert (F : fix_applies = false).
  { unfold fix_applies. apply orb_true_iff in H. destruct H as [H|H]; rewrite H; cbn [negb andb]; [reflexivity|].
    rewrite andb_false_r. reflexivity. }
  unfold result. cbn [c_dict]. rewrite new_dict_repaired, F.
  assert (Hn : mem k_setstate names = false) by (apply (names_no c d Hdc Hng repaired fl); reflexivity).
  assert (A3 : assoc k_setstate d3 = assoc k_setstate (c_dict c)).
  { unfold d3. rewrite assoc_remove_key by reflexivity. rewrite assoc_remove_key by reflexivity.
    rewrite assoc_remove_keys by exact Hn. unfold d1. apply assoc_set_key_other. reflexivity. }
  destruct (has_key k_setstate d3) eqn:E.
  - rewrite assoc_app_l by exact E. exact A3.
  - rewrite assoc_app_r by exact E. rewrite <- A3.
    assert (A : assoc k_setstate d3 = None) by (apply assoc_none_has_key; exact E). rewrite A.
    apply assoc_none_has_key. rewrite has_key_app.
    assert (Hm : has_key k_setstate (map descr slots) = false).
    { destruct (has_key k_setstate (map descr slots)) eqn:M; [|reflexivity].
      apply has_key_In in M. destruct M as [x M]. apply in_map_iff in M. destruct M as [s [Heq Hs]].
      unfold descr in Heq. inversion Heq. subst s.
      pose proof (slots_in_names c d repaired fl k_setstate Hs). unfold names in Hn. congruence. }
    fold slots. rewrite Hm. unfold doc_of. destruct (has_key k_doc d3); reflexivity.
Qed.

(* every non-inherited field is now a member descriptor, not a class-level default *)
Lemma assoc_map_descr : forall s l e, In s l -> assoc s (map descr l ++ e) = Some (snd (descr s)).
Proof.
  intros s l e H. induction l as [|x r IH]; [contradiction|].
  cbn [map app assoc]. unfold descr at 1. cbn [fst snd]. destruct (String.eqb s x) eqn:E.
  - apply seqb_true in E. subst x. reflexivity.
  - destruct H as [H|H]; [subst x; rewrite seqb_refl in E; discriminate|]. apply IH. exact H.
Qed.

Lemma field_is_member : forall f, In f (fnames d) -> In f slots ->
  assoc f (c_dict (result repaired fl c d)) = Some (OMember f).
Proof.
  intros f Hf Hs. unfold result. cbn [c_dict].
  pose proof (fnames_not_extra c d Hdc Hng f Hf) as Ex.
  pose proof (no_conflict c d Hdc Hng repaired fl f Hs) as NC. rewrite Ex in NC. cbn [negb andb] in NC.
  rewrite assoc_app_r by exact NC. rewrite (assoc_map_descr f _ _ Hs). unfold descr. rewrite Ex. reflexivity.
Qed.

Lemma stale_subset : c_cells c = [] -> forall a, In a (c_stale (result repaired fl c d)) -> In a (c_stale c).
Proof.
  intros Hc a H. unfold result in H. cbn [c_stale] in H. rewrite Hc, app_nil_r in H.
  apply filter_In in H. exact (proj1 H).
Qed.

End Preserved.

(* ---------------------------------------------------------------------------------- *)
(* the statements of Props/C19.v                                                       *)
(* ---------------------------------------------------------------------------------- *)
Lemma wrap_result : forall fl (st st' : stack) c n d, names_guard c = true -> c_dc c = Some d ->
  wrap repaired fl st c = (st', Ok n) -> n = result repaired fl c d.
Proof.
  intros fl st st' c n d Hng Hdc W. destruct (wrap_ok_inv fl st st' c n Hng W) as [d' [Hdc' [_ [_ [_ Hn]]]]].
  rewrite Hdc in Hdc'. inversion Hdc'. subst d'. exact Hn.
Qed.

Section Statements.
Variable fl : flags.
Variables st st' : stack.
Variables c n : cls.
Variable d : dcinfo.
Hypothesis Hg : c19_guard c = true.
Hypothesis Hdc : c_dc c = Some d.
Hypothesis W : wrap repaired fl st c = (st', Ok n).

Let Hng := c19_guard_names c Hg.
Let Hn : n = result repaired fl c d := wrap_result fl st st' c n d Hng Hdc W.

Lemma st_slots_exact :
  assoc k_slots (c_dict n) = Some (OSlots (filter (not_inherited c) (fnames d) ++ extras_for fl c)).
Proof. rewrite Hn, (result_assoc_slots fl c d Hdc Hng), (slots_exact fl c d Hdc Hg). reflexivity. Qed.

Lemma st_slots_own_fields :
  (forall f, In f (d_fields d) -> mem (f_name f) (inherited_slots (c_mro c)) = f_inh f) ->
  assoc k_slots (c_dict n)
  = Some (OSlots (map f_name (filter (fun f => negb (f_inh f)) (d_fields d)) ++ extras_for fl c)).
Proof. intros H. rewrite st_slots_exact. unfold fnames. rewrite (own_fields c (d_fields d) H). reflexivity. Qed.

Lemma st_no_dict : layout_has k_dict (full_mro n) = fl_dict fl || layout_has k_dict (c_mro c).
Proof. rewrite Hn. apply (layout_iff fl c d k_dict (fl_dict fl) Hdc Hg). left. split; reflexivity. Qed.

Lemma st_weakref_iff : layout_has k_weakref (full_mro n) = fl_weakref fl || layout_has k_weakref (c_mro c).
Proof. rewrite Hn. apply (layout_iff fl c d k_weakref (fl_weakref fl) Hdc Hg). right. split; reflexivity. Qed.

Lemma st_preserved :
  (forall (a : attr) (o : obj), In (a, o) (c_dict c) ->
     mem a (fnames d) = false -> is_extra a = false -> a <> k_slots -> In (a, o) (c_dict n))
  /\ c_name n = c_name c /\ c_qualname n = c_qualname c /\ c_module n = c_module c
  /\ c_mro n = c_mro c /\ c_dc n = c_dc c
  /\ (existsb s_getstate (full_mro c) || existsb s_setstate (full_mro c) = true ->
      assoc k_setstate (c_dict n) = assoc k_setstate (c_dict c)).
Proof.
  rewrite Hn. split; [exact (preserved c d Hdc Hng fl)|]. repeat split.
  exact (hooks_respected c d Hdc Hng fl).
Qed.

Lemma st_nothing_else : forall (a : attr) (o : obj), In (a, o) (c_dict n) ->
  In (a, o) (c_dict c)
  \/ (a = k_slots /\ o = OSlots (new_slots repaired fl c d))
  \/ (a = k_setstate /\ o = OSetstateFix /\ d_frozen d = true /\
      existsb s_getstate (full_mro c) = false /\ existsb s_setstate (full_mro c) = false)
  \/ (In a (new_slots repaired fl c d) /\ o = snd (descr a))
  \/ (a = k_doc /\ o = ONone).
Proof.
  rewrite Hn. intros a o H. destruct (nothing_else c d fl a o H) as [H1|[H1|[H1|H1]]].
  - left. exact H1.
  - right. left. exact H1.
  - right. right. left. destruct H1 as [Ha [Ho F]]. unfold fix_applies in F.
    apply andb_true_iff in F. destruct F as [F Fz]. apply andb_true_iff in F. destruct F as [F1 F2].
    apply negb_true_iff in F1. apply negb_true_iff in F2. repeat split; assumption.
  - right. right. right. exact H1.
Qed.

Lemma st_defaults :
  (forall o, In (k_init, o) (c_dict c) -> In (k_init, o) (c_dict n))
  /\ (forall o, In (k_dcfields, o) (c_dict c) -> In (k_dcfields, o) (c_dict n))
  /\ (forall f, In f (d_fields d) -> not_inherited c (f_name f) = true ->
        assoc (f_name f) (c_dict n) = Some (OMember (f_name f))).
Proof.
  rewrite Hn. split; [|split].
  - intros o H. apply (preserved c d Hdc Hng fl k_init o H); [|reflexivity|discriminate].
    apply (fnames_no c d Hdc Hng). reflexivity.
  - intros o H. apply (preserved c d Hdc Hng fl k_dcfields o H); [|reflexivity|discriminate].
    apply (fnames_no c d Hdc Hng). reflexivity.
  - intros f Hf Hni. assert (Hin : In (f_name f) (fnames d)) by (unfold fnames; apply in_map; exact Hf).
    apply (field_is_member c d Hdc Hng fl (f_name f) Hin).
    rewrite (slots_exact fl c d Hdc Hg). apply in_or_app. left. apply filter_In. split; assumption.
Qed.

Lemma st_super_safe : c_cells c = [] -> forall a, In a (c_stale n) -> In a (c_stale c).
Proof. rewrite Hn. exact (stale_subset c d fl). Qed.

End Statements.

Lemma st_stack_empty_after_success : forall fl c n (st' : stack),
  wrap repaired fl [] c = (st', Ok n) -> st' = [].
Proof. intros fl c n st' W. pose proof (wrap_stack_restored fl [] c) as H. rewrite W in H. exact H. Qed.

Lemma st_stack_restored : forall fl (st : stack) c,
  fst (wrap repaired fl st c) = st /\ (mem (repr c) st = true -> snd (wrap repaired fl st c) = Raise EType).
Proof.
  intros fl st c. split; [apply wrap_stack_restored|]. intros H. rewrite (wrap_busy repaired fl st c H). reflexivity.
Qed.

Lemma st_never_raises : forall l, Forall decorable l ->
  run repaired [] l = ([], map (fun fc => result_of (fst fc) (snd fc)) l)
  /\ Forall (fun r => is_ok r = true) (snd (run repaired [] l)).
Proof. intros l H. split; [exact (run_results l H)|exact (proj2 (proj2 (never_raises l H)))]. Qed.

(* ---------------------------------------------------------------------------------- *)
(* chains: what a subclass of the new class sees                                       *)
(* ---------------------------------------------------------------------------------- *)
Lemma st_chain : forall fl (st st' : stack) b nb d,
  c19_guard b = true -> c_dc b = Some d -> wrap repaired fl st b = (st', Ok nb) ->
  (forall x, mem x (inherited_slots (full_mro nb))
             = mem x (filter (not_inherited b) (fnames d) ++ extras_for fl b) || mem x (inherited_slots (c_mro b)))
  /\ (forall f, In f (fnames d) -> mem f (inherited_slots (full_mro nb)) = true).
Proof.
  intros fl st st' b nb d Hg Hdc W. pose proof (c19_guard_names b Hg) as Hng.
  pose proof (wrap_result fl st st' b nb d Hng Hdc W) as Hn.
  assert (H1 : forall x, mem x (inherited_slots (full_mro nb))
             = mem x (filter (not_inherited b) (fnames d) ++ extras_for fl b) || mem x (inherited_slots (c_mro b))).
  { intros x. rewrite inherited_as_union. unfold full_mro. cbn [existsb own_sum s_slots].
    rewrite Hn at 1. rewrite (result_own_slots fl b d Hdc Hng), (slots_exact fl b d Hdc Hg).
    rewrite <- inherited_as_union. rewrite Hn. reflexivity. }
  split; [exact H1|].
  intros f Hf. rewrite H1, mem_app, mem_filter. apply mem_In in Hf. rewrite Hf. cbn [andb].
  unfold not_inherited. destruct (mem f (inherited_slots (c_mro b))); [apply orb_true_r|reflexivity].
Qed.
