(* Proof scripts for the hints layer of property C17 (model: Model/InspectHints.v). *)
From Coq Require Import List NArith ZArith String Ascii Bool Lia.
Import ListNotations.
Require Import TL.Model.Inspect TL.Model.InspectHints.

(* ------------------------------------------------------------------ induction over annotations (nested lists) *)
Definition opt_all {A} (P : A -> Prop) (o : option A) : Prop := match o with Some x => P x | None => True end.
Section ItyInd.
Variable P : ity -> Prop.
Hypothesis HClass : forall c, P (IClass c).
Hypothesis HNone : P INone.
Hypothesis HEllipsis : P IEllipsis.
Hypothesis HSpecial : forall s, P (ISpecial s).
Hypothesis HTyping : forall a, P (ITyping a).
Hypothesis HTypingSub : forall a l, Forall P l -> P (ITypingSub a l).
Hypothesis HClassSub : forall c l, Forall P l -> P (IClassSub c l).
Hypothesis HUserSub : forall c l, Forall P l -> P (IUserSub c l).
Hypothesis HUnion : forall sp l, Forall P l -> P (IUnion sp l).
Hypothesis HLiteral : forall vs, P (ILiteral vs).
Hypothesis HFinal : forall a, P a -> P (IFinal a).
Hypothesis HClassVar : forall a, P a -> P (IClassVar a).
Hypothesis HNewType : forall nm s, P s -> P (INewType nm s).
Hypothesis HAlias : forall nm v, P v -> P (IAlias nm v).
Hypothesis HAliasStr : forall nm r, P (IAliasStr nm r).
Hypothesis HForwardRef : forall a m, P (IForwardRef a m).
Hypothesis HTypeVar : forall nm b cs, opt_all P b -> Forall P cs -> P (ITypeVar nm b cs).
Hypothesis HCallable : forall t ps r, opt_all (Forall P) ps -> P r -> P (ICallable t ps r).
Hypothesis HRoutine : forall nm, P (IRoutine nm).
Hypothesis HArgList : forall l, Forall P l -> P (IArgList l).
Hypothesis HValue : forall v, P (IValue v).
Hypothesis HInst : forall c, P (IInst c).

Fixpoint ity_ind2 (t : ity) : P t :=
  let fix go (l : list ity) : Forall P l :=
    match l with
    | [] => Forall_nil P
    | x :: r => Forall_cons x (ity_ind2 x) (go r)
    end in
  match t with
  | IClass c => HClass c
  | INone => HNone
  | IEllipsis => HEllipsis
  | ISpecial s => HSpecial s
  | ITyping a => HTyping a
  | ITypingSub a l => HTypingSub a l (go l)
  | IClassSub c l => HClassSub c l (go l)
  | IUserSub c l => HUserSub c l (go l)
  | IUnion sp l => HUnion sp l (go l)
  | ILiteral vs => HLiteral vs
  | IFinal a => HFinal a (ity_ind2 a)
  | IClassVar a => HClassVar a (ity_ind2 a)
  | INewType nm s => HNewType nm s (ity_ind2 s)
  | IAlias nm v => HAlias nm v (ity_ind2 v)
  | IAliasStr nm r => HAliasStr nm r
  | IForwardRef a m => HForwardRef a m
  | ITypeVar nm b cs =>
      HTypeVar nm b cs
        (match b as b0 return opt_all P b0 with Some x => ity_ind2 x | None => I end) (go cs)
  | ICallable t ps r =>
      HCallable t ps r
        (match ps as p0 return opt_all (Forall P) p0 with Some l => go l | None => I end) (ity_ind2 r)
  | IRoutine nm => HRoutine nm
  | IArgList l => HArgList l (go l)
  | IValue v => HValue v
  | IInst c => HInst c
  end.
End ItyInd.

Lemma lit_eqb_eq : forall a b, lit_eqb a b = true -> a = b.
Proof.
  intros [x|x|x| |x] [y|y|y| |y]; cbn; intro H; try discriminate; try reflexivity.
  - apply Z.eqb_eq in H; subst; reflexivity.
  - apply String.eqb_eq in H; subst; reflexivity.
  - apply Bool.eqb_prop in H; subst; reflexivity.
  - apply String.eqb_eq in H; subst; reflexivity.
Qed.
Lemma lits_eqb_eq : forall a b, lits_eqb a b = true -> a = b.
Proof.
  induction a as [|x r IH]; destruct b as [|y s]; cbn; intro H; try discriminate; try reflexivity.
  apply andb_prop in H. destruct H as [H1 H2]. apply lit_eqb_eq in H1. apply IH in H2. subst. reflexivity.
Qed.
Lemma uspell_eqb_eq : forall a b, uspell_eqb a b = true -> a = b.
Proof. destruct a, b; cbn; intro H; try discriminate; reflexivity. Qed.
Lemma special_eqb_eq : forall a b, special_eqb a b = true -> a = b.
Proof. destruct a, b; cbn; intro H; try discriminate; reflexivity. Qed.
Lemma ostr_eqb_eq : forall a b, ostr_eqb a b = true -> a = b.
Proof.
  destruct a, b; cbn; intro H; try discriminate; try reflexivity.
  apply String.eqb_eq in H; subst; reflexivity.
Qed.

Lemma itys_eqb_eq : forall l, Forall (fun x => forall y, ity_eqb x y = true -> x = y) l ->
  forall l', itys_eqb l l' = true -> l = l'.
Proof.
  induction 1 as [|x r Hx Hr IH]; destruct l' as [|y s]; cbn; intro H; try discriminate; try reflexivity.
  apply andb_prop in H. destruct H as [H1 H2]. apply Hx in H1. apply IH in H2. subst. reflexivity.
Qed.

Ltac split_and Heq :=
  repeat match type of Heq with
  | (_ && _)%bool = true => let H1 := fresh "Hc" in apply andb_prop in Heq; destruct Heq as [Heq H1]
  end.
Lemma ity_eqb_eq : forall a b, ity_eqb a b = true -> a = b.
Proof.
  induction a using ity_ind2; intros b0 Heq; destruct b0; try discriminate Heq; try reflexivity;
    cbn [ity_eqb] in Heq; fold itys_eqb in Heq; split_and Heq.
  all: repeat match goal with
       | Hx : N.eqb _ _ = true |- _ => apply N.eqb_eq in Hx
       | Hx : String.eqb _ _ = true |- _ => apply String.eqb_eq in Hx
       | Hx : special_eqb _ _ = true |- _ => apply special_eqb_eq in Hx
       | Hx : uspell_eqb _ _ = true |- _ => apply uspell_eqb_eq in Hx
       | Hx : lits_eqb _ _ = true |- _ => apply lits_eqb_eq in Hx
       | Hx : lit_eqb _ _ = true |- _ => apply lit_eqb_eq in Hx
       | Hx : ostr_eqb _ _ = true |- _ => apply ostr_eqb_eq in Hx
       | Hx : Bool.eqb _ _ = true |- _ => apply Bool.eqb_prop in Hx
       | HF : Forall _ ?l, Hx : _ ?l _ = true |- _ => apply (itys_eqb_eq l HF) in Hx
       | IH : forall b, ity_eqb ?a b = true -> ?a = b, Hx : ity_eqb ?a _ = true |- _ => apply IH in Hx
       end; subst; try reflexivity.
  - destruct b as [x|], bound as [y|]; cbn in H; try discriminate Hc0; try reflexivity.
    apply H in Hc0. subst. reflexivity.
  - destruct ps as [x|], ps0 as [y|]; cbn in H; try discriminate Hc0; try reflexivity.
    apply (itys_eqb_eq x H) in Hc0. subst. reflexivity.
Qed.

Lemma hint_eqb_eq : forall a b, hint_eqb a b = true -> a = b.
Proof.
  intros [x| |[x|]] [y| |[y|]]; cbn; intro H; try discriminate; try reflexivity;
    apply ity_eqb_eq in H; subst; reflexivity.
Qed.
Lemma hints_eqb_eq : forall a b, hints_eqb a b = true -> a = b.
Proof.
  induction a as [|[n h] r IH]; destruct b as [|[n' h'] s]; cbn; intro H; try discriminate; try reflexivity.
  apply andb_prop in H; destruct H as [H H2]. apply andb_prop in H; destruct H as [H0 H1].
  apply String.eqb_eq in H0. apply hint_eqb_eq in H1. apply IH in H2. subst. reflexivity.
Qed.

(* ------------------------------------------------------------------ strings, lists of names *)
Lemma strs_eqb_eq : forall a b, strs_eqb a b = true -> a = b.
Proof.
  induction a as [|x r IH]; destruct b as [|y s]; cbn; intro H; try discriminate; try reflexivity.
  apply andb_prop in H; destruct H as [H1 H2]. apply String.eqb_eq in H1. apply IH in H2. subst. reflexivity.
Qed.
Lemma memS_app : forall x a b, memS x (a ++ b) = memS x a || memS x b.
Proof. intros. unfold memS. apply existsb_app. Qed.
Lemma nodup_s_snoc : forall l x, nodup_s (l ++ [x]) = true -> nodup_s l = true /\ memS x l = false.
Proof.
  induction l as [|a r IH]; cbn; intros x H; [split; reflexivity|].
  apply andb_prop in H; destruct H as [H1 H2]. apply negb_true_iff in H1.
  rewrite memS_app in H1. apply orb_false_iff in H1. destruct H1 as [H1 H3].
  cbn in H3. rewrite orb_false_r in H3.
  destruct (IH x H2) as [H4 H5]. split.
  - rewrite H1, H4. reflexivity.
  - unfold memS in H5. rewrite String.eqb_sym, H3, H5. reflexivity.
Qed.
Lemma names_of_app : forall A (a b : list (string * A)), names_of (a ++ b) = names_of a ++ names_of b.
Proof. intros. unfold names_of. apply map_app. Qed.

(* ------------------------------------------------------------------ dict assignment *)
Section Merge.
Context {A : Type}.
Implicit Types (l : list (string * A)).

Lemma merge_snoc : forall l e, merge (l ++ [e]) = upsert (fst e) (snd e) (merge l).
Proof. intros. unfold merge. rewrite fold_left_app. reflexivity. Qed.
Lemma merge_app : forall l1 l2,
  merge (l1 ++ l2) = fold_left (fun acc e => upsert (fst e) (snd e) acc) l2 (merge l1).
Proof. intros. unfold merge. apply fold_left_app. Qed.
Lemma upsert_fresh : forall n (v : A) l, memS n (names_of l) = false -> upsert n v l = l ++ [(n, v)].
Proof.
  induction l as [|[n' v'] r IH]; cbn; intro H; [reflexivity|].
  apply orb_false_iff in H. destruct H as [H1 H2]. rewrite H1. rewrite (IH H2). reflexivity.
Qed.
Lemma merge_nodup : forall l, nodup_s (names_of l) = true -> merge l = l.
Proof.
  induction l as [|e l IH] using rev_ind; intro H; [reflexivity|].
  rewrite names_of_app in H. cbn in H. apply nodup_s_snoc in H. destruct H as [H1 H2].
  rewrite merge_snoc, (IH H1), (upsert_fresh _ _ _ H2). destruct e; reflexivity.
Qed.
Lemma upsert_nonempty : forall n (v : A) l, upsert n v l <> [].
Proof. intros n v [|[n' v'] r]; cbn; [discriminate|]. destruct (String.eqb n n'); discriminate. Qed.
Lemma merge_nonempty : forall l, l <> [] -> merge l <> [].
Proof.
  induction l as [|e l IH] using rev_ind; intro H; [congruence|].
  rewrite merge_snoc. apply upsert_nonempty.
Qed.
Lemma names_upsert_in : forall n (v : A) l x, In x (names_of (upsert n v l)) -> x = n \/ In x (names_of l).
Proof.
  induction l as [|[n' v'] r IH]; cbn; intros x H.
  - destruct H as [H|[]]; left; symmetry; exact H.
  - destruct (String.eqb n n') eqn:E; cbn in H.
    + destruct H as [H|H]; [left; symmetry; exact H | right; right; exact H].
    + destruct H as [H|H]; [right; left; exact H|].
      destruct (IH x H) as [H1|H1]; [left; exact H1 | right; right; exact H1].
Qed.
(* filtering by NAME commutes with dict assignment *)
Lemma filter_upsert : forall (p : string -> bool) n (v : A) l,
  filter (fun e => p (fst e)) (upsert n v l)
  = if p n then upsert n v (filter (fun e => p (fst e)) l) else filter (fun e => p (fst e)) l.
Proof.
  induction l as [|[n' v'] r IH]; cbn.
  - destruct (p n); reflexivity.
  - destruct (String.eqb n n') eqn:E.
    + apply String.eqb_eq in E. subst n'. cbn. destruct (p n) eqn:Ep; cbn; [rewrite String.eqb_refl|]; reflexivity.
    + cbn. rewrite IH. destruct (p n') eqn:Ep', (p n) eqn:Ep; cbn; try rewrite E; reflexivity.
Qed.
Lemma filter_merge : forall (p : string -> bool) l,
  filter (fun e => p (fst e)) (merge l) = merge (filter (fun e => p (fst e)) l).
Proof.
  induction l as [|e l IH] using rev_ind; [reflexivity|].
  rewrite merge_snoc, filter_upsert, filter_app, IH. cbn.
  destruct (p (fst e)); [rewrite merge_snoc | rewrite app_nil_r]; reflexivity.
Qed.
Lemma in_upsert : forall n (v : A) l e, In e (upsert n v l) -> e = (n, v) \/ In e l.
Proof.
  induction l as [|[n' v'] r IH]; cbn; intros e H.
  - destruct H as [H|[]]; left; symmetry; exact H.
  - destruct (String.eqb n n'); cbn in H.
    + destruct H as [H|H]; [left; symmetry; exact H | right; right; exact H].
    + destruct H as [H|H]; [right; left; exact H|].
      destruct (IH e H) as [H1|H1]; [left; exact H1 | right; right; exact H1].
Qed.
Lemma in_merge : forall l e, In e (merge l) -> In e l.
Proof.
  induction l as [|x l IH] using rev_ind; intros e H; [exact H|].
  rewrite merge_snoc in H. apply in_upsert in H. apply in_or_app. destruct H as [H|H].
  - right. left. destruct x; symmetry; exact H.
  - left. exact (IH e H).
Qed.
End Merge.

Lemma upsert_map : forall A B (g : A -> B) n (v : A) l,
  map (fun e => (fst e, g (snd e))) (upsert n v l) = upsert n (g v) (map (fun e => (fst e, g (snd e))) l).
Proof.
  induction l as [|[n' v'] r IH]; cbn; [reflexivity|].
  destruct (String.eqb n n'); cbn; [reflexivity | rewrite IH; reflexivity].
Qed.

(* ------------------------------------------------------------------ mapO *)
Lemma mapO_app : forall A B (f : A -> option B) a b,
  mapO f (a ++ b) = match mapO f a, mapO f b with Some x, Some y => Some (x ++ y) | _, _ => None end.
Proof.
  induction a as [|x r IH]; cbn; intro b.
  - destruct (mapO f b); reflexivity.
  - rewrite IH. destruct (f x); [|reflexivity]. destruct (mapO f r); [|reflexivity].
    destruct (mapO f b); reflexivity.
Qed.
Lemma mapO_ext_in : forall A B (f g : A -> option B) l, (forall x, In x l -> f x = g x) -> mapO f l = mapO g l.
Proof.
  induction l as [|x r IH]; cbn; intro H; [reflexivity|].
  rewrite (H x (or_introl eq_refl)), IH; [reflexivity|]. intros y Hy. apply H. right. exact Hy.
Qed.
Lemma mapO_map : forall A B C (f : B -> option C) (g : A -> B) l, mapO f (map g l) = mapO (fun x => f (g x)) l.
Proof. induction l as [|x r IH]; cbn; [reflexivity|]. rewrite IH. reflexivity. Qed.
Lemma mapO_length : forall A B (f : A -> option B) l l', mapO f l = Some l' -> List.length l' = List.length l.
Proof.
  induction l as [|x r IH]; cbn; intros l' H.
  - inversion H. reflexivity.
  - destruct (f x); [|discriminate]. destruct (mapO f r) eqn:E; [|discriminate]. inversion H. cbn.
    rewrite (IH _ eq_refl). reflexivity.
Qed.
Lemma mapO_total : forall A B (f : A -> option B) l,
  forallb (fun x => match f x with Some _ => true | None => false end) l = true -> exists l', mapO f l = Some l'.
Proof.
  induction l as [|x r IH]; cbn; intro H; [eexists; reflexivity|].
  apply andb_prop in H; destruct H as [H1 H2]. destruct (f x); [|discriminate].
  destruct (IH H2) as [l' E]. rewrite E. eexists; reflexivity.
Qed.

Lemma mapO_in : forall A B (f : A -> option B) l l' y, mapO f l = Some l' -> In y l' -> exists x, In x l /\ f x = Some y.
Proof.
  induction l as [|x r IH]; cbn; intros l' y H Hy.
  - inversion H; subst. destruct Hy.
  - destruct (f x) eqn:Ex; [|discriminate]. destruct (mapO f r) eqn:Er; [|discriminate]. inversion H; subst.
    destruct Hy as [Hy|Hy].
    + subst. exists x. split; [left; reflexivity | exact Ex].
    + destruct (IH _ _ eq_refl Hy) as [x' [H1 H2]]. exists x'. split; [right; exact H1 | exact H2].
Qed.
Lemma filter_all_id : forall A (p : A -> bool) l, (forall x, In x l -> p x = true) -> filter p l = l.
Proof.
  induction l as [|x r IH]; cbn; intro H; [reflexivity|].
  rewrite (H x (or_introl eq_refl)), IH; [reflexivity|]. intros y Hy. apply H. right. exact Hy.
Qed.
Lemma filter_rev_comm : forall A (p : A -> bool) l, filter p (rev l) = rev (filter p l).
Proof.
  induction l as [|x r IH]; cbn; [reflexivity|].
  rewrite filter_app, IH. cbn. destruct (p x); cbn; [reflexivity | rewrite app_nil_r; reflexivity].
Qed.

Section L.
Variable T : tables.
Variable W : world.

Notation eval_entry := (eval_entry W).
Notation typing_hints := (typing_hints W).
Notation hints_nex := (hints_nex W).
Notation get_type_hints := (get_type_hints T W).
Notation spec_fields := (spec_fields W).

Definition notkw (nh : string * hint) : bool := negb (is_kwonly (snd nh)).

(* ------------------------------------------------------------------ evaluation keeps names *)
Lemma eval_entry_name : forall e x, eval_entry e = Some x -> fst x = fst e.
Proof.
  intros e x H. unfold InspectHints.eval_entry in H.
  destruct (eval_ann W (fst (snd e)) (snd (snd e))); [|discriminate]. inversion H. reflexivity.
Qed.
Lemma eval_names : forall es evs, mapO eval_entry es = Some evs -> names_of evs = names_of es.
Proof.
  induction es as [|e r IH]; cbn; intros evs H.
  - inversion H. reflexivity.
  - destruct (eval_entry e) eqn:Ee; [|discriminate]. destruct (mapO eval_entry r) eqn:Er; [|discriminate].
    inversion H; subst. cbn. rewrite (eval_entry_name _ _ Ee). f_equal. exact (IH _ eq_refl).
Qed.
Lemma all_eval_some : forall d, all_eval W d = true -> exists evs, mapO eval_entry (entries (c_mro d)) = Some evs.
Proof. intros d H. apply mapO_total. exact H. Qed.

Lemma evs_notkw : forall es evs, mapO eval_entry es = Some evs ->
  forallb (fun e => negb (entry_kwonly W e)) es = true -> forall x, In x evs -> notkw x = true.
Proof.
  intros es evs H Hk x Hx. destruct (mapO_in _ _ _ _ _ _ H Hx) as [e [He Hev]].
  rewrite forallb_forall in Hk. specialize (Hk e He). unfold entry_kwonly in Hk. rewrite Hev in Hk.
  destruct x as [n h]. exact Hk.
Qed.

Lemma hints_nex_merge : forall d evs,
  mapO eval_entry (entries (c_mro d)) = Some evs ->
  forallb (fun e => negb (entry_kwonly W e)) (entries (c_mro d)) = true ->
  hints_nex d = merge evs.
Proof.
  intros d evs H Hk. unfold InspectHints.hints_nex, InspectHints.typing_hints. rewrite H. cbn [option_map].
  apply filter_all_id. intros x Hx. apply in_merge in Hx. exact (evs_notkw _ _ H Hk x Hx).
Qed.

Lemma gth_nonempty : forall d ex l, hints_nex d = l -> l <> [] -> get_type_hints d ex = l.
Proof.
  intros d ex l H Hne. unfold InspectHints.get_type_hints. rewrite H. destruct l; [congruence | reflexivity].
Qed.

(* ------------------------------------------------------------------ the MRO: classes without annotations vanish *)
Lemma klass_entries_null : forall k, null (k_ann k) = true -> klass_entries k = [].
Proof. intros k H. unfold klass_entries. destruct (k_ann k); [reflexivity | discriminate]. Qed.
Lemma flat_entries_annotating : forall l, flat_map klass_entries l = flat_map klass_entries (annotating l).
Proof.
  induction l as [|k r IH]; cbn; [reflexivity|].
  destruct (null (k_ann k)) eqn:E; cbn.
  - rewrite (klass_entries_null k E). exact IH.
  - rewrite IH. reflexivity.
Qed.
Lemma annotating_rev : forall l, annotating (rev l) = rev (annotating l).
Proof. intro l. unfold annotating. apply filter_rev_comm. Qed.
Lemma entries_annotating : forall mro, entries mro = flat_map klass_entries (rev (annotating mro)).
Proof. intro mro. unfold entries. rewrite flat_entries_annotating, annotating_rev. reflexivity. Qed.
Lemma unannotated_annotating : forall mro, unannotated mro = true <-> annotating mro = [].
Proof.
  induction mro as [|k r IH]; cbn; [split; reflexivity|].
  unfold unannotated in *. cbn. destruct (null (k_ann k)); cbn.
  - exact IH.
  - split; discriminate.
Qed.
Lemma unannotated_entries : forall mro, unannotated mro = true -> entries mro = [].
Proof. intros mro H. rewrite entries_annotating. apply unannotated_annotating in H. rewrite H. reflexivity. Qed.
Lemma annotated_entries : forall mro, unannotated mro = false -> entries mro <> [].
Proof.
  intros mro H. rewrite entries_annotating.
  destruct (annotating mro) as [|k r] eqn:E.
  - apply unannotated_annotating in E. congruence.
  - assert (Hk : In k (annotating mro)) by (rewrite E; left; reflexivity).
    unfold annotating in Hk. apply filter_In in Hk. destruct Hk as [_ Hk].
    cbn. rewrite flat_map_app. cbn. intro Hc. apply app_eq_nil in Hc. destruct Hc as [_ Hc].
    apply app_eq_nil in Hc. destruct Hc as [Hc _]. unfold klass_entries in Hc.
    destruct (k_ann k); [discriminate Hk | discriminate Hc].
Qed.

(* the signature path: nothing annotated, typing.get_type_hints gives {} *)
Lemma unannotated_nex : forall d, unannotated (c_mro d) = true -> hints_nex d = [].
Proof.
  intros d H. unfold InspectHints.hints_nex, InspectHints.typing_hints.
  rewrite (unannotated_entries _ H). reflexivity.
Qed.
Lemma unannotated_gth : forall d, unannotated (c_mro d) = true ->
  get_type_hints d true = hints_from_signature T W d.
Proof. intros d H. unfold InspectHints.get_type_hints. rewrite (unannotated_nex d H). reflexivity. Qed.


Lemma names_klass_entries : forall k, names_of (klass_entries k) = names_of (k_ann k).
Proof. intro k. unfold klass_entries, names_of. rewrite map_map. reflexivity. Qed.

Lemma gth_class_level : forall d l, hints_nex d = l -> (l = [] -> hints_from_signature T W d = []) ->
  forall ex, get_type_hints d ex = l.
Proof.
  intros d l H Hs ex. unfold InspectHints.get_type_hints. rewrite H. destruct l; [|reflexivity].
  destruct ex; [exact (Hs eq_refl) | reflexivity].
Qed.

(* ------------------------------------------------------------------ TypedDict *)
Lemma spec_td_entries : forall k,
  mapO (fun na => match eval_ann W (k_module k) (snd na) with Some h => Some (fst na, h) | None => None end) (k_ann k)
  = mapO eval_entry (klass_entries k).
Proof. intro k. unfold klass_entries. rewrite mapO_map. reflexivity. Qed.

Lemma td_field_list : forall d fs,
  c_flavour d = FlTypedDict -> flavour_ok T d = true -> td_guard W d = true -> spec_fields d = Some fs ->
  forall ex, get_type_hints d ex = fs.
Proof.
  intros d fs Hfl Hok Hg Hs ex.
  unfold flavour_ok in Hok. rewrite Hfl in Hok. apply andb_prop in Hok. destruct Hok as [_ Htd].
  unfold td_guard in Hg. apply andb_prop in Hg. destruct Hg as [Hev Hg].
  destruct (c_mro d) as [|k [|k2 r]] eqn:Em; try discriminate Hg.
  apply andb_prop in Hg. destruct Hg as [Hnd Hkw].
  destruct (all_eval_some d Hev) as [evs He]. rewrite Em in He.
  assert (Hent : entries [k] = klass_entries k) by (unfold entries; cbn; apply app_nil_r).
  rewrite Hent in He.
  unfold InspectHints.spec_fields in Hs. rewrite Hfl in Hs. unfold spec_typeddict in Hs. rewrite Em in Hs.
  rewrite spec_td_entries, He in Hs. inversion Hs; subst fs. clear Hs.
  assert (Hn : hints_nex d = evs).
  { rewrite (hints_nex_merge d evs); [| rewrite Em, Hent; exact He | rewrite Em; exact Hkw].
    apply merge_nodup. rewrite (eval_names _ _ He), names_klass_entries. exact Hnd. }
  apply (gth_class_level d evs Hn). intro Hnil.
  unfold hints_from_signature, signature. rewrite Htd. unfold typed_dict_signature. rewrite Hn, Hnil. reflexivity.
Qed.

(* ------------------------------------------------------------------ named tuples *)
Lemma find_str_in : forall A (l : list (string * A)) n a,
  nodup_s (names_of l) = true -> In (n, a) l -> find_str n l = Some a.
Proof.
  induction l as [|[n' a'] r IH]; cbn; intros n a Hnd Hin; [destruct Hin|].
  apply andb_prop in Hnd. destruct Hnd as [H1 H2]. apply negb_true_iff in H1.
  destruct Hin as [Hin|Hin].
  - inversion Hin; subst. rewrite String.eqb_refl. reflexivity.
  - destruct (String.eqb n n') eqn:E.
    + apply String.eqb_eq in E. subst n'. exfalso.
      assert (Hm : memS n (map fst r) = true).
      { unfold memS. apply existsb_exists. exists n. split; [|apply String.eqb_refl].
        apply in_map_iff. exists (n, a). split; [reflexivity | exact Hin]. }
      unfold names_of in H1. rewrite Hm in H1. discriminate.
    + exact (IH n a H2 Hin).
Qed.
Lemma mro_ann_single : forall mro k n a,
  annotating mro = [k] -> find_str n (k_ann k) = Some a -> mro_ann n mro = Some (k_module k, a).
Proof.
  induction mro as [|k' r IH]; cbn; intros k n a Han Hf; [discriminate|].
  destruct (null (k_ann k')) eqn:E; cbn in Han.
  - destruct (k_ann k'); [|discriminate E]. cbn. exact (IH k n a Han Hf).
  - inversion Han; subst k'. rewrite Hf. reflexivity.
Qed.

Lemma nt_field_list_annotated : forall d fs k,
  c_flavour d = FlNamedTuple -> nt_guard T W d = true -> annotating (c_mro d) = [k] ->
  spec_fields d = Some fs -> forall ex, get_type_hints d ex = fs.
Proof.
  intros d fs k Hfl Hg Han Hs ex.
  unfold nt_guard in Hg. apply andb_prop in Hg. destruct Hg as [Hev Hg]. rewrite Han in Hg.
  apply andb_prop in Hg. destruct Hg as [Hg Hkw]. apply andb_prop in Hg. destruct Hg as [Hnm Hnd].
  apply strs_eqb_eq in Hnm.
  destruct (all_eval_some d Hev) as [evs He].
  assert (Hent : entries (c_mro d) = klass_entries k).
  { rewrite entries_annotating, Han. cbn. apply app_nil_r. }
  rewrite Hent in He.
  assert (Hnd' : nodup_s (names_of (k_ann k)) = true) by (rewrite Hnm; exact Hnd).
  assert (Hun : unannotated (c_mro d) = false).
  { destruct (unannotated (c_mro d)) eqn:E; [|reflexivity]. apply unannotated_annotating in E. congruence. }
  unfold InspectHints.spec_fields in Hs. rewrite Hfl in Hs. unfold spec_namedtuple in Hs. rewrite Hun, <- Hnm in Hs.
  unfold names_of in Hs. rewrite mapO_map in Hs.
  rewrite (mapO_ext_in _ _ _ (fun na => eval_entry (fst na, (k_module k, snd na)))) in Hs.
  2:{ intros [n a] Hin. cbn [fst snd].
      rewrite (mro_ann_single _ k n a Han (find_str_in _ _ n a Hnd' Hin)). reflexivity. }
  assert (He' : mapO (fun na => eval_entry (fst na, (k_module k, snd na))) (k_ann k) = Some evs).
  { rewrite <- He. unfold klass_entries. rewrite mapO_map. reflexivity. }
  rewrite He' in Hs. inversion Hs; subst fs. clear Hs.
  assert (Hn : hints_nex d = evs).
  { rewrite (hints_nex_merge d evs); [| rewrite Hent; exact He | exact Hkw].
    apply merge_nodup. rewrite (eval_names _ _ He), names_klass_entries. exact Hnd'. }
  apply (gth_class_level d evs Hn). intro Hnil. exfalso.
  assert (Hk : In k (annotating (c_mro d))) by (rewrite Han; left; reflexivity).
  unfold annotating in Hk. apply filter_In in Hk. destruct Hk as [_ Hk].
  pose proof (eval_names _ _ He) as Hnames. rewrite Hnil, names_klass_entries in Hnames.
  destruct (k_ann k); [discriminate Hk | discriminate Hnames].
Qed.

(* no annotation at all: the signature of __new__ lists _fields without annotations *)
Lemma merge_params_nodup : forall (f : param -> hint) ps,
  nodup_s (map p_name ps) = true ->
  merge (map (fun p => (p_name p, f p)) ps) = map (fun p => (p_name p, f p)) ps.
Proof.
  intros f ps H. apply merge_nodup. unfold names_of. rewrite map_map. exact H.
Qed.
Lemma nt_field_list_unannotated : forall d fs,
  c_flavour d = FlNamedTuple -> nt_guard T W d = true -> annotating (c_mro d) = [] ->
  spec_fields d = Some fs -> get_type_hints d true = fs.
Proof.
  intros d fs Hfl Hg Han Hs.
  unfold nt_guard in Hg. apply andb_prop in Hg. destruct Hg as [_ Hg]. rewrite Han in Hg.
  destruct (signature T W d) as [ps|] eqn:Esig; [|discriminate].
  apply andb_prop in Hg. destruct Hg as [Hg Hnd]. apply andb_prop in Hg. destruct Hg as [Hnm Hemp].
  apply strs_eqb_eq in Hnm.
  assert (Hun : unannotated (c_mro d) = true) by (apply unannotated_annotating; exact Han).
  unfold InspectHints.spec_fields in Hs. rewrite Hfl in Hs. unfold spec_namedtuple in Hs. rewrite Hun in Hs.
  inversion Hs; subst fs. clear Hs.
  rewrite (unannotated_gth d Hun). unfold hints_from_signature. rewrite Esig.
  rewrite (merge_params_nodup (fun p => sig_hint (param_module W d p) p)); [| rewrite Hnm; exact Hnd].
  rewrite <- Hnm, map_map. apply map_ext_in. intros p Hp.
  rewrite forallb_forall in Hemp. specialize (Hemp p Hp). unfold sig_hint.
  destruct (p_ann p); try discriminate Hemp. reflexivity.
Qed.

(* ------------------------------------------------------------------ plain classes *)
Lemma pl_field_list_annotated : forall d fs,
  c_flavour d = FlPlain -> pl_guard W d = true -> unannotated (c_mro d) = false ->
  spec_fields d = Some fs -> forall ex, get_type_hints d ex = fs.
Proof.
  intros d fs Hfl Hg Hun Hs ex.
  unfold pl_guard in Hg. rewrite Hs, Hun in Hg.
  apply andb_prop in Hg. destruct Hg as [Hg Heq]. apply andb_prop in Hg. destruct Hg as [Hev Hkw].
  destruct (all_eval_some d Hev) as [evs He].
  unfold InspectHints.typing_hints in Heq. rewrite He in Heq. cbn [option_map] in Heq.
  apply hints_eqb_eq in Heq.
  assert (Hn : hints_nex d = fs) by (rewrite (hints_nex_merge d evs He Hkw); exact Heq).
  apply (gth_class_level d fs Hn). intro Hnil. exfalso.
  subst fs. revert Hnil. apply merge_nonempty. intro Hnil. subst evs.
  apply mapO_length in He. cbn in He. pose proof (annotated_entries _ Hun) as Hne.
  destruct (entries (c_mro d)); [congruence | discriminate He].
Qed.

Definition spec_param (m : string) (p : param) : option (string * hint) :=
  if field_kind (p_kind p) then
    match p_ann p with
    | AEmpty => Some (p_name p, any_hint)
    | a => match eval_ann W m a with Some h => Some (p_name p, h) | None => None end
    end
  else None.
Lemma spec_param_name : forall m p x, spec_param m p = Some x -> fst x = p_name p.
Proof.
  intros m p x H. unfold spec_param in H. destruct (field_kind (p_kind p)); [|discriminate].
  destruct (p_ann p) as [h|s|]; try (inversion H; reflexivity);
    match type of H with context [eval_ann ?w ?a ?b] => destruct (eval_ann w a b) end;
    try discriminate; inversion H; reflexivity.
Qed.
Lemma spec_params_names : forall m ps fs, mapO (spec_param m) ps = Some fs -> names_of fs = map p_name ps.
Proof.
  induction ps as [|p r IH]; cbn; intros fs H.
  - inversion H. reflexivity.
  - destruct (spec_param m p) eqn:Ep; [|discriminate]. destruct (mapO (spec_param m) r) eqn:Er; [|discriminate].
    inversion H; subst. cbn. rewrite (spec_param_name _ _ _ Ep). f_equal. exact (IH _ eq_refl).
Qed.
Lemma spec_param_resolve : forall m p x,
  strip_ok W m p = true -> spec_param m p = Some x -> (p_name p, resolve_hint W (sig_hint m p)) = x.
Proof.
  intros m p x Hok H. unfold spec_param in H. destruct (field_kind (p_kind p)); [|discriminate].
  unfold strip_ok in Hok. unfold sig_hint. destruct (p_ann p) as [h|s|].
  - apply andb_prop in Hok. destruct Hok as [H1 H2].
    destruct (eval_ann W m (AObj h)) as [h'|] eqn:Ee; [|discriminate].
    apply hint_eqb_eq in H1. apply hint_eqb_eq in H2. subst h'. rewrite H2. inversion H. reflexivity.
  - cbn [eval_ann] in H. destruct (lookup W m s) as [a|] eqn:Ea; [|discriminate].
    destruct (lookup W m (fref_name m s)) as [b|] eqn:Eb; [|discriminate].
    apply hint_eqb_eq in Hok. subst b. cbn [resolve_hint]. rewrite Eb. inversion H. reflexivity.
  - inversion H. reflexivity.
Qed.

Lemma decl_module_unannotated : forall mro n s, unannotated mro = true -> decl_module mro n s = None.
Proof.
  induction mro as [|k r IH]; intros n s H; [reflexivity|].
  unfold unannotated in H. cbn in H. apply andb_prop in H. destruct H as [H1 H2].
  cbn. destruct (k_ann k); [|discriminate H1]. cbn. exact (IH n s H2).
Qed.
(* the text of a parameter of an annotation-free class is evaluated in the module of the class whose constructor it is *)
Lemma param_module_unannotated : forall d m ps p s,
  unannotated (c_mro d) = true -> inspect_signature W d = Some (m, ps) -> In p ps -> p_ann p = AStr s ->
  param_module W d p = m.
Proof.
  intros d m ps p s Hun Hsig Hin Hp. unfold param_module, ann_module. rewrite Hp.
  rewrite (decl_module_unannotated _ _ _ Hun). destruct (existsb k_dc (c_mro d)); cbv iota;
    unfold inspect_signature in Hsig; destruct (sig_of_mro W (c_mro d)) as [[m' ps']|].
  1,3: inversion Hsig; reflexivity.
  all: destruct (c_sigless d); [discriminate Hsig|]; inversion Hsig; subst; destruct Hin.
Qed.

Lemma pl_field_list_signature : forall d fs,
  c_flavour d = FlPlain -> flavour_ok T d = true -> pl_guard W d = true -> unannotated (c_mro d) = true ->
  spec_fields d = Some fs -> resolve_hints W (get_type_hints d true) = fs.
Proof.
  intros d fs Hfl Hok Hg Hun Hs.
  unfold flavour_ok in Hok. rewrite Hfl in Hok. apply andb_prop in Hok. destruct Hok as [_ Hok].
  apply andb_prop in Hok. destruct Hok as [Hntd Hnt]. apply negb_true_iff in Hntd.
  unfold pl_guard in Hg. rewrite Hs, Hun in Hg. apply andb_prop in Hg. destruct Hg as [Hnd Hstrip].
  destruct (inspect_signature W d) as [[m ps]|] eqn:Esig; [|discriminate].
  unfold InspectHints.spec_fields in Hs. rewrite Hfl in Hs. unfold spec_plain in Hs. rewrite Esig in Hs.
  change (mapO (spec_param m) ps = Some fs) in Hs.
  rewrite (unannotated_gth d Hun). unfold hints_from_signature, signature. rewrite Hntd.
  destruct (istupletype T (self_ity d)) as [[|]|]; try discriminate Hnt.
  rewrite Esig. cbn [option_map snd].
  rewrite (merge_params_nodup (fun p => sig_hint (param_module W d p) p));
    [| rewrite <- (spec_params_names _ _ _ Hs); exact Hnd].
  assert (Hmod : forall p s, In p ps -> p_ann p = AStr s -> param_module W d p = m).
  { intros p s Hin Hp. exact (param_module_unannotated d m ps p s Hun Esig Hin Hp). }
  clear Hnd Esig. revert fs Hs Hmod. induction ps as [|p r IH]; cbn; intros fs Hs Hmod.
  - inversion Hs. reflexivity.
  - cbn in Hstrip. apply andb_prop in Hstrip. destruct Hstrip as [H1 H2].
    destruct (spec_param m p) eqn:Ep; [|discriminate]. destruct (mapO (spec_param m) r) eqn:Er; [|discriminate].
    inversion Hs; subst.
    assert (Hsh : sig_hint (param_module W d p) p = sig_hint m p).
    { unfold sig_hint. destruct (p_ann p) as [h|s|] eqn:Ea; try reflexivity.
      rewrite (Hmod p s (or_introl eq_refl) Ea). reflexivity. }
    rewrite Hsh, (spec_param_resolve _ _ _ H1 Ep). f_equal.
    apply (IH H2 _ eq_refl). intros p' s' Hin. apply Hmod. right. exact Hin.
Qed.

(* ------------------------------------------------------------------ dataclasses *)
Definition projd (nf : string * dcf) : entry := (fst nf, (f_module (snd nf), f_ann (snd nf))).
Definition stepE (acc : list entry) (e : entry) : list entry := upsert (fst e) (snd e) acc.
Definition nonsent (e : entry) : bool := negb (entry_sentinel W e).
Definition kind_ok (nf : string * dcf) : Prop := f_kind (snd nf) = DField.
Definition class_ok (e : entry) : Prop :=
  dc_classify W (fst (snd e)) (snd (snd e)) = CSentinel \/ dc_classify W (fst (snd e)) (snd (snd e)) = CKind DField.

Lemma projd_upsert : forall n f acc,
  map projd (upsert n f acc) = upsert n (f_module f, f_ann f) (map projd acc).
Proof.
  intros n f acc. unfold projd.
  exact (upsert_map _ _ (fun f => (f_module f, f_ann f)) n f acc).
Qed.

Lemma dc_body_spec : forall k anns kw acc,
  (forall na, In na anns -> class_ok (fst na, (k_module k, snd na))) ->
  (forall nf, In nf acc -> kind_ok nf) ->
  map projd (dc_body W k anns kw acc)
  = fold_left stepE (filter nonsent (map (fun na => (fst na, (k_module k, snd na))) anns)) (map projd acc)
  /\ (forall nf, In nf (dc_body W k anns kw acc) -> kind_ok nf).
Proof.
  induction anns as [|[n a] r IH]; intros kw acc Hc Hk; cbn [dc_body map filter fold_left].
  - split; [reflexivity | exact Hk].
  - assert (Hr : forall na, In na r -> class_ok (fst na, (k_module k, snd na))) by (intros na H; apply Hc; right; exact H).
    pose proof (Hc (n, a) (or_introl eq_refl)) as Hna. unfold class_ok in Hna. cbn [fst snd] in Hna.
    unfold nonsent at 1. unfold entry_sentinel. cbn [fst snd].
    destruct Hna as [Hna|Hna]; rewrite Hna; cbn [negb].
    + exact (IH true acc Hr Hk).
    + cbn [fold_left]. unfold stepE at 2. cbn [fst snd].
      set (f := {| f_ann := a; f_module := k_module k; f_kind := DField; f_default := memS n (k_values k); f_kwonly := kw |}).
      destruct (IH kw (upsert n f acc) Hr) as [H1 H2].
      { intros nf Hin. apply in_upsert in Hin. destruct Hin as [Hin|Hin]; [subst nf; reflexivity | exact (Hk nf Hin)]. }
      split; [|exact H2]. rewrite H1, projd_upsert. reflexivity.
Qed.

Lemma dc_fold_spec : forall l acc,
  (forall k, In k l -> k_dc k || null (k_ann k) = true) ->
  (forall e, In e (flat_map klass_entries l) -> class_ok e) ->
  (forall nf, In nf acc -> kind_ok nf) ->
  map projd (fold_left (fun acc k => if k_dc k then dc_body W k (k_ann k) (k_kwonly k) acc else acc) l acc)
  = fold_left stepE (filter nonsent (flat_map klass_entries l)) (map projd acc)
  /\ (forall nf, In nf (fold_left (fun acc k => if k_dc k then dc_body W k (k_ann k) (k_kwonly k) acc else acc) l acc) -> kind_ok nf).
Proof.
  induction l as [|k r IH]; intros acc Hd Hc Hk; cbn [fold_left flat_map].
  - split; [reflexivity | exact Hk].
  - assert (Hbody : (if k_dc k then dc_body W k (k_ann k) (k_kwonly k) acc else acc) = dc_body W k (k_ann k) (k_kwonly k) acc).
    { destruct (k_dc k) eqn:E; [reflexivity|].
      pose proof (Hd k (or_introl eq_refl)) as H. rewrite E in H. cbn in H.
      destruct (k_ann k); [reflexivity | discriminate H]. }
    rewrite Hbody.
    destruct (dc_body_spec k (k_ann k) (k_kwonly k) acc) as [H1 H2].
    { intros na Hin. apply Hc. apply in_or_app. left. unfold klass_entries. apply in_map_iff. exists na. split; [reflexivity | exact Hin]. }
    { exact Hk. }
    destruct (IH (dc_body W k (k_ann k) (k_kwonly k) acc)) as [H3 H4].
    { intros k' Hin. apply Hd. right. exact Hin. }
    { intros e Hin. apply Hc. apply in_or_app. right. exact Hin. }
    { exact H2. }
    split; [|exact H4]. rewrite H3, H1, filter_app, fold_left_app. reflexivity.
Qed.

Lemma mapO_upsert : forall (acc : list entry) acc' n v v',
  mapO eval_entry acc = Some acc' -> eval_entry (n, v) = Some (n, v') ->
  mapO eval_entry (upsert n v acc) = Some (upsert n v' acc').
Proof.
  induction acc as [|[n1 v1] r IH]; cbn [mapO upsert]; intros acc' n v v' H Hv.
  - inversion H. rewrite Hv. reflexivity.
  - destruct (eval_entry (n1, v1)) as [[n1' h1]|] eqn:E1; [|discriminate].
    destruct (mapO eval_entry r) as [r'|] eqn:Er; [|discriminate]. inversion H; subst acc'. clear H.
    pose proof (eval_entry_name _ _ E1) as Hn. cbn in Hn. subst n1'.
    cbn [upsert]. destruct (String.eqb n n1); cbn [mapO].
    + rewrite Hv, Er. reflexivity.
    + rewrite E1, (IH r' n v v' eq_refl Hv). reflexivity.
Qed.
Lemma eval_entry_shape : forall e x, eval_entry e = Some x -> eval_entry (fst e, snd e) = Some (fst e, snd x).
Proof.
  intros [n v] [n' h] H. pose proof (eval_entry_name _ _ H) as Hn. cbn in Hn. subst n'. exact H.
Qed.
Lemma mapO_merge : forall (l : list entry) l', mapO eval_entry l = Some l' -> mapO eval_entry (merge l) = Some (merge l').
Proof.
  induction l as [|e l IH] using rev_ind; intros l' H.
  - inversion H. reflexivity.
  - rewrite mapO_app in H. destruct (mapO eval_entry l) as [a|] eqn:Ea; [|discriminate].
    cbn [mapO] in H. destruct (eval_entry e) as [x|] eqn:Ee; [|discriminate]. inversion H; subst l'. clear H.
    pose proof (@merge_snoc (string * ann) l e) as M1. unfold entry in *. rewrite M1, (@merge_snoc hint a x).
    rewrite (eval_entry_name _ _ Ee).
    exact (mapO_upsert _ _ _ _ _ (IH a eq_refl) (eval_entry_shape _ _ Ee)).
Qed.
Lemma mapO_filter_pair : forall A B (f : A -> option B) (q : A -> bool) (q' : B -> bool) l l',
  mapO f l = Some l' -> (forall e x, In e l -> f e = Some x -> q e = q' x) ->
  mapO f (filter q l) = Some (filter q' l').
Proof.
  induction l as [|e r IH]; cbn; intros l' H Hq.
  - inversion H. reflexivity.
  - destruct (f e) as [x|] eqn:Ee; [|discriminate]. destruct (mapO f r) as [r'|] eqn:Er; [|discriminate].
    inversion H; subst l'. clear H. cbn. rewrite <- (Hq e x (or_introl eq_refl) Ee).
    assert (Hr : mapO f (filter q r) = Some (filter q' r')).
    { apply IH; [reflexivity|]. intros e' x' Hin. apply Hq. right. exact Hin. }
    destruct (q e); cbn; [rewrite Ee, Hr | rewrite Hr]; reflexivity.
Qed.

Lemma dc_field_list : forall d fs,
  c_flavour d = FlDataclass -> dc_guard T W d = true -> spec_fields d = Some fs ->
  forall ex, get_type_hints d ex = fs.
Proof.
  intros d fs Hfl Hg Hs ex.
  unfold dc_guard in Hg. cbv zeta in Hg.
  apply andb_prop in Hg. destruct Hg as [Hg G5]. apply andb_prop in Hg. destruct Hg as [Hg G4].
  apply andb_prop in Hg. destruct Hg as [Hg G3]. apply andb_prop in Hg. destruct Hg as [Hev G2].
  set (es := entries (c_mro d)) in *.
  destruct (all_eval_some d Hev) as [evs He]. fold es in He.
  rewrite forallb_forall in G2, G3, G4.
  (* D: the dataclass table is the merged non-sentinel entries *)
  destruct (dc_fold_spec (rev (c_mro d)) []) as [HD HK].
  { intros k Hin. apply G2. apply in_rev. exact Hin. }
  { intros e Hin. specialize (G3 e Hin). unfold class_ok.
    destruct (dc_classify W (fst (snd e)) (snd (snd e))) as [|[| |]]; try discriminate G3; [left|right]; reflexivity. }
  { intros nf []. }
  change (fold_left _ (rev (c_mro d)) []) with (dc_table W (c_mro d)) in HD, HK.
  change (flat_map klass_entries (rev (c_mro d))) with es in HD. cbn [map] in HD.
  change (fold_left stepE (filter nonsent es) []) with (merge (filter nonsent es)) in HD.
  (* the evaluated non-sentinel entries *)
  set (kwn := kw_name W es).
  assert (Hq : forall e x, In e es -> eval_entry e = Some x -> nonsent e = negb (kwn (fst x))).
  { intros e x Hin Hx. specialize (G4 e Hin). apply andb_prop in G4. destruct G4 as [_ G4].
    apply Bool.eqb_prop in G4. unfold nonsent. rewrite G4, (eval_entry_name _ _ Hx). reflexivity. }
  pose proof (mapO_filter_pair _ _ eval_entry nonsent (fun x => negb (kwn (fst x))) es evs He Hq) as Hf.
  (* C: the spec *)
  unfold InspectHints.spec_fields in Hs. rewrite Hfl in Hs. unfold spec_dataclass, dc_fields in Hs.
  assert (Hall : filter is_field (dc_table W (c_mro d)) = dc_table W (c_mro d)).
  { apply filter_all_id. intros nf Hin. unfold is_field. rewrite (HK nf Hin). reflexivity. }
  rewrite Hall in Hs.
  assert (Hs' : mapO eval_entry (map projd (dc_table W (c_mro d))) = Some fs).
  { rewrite mapO_map. exact Hs. }
  rewrite HD, (mapO_merge _ _ Hf) in Hs'. inversion Hs'; subst fs. clear Hs' Hs.
  (* B: what get_type_hints keeps *)
  assert (Hn : hints_nex d = merge (filter (fun x => negb (kwn (fst x))) evs)).
  { unfold InspectHints.hints_nex, InspectHints.typing_hints. fold es. rewrite He. cbn [option_map].
    rewrite <- (filter_merge (fun n => negb (kwn n)) evs). apply filter_ext_in. intros x Hx. apply in_merge in Hx.
    destruct (mapO_in _ _ _ _ _ _ He Hx) as [e [Hin Hev']].
    specialize (G4 e Hin). apply andb_prop in G4. destruct G4 as [G4a G4b].
    apply Bool.eqb_prop in G4a. apply Bool.eqb_prop in G4b.
    unfold entry_kwonly in G4a. rewrite Hev' in G4a. destruct x as [n h]. cbn [fst snd].
    pose proof (eval_entry_name _ _ Hev') as Hn. cbn in Hn. subst n. fold kwn in G4b. rewrite <- G4b, G4a. reflexivity. }
  apply (gth_class_level d _ Hn). intro Hnil. rewrite Hn, Hnil in G5. cbn in G5.
  destruct (hints_from_signature T W d); [reflexivity | discriminate G5].
Qed.

(* ------------------------------------------------------------------ the field-list theorem *)
Lemma resolved_ok_id : forall fs, resolved_ok W fs = true -> resolve_hints W fs = fs.
Proof.
  induction fs as [|[n h] r IH]; cbn; intro H; [reflexivity|].
  apply andb_prop in H. destruct H as [H1 H2]. apply hint_eqb_eq in H1. cbn [fst snd] in *. rewrite H1.
  f_equal. exact (IH H2).
Qed.

(* the class-level path: the hints ARE the member list, whatever the flag *)
Lemma field_list_exact : forall d fs,
  field_guard T W d = true -> spec_fields d = Some fs -> unannotated (c_mro d) = false ->
  forall ex, get_type_hints d ex = fs.
Proof.
  intros d fs Hg Hs Hun ex. unfold field_guard in Hg.
  apply andb_prop in Hg. destruct Hg as [Hg _]. apply andb_prop in Hg. destruct Hg as [Hok Hg].
  destruct (c_flavour d) eqn:Hfl.
  - exact (dc_field_list d fs Hfl Hg Hs ex).
  - destruct (annotating (c_mro d)) as [|k [|k2 r]] eqn:Han.
    + apply unannotated_annotating in Han. congruence.
    + exact (nt_field_list_annotated d fs k Hfl Hg Han Hs ex).
    + unfold nt_guard in Hg. rewrite Han in Hg. rewrite andb_false_r in Hg. discriminate.
  - exact (td_field_list d fs Hfl Hok Hg Hs ex).
  - exact (pl_field_list_annotated d fs Hfl Hg Hun Hs ex).
Qed.

Lemma spec_unannotated_dc : forall d fs, c_flavour d = FlDataclass -> dc_guard T W d = true ->
  spec_fields d = Some fs -> forall ex, get_type_hints d ex = fs.
Proof. intros. eapply dc_field_list; eassumption. Qed.

(* the statement for every supported class: get_type_hints(cls) read through refs.evaluate is the member list *)
Lemma field_list : forall d fs,
  field_guard T W d = true -> spec_fields d = Some fs -> resolve_hints W (get_type_hints d true) = fs.
Proof.
  intros d fs Hg Hs. pose proof Hg as Hg0. unfold field_guard in Hg. rewrite Hs in Hg.
  apply andb_prop in Hg. destruct Hg as [Hg Hres]. apply andb_prop in Hg. destruct Hg as [Hok Hg].
  destruct (c_flavour d) eqn:Hfl.
  - cbn in Hres. rewrite (dc_field_list d fs Hfl Hg Hs true). exact (resolved_ok_id fs Hres).
  - cbn in Hres. destruct (annotating (c_mro d)) as [|k [|k2 r]] eqn:Han.
    + rewrite (nt_field_list_unannotated d fs Hfl Hg Han Hs). exact (resolved_ok_id fs Hres).
    + rewrite (nt_field_list_annotated d fs k Hfl Hg Han Hs true). exact (resolved_ok_id fs Hres).
    + unfold nt_guard in Hg. rewrite Han in Hg. rewrite andb_false_r in Hg. discriminate.
  - cbn in Hres. rewrite (td_field_list d fs Hfl Hok Hg Hs true). exact (resolved_ok_id fs Hres).
  - destruct (unannotated (c_mro d)) eqn:Hun.
    + exact (pl_field_list_signature d fs Hfl Hok Hg Hun Hs).
    + cbn in Hres. rewrite (pl_field_list_annotated d fs Hfl Hg Hun Hs true). exact (resolved_ok_id fs Hres).
Qed.

(* graph._level and _fields_by_var ask the same question about a structured class *)
Lemma members_agree : forall d, isstructuredtype T (self_ity d) = true -> level_members T W d = fields_by_var T W d.
Proof. intros d H. unfold level_members, fields_by_var. rewrite H. reflexivity. Qed.

Lemma flavour_structured : forall d, flavour_ok T d = true -> isstructuredtype T (self_ity d) = true.
Proof. intros d H. unfold flavour_ok in H. apply andb_prop in H. exact (proj1 H). Qed.

Lemma field_list_level : forall d fs,
  field_guard T W d = true -> spec_fields d = Some fs -> unannotated (c_mro d) = false ->
  level_members T W d = norm_hints fs /\ fields_by_var T W d = norm_hints fs.
Proof.
  intros d fs Hg Hs Hun.
  assert (Hst : isstructuredtype T (self_ity d) = true).
  { apply flavour_structured. unfold field_guard in Hg. apply andb_prop in Hg. destruct Hg as [Hg _].
    apply andb_prop in Hg. exact (proj1 Hg). }
  rewrite (members_agree d Hst). unfold fields_by_var. rewrite (field_list_exact d fs Hg Hs Hun true). split; reflexivity.
Qed.

(* ------------------------------------------------------------------ KW_ONLY, ClassVar, the two paths *)
Lemma kw_only_dropped : forall d n, ~ In (n, HKwOnly) (hints_nex d).
Proof.
  intros d n H. unfold InspectHints.hints_nex in H. apply filter_In in H. destruct H as [_ H]. discriminate H.
Qed.
Lemma kw_only_dropped_nex : forall d n, ~ In (n, HKwOnly) (get_type_hints d false).
Proof.
  intros d n H. unfold InspectHints.get_type_hints in H. destruct (hints_nex d) eqn:E; [destruct H|].
  rewrite <- E in H. exact (kw_only_dropped d n H).
Qed.

Lemma typing_path : forall d l ex,
  typing_hints d = Some l -> filter notkw l <> [] -> get_type_hints d ex = filter notkw l.
Proof.
  intros d l ex H Hne. apply gth_nonempty; [|exact Hne].
  unfold InspectHints.hints_nex. rewrite H. reflexivity.
Qed.
Lemma classvar_kept : forall d l n x ex,
  typing_hints d = Some l -> In (n, HTy (IClassVar x)) l -> In (n, HTy (IClassVar x)) (get_type_hints d ex).
Proof.
  intros d l n x ex H Hin.
  assert (Hf : In (n, HTy (IClassVar x)) (filter notkw l)) by (apply filter_In; split; [exact Hin | reflexivity]).
  rewrite (typing_path d l ex H); [exact Hf|]. intro Hnil. rewrite Hnil in Hf. destruct Hf.
Qed.
Lemma fallback : forall d, typing_hints d = None ->
  get_type_hints d false = [] /\ get_type_hints d true = hints_from_signature T W d.
Proof.
  intros d H. unfold InspectHints.get_type_hints, InspectHints.hints_nex. rewrite H. split; reflexivity.
Qed.

(* ------------------------------------------------------------------ typed_dict_signature *)
Lemma td_required_uniform : forall parts t, forallb (fun p : bool * list string => Bool.eqb (fst p) t) parts = true ->
  td_required parts = if t then td_keys parts else [].
Proof.
  induction parts as [|[b ks] r IH]; cbn; intros t H; [destruct t; reflexivity|].
  apply andb_prop in H. destruct H as [H1 H2]. apply Bool.eqb_prop in H1. subst b.
  change (flat_map (fun p : bool * list string => if fst p then snd p else []) r) with (td_required r).
  change (flat_map (fun p : bool * list string => snd p) r) with (td_keys r).
  rewrite (IH t H2). destruct t; reflexivity.
Qed.
Lemma td_signature_required : forall d p,
  In p (typed_dict_signature W d) -> p_default p = negb (memS (p_name p) (c_required d)).
Proof.
  intros d p Hin. unfold typed_dict_signature in Hin. apply in_map_iff in Hin. destruct Hin as [nh [Hp _]].
  subst p. reflexivity.
Qed.
Lemma td_signature_defaults : forall d p,
  td_sig_guard W d = true -> In p (typed_dict_signature W d) ->
  p_default p = negb (memS (p_name p) (td_required (c_parts d))).
Proof.
  intros d p Hg Hin. unfold td_sig_guard in Hg.
  unfold typed_dict_signature in Hin. apply in_map_iff in Hin. destruct Hin as [nh [Hp Hnh]]. subst p. cbn.
  rewrite forallb_forall in Hg. specialize (Hg nh Hnh). apply Bool.eqb_prop in Hg. rewrite Hg. reflexivity.
Qed.

(* ------------------------------------------------------------------ tuples *)
Lemma tuple_members : forall t,
  istupletype T t = Ok true -> null (args t) = false -> last_is_ellipsis (args t) = false ->
  ann_hints T t true = hints_from_params EmptyString (tuple_params 0 (args t))
  /\ ann_hints T t false = [].
Proof.
  intros t H1 H2 H3. unfold ann_hints, ann_signature, tuple_signature. rewrite H1, H2, H3. split; reflexivity.
Qed.

(* ------------------------------------------------------------------ the bridge to the core model *)
(* when the per-run check of a class answers 0, the cfields the core harness encoded are the erasure of the member
   list the class DEFINES (dataclasses.fields / _fields / __annotations__ / __init__), not only of the code's hints *)
Lemma erase_fields_spec : forall Nm d fs enc,
  field_guard T W d = true -> spec_fields d = Some fs -> unannotated (c_mro d) = false ->
  check_cfields Nm T W d enc = 0 ->
  exists l, erase_fields Nm (norm_hints fs) = Some l
            /\ fields_eqb (map (fun nt => (fst nt, deref (snd nt))) l) (map (fun nt => (fst nt, deref (snd nt))) enc) = true.
Proof.
  intros Nm d fs enc Hg Hs Hun Hc. unfold check_cfields in Hc.
  rewrite (proj2 (field_list_level d fs Hg Hs Hun)) in Hc.
  destruct (erase_fields Nm (norm_hints fs)) as [l|]; [|discriminate Hc].
  exists l. split; [reflexivity|].
  destruct (fields_eqb _ _); [reflexivity | discriminate Hc].
Qed.
End L.
