(* Proofs/IsoTextLemmas.v -- proof scripts for Model/IsoText.v (C04): the independent readers invert the
   date / time / datetime writers on every value of the supported ranges. *)
From Coq Require Import List ZArith Ascii String Bool Lia ZifyBool.
Import ListNotations.
Require Import TL.Model.Duration.
Require Import TL.Model.Temporal.
Require Import TL.Model.Scalars.
Require Import TL.Model.IsoText.
Require Import TL.Proofs.DurationLemmas.
Open Scope Z_scope.
Ltac Zify.zify_post_hook ::= Z.div_mod_to_equations.

Lemma read2_cons a b r : read2 (digitZ a :: digitZ b :: r) = Some (a mod 10 * 10 + b mod 10, r).
Proof. unfold read2. rewrite !digit_val_digitZ. reflexivity. Qed.
Lemma read2_pad2 n rest : 0 <= n < 100 -> read2 (pad2 n ++ rest) = Some (n, rest).
Proof. intros Hn. unfold pad2. cbn [List.app]. rewrite read2_cons. f_equal. f_equal. lia. Qed.
Lemma read4_pad4 n rest : 0 <= n < 10000 -> read4 (pad4 n ++ rest) = Some (n, rest).
Proof.
  intros Hn. unfold pad4, read4. cbn [List.app]. rewrite read2_cons. cbn [obind]. rewrite read2_cons. cbn [obind].
  f_equal. f_equal. lia.
Qed.
Lemma expect_hit c r : expect c (c :: r) = Some r.
Proof. unfold expect. rewrite Ascii.eqb_refl. reflexivity. Qed.

Lemma days_in_month_bounds y m : 28 <= days_in_month y m <= 31.
Proof. unfold days_in_month. repeat match goal with |- context [if ?b then _ else _] => destruct b end; lia. Qed.
Lemma valid_date_ranges y m d : valid_date y m d = true -> 0 <= y < 10000 /\ 0 <= m < 100 /\ 0 <= d < 100.
Proof. unfold valid_date. pose proof (days_in_month_bounds y m). lia. Qed.

Lemma read_date_prefix_emit y m d rest : valid_date y m d = true ->
  read_date_prefix (iso_date_chars y m d ++ rest) = Some ((y, m, d), rest).
Proof.
  intros Hv. destruct (valid_date_ranges y m d Hv) as (Hy & Hm & Hd).
  unfold iso_date_chars. repeat (rewrite <- app_assoc; cbn [List.app]).
  unfold read_date_prefix.
  rewrite (read4_pad4 y _ Hy). cbn [obind]. rewrite expect_hit. cbn [obind].
  rewrite (read2_pad2 m _ Hm). cbn [obind]. rewrite expect_hit. cbn [obind].
  rewrite (read2_pad2 d _ Hd). cbn [obind]. rewrite Hv. reflexivity.
Qed.

Theorem date_reader_chars y m d : valid_date y m d = true ->
  read_iso_date_chars (iso_date_chars y m d) = Some (y, m, d).
Proof.
  intros Hv. unfold read_iso_date_chars.
  rewrite <- (app_nil_r (iso_date_chars y m d)), (read_date_prefix_emit y m d [] Hv). reflexivity.
Qed.

(* ---- the clock ---- *)
Lemma read_fraction_emit us o : 0 <= us < 1000000 ->
  read_fraction ((if us =? 0 then [] else "."%char :: pad6 us) ++ iso_off_chars o) = Some (us, iso_off_chars o).
Proof.
  intros Hu. destruct (us =? 0) eqn:E.
  - cbn [List.app]. assert (us = 0) as -> by lia.
    destruct o as [z|]; [|reflexivity]. unfold iso_off_chars. destruct (z <? 0); reflexivity.
  - cbn [List.app]. unfold read_fraction. rewrite Ascii.eqb_refl.
    rewrite (read_frac_pad6 us _ Hu). cbn [Nat.ltb Nat.leb]. f_equal. f_equal. cbn [Z.of_nat]. lia.
Qed.

Lemma read_offset_emit o : valid_off_opt o = true -> read_offset (iso_off_chars o) = Some o.
Proof.
  destruct o as [z|]; [|reflexivity]. cbn [valid_off_opt]. unfold valid_off. intros Hv.
  unfold iso_off_chars.
  assert (Hh : 0 <= Z.abs z / 3600 < 100) by lia.
  assert (Hm : 0 <= Z.abs z / 60 mod 60 < 100) by lia.
  destruct (z <? 0) eqn:E; unfold read_offset.
  - change (Ascii.eqb "-" "+") with false. cbv iota. rewrite Ascii.eqb_refl. cbn [obind].
    rewrite (read2_pad2 _ _ Hh). cbn [obind]. rewrite expect_hit. cbn [obind].
    rewrite <- (app_nil_r (pad2 (Z.abs z / 60 mod 60))), (read2_pad2 _ [] Hm). cbn [obind].
    replace ((Z.abs z / 3600 <? 24) && (Z.abs z / 60 mod 60 <? 60)) with true by lia.
    f_equal. f_equal. lia.
  - rewrite Ascii.eqb_refl. cbn [obind].
    rewrite (read2_pad2 _ _ Hh). cbn [obind]. rewrite expect_hit. cbn [obind].
    rewrite <- (app_nil_r (pad2 (Z.abs z / 60 mod 60))), (read2_pad2 _ [] Hm). cbn [obind].
    replace ((Z.abs z / 3600 <? 24) && (Z.abs z / 60 mod 60 <? 60)) with true by lia.
    f_equal. f_equal. lia.
Qed.

Lemma valid_clock_fold h mi s us f : valid_clock h mi s us f = true -> valid_clock h mi s us 0 = true.
Proof. unfold valid_clock. lia. Qed.

Lemma read_clock_emit h mi s us f o : valid_clock h mi s us f = true -> valid_off_opt o = true ->
  read_clock (iso_clock_chars h mi s us o)
  = Some {| th := h; tmi := mi; ts := s; tus := us; toff := o; tfold := 0 |}.
Proof.
  intros Hc Ho. pose proof (valid_clock_fold _ _ _ _ _ Hc) as Hc0. unfold valid_clock in Hc.
  unfold iso_clock_chars, read_clock.
  rewrite (read2_pad2 h _ ltac:(lia)). cbn [obind]. rewrite expect_hit. cbn [obind].
  rewrite (read2_pad2 mi _ ltac:(lia)). cbn [obind]. rewrite expect_hit. cbn [obind].
  rewrite (read2_pad2 s _ ltac:(lia)). cbn [obind].
  rewrite (read_fraction_emit us o ltac:(lia)). cbn [obind].
  rewrite (read_offset_emit o Ho). cbn [obind]. rewrite Hc0. reflexivity.
Qed.

Theorem time_reader_chars t : valid_tm_text t = true ->
  read_iso_time_chars (iso_time_chars t) = Some (tm_fold0 t).
Proof.
  unfold valid_tm_text. intros Hv. apply andb_true_iff in Hv as [Hc Ho].
  unfold read_iso_time_chars, iso_time_chars. rewrite (read_clock_emit _ _ _ _ _ _ Hc Ho). reflexivity.
Qed.

Theorem datetime_reader_chars d : valid_dt_text d = true ->
  read_iso_datetime_chars (iso_datetime_chars d) = Some (dt_fold0 d).
Proof.
  unfold valid_dt_text. intros Hv. apply andb_true_iff in Hv as [Hv Ho]. apply andb_true_iff in Hv as [Hd Hc].
  unfold read_iso_datetime_chars, iso_datetime_chars.
  rewrite (read_date_prefix_emit _ _ _ _ Hd). rewrite Ascii.eqb_refl.
  rewrite (read_clock_emit _ _ _ _ _ _ Hc Ho). reflexivity.
Qed.

(* a date text is not a datetime text and vice versa *)
Lemma datetime_reader_rejects_date y m d : valid_date y m d = true ->
  read_iso_datetime_chars (iso_date_chars y m d) = None.
Proof.
  intros Hv. unfold read_iso_datetime_chars.
  rewrite <- (app_nil_r (iso_date_chars y m d)), (read_date_prefix_emit y m d [] Hv). reflexivity.
Qed.

(* ---- on strings ---- *)
Theorem date_reader y m d : valid_date y m d = true -> read_iso_date (iso_date (y, m, d)) = Some (y, m, d).
Proof.
  intros Hv. unfold read_iso_date, iso_date. rewrite list_ascii_of_string_of_list_ascii.
  apply date_reader_chars; assumption.
Qed.
Theorem time_reader t : valid_tm_text t = true -> read_iso_time (iso_time t) = Some (tm_fold0 t).
Proof.
  intros Hv. unfold read_iso_time, iso_time. rewrite list_ascii_of_string_of_list_ascii.
  apply time_reader_chars; assumption.
Qed.
Theorem datetime_reader d : valid_dt_text d = true -> read_iso_datetime (iso_datetime d) = Some (dt_fold0 d).
Proof.
  intros Hv. unfold read_iso_datetime, iso_datetime. rewrite list_ascii_of_string_of_list_ascii.
  apply datetime_reader_chars; assumption.
Qed.

(* the aware values of U are in the text ranges; what is read back is the same value but for the fold *)
Lemma valid_off_opt_of o : valid_off o = true -> valid_off_opt o = true.
Proof. destruct o; [auto|discriminate]. Qed.
Lemma valid_tm_is_text t : valid_tm t = true -> valid_tm_text t = true.
Proof.
  unfold valid_tm, valid_tm_text. intros H. apply andb_true_iff in H as [H1 H2].
  rewrite H1, (valid_off_opt_of _ H2). reflexivity.
Qed.
Lemma valid_dt_is_text d : valid_dt d = true -> valid_dt_text d = true.
Proof.
  unfold valid_dt, valid_dt_text. intros H. apply andb_true_iff in H as [H1 H2].
  rewrite H1, (valid_off_opt_of _ H2). reflexivity.
Qed.
Lemma opt_eqb_refl o : opt_eqb o o = true.
Proof. destruct o; cbn [opt_eqb]; [apply Z.eqb_refl|reflexivity]. Qed.
Lemma same_tm_fold0 t : same_tm t (tm_fold0 t) = true.
Proof. unfold same_tm, tm_fold0. cbn [th tmi ts tus toff]. rewrite !Z.eqb_refl, opt_eqb_refl. reflexivity. Qed.
Lemma same_dt_fold0 d : same_dt d (dt_fold0 d) = true.
Proof. unfold same_dt, dt_fold0. cbn [dy dmo dd dh dmi ds dus doff]. rewrite !Z.eqb_refl, opt_eqb_refl. reflexivity. Qed.

(* ---- the three temporal laws of RuntimeLaws reduce to: the interpreter writes what the model writers write
        (iso-writer stream) and its parsers agree with the independent readers wherever those assign a value
        (iso-reader stream) ---- *)
Section LawsFromReaders.
Variable rt : Runtime.

Lemma date_law_from_reader :
  (forall y m d, valid_date y m d = true -> canon_text rt (VDate y m d) = iso_date (y, m, d)) ->
  (forall s y m d, read_iso_date s = Some (y, m, d) -> pendulum_parse rt s = Ok (PDT (midnight_utc y m d))) ->
  forall y m d, valid_date y m d = true ->
    pendulum_parse rt (canon_text rt (VDate y m d)) = Ok (PDT (midnight_utc y m d)).
Proof. intros Hw Hr y m d Hv. rewrite (Hw y m d Hv). apply Hr. apply date_reader; assumption. Qed.

Lemma datetime_law_from_reader :
  (forall d, valid_dt d = true -> canon_text rt (VDateTime d) = iso_datetime d) ->
  (forall s d, read_iso_datetime s = Some d -> valid_dt d = true ->
     exists d', pendulum_parse rt s = Ok (PDT d') /\ same_dt d d' = true) ->
  forall d, valid_dt d = true ->
    exists d', pendulum_parse rt (canon_text rt (VDateTime d)) = Ok (PDT d') /\ same_dt d d' = true.
Proof.
  intros Hw Hr d Hv. rewrite (Hw d Hv).
  assert (Hv0 : valid_dt (dt_fold0 d) = true).
  { unfold valid_dt, dt_fold0 in *. cbn [dy dmo dd dh dmi ds dus doff dfold].
    apply andb_true_iff in Hv as [Hv Ho]. apply andb_true_iff in Hv as [Hd Hc].
    rewrite Hd, Ho, (valid_clock_fold _ _ _ _ _ Hc). reflexivity. }
  destruct (Hr _ _ (datetime_reader d (valid_dt_is_text d Hv)) Hv0) as (d' & Hp & Hs).
  exists d'. split; [exact Hp|].
  unfold same_dt, dt_fold0 in *. cbn [dy dmo dd dh dmi ds dus doff] in Hs. exact Hs.
Qed.

Lemma time_law_from_reader :
  (forall t, valid_tm t = true -> canon_text rt (VTime t) = iso_time t) ->
  (forall s t, read_iso_time s = Some t -> valid_tm t = true ->
     exists t', time_fromisoformat rt s = Ok t' /\ same_tm t t' = true) ->
  forall t, valid_tm t = true ->
    exists t', time_fromisoformat rt (canon_text rt (VTime t)) = Ok t' /\ same_tm t t' = true.
Proof.
  intros Hw Hr t Hv. rewrite (Hw t Hv).
  assert (Hv0 : valid_tm (tm_fold0 t) = true).
  { unfold valid_tm, tm_fold0 in *. cbn [th tmi ts tus toff tfold].
    apply andb_true_iff in Hv as [Hc Ho]. rewrite Ho, (valid_clock_fold _ _ _ _ _ Hc). reflexivity. }
  destruct (Hr _ _ (time_reader t (valid_tm_is_text t Hv)) Hv0) as (t' & Hp & Hs).
  exists t'. split; [exact Hp|].
  unfold same_tm, tm_fold0 in *. cbn [th tmi ts tus toff] in Hs. exact Hs.
Qed.
End LawsFromReaders.
