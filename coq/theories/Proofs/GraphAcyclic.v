(* The adjacency built by Graph.bfs admits a rank that strictly decreases along every edge:
   deferred nodes < nodes that cannot be cyclic (by size) < cyclic-capable nodes (by reverse pop order). *)
From Coq Require Import List Arith Bool PeanoNat String Ascii Lia.
Import ListNotations.
Require Import TL.Model.Graph TL.Model.Topo TL.Proofs.GraphLemmas TL.Proofs.TopoLemmas.
Require Import TL.Proofs.TopoRank.

(* ---------------- size ---------------- *)
Fixpoint gsize (t : gty) : nat :=
  let fix go (l : list gty) : nat := match l with [] => 0 | x :: r => gsize x + go r end in
  match t with
  | GGen _ a => S (go a)
  | GUnion _ ms => S (go ms)
  | GNewType _ _ x | GAlias _ _ x | GFinal x => S (gsize x)
  | _ => 1
  end.
Definition gsum := fix go (l : list gty) : nat := match l with [] => 0 | x :: r => gsize x + go r end.
Lemma gsize_union : forall sp ms, gsize (GUnion sp ms) = S (gsum ms).
Proof. reflexivity. Qed.
Lemma gsum_In : forall m l, In m l -> gsize m <= gsum l.
Proof.
  intros m l; induction l as [|x r IH]; intros H; [contradiction|].
  change (gsum (x :: r)) with (gsize x + gsum r). destruct H as [H|H]; [subst; lia | specialize (IH H); lia].
Qed.
Lemma gsize_unwrap_le : forall t, gsize (unwrap t) <= gsize t.
Proof. induction t using gty_ind'; cbn [unwrap]; try lia; cbn [gsize]; lia. Qed.

(* ---------------- strings ---------------- *)
Lemma has_char_app : forall c a b, has_char c (a +++ b) = has_char c a || has_char c b.
Proof.
  intros c a b; induction a as [|d r IH]; [reflexivity|].
  change (has_char c (String d r +++ b)) with (Ascii.eqb c d || has_char c (r +++ b)).
  rewrite IH. cbn [has_char]. rewrite orb_assoc. reflexivity.
Qed.
Lemma has_char_join : forall c sep l x, has_char c (join sep l) = false -> In x l -> has_char c x = false.
Proof.
  intros c sep l; induction l as [|y r IH]; intros x H Hin; [contradiction|].
  destruct r as [|z r'].
  - destruct Hin as [Hin|[]]; subst; exact H.
  - change (join sep (y :: z :: r')) with (y +++ sep +++ join sep (z :: r')) in H.
    rewrite !has_char_app in H. apply orb_false_iff in H; destruct H as [Hy H]. apply orb_false_iff in H; destruct H as [_ H].
    destruct Hin as [Hin|Hin]; [subst; exact Hy | apply IH; assumption].
Qed.

(* ---------------- annotations that cannot be cyclic only contain such annotations ---------------- *)
Definition is_stdlib_all := fix all (l : list gty) : bool := match l with [] => true | x :: r => is_stdlib x && all r end.
Lemma is_stdlib_union : forall sp ms, is_stdlib (GUnion sp ms) = is_stdlib_all ms.
Proof. reflexivity. Qed.
Lemma is_stdlib_all_In : forall l x, is_stdlib_all l = true -> In x l -> is_stdlib x = true.
Proof.
  induction l as [|y r IH]; intros x H Hin; [contradiction|].
  change (is_stdlib_all (y :: r)) with (is_stdlib y && is_stdlib_all r) in H.
  apply andb_true_iff in H; destruct H as [Hy Hr]. destruct Hin as [Hin|Hin]; [subst; exact Hy | apply IH; assumption].
Qed.

Lemma resolve_unwrap : forall x, in_stdlib_set (resolve_super x) = true -> unwrap x = resolve_super x.
Proof.
  induction x using gty_ind'; cbn [resolve_super unwrap in_stdlib_set]; intros Hx; try discriminate; auto.
Qed.

Lemma noncc_member : forall E c, is_stdlib c = true -> has_char lbr (show E c) = false ->
  can_be_cyclic E (unwrap c) = false.
Proof.
  intros E c Hs Hb. unfold can_be_cyclic, is_subscripted.
  destruct c as [s| | | |l|g a|sp ms|k|m' n' t|m' n' t|m' n' bd|t|a mo];
    try (cbn [is_stdlib resolve_super in_stdlib_set] in Hs; discriminate).
  - cbn [unwrap has_bracket]. rewrite Hs. reflexivity.
  - reflexivity.
  - cbn [unwrap has_bracket]. rewrite Hb, Hs. reflexivity.
  - change (in_stdlib_set (resolve_super t) = true) in Hs. cbn [unwrap]. rewrite (resolve_unwrap t Hs).
    destruct (resolve_super t) as [s| | | |l|g a|sp ms|k|m2 n2 t2|m2 n2 t2|m2 n2 bd|t2|a mo]; cbn [in_stdlib_set] in Hs; try discriminate.
    + cbn [has_bracket is_stdlib resolve_super in_stdlib_set]. rewrite Hs. reflexivity.
    + reflexivity.
Qed.

Lemma noncc_closed : forall E u, can_be_cyclic E u = false ->
  forall var c, In (var, c) (level E u) -> skip var c = false ->
    can_be_cyclic E (unwrap c) = false /\ gsize (unwrap c) < gsize u.
Proof.
  intros E u Hcc var c Hin Hsk. unfold can_be_cyclic, is_subscripted in Hcc.
  apply orb_false_iff in Hcc; destruct Hcc as [Hb Hs]. apply negb_false_iff in Hs.
  destruct u as [s| | | |l|g a|sp ms|k|m' n' t|m' n' t|m' n' bd|t|a mo];
    try (cbn [is_stdlib resolve_super in_stdlib_set] in Hs; discriminate);
    try (cbn in Hin; contradiction).
  (* only a union is left *)
  unfold level in Hin. cbn [args_of hints] in Hin. rewrite app_nil_r in Hin.
  apply in_map_iff in Hin. destruct Hin as [x [Heq Hx]]. inversion Heq; subst var c.
  rewrite is_stdlib_union in Hs.
  assert (Hbx : has_char lbr (show E x) = false).
  { destruct sp; cbn [has_bracket show] in Hb.
    - rewrite !has_char_app in Hb. cbn in Hb. discriminate.
    - rewrite !has_char_app in Hb. cbn in Hb. discriminate.
    - eapply has_char_join; [exact Hb | apply in_map; exact Hx]. }
  split.
  - apply noncc_member; [eapply is_stdlib_all_In; eauto | exact Hbx].
  - rewrite gsize_union. pose proof (gsize_unwrap_le x). pose proof (gsum_In x ms Hx). lia.
Qed.

(* ---------------- the walk's memory ---------------- *)
Definition inv (st : state) : Prop := forall n, In n (snd st) -> mem (ntype n) (fst st) = true.

Lemma nmem_eqb : forall m k X, node_eqb m k = true -> nmem k X = true -> nmem m X = true.
Proof.
  intros m k X H Hk. unfold nmem in *. apply existsb_exists in Hk. destruct Hk as [x [Hx Hkx]].
  apply existsb_exists. exists x; split; [exact Hx|]. rewrite (node_eqb_cong _ _ H x). exact Hkx.
Qed.
Lemma nmem_In : forall n X, In n X -> nmem n X = true.
Proof. intros n X H. unfold nmem. apply existsb_exists. exists n; split; [exact H | apply node_eqb_refl]. Qed.

Lemma inv_push : forall c u var st, inv st -> inv (push_st c u var st).
Proof.
  intros c u var st H n Hn. cbn in Hn. cbn [push_st fst]. unfold mem. cbn [existsb].
  destruct Hn as [Hn|Hn]; [subst n; cbn; rewrite gty_eqb_refl; reflexivity|].
  specialize (H n Hn). unfold mem in H. rewrite H. apply orb_true_r.
Qed.
Lemma nmem_push : forall n c u var st, nmem n (snd st) = true -> nmem n (snd (push_st c u var st)) = true.
Proof. intros n c u var st H. cbn. unfold nmem in *. cbn. rewrite H. apply orb_true_r. Qed.

(* a pushed cyclic-capable node was not known before *)
Lemma fresh_push : forall E c var st path, inv st ->
  visitedb E c (unwrap c) var st path = false -> nmem (mknode c (unwrap c) var) (snd st) = false.
Proof.
  intros E c var st path Hinv Hv. unfold visitedb in Hv. apply orb_false_iff in Hv; destruct Hv as [Hrv Hx].
  destruct (is_generic E (unwrap c)) eqn:Hg; [cbn in Hx; exact Hx|].
  unfold seen_set in Hrv. rewrite Hg in Hrv. unfold revisit in Hrv. apply orb_false_iff in Hrv; destruct Hrv as [Hm _].
  destruct (nmem (mknode c (unwrap c) var) (snd st)) eqn:Hn; [|reflexivity].
  unfold nmem in Hn. apply existsb_exists in Hn. destruct Hn as [x [Hx' Heq]].
  apply node_eqb_ntype in Heq. cbn in Heq. specialize (Hinv x Hx'). rewrite <- Heq in Hinv. congruence.
Qed.

Lemma expand_state : forall E kids st path preds st',
  expand E kids st path = Some (preds, st') -> inv st ->
  inv st' /\
  (forall n, nmem n (snd st) = true -> nmem n (snd st') = true) /\
  (forall m, In m preds -> ncyc m = false -> nmem m (snd st') = true) /\
  (forall m, In m preds -> ncyc m = false -> can_be_cyclic E (nunw m) = true -> nmem m (snd st) = false).
Proof.
  intros E kids; induction kids as [|[var c] rest IH]; intros st path preds st' H Hinv; cbn in H.
  - inversion H; subst. repeat split; auto; intros m [].
  - destruct (skip var c); [eapply IH; eauto|].
    destruct (visitedb E c (unwrap c) var st path && can_be_cyclic E (unwrap c)) eqn:Hcut.
    + (* deferred head: a cyclic node *)
      assert (Hgen : forall r ps, expand E rest st path = Some (ps, st') -> ncyc r = true -> preds = r :: ps ->
                inv st' /\
                (forall n, nmem n (snd st) = true -> nmem n (snd st') = true) /\
                (forall m, In m preds -> ncyc m = false -> nmem m (snd st') = true) /\
                (forall m, In m preds -> ncyc m = false -> can_be_cyclic E (nunw m) = true -> nmem m (snd st) = false)).
      { intros r ps Hrest Hrc Hp. subst preds. destruct (IH _ _ _ _ Hrest Hinv) as [I1 [I2 [I3 I4]]].
        split; [exact I1|]. split; [exact I2|]. split.
        - intros m [Hm|Hm] Hc; [subst; congruence | apply I3; assumption].
        - intros m [Hm|Hm] Hc Hcc; [subst; congruence | apply I4; assumption]. }
      destruct (is_generic E (unwrap c) || should_unwrap c || is_ref c).
      * destruct (expand E rest st path) as [[ps st1]|] eqn:Hrest; [|discriminate]. inversion H; subst.
        apply (Hgen (mkdefer c (unwrap c) var) ps); auto.
      * destruct (mkref E c (unwrap c) var) as [r|] eqn:Hmk; [|discriminate].
        destruct (expand E rest st path) as [[ps st1]|] eqn:Hrest; [|discriminate]. inversion H; subst.
        destruct (mkref_shape _ _ _ _ _ Hmk) as [Hrc _]. apply (Hgen r ps); auto.
    + (* pushed head *)
      destruct (expand E rest (push_st c (unwrap c) var st) path) as [[ps st1]|] eqn:Hrest; [|discriminate].
      inversion H; subst; clear H.
      destruct (IH _ _ _ _ Hrest (inv_push _ _ _ _ Hinv)) as [I1 [I2 [I3 I4]]].
      split; [exact I1|]. split; [|split].
      * intros n Hn. apply I2. apply nmem_push. exact Hn.
      * intros m [Hm|Hm] Hc; [|apply I3; assumption]. subst m. apply I2. cbn. unfold nmem. cbn.
        rewrite node_eqb_refl. reflexivity.
      * intros m [Hm|Hm] Hc Hcc.
        -- subst m. cbn in Hcc. rewrite Hcc, andb_true_r in Hcut. eapply fresh_push; eauto.
        -- specialize (I4 m Hm Hc Hcc). destruct (nmem m (snd st)) eqn:Hk; [|reflexivity].
           rewrite (nmem_push _ c (unwrap c) var _ Hk) in I4. discriminate.
Qed.

(* ---------------- freshness along the walk ---------------- *)
Lemma bfs_fresh : forall fuel E q st adj, bfs fuel E q st = Ok adj -> inv st ->
  (forall k, In k (map fst q) -> nmem k (snd st) = true) ->
  forall i p preds m, nth_error adj i = Some (p, preds) -> In m preds -> ncyc m = false ->
    can_be_cyclic E (nunw m) = true ->
    nmem m (snd st) = false /\
    forall j k ps, j <= i -> nth_error adj j = Some (k, ps) -> node_eqb m k = false.
Proof.
  induction fuel as [|f IH]; intros E q st adj H Hinv Hq i p preds m Hn Hm Hc Hcc.
  - destruct q as [|[p0 path0] rest]; cbn in H; [inversion H; subst; destruct i; discriminate | discriminate].
  - destruct q as [|[p0 path0] rest]; cbn in H; [inversion H; subst; destruct i; discriminate|].
    assert (Hp0 : nmem p0 (snd st) = true) by (apply Hq; left; reflexivity).
    assert (Hstep : forall ps st1 adj', adj = (p0, ps) :: adj' -> bfs f E (rest ++ pushed path0 ps) st1 = Ok adj' ->
              inv st1 -> (forall n, nmem n (snd st) = true -> nmem n (snd st1) = true) ->
              (forall x, In x ps -> ncyc x = false -> nmem x (snd st1) = true) ->
              (forall x, In x ps -> ncyc x = false -> can_be_cyclic E (nunw x) = true -> nmem x (snd st) = false) ->
              nmem m (snd st) = false /\
              forall j k ps', j <= i -> nth_error adj j = Some (k, ps') -> node_eqb m k = false).
    { intros ps st1 adj' Hadj Hb I1 I2 I3 I4. subst adj. destruct i as [|i'].
      - cbn in Hn. inversion Hn; subst p preds. specialize (I4 m Hm Hc Hcc). split; [exact I4|].
        intros j k ps' Hj Hnj. assert (j = 0) by lia. subst j. cbn in Hnj. inversion Hnj; subst k ps'.
        destruct (node_eqb m p0) eqn:He; [|reflexivity]. rewrite (nmem_eqb _ _ _ He Hp0) in I4. discriminate.
      - cbn in Hn.
        assert (Hq' : forall k, In k (map fst (rest ++ pushed path0 ps)) -> nmem k (snd st1) = true).
        { intros k Hk. rewrite map_app in Hk. apply in_app_or in Hk. destruct Hk as [Hk|Hk].
          - apply I2. apply Hq. right. exact Hk.
          - unfold pushed in Hk. rewrite map_map in Hk. cbn in Hk. rewrite map_id in Hk. apply filter_In in Hk.
            destruct Hk as [Hk1 Hk2]. apply I3; [exact Hk1|]. destruct (ncyc k); [discriminate | reflexivity]. }
        destruct (IH _ _ _ _ Hb I1 Hq' _ _ _ _ Hn Hm Hc Hcc) as [J1 J2].
        assert (Hst : nmem m (snd st) = false).
        { destruct (nmem m (snd st)) eqn:Hk; [|reflexivity]. rewrite (I2 _ Hk) in J1. discriminate. }
        split; [exact Hst|]. intros j k ps' Hj Hnj. destruct j as [|j'].
        + cbn in Hnj. inversion Hnj; subst k ps'.
          destruct (node_eqb m p0) eqn:He; [|reflexivity]. rewrite (nmem_eqb _ _ _ He Hp0) in Hst. discriminate.
        + cbn in Hnj. eapply J2; [|exact Hnj]. lia. }
    destruct (is_literal (unwrap (ntype p0))) eqn:Hlit.
    + destruct (bfs f E rest st) as [adj'| |] eqn:Hb; try discriminate. inversion H; subst adj.
      apply (Hstep [] st adj'); [reflexivity | cbn; rewrite app_nil_r; exact Hb | exact Hinv | auto | intros x [] | intros x []].
    + destruct (expand E (level E (unwrap (ntype p0))) st path0) as [[ps st1]|] eqn:Hex; [|discriminate].
      destruct (bfs f E (rest ++ pushed path0 ps) st1) as [adj'| |] eqn:Hb; try discriminate.
      inversion H; subst adj. destruct (expand_state _ _ _ _ _ _ Hex Hinv) as [I1 [I2 [I3 I4]]].
      apply (Hstep ps st1 adj'); [reflexivity | exact Hb | exact I1 | exact I2 | exact I3 | exact I4].
Qed.

(* ---------------- the rank ---------------- *)
Fixpoint fidx (n : node) (adj : adjacency) : nat :=
  match adj with [] => 0 | e :: r => if node_eqb n (fst e) then 0 else S (fidx n r) end.

Lemma fidx_le_len : forall n adj, fidx n adj <= List.length adj.
Proof. intros n adj; induction adj as [|e r IH]; cbn; [lia | destruct (node_eqb n (fst e)); lia]. Qed.
Lemma fidx_key : forall adj i p preds, nth_error adj i = Some (p, preds) -> fidx p adj <= i.
Proof.
  induction adj as [|e r IH]; intros i p preds H; [destruct i; discriminate|]. cbn [fidx].
  destruct (node_eqb p (fst e)) eqn:He; [lia|]. destruct i as [|i'].
  - cbn in H. inversion H; subst e. cbn in He. rewrite node_eqb_refl in He. discriminate.
  - cbn in H. specialize (IH _ _ _ H). lia.
Qed.
Lemma fidx_gt : forall adj m i, i < List.length adj ->
  (forall j k ps, j <= i -> nth_error adj j = Some (k, ps) -> node_eqb m k = false) -> i < fidx m adj.
Proof.
  induction adj as [|e r IH]; intros m i Hlen H; [cbn in Hlen; lia|]. destruct e as [k0 ps0]. cbn [fidx fst].
  rewrite (H 0 k0 ps0 ltac:(lia) eq_refl). destruct i as [|i']; [lia|].
  apply -> Nat.succ_lt_mono. apply IH; [cbn in Hlen; lia|].
  intros j k ps Hj Hn. apply (H (S j) k ps); [lia | exact Hn].
Qed.
Lemma fidx_cong : forall a b adj, node_eqb a b = true -> fidx a adj = fidx b adj.
Proof.
  intros a b adj H; induction adj as [|e r IH]; [reflexivity|]. cbn [fidx].
  rewrite (node_eqb_cong _ _ H (fst e)), IH. reflexivity.
Qed.

Lemma list_max_In : forall (l : list nat) x, In x l -> x <= list_max l.
Proof.
  induction l as [|y r IH]; intros x H; [contradiction|]. change (list_max (y :: r)) with (Nat.max y (list_max r)).
  destruct H as [H|H]; [subst; apply Nat.le_max_l | specialize (IH x H); etransitivity; [exact IH | apply Nat.le_max_r]].
Qed.

Section RankOf.
  Variable E : env.
  Variable g : adjacency.
  Definition bigB : nat := 2 + list_max (map (fun n => gsize (nunw n)) (adj_nodes g)).
  Definition rank (n : node) : nat :=
    if ncyc n then 0
    else if can_be_cyclic E (nunw n) then bigB + (List.length g - fidx n g)
    else 1 + gsize (nunw n).

  Lemma rank_cong : forall a b, node_eqb a b = true -> rank a = rank b.
  Proof.
    intros a b H. destruct (node_eqb_true _ _ H) as [_ [H2 [_ H4]]]. unfold rank.
    rewrite H2, H4, (fidx_cong _ _ g H). reflexivity.
  Qed.
End RankOf.

Theorem bfs_ranked : forall fuel E root g, type_graph fuel E root = Ok g ->
  forall p preds m, In (p, preds) g -> In m preds -> rank E g m < rank E g p.
Proof.
  intros fuel E root g Hg p preds m Hin Hm. unfold type_graph in Hg.
  assert (Hinv : inv ([root; unwrap root], [root_node root])).
  { intros n [Hn|[]]. subst n. cbn. rewrite gty_eqb_refl. reflexivity. }
  assert (Hq : forall k, In k (map fst [(root_node root, [root; unwrap root])]) ->
                         nmem k (snd ([root; unwrap root], [root_node root])) = true).
  { intros k [Hk|[]]. subst k. cbn. unfold nmem. cbn. rewrite node_eqb_refl. reflexivity. }
  destruct (In_nth_error _ _ Hin) as [i Hi].
  assert (Hlen : i < List.length g) by (apply nth_error_Some; rewrite Hi; discriminate).
  assert (Hshape : ncyc p = false /\ nunw p = unwrap (ntype p)).
  { eapply bfs_key_shape; eauto. intros k [Hk|[]]; subst k; cbn; auto. }
  destruct Hshape as [Hpc Hpu].
  assert (HmB : ncyc m = false -> S (gsize (nunw m)) < bigB g).
  { intros _. unfold bigB. assert (In (gsize (nunw m)) (map (fun n => gsize (nunw n)) (adj_nodes g))).
    { apply in_map_iff. exists m; split; [reflexivity|]. unfold adj_nodes. apply in_flat_map.
      exists (p, preds); split; [exact Hin | right; exact Hm]. }
    pose proof (list_max_In _ _ H). lia. }
  unfold rank at 2. rewrite Hpc.
  destruct (can_be_cyclic E (nunw p)) eqn:Hpcc.
  - (* a cyclic-capable parent *)
    pose proof (fidx_key _ _ _ _ Hi) as Hpi. unfold rank.
    destruct (ncyc m) eqn:Hmc; [unfold bigB; lia|].
    destruct (can_be_cyclic E (nunw m)) eqn:Hmcc.
    + destruct (bfs_fresh _ _ _ _ _ Hg Hinv Hq _ _ _ _ Hi Hm Hmc Hmcc) as [_ Hfr].
      pose proof (fidx_gt g m i Hlen Hfr). pose proof (fidx_le_len m g). lia.
    + specialize (HmB eq_refl). lia.
  - (* a parent that cannot be cyclic: its members cannot either, and are smaller *)
    destruct (bfs_entry _ _ _ _ _ Hg _ _ Hin) as [[_ He]|[_ [st0 [path [st1 Hex]]]]]; [subst; contradiction|].
    destruct (expand_sound _ _ _ _ _ _ Hex _ Hm) as [var [c [Hkid [Hsk [[_ [_ Hcase]] _]]]]].
    rewrite <- Hpu in Hkid. destruct (noncc_closed E (nunw p) Hpcc var c Hkid Hsk) as [Hccc Hsz].
    destruct Hcase as [[Hmc Hmk]|[[_ [_ Hcc]]|[_ [_ Hcc]]]]; try congruence.
    subst m. unfold rank. cbn [ncyc nunw mknode]. rewrite Hccc. lia.
Qed.

Theorem type_graph_has_order : forall fuel E root g, type_graph fuel E root = Ok g ->
  exists order, is_topo_order g order.
Proof.
  intros fuel E root g Hg. apply (rank_topo (rank E g) (rank_cong E g)).
  intros p preds m Hp Hm. eapply bfs_ranked; eauto.
Qed.
