(* Proofs/CapstoneTotal.v -- proof scripts of Props/CapstoneTotal.v: the capstone compositions WITHOUT the [fuel]
   premises about the mechanism.

   Proofs/CapstoneLemmas.v chains the bridges with  done (api_call crt E orders dir fuel Ty x) = true  ("the run of the
   MECHANISM was given enough fuel") as a premise, because only soundness of the mechanism was known then (C05_unmarshal
   / C05_marshal: a terminal result of the mechanism is the result of the reference semantics).  Proofs/BuildComplete.v
   now has the converse (api_u_complete / api_m_complete / api_u_equiv / api_m_equiv: a terminal result of the REFERENCE
   semantics unm / mar at some fuel is the result of the mechanism for ALL sufficiently large fuel) under two more
   hypotheses, both computable per run:
     orders_strict orders   graph.static_order(t) ends in t's own expanded node, and whatever an order defers has an
                            order (BuildTables.orders_strict_ok, a conjunct of orders_hyps_ok)
     defd orders Ty = true  static_order answers for (what) the root annotation (evaluates to).
   Here every statement has the shape   exists f0, forall f, f >= f0 -> api_call .. f .. = <what the theorem says>;
   termination is assumed of the reference semantics only (done (mar ..) / done (unm ..), at the fuel n of the guards), or
   not at all where the value theorem itself produces the reference result (C01 for the unmarshal leg, C13). *)
From Coq Require Import List Arith Bool PeanoNat ZArith NArith Lia.
Import ListNotations.
Require Import TL.Model.Core TL.Model.Build TL.Proofs.CoreMono TL.Proofs.BuildLemmas TL.Proofs.BuildSemLemmas.
Require Import TL.Proofs.BuildComplete TL.Model.BuildTables TL.Proofs.BuildTablesLemmas.
Require Import TL.Proofs.CapstoneLemmas.

Lemma ev_intro {A} (f : nat -> res A) r n : (forall m, m >= n -> f m = r) -> ev f r.
Proof. intros H. exists n. exact H. Qed.

(* ================================================================== A. the mechanism, any runtime *)
Section MechTotal.
Variable rt : runtime.
Variable E : env.
Variable noop_leaf : nat -> bool.
Variable orders : ty -> option (list node).
Hypothesis Hou : TL.Props.C05.orders_contract E true noop_leaf orders.
Hypothesis Hom : TL.Props.C05.orders_contract E false noop_leaf orders.
Hypothesis Hos : orders_strict orders.
Hypothesis Hnu : forall s x, noop_leaf s = true -> leaf_u rt s x = Ok x.
Hypothesis Hnm : forall s x, noop_leaf s = true -> leaf_m rt s x = Ok x.

(* completeness, in the form used below *)
Lemma api_u_tot T n x : defd orders T = true -> done (unm rt E n T x) = true ->
  exists f0, forall f, f >= f0 -> api_call rt E orders true f T x = unm rt E n T x.
Proof using Hou Hos Hnu. intros Hdef Hd. exact (api_u_complete rt E noop_leaf orders Hou Hos Hnu T n x Hdef Hd). Qed.
Lemma api_m_tot T n x : defd orders T = true -> done (mar rt E n T x) = true ->
  exists f0, forall f, f >= f0 -> api_call rt E orders false f T x = mar rt E n T x.
Proof using Hom Hos Hnm. intros Hdef Hd. exact (api_m_complete rt E noop_leaf orders Hom Hos Hnm T n x Hdef Hd). Qed.
Lemma api_u_of_ev T x r : defd orders T = true -> done r = true -> ev (fun m => unm rt E m T x) r ->
  exists f0, forall f, f >= f0 -> api_call rt E orders true f T x = r.
Proof using Hou Hos Hnu. intros Hdef Hd H. exact (proj1 (api_u_equiv rt E noop_leaf orders Hou Hos Hnu T x r Hdef Hd) H). Qed.
Lemma api_m_of_ev T x r : defd orders T = true -> done r = true -> ev (fun m => mar rt E m T x) r ->
  exists f0, forall f, f >= f0 -> api_call rt E orders false f T x = r.
Proof using Hom Hos Hnm. intros Hdef Hd H. exact (proj1 (api_m_equiv rt E noop_leaf orders Hom Hos Hnm T x r Hdef Hd) H). Qed.

(* C01_roundtrip o completeness: no premise about the mechanism *)
Lemma mech_roundtrip_total lv : M01.RoundLaws rt lv ->
  forall n T v, defd orders T = true ->
    M01.valid rt lv E n T v = true -> M01.c01_guard rt E n T v = true -> M01.union_unamb rt lv E n T v = true ->
    done (mar rt E n T v) = true ->
    exists f0, forall fm fu, fm >= f0 -> fu >= f0 ->
      api_call rt E orders false fm T v = mar rt E n T v /\
      forall w, mar rt E n T v = Ok w -> api_call rt E orders true fu T w = Ok v.
Proof using Hou Hom Hos Hnu Hnm.
  intros L n T v Hdef Hv Hg Hu Hd.
  destruct (api_m_tot T n v Hdef Hd) as [f1 H1].
  destruct (mar rt E n T v) as [w|e| |] eqn:Hm; try discriminate Hd.
  - destruct (TL.Props.C01.C01_roundtrip rt lv E L n n T v w (le_n n) Hv Hg Hu Hm) as [m Hround].
    destruct (api_u_of_ev T w (Ok v) Hdef eq_refl (ev_intro (fun k => unm rt E k T w) _ m Hround)) as [f2 H2].
    exists (max f1 f2). intros fm fu Hfm Hfu. split; [apply H1; lia|].
    intros w' Hw'. injection Hw' as <-. apply H2. lia.
  - exists f1. intros fm fu Hfm _. split; [apply H1; exact Hfm|]. intros w' Hw'. discriminate Hw'.
Qed.

Lemma mech_fixpoint_total lv : M01.RoundLaws rt lv ->
  forall n T v m, defd orders T = true -> M01.fix_ok rt lv E n T v = true -> mar rt E n T v = Ok m ->
  exists v' f0, forall f, f >= f0 ->
    api_call rt E orders false f T v = Ok m /\ api_call rt E orders true f T m = Ok v' /\
    api_call rt E orders false f T v' = Ok m.
Proof using Hou Hom Hos Hnu Hnm.
  intros L n T v m Hdef Hf Hm.
  destruct (TL.Props.C01.C01_union_fixpoint rt lv E L n n T v m (le_n n) Hf Hm) as [v0 [Hu0 Hm0]].
  destruct (api_m_tot T n v Hdef) as [f1 H1]; [rewrite Hm; reflexivity|]. rewrite Hm in H1.
  destruct (api_u_of_ev T m (Ok v0) Hdef eq_refl (ev_intro (fun k => unm rt E k T m) _ n Hu0)) as [f2 H2].
  destruct (api_m_of_ev T v0 (Ok m) Hdef eq_refl (ev_intro (fun k => mar rt E k T v0) _ n Hm0)) as [f3 H3].
  exists v0, (max f1 (max f2 f3)). intros f Hf0.
  split; [apply H1; lia|]. split; [apply H2; lia|apply H3; lia].
Qed.

(* C03 / C13 *)
Lemma mech_conforms_total leaf_ok : P03.LeafLaws rt leaf_ok -> P03.wf_env E ->
  forall n T x, defd orders T = true -> done (unm rt E n T x) = true ->
  exists f0, forall f, f >= f0 ->
    api_call rt E orders true f T x = unm rt E n T x /\
    forall v, api_call rt E orders true f T x = Ok v -> M03.conforms rt E leaf_ok n T v = true.
Proof using Hou Hos Hnu.
  intros L WF n T x Hdef Hd. destruct (api_u_tot T n x Hdef Hd) as [f0 H0]. exists f0. intros f Hf.
  split; [exact (H0 f Hf)|]. intros v Hv. rewrite (H0 f Hf) in Hv.
  exact (TL.Props.C03.C03_conforms_fuel rt E leaf_ok L WF n T x v n Hv (le_n n)).
Qed.

Lemma mech_passthrough_total lv : V13.PassLaws rt lv -> V13.wf_env E ->
  forall n T v, defd orders T = true -> V13.optional_only E n T = true -> V13.valid lv rt E n T v = true ->
  exists f0, forall f, f >= f0 -> api_call rt E orders true f T v = Ok v.
Proof using Hou Hos Hnu.
  intros L WF n T v Hdef Ho Hv.
  destruct (TL.Props.C13.C13_passthrough rt E lv L WF n T v Ho Hv) as [m Hm].
  apply (api_u_of_ev T v (Ok v) Hdef eq_refl). exists m. intros m' Hm'. apply Hm. exact Hm'.
Qed.

Lemma mech_idempotent_total : V13.IdemLaws rt -> V13.wf_env E -> V13.DefaultsConform rt E ->
  forall T, defd orders T = true -> (forall k, V13.optional_only E k T = true) ->
  (forall n x, done (unm rt E n T x) = true ->
     exists f0, forall f1 f2, f1 >= f0 -> f2 >= f0 ->
       api_call rt E orders true f1 T x = unm rt E n T x /\
       forall y, unm rt E n T x = Ok y -> api_call rt E orders true f2 T y = Ok y) /\
  (forall f1 x y, api_call rt E orders true f1 T x = Ok y ->
     exists f0, forall f2, f2 >= f0 -> api_call rt E orders true f2 T y = Ok y).
Proof using Hou Hos Hnu.
  clear Hom Hnm. intros L WF DC T Hdef Ho.
  assert (Hidem : forall n x y, unm rt E n T x = Ok y -> exists f0, forall f, f >= f0 -> api_call rt E orders true f T y = Ok y).
  { intros n x y Hn. destruct (TL.Props.C13.C13_idempotent rt E L WF DC T Ho n x y Hn) as [m Hm].
    apply (api_u_of_ev T y (Ok y) Hdef eq_refl). exists m. intros m' Hm'. apply Hm. exact Hm'. }
  split.
  - intros n x Hd. destruct (api_u_tot T n x Hdef Hd) as [f1 H1].
    destruct (unm rt E n T x) as [y|e| |] eqn:Hn; try discriminate Hd.
    + destruct (Hidem n x y Hn) as [f2 H2]. exists (max f1 f2). intros g1 g2 Hg1 Hg2.
      split; [apply H1; lia|]. intros y' Hy'. injection Hy' as <-. apply H2. lia.
    + exists f1. intros g1 g2 Hg1 _. split; [apply H1; exact Hg1|]. intros y' Hy'. discriminate Hy'.
  - intros f1 x y H1.
    destruct (api_u_ev rt E noop_leaf orders Hou Hnu T f1 x) as [m1 Hm1]; [rewrite H1; reflexivity|]. rewrite H1 in Hm1.
    exact (Hidem m1 x y (Hm1 m1 (le_n m1))).
Qed.

(* C06 *)
Lemma mech_wire_total prim_atom robust_leaf wire_leaf R F leaf_valid lit_leaf lit_member :
  M06.MarshalLaws rt prim_atom robust_leaf wire_leaf leaf_valid lit_leaf lit_member ->
  forall T, defd orders T = true -> M06.fully_annotated E robust_leaf wire_leaf true R F T ->
  forall m n v, M06.valid rt E leaf_valid n T v = true -> done (mar rt E m T v) = true ->
  exists f0, forall f, f >= f0 ->
    api_call rt E orders false f T v = mar rt E m T v /\
    forall w, api_call rt E orders false f T v = Ok w -> M06.is_wire prim_atom w = true /\ M06.built rt w.
Proof using Hom Hos Hnm.
  intros L T Hdef FA m n v Hv Hd. destruct (api_m_tot T m v Hdef Hd) as [f0 H0]. exists f0. intros f Hf.
  split; [exact (H0 f Hf)|]. intros w Hw. rewrite (H0 f Hf) in Hw.
  exact (TL.Props.C06.C06_full rt E prim_atom robust_leaf wire_leaf R F leaf_valid lit_leaf lit_member L T FA m n v w Hv Hw).
Qed.

(* C08 inside C05 *)
Lemma mech_union_first_acceptor_total : V13.NoneLaws rt ->
  forall n ts x, defd orders (TUnion ts) = true -> x <> none rt \/ isoptional ts = false ->
    done (unm rt E n (TUnion ts) x) = true ->
    exists f0, forall f, f >= f0 ->
      api_call rt E orders true f (TUnion ts) x = unm rt E n (TUnion ts) x /\
      forall y, api_call rt E orders true f (TUnion ts) x = Ok y ->
        exists n0, forall k, k >= n0 ->
          exists i t, nth_error ts i = Some t /\ unm rt E (S k) t x = Ok y /\
            forall j tj, j < i -> nth_error ts j = Some tj -> TL.Proofs.UnionBridge.c_rejects rt (unm rt E (S k) tj) x.
Proof using Hou Hos Hnu.
  intros NL n ts x Hdef Hx Hd. destruct (api_u_tot (TUnion ts) n x Hdef Hd) as [f0 H0]. exists f0. intros f Hf.
  split; [exact (H0 f Hf)|]. intros y Hy.
  exact (mech_union_first_acceptor rt E noop_leaf orders Hou Hnu NL f ts x y Hx Hy).
Qed.

End MechTotal.

(* ================================================================== B. composed: runtime of CapstoneLemmas.A, graph orders *)
Section ComposedTotal.
Variable C : LBm.coding.
Variable kind_of : nat -> option LBm.leafkind.
Variable rts : nat -> Tm.Runtime.
Variable mv : Tm.tok -> Tm.res Tm.val.
Variable rt0 : Tm.Runtime.
Variable P : IOm.shape.
Variable ib : TL.Model.Iter.val -> option pv.
Variable T : IOm.tshape.
Variable srt : TL.Model.Serdes.Runtime.
Variable base : runtime.
Variable N : GBm.naming.
Variable G : TL.Model.Graph.env.
Variable orders : ty -> option (list node).
Variable noop : nat -> bool.

Notation E := (GBm.tr_env N G).
Notation crt := (cap_runtime C kind_of rts mv rt0 P E ib T srt base).
Notation lvs := (LBm.lv C kind_of rts mv true).

Hypothesis CL : LBm.coding_law C.
Hypothesis NS : forall s, noop s = true -> LBm.any_leaf kind_of s = true.
Hypothesis GO : GBp.graph_orders N G noop orders.
Hypothesis OS : orders_strict orders.

Notation Cu := (cap_contract N G orders noop GO true).
Notation Cm := (cap_contract N G orders noop GO false).
Notation Nu := (cap_noop_u C kind_of rts mv rt0 P ib T srt base N G noop NS).
Notation Nm := (cap_noop_m C kind_of rts mv rt0 P ib T srt base N G noop NS).

(* (0) mechanism and reference semantics have the same terminal results on the composed runtime *)
Lemma capt_mech_total : forall Ty, defd orders Ty = true -> forall n x,
  (done (unm crt E n Ty x) = true -> exists f0, forall f, f >= f0 -> api_call crt E orders true f Ty x = unm crt E n Ty x) /\
  (done (mar crt E n Ty x) = true -> exists f0, forall f, f >= f0 -> api_call crt E orders false f Ty x = mar crt E n Ty x).
Proof.
  intros Ty Hdef n x. split.
  - exact (api_u_tot crt E noop orders Cu OS Nu Ty n x Hdef).
  - exact (api_m_tot crt E noop orders Cm OS Nm Ty n x Hdef).
Qed.
Lemma capt_mech_equiv : forall Ty, defd orders Ty = true -> forall x (r : Core.res pv), done r = true ->
  ((exists m, forall m', m' >= m -> unm crt E m' Ty x = r) <-> (exists f0, forall f, f >= f0 -> api_call crt E orders true f Ty x = r)) /\
  ((exists m, forall m', m' >= m -> mar crt E m' Ty x = r) <-> (exists f0, forall f, f >= f0 -> api_call crt E orders false f Ty x = r)).
Proof.
  intros Ty Hdef x r Hd. split.
  - exact (api_u_equiv crt E noop orders Cu OS Nu Ty x r Hdef Hd).
  - exact (api_m_equiv crt E noop orders Cm OS Nm Ty x r Hdef Hd).
Qed.

(* (1) C01 *)
Lemma capt_C01_roundtrip : (forall s, Sc.RuntimeLaws (rts s)) -> (forall s, LBm.FoldLaws (rts s)) ->
  forall n Ty v, defd orders Ty = true ->
    M01.valid crt lvs E n Ty v = true -> M01.c01_guard crt E n Ty v = true -> M01.union_unamb crt lvs E n Ty v = true ->
    done (mar crt E n Ty v) = true ->
    exists f0, forall fm fu, fm >= f0 -> fu >= f0 ->
      api_call crt E orders false fm Ty v = mar crt E n Ty v /\
      forall w, mar crt E n Ty v = Ok w -> api_call crt E orders true fu Ty w = Ok v.
Proof.
  intros HL HF.
  exact (mech_roundtrip_total crt E noop orders Cu Cm OS Nu Nm lvs (cap_round_laws C kind_of rts mv rt0 P E ib T srt base CL HL HF)).
Qed.

Lemma capt_C01_fixpoint : (forall s, Sc.RuntimeLaws (rts s)) -> (forall s, LBm.FoldLaws (rts s)) ->
  forall n Ty v m, defd orders Ty = true -> M01.fix_ok crt lvs E n Ty v = true -> mar crt E n Ty v = Ok m ->
  exists v' f0, forall f, f >= f0 ->
    api_call crt E orders false f Ty v = Ok m /\ api_call crt E orders true f Ty m = Ok v' /\
    api_call crt E orders false f Ty v' = Ok m.
Proof.
  intros HL HF.
  exact (mech_fixpoint_total crt E noop orders Cu Cm OS Nu Nm lvs (cap_round_laws C kind_of rts mv rt0 P E ib T srt base CL HL HF)).
Qed.

(* (1b) the JSON text of the wire form *)
Lemma capt_C01_roundtrip_text : (forall s, Sc.RuntimeLaws (rts s)) -> (forall s, LBm.FoldLaws (rts s)) ->
  TL.Model.Serdes.RuntimeLaws srt ->
  forall n Ty v w a k s r, defd orders Ty = true ->
    M01.valid crt lvs E n Ty v = true -> M01.c01_guard crt E n Ty v = true -> M01.union_unamb crt lvs E n Ty v = true ->
    mar crt E n Ty v = Ok w ->
    IOm.load_first_ty E Ty = true -> is_scalar w = false ->
    TL.Model.Serdes.encodable s = true -> TL.Model.Serdes.json_loads_str srt s = TL.Model.Serdes.Ok r ->
    IOm.unS T r = Some w -> IOm.a_ser T a = TL.Model.Serdes.carrier srt k s ->
    exists f0, forall f, f >= f0 ->
      api_call crt E orders false f Ty v = Ok w /\ api_call crt E orders true f Ty (PAtom a) = Ok v /\
      api_call crt E orders true f Ty w = Ok v.
Proof.
  intros HL HF SL n Ty v w a k s r Hdef Hv Hg Hu Hm Hlf Hsc He Hj HunS Ha.
  destruct (capt_C01_roundtrip HL HF n Ty v Hdef Hv Hg Hu ltac:(rewrite Hm; reflexivity)) as [f1 H1].
  destruct (TL.Props.C01.C01_roundtrip crt lvs E (cap_round_laws C kind_of rts mv rt0 P E ib T srt base CL HL HF)
              n n Ty v w (le_n n) Hv Hg Hu Hm) as [m Hround].
  destruct (api_u_of_ev crt E noop orders Cu OS Nu Ty (PAtom a) (Ok v) Hdef eq_refl) as [f2 H2].
  { exists m. intros m' Hm'.
    rewrite (IOp.unm_json_text T srt crt E m' Ty a k s r w (cap_load_law C kind_of rts mv rt0 P E ib T srt base) SL He Hj HunS Hsc Ha Hlf).
    apply Hround. exact Hm'. }
  exists (max f1 f2). intros f Hf.
  destruct (H1 f f ltac:(lia) ltac:(lia)) as [Ha1 Hb1]. rewrite Hm in Ha1.
  split; [exact Ha1|]. split; [apply H2; lia|exact (Hb1 w Hm)].
Qed.

(* (4) C03 / C13 / C06 *)
Lemma capt_C03_conforms : P03.wf_env E ->
  forall n Ty x, defd orders Ty = true -> done (unm crt E n Ty x) = true ->
  exists f0, forall f, f >= f0 ->
    api_call crt E orders true f Ty x = unm crt E n Ty x /\
    forall v, api_call crt E orders true f Ty x = Ok v -> M03.conforms crt E (LBm.leaf_class_ok C kind_of rts) n Ty v = true.
Proof.
  intros WF.
  exact (mech_conforms_total crt E noop orders Cu OS Nu _ (cap_leaf_laws C kind_of rts mv rt0 P E ib T srt base CL) WF).
Qed.

Lemma capt_C13_passthrough : forall Tz, LBp.Utf8Total rt0 -> (forall e, suppressed base (LBm.exn_map e) = true) ->
  (forall s, LBm.SLoadLaw Tz srt (rts s)) -> (forall s, LBm.SShapeLaws Tz (rts s)) ->
  V13.wf_env E ->
  forall n Ty v, defd orders Ty = true -> V13.optional_only E n Ty = true ->
    V13.valid (LBm.lv_inst C kind_of rts) crt E n Ty v = true ->
    exists f0, forall f, f >= f0 -> api_call crt E orders true f Ty v = Ok v.
Proof.
  intros Tz HU HS H1 H2 WF.
  exact (mech_passthrough_total crt E noop orders Cu OS Nu _
           (cap_pass_laws_inst C kind_of rts mv rt0 P E ib T srt base CL HU HS
              (proj1 (cap_load_laws_same_serdes C kind_of rts mv rt0 P E ib T srt base Tz H1 H2))) WF).
Qed.

Lemma capt_C13_idempotent : forall Tz, LBp.Utf8Total rt0 -> (forall e, suppressed base (LBm.exn_map e) = true) ->
  (forall s, LBm.SLoadLaw Tz srt (rts s)) -> (forall s, LBm.SShapeLaws Tz (rts s)) ->
  (forall s w m, Tm.enum_of_val (rts s) w = Tm.Ok m -> Tm.is_member (rts s) m = true) ->
  LBp.base_idem kind_of base ->
  V13.wf_env E -> V13.DefaultsConform crt E ->
  forall Ty, defd orders Ty = true -> (forall k, V13.optional_only E k Ty = true) ->
  (forall n x, done (unm crt E n Ty x) = true ->
     exists f0, forall f1 f2, f1 >= f0 -> f2 >= f0 ->
       api_call crt E orders true f1 Ty x = unm crt E n Ty x /\
       forall y, unm crt E n Ty x = Ok y -> api_call crt E orders true f2 Ty y = Ok y) /\
  (forall f1 x y, api_call crt E orders true f1 Ty x = Ok y ->
     exists f0, forall f2, f2 >= f0 -> api_call crt E orders true f2 Ty y = Ok y).
Proof.
  intros Tz HU HS H1 H2 HE HB WF DC.
  exact (mech_idempotent_total crt E noop orders Cu OS Nu
           (cap_idem_laws C kind_of rts mv rt0 P E ib T srt base CL HU HS
              (proj1 (cap_load_laws_same_serdes C kind_of rts mv rt0 P E ib T srt base Tz H1 H2)) HE HB) WF DC).
Qed.

Lemma capt_C06_wire : forall strict R F Ty, defd orders Ty = true ->
  M06.fully_annotated E (LBm.robust_leaf kind_of) (LBm.robust_leaf kind_of) true R F Ty ->
  forall m n v, M06.valid crt E (LBm.lv C kind_of rts mv strict) n Ty v = true -> done (mar crt E m Ty v) = true ->
  exists f0, forall f, f >= f0 ->
    api_call crt E orders false f Ty v = mar crt E m Ty v /\
    forall w, api_call crt E orders false f Ty v = Ok w -> M06.is_wire (LBm.prim_atom C) w = true /\ M06.built crt w.
Proof.
  intros strict R F Ty Hdef FA.
  exact (mech_wire_total crt E noop orders Cm OS Nm _ _ _ R F _ _ _
           (cap_marshal_laws C kind_of rts mv rt0 P E ib T srt base CL strict) Ty Hdef FA).
Qed.

(* (5) C08 inside C05 *)
Lemma capt_C08_first_acceptor : LBp.Utf8Total rt0 -> (forall e, suppressed base (LBm.exn_map e) = true) ->
  forall n ts x, defd orders (TUnion ts) = true -> x <> none crt \/ isoptional ts = false ->
    done (unm crt E n (TUnion ts) x) = true ->
    exists f0, forall f, f >= f0 ->
      api_call crt E orders true f (TUnion ts) x = unm crt E n (TUnion ts) x /\
      forall y, api_call crt E orders true f (TUnion ts) x = Ok y ->
        exists n0, forall k, k >= n0 ->
          exists i t, nth_error ts i = Some t /\ unm crt E (S k) t x = Ok y /\
            forall j tj, j < i -> nth_error ts j = Some tj -> TL.Proofs.UnionBridge.c_rejects crt (unm crt E (S k) tj) x.
Proof.
  intros HU HS.
  exact (mech_union_first_acceptor_total crt E noop orders Cu OS Nu
           (cap_none_laws C kind_of rts mv rt0 P E ib T srt base CL HU HS)).
Qed.

(* (3) C02: the codec over the mechanism *)
Lemma capt_C02_roundtrip : (forall s, Sc.RuntimeLaws (rts s)) -> (forall s, LBm.FoldLaws (rts s)) ->
  forall atab ktab unat st strict surr dom isb class_of,
  CB.TableLaws atab ktab unat -> forallb Js.is_ws (Js.st_sp st) = true ->
  forall n Ty v w j, defd orders Ty = true ->
    M01.valid crt lvs E n Ty v = true -> M01.c01_guard crt E n Ty v = true -> M01.union_unamb crt lvs E n Ty v = true ->
    mar crt E n Ty v = Ok w ->
    CB.tr atab ktab w = Some j -> dom j = true -> CB.nodup_keys j = true ->
    exists f0, forall fm fu, fm >= f0 -> fu >= f0 ->
      Cd.bind (encM atab ktab unat crt E orders st strict surr dom isb fm fu Ty v)
              (decM atab ktab unat crt E orders st strict surr dom isb fm fu Ty) = Cd.Ok (CB.OVal v) /\
      api_encM atab ktab crt E orders st dom isb class_of fm Ty v = encM atab ktab unat crt E orders st strict surr dom isb fm fu Ty v /\
      (isb Ty = false ->
         exists b, encM atab ktab unat crt E orders st strict surr dom isb fm fu Ty v = Cd.Ok (CB.OBytes b) /\
                   (forall s' u', Js.json_read_gen s' u' b = Some j) /\ CB.untr unat j = w /\
                   (TL.Proofs.JsonLemmas.known_style st -> Js.std_loads b = Some j /\ Js.std_utf8_branch b = true)).
Proof.
  intros HL HF atab ktab unat st strict surr dom isb class_of TLw Hsp n Ty v w j Hdef Hv Hg Hu Hm Ht Hdm Hn.
  assert (Hd : done (mar crt E n Ty v) = true) by (rewrite Hm; reflexivity).
  destruct (capt_C01_roundtrip HL HF n Ty v Hdef Hv Hg Hu Hd) as [f0 H0].
  exists f0. intros fm fu Hfm Hfu. destruct (H0 fm fu Hfm Hfu) as [Ha Hb]. rewrite Hm in Ha.
  exact (cap_C02_roundtrip C kind_of rts mv rt0 P ib T srt base N G orders noop CL NS GO HL HF
           atab ktab unat st strict surr dom isb class_of TLw Hsp n Ty v fm fu w j Hv Hg Hu Hd Ha Ht Hdm Hn
           ltac:(rewrite (Hb w Hm); reflexivity)).
Qed.

(* (2) any history of the memoised system, at any sufficiently large fuel: no premise that an output is terminal *)
Lemma capt_C01_any_history : (forall s, Sc.RuntimeLaws (rts s)) -> (forall s, LBm.FoldLaws (rts s)) ->
  forall n Ty v, defd orders Ty = true ->
    M01.valid crt lvs E n Ty v = true -> M01.c01_guard crt E n Ty v = true -> M01.union_unamb crt lvs E n Ty v = true ->
    done (mar crt E n Ty v) = true ->
  exists f0, forall fuel, fuel >= f0 ->
  forall uw_fuel is_text max_load alias_load enc dec byteslike h,
    TL.Model.CacheBridge.clean_hist crt E orders uw_fuel is_text max_load alias_load enc dec byteslike fuel
      TL.Model.CacheBridge.cinit h = true ->
    (forall i, nth_error h i = Some (TL.Model.CacheBridge.CMarshal Ty v) ->
       nth_error (TL.Model.CacheBridge.outsS crt E orders uw_fuel is_text max_load alias_load enc dec byteslike fuel
                    TL.Model.CacheBridge.cinit h) i = Some (TL.Model.CacheBridge.COVal (mar crt E n Ty v))) /\
    (forall j w, mar crt E n Ty v = Ok w -> nth_error h j = Some (TL.Model.CacheBridge.CUnmarshal Ty w) ->
       nth_error (TL.Model.CacheBridge.outsS crt E orders uw_fuel is_text max_load alias_load enc dec byteslike fuel
                    TL.Model.CacheBridge.cinit h) j = Some (TL.Model.CacheBridge.COVal (Ok v))).
Proof.
  intros HL HF n Ty v Hdef Hv Hg Hu Hd.
  destruct (capt_C01_roundtrip HL HF n Ty v Hdef Hv Hg Hu Hd) as [f0 H0].
  exists f0. intros fuel Hfuel uw_fuel is_text max_load alias_load enc dec byteslike h Hc.
  destruct (H0 fuel fuel Hfuel Hfuel) as [Ha Hb]. split.
  - intros i Hi.
    rewrite (TL.Props.C12Bridge.C12Bridge_kth_call crt E orders uw_fuel is_text max_load alias_load enc dec byteslike fuel h i _ Hc Hi).
    cbn [TL.Model.CacheBridge.spec_op]. rewrite Ha. reflexivity.
  - intros j w Hw Hj.
    rewrite (TL.Props.C12Bridge.C12Bridge_kth_call crt E orders uw_fuel is_text max_load alias_load enc dec byteslike fuel h j _ Hc Hj).
    cbn [TL.Model.CacheBridge.spec_op]. rewrite (Hb w Hw). reflexivity.
Qed.

End ComposedTotal.

(* (3) with the JSON tables derived from the coding *)
Lemma capt_C02_roundtrip_from_coding C kind_of rts mv rt0 P ib T srt base N G orders noop :
  LBm.coding_law C -> (forall s, noop s = true -> LBm.any_leaf kind_of s = true) -> GBp.graph_orders N G noop orders ->
  orders_strict orders -> (forall s, Sc.RuntimeLaws (rts s)) -> (forall s, LBm.FoldLaws (rts s)) ->
  forall st strict surr dom isb, forallb Js.is_ws (Js.st_sp st) = true ->
  forall n Ty v w j, defd orders Ty = true ->
    M01.valid (cap_runtime C kind_of rts mv rt0 P (GBm.tr_env N G) ib T srt base) (LBm.lv C kind_of rts mv true) (GBm.tr_env N G) n Ty v = true ->
    M01.c01_guard (cap_runtime C kind_of rts mv rt0 P (GBm.tr_env N G) ib T srt base) (GBm.tr_env N G) n Ty v = true ->
    M01.union_unamb (cap_runtime C kind_of rts mv rt0 P (GBm.tr_env N G) ib T srt base) (LBm.lv C kind_of rts mv true) (GBm.tr_env N G) n Ty v = true ->
    mar (cap_runtime C kind_of rts mv rt0 P (GBm.tr_env N G) ib T srt base) (GBm.tr_env N G) n Ty v = Ok w ->
    CB.tr (cap_atab C) (cap_ktab C) w = Some j -> dom j = true -> CB.nodup_keys j = true ->
    exists f0, forall fm fu, fm >= f0 -> fu >= f0 ->
      Cd.bind (encM (cap_atab C) (cap_ktab C) (cap_unat C) (cap_runtime C kind_of rts mv rt0 P (GBm.tr_env N G) ib T srt base)
                 (GBm.tr_env N G) orders st strict surr dom isb fm fu Ty v)
              (decM (cap_atab C) (cap_ktab C) (cap_unat C) (cap_runtime C kind_of rts mv rt0 P (GBm.tr_env N G) ib T srt base)
                 (GBm.tr_env N G) orders st strict surr dom isb fm fu Ty) = Cd.Ok (CB.OVal v).
Proof.
  intros CL NS GO OS HL HF st strict surr dom isb Hsp n Ty v w j Hdef Hv Hg Hu Hm Ht Hdm Hn.
  destruct (capt_C02_roundtrip C kind_of rts mv rt0 P ib T srt base N G orders noop CL NS GO OS HL HF
              (cap_atab C) (cap_ktab C) (cap_unat C) st strict surr dom isb (fun _ => Ty) (cap_table_laws C CL) Hsp
              n Ty v w j Hdef Hv Hg Hu Hm Ht Hdm Hn) as [f0 H0].
  exists f0. intros fm fu Hfm Hfu. exact (proj1 (H0 fm fu Hfm Hfu)).
Qed.

(* (4) C06 with object identity: the premise "the mechanism answered w" is gone -- the object the heap-level routine
   returned denotes a value w, and the mechanism answers exactly w at every sufficiently large fuel *)
Lemma capt_C06_heap C kind_of rts mv rt0 P ib T srt base N G orders noop :
  LBm.coding_law C -> (forall s, noop s = true -> LBm.any_leaf kind_of s = true) -> GBp.graph_orders N G noop orders ->
  orders_strict orders ->
  forall (hr : Hp.hruntime) fu strict R F Ty, defd orders Ty = true ->
  Hp.AllocLaws hr -> Hp.FreshLaws hr (LBm.robust_leaf kind_of) fu ->
  M06.fully_annotated (GBm.tr_env N G) (LBm.robust_leaf kind_of) (LBm.robust_leaf kind_of) true R F Ty ->
  forall fuel n h l v h' l',
    Hp.read fuel h l = Some v ->
    M06.valid (cap_runtime C kind_of rts mv rt0 P (GBm.tr_env N G) ib T srt base) (GBm.tr_env N G)
      (LBm.lv C kind_of rts mv strict) n Ty v = true ->
    Hp.hmar (cap_runtime C kind_of rts mv rt0 P (GBm.tr_env N G) ib T srt base) hr (GBm.tr_env N G) fuel Ty h l = Ok (h', l') ->
    exists w f0,
      (forall f, f >= f0 ->
         api_call (cap_runtime C kind_of rts mv rt0 P (GBm.tr_env N G) ib T srt base) (GBm.tr_env N G) orders false f Ty v = Ok w) /\
      Hp.reads h' l' w /\ M06.is_wire (LBm.prim_atom C) w = true /\
      (forall p, Hp.reach h' l' p -> Hp.mutable_at h' p = true -> List.length h <= p) /\
      (forall k p x, Hp.read k h p = Some x -> Hp.read k h' p = Some x).
Proof.
  intros CL NS GO OS hr fu strict R F Ty Hdef HA HFr FA fuel n h l v h' l' Hr Hv Hh.
  set (crt := cap_runtime C kind_of rts mv rt0 P (GBm.tr_env N G) ib T srt base) in *.
  pose proof (TL.Props.C06Heap.C06H_marshal_refines crt hr (GBm.tr_env N G) HA fuel Ty h l v Hr) as Hrf.
  rewrite Hh in Hrf. unfold Hp.refines in Hrf.
  destruct (mar crt (GBm.tr_env N G) fuel Ty v) as [w0| | |] eqn:Hm0; try contradiction.
  destruct (proj2 (capt_mech_total C kind_of rts mv rt0 P ib T srt base N G orders noop NS GO OS Ty Hdef fuel v)) as [f0 H0].
  { fold crt. rewrite Hm0. reflexivity. }
  fold crt in H0. rewrite Hm0 in H0.
  exists w0, f0. split; [exact H0|].
  exact (cap_C06_heap C kind_of rts mv rt0 P ib T srt base N G orders noop CL NS GO hr fu strict R F Ty HA HFr FA
           fuel f0 n h l v h' l' w0 Hr Hv Hh (H0 f0 (le_n f0))).
Qed.

(* (6) environments WITH Any fields: the instance noop := only_leaf (any_id N) *)
Lemma capt_C01_roundtrip_with_any C kind_of rts mv rt0 P ib T srt base N G orders :
  LBm.coding_law C -> (forall s, Sc.RuntimeLaws (rts s)) -> (forall s, LBm.FoldLaws (rts s)) ->
  GBp.graph_orders N G (only_leaf (GBm.any_id N)) orders -> orders_strict orders ->
  forall n Ty v,
    let rt := cap_runtime C (with_any (GBm.any_id N) kind_of) rts mv rt0 P (GBm.tr_env N G) ib T srt base in
    let lva := LBm.lv C (with_any (GBm.any_id N) kind_of) rts mv true in
    defd orders Ty = true ->
    M01.valid rt lva (GBm.tr_env N G) n Ty v = true -> M01.c01_guard rt (GBm.tr_env N G) n Ty v = true ->
    M01.union_unamb rt lva (GBm.tr_env N G) n Ty v = true ->
    done (mar rt (GBm.tr_env N G) n Ty v) = true ->
    exists f0, forall fm fu, fm >= f0 -> fu >= f0 ->
      api_call rt (GBm.tr_env N G) orders false fm Ty v = mar rt (GBm.tr_env N G) n Ty v /\
      forall w, mar rt (GBm.tr_env N G) n Ty v = Ok w -> api_call rt (GBm.tr_env N G) orders true fu Ty w = Ok v.
Proof.
  intros CL HL HF GO OS n Ty v rt lva.
  exact (capt_C01_roundtrip C (with_any (GBm.any_id N) kind_of) rts mv rt0 P ib T srt base N G orders
           (only_leaf (GBm.any_id N)) CL (only_leaf_sub _ kind_of) GO OS HL HF n Ty v).
Qed.

(* ================================================================== C. non-vacuity: the instance of CapstoneLemmas *)
Definition ex_table : list (ty * list node) :=
  [ (ex_Tn, TL.Props.C05.exOrder ++ [TL.Props.C05.exRoot]); (ex_Ti, ex_order_i) ].
Lemma ex_table_strict_ok : orders_strict_ok ex_table = true.
Proof. vm_compute. reflexivity. Qed.
Lemma ex_orders_strict : orders_strict ex_orders.
Proof. exact (orders_strict_ok_sound ex_table ex_table_strict_ok). Qed.
Lemma ex_defd : defd ex_orders ex_Tn = true /\ defd ex_orders ex_Ti = true.
Proof. split; vm_compute; reflexivity. Qed.

Definition ex_table_u : list (ty * list node) := [ (ex_Tu, ex_order_u) ].
Lemma ex_orders_u_strict : orders_strict ex_orders_u.
Proof. assert (H : orders_strict_ok ex_table_u = true) by (vm_compute; reflexivity). exact (orders_strict_ok_sound ex_table_u H). Qed.

(* the fuel exhibited: 20 (the mechanism is terminal at 20 on the instance, and stays: api_call_mono_le) *)
Lemma ex_total_fuel : forall f, f >= 20 ->
  api_call ex_rt ex_E ex_orders false f ex_Tn ex_value = Ok ex_wire /\
  api_call ex_rt ex_E ex_orders true f ex_Tn ex_wire = Ok ex_value.
Proof.
  intros f Hf.
  pose proof (proj1 (proj2 (proj2 (proj2 (proj2 ex_instance))))) as Hm.
  pose proof (proj2 (proj2 (proj2 (proj2 (proj2 ex_instance))))) as Hu.
  split.
  - rewrite (api_call_mono_le ex_rt ex_E ex_orders false 20 f ex_Tn ex_value Hf); [exact Hm|rewrite Hm; reflexivity].
  - rewrite (api_call_mono_le ex_rt ex_E ex_orders true 20 f ex_Tn ex_wire Hf); [exact Hu|rewrite Hu; reflexivity].
Qed.
Lemma ex_mar_ref : mar ex_rt ex_E 8 ex_Tn ex_value = Ok ex_wire.
Proof. vm_compute. reflexivity. Qed.

(* the total theorem applied to the instance: every hypothesis (orders_strict and defd included) is discharged *)
Lemma ex_total_by_theorem : exists f0, forall fm fu, fm >= f0 -> fu >= f0 ->
  api_call ex_rt ex_E ex_orders false fm ex_Tn ex_value = Ok ex_wire /\
  api_call ex_rt ex_E ex_orders true fu ex_Tn ex_wire = Ok ex_value.
Proof.
  pose proof (capt_C01_roundtrip ex_coding ex_kind ex_rts LBm.ex_ev TL.Model.ScalarsToy.toy_rt
                TL.Model.IoBridgeEq.toy_shape TL.Model.IoBridgeEq.toy_back TL.Model.IoBridgeEq.toy_tshape TL.Model.SerdesToy.toy_rt
                LBm.ex_base ex_N ex_G ex_orders no_noop ex_coding_law (no_noop_sub ex_kind) ex_graph_orders ex_orders_strict
                (fun _ => TL.Proofs.ScalarsToyLemmas.toy_laws) (fun _ => LBp.toy_fold_laws)
                8 ex_Tn ex_value (proj1 ex_defd)
                (proj1 ex_instance) (proj1 (proj2 ex_instance)) (proj1 (proj2 (proj2 ex_instance)))
                (proj1 (proj2 (proj2 (proj2 ex_instance))))) as H.
  change (exists f0, forall fm fu, fm >= f0 -> fu >= f0 ->
            api_call ex_rt ex_E ex_orders false fm ex_Tn ex_value = mar ex_rt ex_E 8 ex_Tn ex_value /\
            forall w, mar ex_rt ex_E 8 ex_Tn ex_value = Ok w -> api_call ex_rt ex_E ex_orders true fu ex_Tn w = Ok ex_value) in H.
  rewrite ex_mar_ref in H. destruct H as [f0 H0]. exists f0. intros fm fu Hfm Hfu.
  destruct (H0 fm fu Hfm Hfu) as [Ha Hb]. split; [exact Ha|exact (Hb ex_wire eq_refl)].
Qed.

(* Optional[int] as a root: the order table of the C08 instance is strict as well, and 20 is a fuel *)
Lemma ex_union_total : orders_strict ex_orders_u /\ defd ex_orders_u ex_Tu = true /\
  forall f, f >= 20 -> api_call ex_rt ex_E ex_orders_u true f ex_Tu (ex_int 5) = Ok (ex_int 5).
Proof.
  split; [exact ex_orders_u_strict|]. split; [vm_compute; reflexivity|]. intros f Hf.
  pose proof (proj1 ex_union_instance) as Hu.
  rewrite (api_call_mono_le ex_rt ex_E ex_orders_u true 20 f ex_Tu (ex_int 5) Hf); [exact Hu|rewrite Hu; reflexivity].
Qed.
