(* Hash-as-produced (Core.hashing / Core.elem_conv): generic facts used by every development on Model/Core.v.
   - an `Ok` result of the hashing conversion is an `Ok` result of the plain conversion with a hashable key, and back;
   - "convert everything, then hash" (the earlier formulation of Core, Model/CoreLate.v) and "hash as produced"
     have the same `Ok` results (the exact region where they differ, `late_hash`, is in Proofs/CoreLate.v). *)
From Coq Require Import List Arith Bool Lia PeanoNat.
Import ListNotations.
Require Import TL.Model.Core TL.Proofs.CoreMono.

Section Hash.
Variable rt : runtime.

Lemma hash_check_ok {A} (key : A -> pv) a b :
  hash_check rt key a = Ok b <-> b = a /\ unhashable rt (key a) = false.
Proof. unfold hash_check. destruct (unhashable rt (key a)); split.
  - intros H; discriminate H. - intros [_ H]; discriminate H.
  - intros H; inversion H; subst; split; reflexivity. - intros [H _]; subst; reflexivity. Qed.

Lemma hashing_ok {A B} (key : B -> pv) (f : A -> res B) x y :
  hashing rt key f x = Ok y <-> f x = Ok y /\ unhashable rt (key y) = false.
Proof. unfold hashing. destruct (f x) as [b|e| |]; cbn [bind].
  - rewrite hash_check_ok. split.
    + intros [H1 H2]; subst; split; [reflexivity|exact H2].
    + intros [H1 H2]; inversion H1; subst; split; [reflexivity|exact H2].
  - split; [intros H; discriminate H|intros [H _]; discriminate H].
  - split; [intros H; discriminate H|intros [H _]; discriminate H].
  - split; [intros H; discriminate H|intros [H _]; discriminate H]. Qed.

Lemma hashing_oof {A B} (key : B -> pv) (f : A -> res B) x :
  hashing rt key f x = OutOfFuel <-> f x = OutOfFuel.
Proof. unfold hashing, hash_check. destruct (f x) as [b|e| |]; cbn [bind];
    [destruct (unhashable rt (key b))| | |]; split; intros H; try discriminate H; reflexivity. Qed.

Lemma hashing_unmodelled {A B} (key : B -> pv) (f : A -> res B) x :
  hashing rt key f x = Unmodelled <-> f x = Unmodelled.
Proof. unfold hashing, hash_check. destruct (f x) as [b|e| |]; cbn [bind];
    [destruct (unhashable rt (key b))| | |]; split; intros H; try discriminate H; reflexivity. Qed.

(* what the hashing conversion is, case by case *)
Lemma hashing_cases {A B} (key : B -> pv) (f : A -> res B) x :
  hashing rt key f x =
  match f x with
  | Ok y => if unhashable rt (key y) then Raise EType else Ok y
  | other => other
  end.
Proof. unfold hashing, hash_check. destruct (f x); reflexivity. Qed.

Lemma hashing_done {A B} (key : B -> pv) (f : A -> res B) x :
  done (hashing rt key f x) = done (f x).
Proof. rewrite hashing_cases. destruct (f x) as [b|e| |]; try reflexivity.
  destruct (unhashable rt (key b)); reflexivity. Qed.

Lemma elem_conv_hashes k (f : pv -> res pv) :
  hashes k = true -> elem_conv rt k f = hashing rt (fun v => v) f.
Proof. unfold elem_conv. intros H; rewrite H; reflexivity. Qed.
Lemma elem_conv_plain k (f : pv -> res pv) : hashes k = false -> elem_conv rt k f = f.
Proof. unfold elem_conv. intros H; rewrite H; reflexivity. Qed.

Lemma elem_conv_ok k (f : pv -> res pv) x y :
  elem_conv rt k f x = Ok y <-> f x = Ok y /\ (hashes k && unhashable rt y = false).
Proof. unfold elem_conv. destruct (hashes k); cbn [andb].
  - apply hashing_ok.
  - split; [intros H; split; [exact H|reflexivity]|intros [H _]; exact H]. Qed.

Lemma elem_conv_done k (f : pv -> res pv) x : done (elem_conv rt k f x) = done (f x).
Proof. unfold elem_conv. destruct (hashes k); [apply hashing_done|reflexivity]. Qed.

Lemma elem_conv_oof k (f : pv -> res pv) x : elem_conv rt k f x = OutOfFuel <-> f x = OutOfFuel.
Proof. unfold elem_conv. destruct (hashes k); [apply hashing_oof|tauto]. Qed.

Lemma elem_conv_ext k (f g : pv -> res pv) x : f x = g x -> elem_conv rt k f x = elem_conv rt k g x.
Proof. unfold elem_conv, hashing. destruct (hashes k); intros H; rewrite H; reflexivity. Qed.
Lemma hashing_ext {A B} (key : B -> pv) (f g : A -> res B) x : f x = g x -> hashing rt key f x = hashing rt key g x.
Proof. unfold hashing. intros H; rewrite H; reflexivity. Qed.

Lemma mapM_ext_in {A B} (f g : A -> res B) l : (forall x, In x l -> f x = g x) -> mapM f l = mapM g l.
Proof. induction l as [|x r IH]; intros H; [reflexivity|]. cbn [mapM].
  rewrite (H x (or_introl eq_refl)). rewrite IH; [reflexivity|]. intros z Hz; apply H; right; exact Hz. Qed.

(* ---- lists ---- *)
Lemma mapM_hashing_ok {A B} (key : B -> pv) (f : A -> res B) l rs :
  mapM (hashing rt key f) l = Ok rs <->
  mapM f l = Ok rs /\ existsb (fun b => unhashable rt (key b)) rs = false.
Proof. revert rs. induction l as [|x r IH]; intros rs; cbn [mapM].
  - split; [intros H; inversion H; subst; split; reflexivity|intros [H _]; exact H].
  - rewrite hashing_cases. destruct (f x) as [y|e| |]; cbn [bind];
      try (split; [intros H; discriminate H|intros [H _]; discriminate H]).
    destruct (unhashable rt (key y)) eqn:Hy; cbn [bind].
    + split; [intros H; discriminate H|]. intros [H1 H2].
      destruct (mapM f r) as [t| | |]; cbn [bind] in H1; try discriminate H1. inversion H1; subst.
      cbn [existsb] in H2. rewrite Hy in H2. discriminate H2.
    + destruct (mapM (hashing rt key f) r) as [t|e| |] eqn:Et.
      * destruct (proj1 (IH t) eq_refl) as [H1 H2]. rewrite H1. cbn [bind]. split.
        -- intros H; inversion H; subst. split; [reflexivity|]. cbn [existsb]. rewrite Hy, H2. reflexivity.
        -- intros [H _]. exact H.
      * cbn [bind]. split; [intros H; discriminate H|]. intros [H1 H2].
        destruct (mapM f r) as [t| | |]; cbn [bind] in H1; try discriminate H1. inversion H1; subst.
        cbn [existsb] in H2. rewrite Hy in H2. cbn [orb] in H2.
        assert (Hc : Raise e = Ok t) by (apply IH; split; [reflexivity|exact H2]). discriminate Hc.
      * cbn [bind]. split; [intros H; discriminate H|]. intros [H1 H2].
        destruct (mapM f r) as [t| | |]; cbn [bind] in H1; try discriminate H1. inversion H1; subst.
        cbn [existsb] in H2. rewrite Hy in H2. cbn [orb] in H2.
        assert (Hc : OutOfFuel = Ok t) by (apply IH; split; [reflexivity|exact H2]). discriminate Hc.
      * cbn [bind]. split; [intros H; discriminate H|]. intros [H1 H2].
        destruct (mapM f r) as [t| | |]; cbn [bind] in H1; try discriminate H1. inversion H1; subst.
        cbn [existsb] in H2. rewrite Hy in H2. cbn [orb] in H2.
        assert (Hc : Unmodelled = Ok t) by (apply IH; split; [reflexivity|exact H2]). discriminate Hc. Qed.

Lemma mapM_elem_conv_ok k (f : pv -> res pv) l rs :
  mapM (elem_conv rt k f) l = Ok rs <->
  mapM f l = Ok rs /\ (hashes k && existsb (unhashable rt) rs = false).
Proof. unfold elem_conv. destruct (hashes k); cbn [andb].
  - apply (mapM_hashing_ok (fun v => v)).
  - split; [intros H; split; [exact H|reflexivity]|intros [H _]; exact H]. Qed.

(* a terminal result of the plain conversions gives a terminal result of the hashing ones *)
Lemma mapM_hashing_done {A B} (key : B -> pv) (f : A -> res B) l :
  done (mapM f l) = true -> done (mapM (hashing rt key f) l) = true.
Proof. induction l as [|x r IH]; [reflexivity|]. cbn [mapM]. rewrite hashing_cases.
  destruct (f x) as [y|e| |]; cbn [bind done]; try (intros H; exact H).
  destruct (unhashable rt (key y)); [reflexivity|]. cbn [bind].
  destruct (mapM f r) as [t|e| |]; cbn [bind done]; intros H; try discriminate H;
    (destruct (mapM (hashing rt key f) r); cbn [bind done] in *; [reflexivity|reflexivity|apply IH; reflexivity|apply IH; reflexivity]).
Qed.

(* never OutOfFuel / Unmodelled where the plain conversion is not *)
Lemma mapM_hashing_oof {A B} (key : B -> pv) (f : A -> res B) l :
  mapM (hashing rt key f) l = OutOfFuel -> exists x, In x l /\ f x = OutOfFuel.
Proof. induction l as [|x r IH]; cbn [mapM]; [intros H; discriminate H|]. rewrite hashing_cases.
  destruct (f x) as [y|e| |] eqn:Ex; cbn [bind]; try (intros H; discriminate H).
  - destruct (unhashable rt (key y)); [intros H; discriminate H|]. cbn [bind].
    destruct (mapM (hashing rt key f) r) as [t|e| |]; cbn [bind]; intros H; try discriminate H.
    destruct (IH eq_refl) as [z [Hz1 Hz2]]. exists z. split; [right; exact Hz1|exact Hz2].
  - intros _. exists x. split; [left; reflexivity|exact Ex]. Qed.

(* ---- the constructors after the hashing conversions: their own test is redundant ---- *)
Lemma construct_seq_after k (f : pv -> res pv) l :
  bind (mapM (elem_conv rt k f) l) (fun rs => construct_seq rt k rs) =
  bind (mapM (elem_conv rt k f) l) (fun rs => Ok (PSeq k (if hashes k then dedupe rt rs [] else rs))).
Proof. destruct (mapM (elem_conv rt k f) l) as [rs|e| |] eqn:Em; try reflexivity. cbn [bind].
  apply mapM_elem_conv_ok in Em. destruct Em as [_ Hh].
  destruct k; cbn [hashes andb] in *; try reflexivity; unfold construct_seq; rewrite Hh; reflexivity. Qed.

Lemma construct_map_after {A} k (f : A -> res (pv * pv)) l :
  bind (mapM (hashing rt fst f) l) (fun rs => construct_map rt k rs) =
  bind (mapM (hashing rt fst f) l) (fun rs => Ok (PDict k (dict_of rt rs))).
Proof. destruct (mapM (hashing rt fst f) l) as [rs|e| |] eqn:Em; try reflexivity. cbn [bind].
  apply mapM_hashing_ok in Em. destruct Em as [_ Hh]. unfold construct_map. rewrite Hh. reflexivity. Qed.

(* ---- same Ok results as "convert everything, then hash" ---- *)
Lemma seq_step_ok_iff k (f : pv -> res pv) l y :
  bind (mapM (elem_conv rt k f) l) (fun rs => construct_seq rt k rs) = Ok y <->
  bind (mapM f l) (fun rs => construct_seq rt k rs) = Ok y.
Proof. split.
  - destruct (mapM (elem_conv rt k f) l) as [rs|e| |] eqn:Em; cbn [bind]; try (intros H; discriminate H).
    apply mapM_elem_conv_ok in Em. destruct Em as [Em _]. rewrite Em. intros H; exact H.
  - destruct (mapM f l) as [rs|e| |] eqn:Em; cbn [bind]; try (intros H; discriminate H). intros H.
    assert (Hh : hashes k && existsb (unhashable rt) rs = false).
    { destruct k; cbn [hashes andb]; try reflexivity; unfold construct_seq in H;
        destruct (existsb (unhashable rt) rs); [discriminate H|reflexivity|discriminate H|reflexivity]. }
    rewrite (proj2 (mapM_elem_conv_ok k f l rs) (conj Em Hh)). exact H. Qed.

Lemma map_step_ok_iff {A} k (f : A -> res (pv * pv)) l y :
  bind (mapM (hashing rt fst f) l) (fun rs => construct_map rt k rs) = Ok y <->
  bind (mapM f l) (fun rs => construct_map rt k rs) = Ok y.
Proof. split.
  - destruct (mapM (hashing rt fst f) l) as [rs|e| |] eqn:Em; cbn [bind]; try (intros H; discriminate H).
    apply mapM_hashing_ok in Em. destruct Em as [Em _]. rewrite Em. intros H; exact H.
  - destruct (mapM f l) as [rs|e| |] eqn:Em; cbn [bind]; try (intros H; discriminate H). intros H.
    assert (Hh : existsb (fun kv => unhashable rt (fst kv)) rs = false).
    { unfold construct_map in H. destruct (existsb (fun kv => unhashable rt (fst kv)) rs); [discriminate H|reflexivity]. }
    rewrite (proj2 (mapM_hashing_ok fst f l rs) (conj Em Hh)). exact H. Qed.

End Hash.
