(* Proofs about Model/Serdes.v (property C14). *)
From Coq Require Import List ZArith NArith Bool Lia.
Import ListNotations.
Require Import TL.Model.Serdes TL.Model.SerdesToy.

(* ------------------------------------------------------------ induction on heads *)
Section HeadInd.
Variable P : head -> Prop.
Hypothesis Hbase : forall h, (forall ms, h <> HUnion ms) -> P h.
Hypothesis Hunion : forall ms, Forall P ms -> P (HUnion ms).
Lemma head_ind' : forall h, P h.
Proof.
  fix IH 1. intros h. destruct h as [ | | | | | | | | | | | | | | | | | | | vals | ms];
    try (apply Hbase; intros ms0 Hc; discriminate Hc).
  apply Hunion. induction ms as [|m r IHr]; constructor; [apply IH | exact IHr].
Qed.
End HeadInd.

(* ------------------------------------------------------------ decode *)
Section WithRt.
Variable rt : Runtime.

Lemma decode_kinds : forall k1 k2 p, is_bin k1 = true -> is_bin k2 = true ->
  decode rt (PText k1 p) = decode rt (PText k2 p).
Proof. intros k1 k2 p H1 H2. destruct k1; destruct k2; try discriminate; reflexivity. Qed.

Lemma decode_nontext : forall v, is_text v = false -> decode rt v = Ok v.
Proof. intros v H. destruct v; try reflexivity. discriminate H. Qed.

Lemma load_nontext : forall f v, is_text v = false -> load_gen rt f v = Ok v.
Proof. intros f v H. destruct v; try reflexivity. discriminate H. Qed.

Hypothesis L : RuntimeLaws rt.

(* payload of a carrier decodes to the str it carries *)
Lemma decode_text_carrier : forall k s, encodable s = true ->
  match carrier rt k s with PText k' p => decode_text rt k' p = Ok s | _ => False end.
Proof.
  intros k s He. destruct k; cbn [carrier]; unfold decode_text; cbn [tobytes];
    try reflexivity; exact (utf8_rt rt L s He).
Qed.

Lemma decode_carrier : forall k s, encodable s = true -> decode rt (carrier rt k s) = Ok (PStr s).
Proof.
  intros k s He. pose proof (decode_text_carrier k s He) as H.
  destruct k; cbn [carrier] in *; unfold decode; rewrite H; reflexivity.
Qed.

(* ------------------------------------------------------------ strload / load *)
Lemma strload_bin : forall k s, is_bin k = true -> encodable s = true ->
  strload rt k (utf8_encode rt s) = strload rt CStr s.
Proof.
  intros k s Hk He. unfold strload, strload_gen.
  assert (Hn : normalise k = CBytes) by (destruct k; try reflexivity; discriminate Hk).
  rewrite Hn. cbn [normalise hash_check bind strload_body]. unfold strload_body_dec.
  unfold decode_text. cbn [tobytes].
  rewrite (utf8_rt rt L s He). reflexivity.
Qed.

Lemma load_carrier : forall k s, encodable s = true ->
  load rt (carrier rt k s) = load rt (PStr s).
Proof.
  intros k s He. destruct k; cbn [carrier]; try reflexivity;
    unfold load, load_gen; (apply strload_bin; [reflexivity | exact He]).
Qed.

Lemma strload_json_str : forall f s r, json_loads_str rt s = Ok r -> strload_gen rt f CStr s = Ok r.
Proof.
  intros f s r H. unfold strload_gen. destruct f; cbn [normalise hash_check bind strload_body];
    unfold strload_body_dec, strload_body_raw, decode_text; cbn [tobytes bind json_loads]; rewrite H; reflexivity.
Qed.

Lemma load_json : forall k s r, encodable s = true -> json_loads_str rt s = Ok r ->
  load rt (carrier rt k s) = Ok r /\
  match carrier rt k s with PText k' p => strload rt k' p = Ok r | _ => False end.
Proof.
  intros k s r He H. split.
  - rewrite (load_carrier k s He). exact (strload_json_str true s r H).
  - destruct k; cbn [carrier];
      [ exact (strload_json_str true s r H)
      | rewrite strload_bin; [exact (strload_json_str true s r H) | reflexivity | exact He] .. ].
Qed.

(* bytes-like input of any content: what the decoder returns for the text the bytes decode to;
   bytes that are not UTF-8 raise the codec's error whatever a decoder would make of them *)
Lemma strload_json_bin : forall k b s r, is_bin k = true -> utf8_decode rt b = Ok s -> json_loads_str rt s = Ok r ->
  strload rt k b = Ok r.
Proof.
  intros k b s r Hk Hd H. unfold strload, strload_gen.
  assert (Hn : normalise k = CBytes) by (destruct k; try reflexivity; discriminate Hk).
  rewrite Hn. cbn [hash_check bind strload_body]. unfold strload_body_dec, decode_text. cbn [tobytes].
  rewrite Hd. cbn [bind]. rewrite H. reflexivity.
Qed.
Lemma strload_undecodable : forall k b e, is_bin k = true -> utf8_decode rt b = Raise e -> strload rt k b = Raise e.
Proof.
  intros k b e Hk Hd. unfold strload, strload_gen.
  assert (Hn : normalise k = CBytes) by (destruct k; try reflexivity; discriminate Hk).
  rewrite Hn. cbn [hash_check bind strload_body]. unfold strload_body_dec, decode_text. cbn [tobytes].
  rewrite Hd. reflexivity.
Qed.

Lemma load_plain_str : forall s e1 e2,
  json_loads_str rt s = Raise e1 -> literal_eval rt s = Raise e2 -> load rt (PStr s) = Ok (PStr s).
Proof.
  intros s e1 e2 H1 H2. unfold load, load_gen, strload_gen. cbn [normalise hash_check bind strload_body].
  unfold strload_body_dec, decode_text. cbn [tobytes bind]. rewrite H1.
  rewrite (json_errors_value rt L s e1 H1). unfold literal_step.
  rewrite H2. rewrite (literal_errors_doc rt L s e2 H2). reflexivity.
Qed.

Lemma load_plain_text : forall k s e1 e2, encodable s = true ->
  json_loads_str rt s = Raise e1 -> literal_eval rt s = Raise e2 ->
  load rt (carrier rt k s) = Ok (PStr s).
Proof. intros k s e1 e2 He H1 H2. rewrite (load_carrier k s He). exact (load_plain_str s e1 e2 H1 H2). Qed.

(* the Python-literal form of m: whatever the JSON decoder makes of it is m, else literal_eval gives m *)
Lemma load_literal_str : forall t m,
  (forall r, json_loads_str rt t = Ok r -> r = m) -> literal_eval rt t = Ok m ->
  load rt (PStr t) = Ok m.
Proof.
  intros t m Hj Hl. unfold load, load_gen, strload_gen. cbn [normalise hash_check bind strload_body].
  unfold strload_body_dec, decode_text. cbn [tobytes bind]. destruct (json_loads_str rt t) as [r|e] eqn:E.
  - rewrite (Hj r eq_refl). reflexivity.
  - rewrite (json_errors_value rt L t e E). unfold literal_step. rewrite Hl. reflexivity.
Qed.

(* ------------------------------------------------------------ routine heads *)
Variable rest : head -> pv -> res pv.
Variable whole : head -> pv -> res pv.
Variable sup : exn -> bool.

Fixpoint first_ok (l : list (res pv)) : res pv :=
  match l with
  | [] => Raise EValue
  | r :: t => match r with Ok x => Ok x | Raise e => if sup e then first_ok t else Raise e end
  end.

Lemma entry_union : forall f ms v,
  entry_gen rt rest whole sup f (HUnion ms) v = first_ok (map (fun m => entry_gen rt rest whole sup f m v) ms).
Proof.
  intros f ms v. induction ms as [|m r IH]; [reflexivity|].
  simpl. simpl in IH. rewrite IH. reflexivity.
Qed.

Lemma guard_union : forall ms, c14_guard (HUnion ms) = forallb c14_guard ms.
Proof.
  intros ms. induction ms as [|m r IH]; [reflexivity|].
  simpl. simpl in IH. rewrite IH. reflexivity.
Qed.

Lemma scalar_eq_bin_false : forall k p b, is_bin k = true -> no_bin_value b = true ->
  scalar_eq (PText k p) b = false.
Proof.
  intros k p b Hk Hb. destruct k; try discriminate Hk;
    destruct b as [ | | | | | k2 q | | | | | ]; try reflexivity;
    destruct k2; try discriminate Hb; reflexivity.
Qed.

Lemma in_values_bin_false : forall k p vals, is_bin k = true -> forallb no_bin_value vals = true ->
  in_values (PText k p) vals = false.
Proof.
  intros k p vals Hk. induction vals as [|b r IH]; intros Hv; [reflexivity|].
  cbn [forallb] in Hv. apply andb_prop in Hv. destruct Hv as [Hb Hr].
  unfold in_values. cbn [existsb]. rewrite (scalar_eq_bin_false k p b Hk Hb).
  exact (IH Hr).
Qed.

Lemma list_N_eqb_true : forall a b, list_N_eqb a b = true -> a = b.
Proof. intros a b. unfold list_N_eqb. destruct (list_eq_dec N.eq_dec a b); [auto|discriminate]. Qed.

Lemma entry_literal_carrier : forall vals k s, encodable s = true ->
  forallb no_bin_value vals = true ->
  entry rt rest whole sup (HLiteral vals) (carrier rt k s) = entry rt rest whole sup (HLiteral vals) (PStr s).
Proof.
  intros vals k s He Hnb. pose proof (decode_carrier k s He) as Hd.
  pose proof (load_carrier k s He) as Hl. unfold load in Hl.
  destruct k; try reflexivity; cbn [carrier] in *; unfold entry; cbn [entry_gen];
    rewrite in_values_bin_false by first [reflexivity | exact Hnb];
    rewrite Hd, Hl; cbn [bind];
    (destruct (in_values (PStr s) vals) eqn:Ein; [reflexivity|]);
    unfold decode, decode_text; cbn [tobytes bind]; rewrite Ein; reflexivity.
Qed.

(* the text of a str member is that member, in every carrier *)
Lemma literal_member_carriers : forall vals k s, encodable s = true ->
  forallb no_bin_value vals = true -> in_values (PStr s) vals = true ->
  entry rt rest whole sup (HLiteral vals) (carrier rt k s) = Ok (PStr s).
Proof.
  intros vals k s He Hnb Hin. rewrite (entry_literal_carrier vals k s He Hnb).
  unfold entry. cbn [entry_gen]. rewrite Hin. reflexivity.
Qed.

Lemma entry_enum_carrier : forall k s, encodable s = true ->
  entry rt rest whole sup HEnum (carrier rt k s) = entry rt rest whole sup HEnum (PStr s).
Proof.
  intros k s He. pose proof (decode_text_carrier k s He) as Hd.
  pose proof (load_carrier k s He) as Hl. unfold load in Hl.
  destruct k; try reflexivity; cbn [carrier] in *; unfold entry; cbn [entry_gen];
    rewrite Hd, Hl; unfold decode_text; cbn [tobytes]; reflexivity.
Qed.

Lemma entry_carrier : forall h k s, encodable s = true -> c14_guard h = true ->
  entry rt rest whole sup h (carrier rt k s) = entry rt rest whole sup h (PStr s).
Proof.
  intros h k s He. revert h. apply (head_ind' (fun h => c14_guard h = true ->
    entry rt rest whole sup h (carrier rt k s) = entry rt rest whole sup h (PStr s))).
  - intros h Hnu Hg. pose proof (decode_text_carrier k s He) as Hd.
    pose proof (load_carrier k s He) as Hl.
    destruct h as [ | | | | | | | | | | | | | | | | | | | vals | ms];
      try discriminate Hg;
      try (destruct k; cbn [carrier] in *; unfold entry; cbn [entry_gen];
           try rewrite Hd; reflexivity);
      try (unfold entry; cbn [entry_gen]; unfold load in Hl; rewrite Hl; reflexivity).
    + exact (entry_enum_carrier k s He).
    + exact (entry_literal_carrier vals k s He Hg).
    + exfalso. exact (Hnu ms eq_refl).
  - intros ms HF Hg. unfold entry. rewrite !entry_union. rewrite guard_union in Hg.
    f_equal. induction HF as [|m r Hm HF IH]; [reflexivity|].
    cbn [forallb] in Hg. apply andb_prop in Hg. destruct Hg as [Hgm Hgr].
    cbn [map]. f_equal; [exact (Hm Hgm) | exact (IH Hgr)].
Qed.

(* a load-first routine sees only what load makes of its input *)
Lemma entry_loaded : forall h v m, load_first h = true -> load rt v = Ok m -> is_text m = false ->
  entry rt rest whole sup h v = entry rt rest whole sup h m.
Proof.
  intros h v m Hh Hv Hm. unfold load in Hv.
  destruct h; try discriminate Hh; unfold entry; cbn [entry_gen];
    rewrite Hv, (load_nontext true m Hm); reflexivity.
Qed.

Lemma entry_json_text : forall h k m, load_first h = true -> is_text m = false ->
  encodable (json_dumps rt m) = true ->
  json_loads_str rt (json_dumps rt m) = Ok m ->
  entry rt rest whole sup h (carrier rt k (json_dumps rt m)) = entry rt rest whole sup h m.
Proof.
  intros h k m Hh Hm He Hj. apply (entry_loaded h _ m Hh); [|exact Hm].
  exact (proj1 (load_json k _ m He Hj)).
Qed.

Lemma entry_literal_text : forall h k m, load_first h = true -> is_text m = false ->
  encodable (py_repr rt m) = true ->
  (forall r, json_loads_str rt (py_repr rt m) = Ok r -> r = m) ->
  literal_eval rt (py_repr rt m) = Ok m ->
  entry rt rest whole sup h (carrier rt k (py_repr rt m)) = entry rt rest whole sup h m.
Proof.
  intros h k m Hh Hm He Hj Hl. apply (entry_loaded h _ m Hh); [|exact Hm].
  rewrite (load_carrier k _ He). exact (load_literal_str _ m Hj Hl).
Qed.

(* ------------------------------------------------------------ the pinned code *)
Lemma pinned_bytearray : forall h p, load_first h = true ->
  entry_pinned rt rest whole sup h (PText CBytearray p) = Raise EType.
Proof. intros h p Hh. destruct h; try discriminate Hh; reflexivity. Qed.

Lemma pinned_memview_rw : forall h p, load_first h = true ->
  entry_pinned rt rest whole sup h (PText CMemviewRW p) = Raise EValue.
Proof. intros h p Hh. destruct h; try discriminate Hh; reflexivity. Qed.

End WithRt.

(* ------------------------------------------------------------ the toy runtime *)
Lemma toy_json_errors : forall s e, toy_json s = Raise e -> e = EValue.
Proof.
  intros s e. unfold toy_json. destruct (list_N_eqb s t_list12); [discriminate|].
  destruct (list_N_eqb s t_one); [discriminate|]. intros H. injection H as H. symmetry. exact H.
Qed.

Lemma toy_laws : RuntimeLaws toy_rt.
Proof.
  constructor.
  - intros s _. reflexivity.
  - intros s e H. cbn in H. rewrite (toy_json_errors s e H). reflexivity.
  - intros s e H. cbn in H. injection H as H. subst e. reflexivity.
Qed.

(* the full statement fails on the pinned code: a bytearray carrier of the JSON text [1,2] *)
Lemma refuted_bytearray :
  exists (rt : Runtime) (rest whole : head -> pv -> res pv) (sup : exn -> bool) (h : head) (s : str),
    RuntimeLaws rt /\ encodable s = true /\ load_first h = true /\
    entry_pinned rt rest whole sup h (PStr s) = rest h (PList [PInt 1; PInt 2]) /\
    entry_pinned rt rest whole sup h (carrier rt CBytearray s) = Raise EType /\
    entry_pinned rt rest whole sup h (carrier rt CMemviewRW s) = Raise EValue /\
    entry_pinned rt rest whole sup h (carrier rt CBytearray s) <> entry_pinned rt rest whole sup h (PStr s).
Proof.
  exists toy_rt, toy_rest, toy_whole, union_suppressed_pinned, HSubIterable, t_list12.
  split; [exact toy_laws|]. vm_compute. repeat split; try reflexivity. intros H; discriminate H.
Qed.

Lemma load_first_guard : forall h, load_first h = true -> c14_guard h = true.
Proof. intros h H. destruct h; try discriminate H; reflexivity. Qed.

(* the full statement: holds for the repaired code, fails without the strload repair *)
Lemma full_holds : C14_full true.
Proof. intros rt L rest whole sup h k s Hg He. exact (entry_carrier rt L rest whole sup h k s He Hg). Qed.

Lemma full_pinned_refuted : ~ C14_full false.
Proof.
  destruct refuted_bytearray as (rt & rest & whole & sup & h & s & L & He & Hh & _ & _ & _ & Hne).
  intros F. apply Hne. unfold entry_pinned.
  exact (F rt L rest whole sup h CBytearray s (load_first_guard h Hh) He).
Qed.

(* the pinned strload lets MemoryError / RecursionError of literal_eval escape *)
Lemma refuted_resource :
  exists (rt : Runtime) (s : str) (e : exn),
    json_loads_str rt s = Raise EValue /\ literal_eval rt s = Raise e /\
    load_gen rt false (PStr s) = Raise e /\ load_gen rt true (PStr s) = Ok (PStr s).
Proof.
  exists {| utf8_encode := fun s => s; utf8_decode := fun b => Ok b;
            json_loads_str := fun _ => Raise EValue; json_loads_bin := fun _ => Raise EValue;
            literal_eval := fun _ => Raise EMemory; json_dumps := fun _ => []; py_repr := fun _ => [] |},
         t_abc, EMemory.
  vm_compute. repeat split; reflexivity.
Qed.

(* non-vacuity instances *)
Lemma toy_guard_union : c14_guard (HUnion [HNumber; HLiteral [PStr t_abc; PInt 1]; HSubIterable]) = true.
Proof. vm_compute. reflexivity. Qed.
Lemma toy_json_text : json_loads_str toy_rt (json_dumps toy_rt v_list12) = Ok v_list12.
Proof. vm_compute. reflexivity. Qed.
Lemma toy_plain : json_loads_str toy_rt t_abc = Raise EValue /\ literal_eval toy_rt t_abc = Raise ESyntax.
Proof. vm_compute. split; reflexivity. Qed.
Lemma toy_literal_member : forallb no_bin_value [PStr t_one; PInt 1] = true /\ in_values (PStr t_one) [PStr t_one; PInt 1] = true /\
  load toy_rt (PStr t_one) = Ok (PInt 1).
Proof. vm_compute. repeat split; reflexivity. Qed.
