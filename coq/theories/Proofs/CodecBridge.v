(* Proofs/CodecBridge.v -- the end-to-end instance of the codec model (Model/Codec.v) on the core value
   model (Model/Core.v) and the JSON wire model (Model/Json.v).

   Part 1 (definitions of the bridge; there is no Model/ file for it):
     obj          Python objects of the codec layer: a core value / wire value (OVal) or an encoded document (OBytes)
     tr           core wire value -> JSON wire value.  Atoms go through a table atab : atom -> jv (a scalar), the
                  str equal to field name f through ktab f; PSeq KList -> JList, PDict KDict with str keys -> JDict;
                  everything else (tuples, sets, instances, atoms the table does not know) is not JSON data
     untr         what the decoder builds from a JSON value: unat gives the atom / key object for a scalar
     TableLaws    the stated injectivity of the tables: unat inverts atab and ktab, their images are inside jv_ok
     mk_mar/mk_unm  marshaller(T) / unmarshaller(T) := Core.mar / Core.unm at given fuels
     json_dumps/json_loads  compat.json.dumps / loads := json_write st / json_read_gen strict surr through tr / untr,
                  dumps raising outside the encoder's domain dom, loads building dicts like Python (jv_norm)
   Part 2: lemmas; the theorems are restated in Props/C02Bridge.v. *)
From Coq Require Import List ZArith NArith Bool Lia.
Import ListNotations.
Require Import TL.Model.Core TL.Model.CoreC01 TL.Proofs.CoreC01.
Require TL.Model.Codec TL.Proofs.CodecLemmas TL.Props.C01 TL.Props.C02.
Require Import TL.Model.Json TL.Model.JsonEq TL.Proofs.JsonLemmas.

(* ---------------------------------------------------------------- definitions *)
Inductive obj := OVal (v : pv) | OBytes (b : list N).

Definition omap {A B} (f : A -> option B) : list A -> option (list B) :=
  fix go (l : list A) : option (list B) :=
    match l with
    | [] => Some []
    | x :: r => match f x, go r with Some y, Some t => Some (y :: t) | _, _ => None end
    end.
Definition is_scalar_jv (j : jv) : bool := match j with JList _ | JDict _ => false | _ => true end.

Definition fresh (k : list N) (d : list (list N * jv)) : bool :=
  forallb (fun kx => negb (text_eqb k (fst kx))) d.
Fixpoint nodup_pairs (d : list (list N * jv)) : bool :=
  match d with [] => true | kx :: r => fresh (fst kx) r && nodup_pairs r end.
(* no JSON object of j repeats a key (true of everything built from a Python dict) *)
Fixpoint nodup_keys (j : jv) : bool :=
  match j with
  | JList l => forallb nodup_keys l
  | JDict d => nodup_pairs d && forallb (fun kx => nodup_keys (snd kx)) d
  | _ => true
  end.

Definition conv_exn (e : exn) : Codec.exn :=
  match e with
  | EValue => Codec.EValue | EType => Codec.EType | ESyntax => Codec.ESyntax | EAttribute => Codec.EAttribute
  | EKey => Codec.EKey | EArith => Codec.EArith | EStopIter => Codec.EStopIter | EUnicode => Codec.EUnicode
  | ERecursion => Codec.ERecursion | EOther => Codec.EOther
  end.
(* OutOfFuel / Unmodelled are not behaviours of the implementation: EMiss, excluded by the theorems' hypotheses *)
Definition lift (r : res pv) : Codec.res obj :=
  match r with Ok v => Codec.Ok (OVal v) | Raise e => Codec.Raise (conv_exn e) | _ => Codec.Raise Codec.EMiss end.

Section Bridge.
Variable atab : nat -> option jv.
Variable ktab : nat -> option (list N).
Variable unat : jv -> pv.

Fixpoint tr (w : pv) : option jv :=
  match w with
  | PAtom a => match atab a with Some j => if is_scalar_jv j then Some j else None | None => None end
  | PKey f => option_map JStr (ktab f)
  | PSeq KList l => option_map JList (omap tr l)
  | PDict KDict kvs =>
      option_map JDict
        (omap (fun kv => match kv with
                         | (k, x) => match tr k, tr x with Some (JStr s), Some y => Some (s, y) | _, _ => None end
                         end) kvs)
  | _ => None
  end.

Fixpoint untr (j : jv) : pv :=
  match j with
  | JList l => PSeq KList (map untr l)
  | JDict d => PDict KDict (map (fun kx => match kx with (k, x) => (unat (JStr k), untr x) end) d)
  | _ => unat j
  end.

Record TableLaws : Prop := {
  atom_law : forall a j, atab a = Some j -> is_scalar_jv j = true -> jv_ok j = true /\ unat j = PAtom a;
  key_law : forall f s, ktab f = Some s -> str_ok s = true /\ unat (JStr s) = PKey f
}.

Variable rt : runtime.
Variable E : env.
Variable st : style.
Variables strict surr : bool.
Variable dom : jv -> bool.               (* where the encoder does not raise (orjson: orjson_dom) *)
Variable isb : ty -> bool.
Variable class_of : obj -> ty.

Definition routine_of (f : pv -> res pv) : Codec.routine obj :=
  fun o => match o with OVal v => lift (f v) | OBytes _ => Codec.Raise Codec.EType end.
Definition mk_mar (fm : nat) (T : ty) : Codec.res (Codec.routine obj) := Codec.Ok (routine_of (mar rt E fm T)).
Definition mk_unm (fu : nat) (T : ty) : Codec.res (Codec.routine obj) := Codec.Ok (routine_of (unm rt E fu T)).
Definition json_dumps : Codec.routine obj :=
  fun o => match o with
           | OVal w => match tr w with
                       | Some j => if dom j then Codec.Ok (OBytes (json_write st j)) else Codec.Raise Codec.EType
                       | None => Codec.Raise Codec.EType
                       end
           | OBytes _ => Codec.Raise Codec.EType
           end.
Definition json_loads : Codec.routine obj :=
  fun o => match o with
           | OBytes b => match json_read_gen strict surr b with
                         | Some j => Codec.Ok (OVal (untr (jv_norm j)))
                         | None => Codec.Raise Codec.EValue
                         end
           | OVal _ => Codec.Raise Codec.EType
           end.

Definition enc (fm fu : nat) (T : ty) (v : pv) : Codec.res obj :=
  Codec.codec_encode ty obj (mk_mar fm) (mk_unm fu) isb json_dumps json_loads T None None (OVal v).
Definition dec (fm fu : nat) (T : ty) (b : obj) : Codec.res obj :=
  Codec.codec_decode ty obj (mk_mar fm) (mk_unm fu) isb json_dumps json_loads T None None b.

(* ---------------------------------------------------------------- lemmas *)
Hypothesis TL : TableLaws.

Lemma omap_Forall {A B} (f : A -> option B) (P : A -> B -> Prop) l : forall l',
  Forall (fun x => forall y, f x = Some y -> P x y) l -> omap f l = Some l' -> Forall2 P l l'.
Proof.
  induction l as [|x r IH]; intros l' HF H; cbn in H.
  - inversion H. constructor.
  - inversion HF as [|x' r' Hx Hr]; subst. destruct (f x) as [y|] eqn:Ex; [|discriminate].
    destruct (omap f r) as [t|] eqn:Er; [|discriminate]. inversion H; subst.
    constructor; [apply Hx; reflexivity | apply IH; [exact Hr | reflexivity]].
Qed.

Lemma untr_tr w : forall j, tr w = Some j -> untr j = w.
Proof.
  induction w as [a | f | k l IH | k l IH | c l IH | c l IH] using pv_ind'; intros j H; cbn [tr] in H.
  - destruct (atab a) as [j0|] eqn:Ea; [|discriminate]. destruct (is_scalar_jv j0) eqn:Es; [|discriminate].
    inversion H; subst. destruct (atom_law TL a j Ea Es) as [_ Hu]. destruct j; try discriminate; exact Hu.
  - destruct (ktab f) as [s|] eqn:Ek; [|discriminate]. inversion H; subst. exact (proj2 (key_law TL f s Ek)).
  - destruct k; try discriminate. destruct (omap tr l) as [l'|] eqn:El; [|discriminate]. inversion H; subst.
    cbn [untr]. f_equal.
    assert (F2 : Forall2 (fun x y => untr y = x) l l').
    { apply (omap_Forall tr _ l l'); [|exact El]. revert IH. apply Forall_impl. intros x Hx y Hy. apply Hx, Hy. }
    clear El IH H. induction F2 as [|x y r t Hxy _ IHr]; [reflexivity|]. cbn [map]. rewrite Hxy, IHr. reflexivity.
  - destruct k; try discriminate.
    destruct (omap _ l) as [d|] eqn:El; [|discriminate]. inversion H; subst. cbn [untr]. f_equal.
    assert (F2 : Forall2 (fun kv kx => (unat (JStr (fst kx)), untr (snd kx)) = kv) l d).
    { eapply (omap_Forall _ _ l d); [|exact El]. revert IH. apply Forall_impl. intros [k x] [Hk Hx] [s y] Hy.
      cbn [fst snd] in *. destruct (tr k) as [jk|] eqn:Ek; [|discriminate]. destruct jk; try discriminate.
      destruct (tr x) as [jx|] eqn:Ex; [|discriminate]. inversion Hy; subst.
      specialize (Hk _ eq_refl). cbn [untr] in Hk. rewrite Hk, (Hx _ eq_refl). reflexivity. }
    clear El IH H. induction F2 as [|kv [s y] r t Hxy _ IHr]; [reflexivity|]. cbn [map fst snd] in *.
    rewrite Hxy, IHr. reflexivity.
  - discriminate.
  - discriminate.
Qed.

Lemma tr_injective a b j : tr a = Some j -> tr b = Some j -> a = b.
Proof. intros Ha Hb. rewrite <- (untr_tr a j Ha). apply untr_tr, Hb. Qed.

Lemma tr_ok w : forall j, tr w = Some j -> jv_ok j = true.
Proof.
  induction w as [a | f | k l IH | k l IH | c l IH | c l IH] using pv_ind'; intros j H; cbn [tr] in H.
  - destruct (atab a) as [j0|] eqn:Ea; [|discriminate]. destruct (is_scalar_jv j0) eqn:Es; [|discriminate].
    inversion H; subst. exact (proj1 (atom_law TL a j Ea Es)).
  - destruct (ktab f) as [s|] eqn:Ek; [|discriminate]. inversion H; subst. exact (proj1 (key_law TL f s Ek)).
  - destruct k; try discriminate. destruct (omap tr l) as [l'|] eqn:El; [|discriminate]. inversion H; subst.
    cbn [jv_ok].
    assert (F2 : Forall2 (fun _ y => jv_ok y = true) l l').
    { apply (omap_Forall tr _ l l'); [|exact El]. revert IH. apply Forall_impl. intros x Hx y Hy. apply Hx, Hy. }
    clear El IH H. induction F2 as [|x y r t Hxy _ IHr]; [reflexivity|]. cbn [forallb]. rewrite Hxy, IHr. reflexivity.
  - destruct k; try discriminate.
    destruct (omap _ l) as [d|] eqn:El; [|discriminate]. inversion H; subst. cbn [jv_ok].
    assert (F2 : Forall2 (fun _ kx => str_ok (fst kx) && jv_ok (snd kx) = true) l d).
    { eapply (omap_Forall _ _ l d); [|exact El]. revert IH. apply Forall_impl. intros [k x] [Hk Hx] [s y] Hy.
      cbn [fst snd] in *. destruct (tr k) as [jk|] eqn:Ek; [|discriminate]. destruct jk; try discriminate.
      destruct (tr x) as [jx|] eqn:Ex; [|discriminate]. inversion Hy; subst.
      specialize (Hk _ eq_refl). cbn [jv_ok] in Hk. rewrite Hk, (Hx _ eq_refl). reflexivity. }
    clear El IH H. induction F2 as [|kv kx r t Hxy _ IHr]; [reflexivity|]. cbn [forallb]. rewrite Hxy, IHr. reflexivity.
  - discriminate.
  - discriminate.
Qed.

(* Python's dict(pairs) is the identity on pairs with distinct keys *)
Lemma text_eqb_sym a : forall b, text_eqb a b = text_eqb b a.
Proof.
  unfold text_eqb. induction a as [|x a IH]; intros [|y b]; cbn [list_eqb]; try reflexivity.
  rewrite N.eqb_sym, IH. reflexivity.
Qed.
Lemma dict_set_fresh d k v : fresh k d = true -> dict_set d k v = d ++ [(k, v)].
Proof.
  induction d as [|[k' v'] d IH]; cbn [fresh forallb dict_set fst List.app]; intros H; [reflexivity|].
  apply andb_prop in H. destruct H as [Hk Hd]. apply negb_true_iff in Hk. rewrite Hk. f_equal. apply IH, Hd.
Qed.
Lemma fresh_app k d d' : fresh k (d ++ d') = fresh k d && fresh k d'.
Proof. unfold fresh. apply forallb_app. Qed.
Lemma dict_fold d : forall acc, nodup_pairs d = true -> forallb (fun kx => fresh (fst kx) acc) d = true ->
  fold_left (fun a kv => dict_set a (fst kv) (snd kv)) d acc = acc ++ d.
Proof.
  induction d as [|[k v] d IH]; intros acc Hn Hf; cbn [fold_left]; [rewrite List.app_nil_r; reflexivity|].
  cbn [nodup_pairs forallb fst snd] in *. apply andb_prop in Hn. destruct Hn as [Hk Hn].
  apply andb_prop in Hf. destruct Hf as [Hka Hf].
  rewrite (dict_set_fresh acc k v Hka). rewrite IH; [rewrite <- List.app_assoc; reflexivity | exact Hn |].
  clear IH Hn. induction d as [|[k' v'] d IHd]; [reflexivity|].
  cbn [forallb fst fresh] in *. apply andb_prop in Hk. destruct Hk as [Hkk' Hk].
  apply andb_prop in Hf. destruct Hf as [Hk'a Hf].
  rewrite fresh_app, Hk'a. cbn [fresh forallb fst]. rewrite text_eqb_sym, Hkk'. cbn [andb].
  apply IHd; assumption.
Qed.
Lemma dict_of_nodup d : nodup_pairs d = true -> dict_of d = d.
Proof.
  intros H. unfold dict_of. rewrite dict_fold; [reflexivity | exact H |].
  clear H. induction d as [|kx d IH]; [reflexivity|]. cbn [forallb]. rewrite IH. reflexivity.
Qed.
Lemma jv_norm_id j : nodup_keys j = true -> jv_norm j = j.
Proof.
  induction j as [|b|z|t|s|l IH|d IH] using jv_ind'; intros H; try reflexivity; cbn [jv_norm nodup_keys] in *.
  - f_equal. induction l as [|x l IHl]; [reflexivity|]. cbn [forallb map] in *.
    apply andb_prop in H. destruct H as [Hx Hl]. inversion IH as [|x' l' Px Pl]; subst.
    rewrite (Px Hx), (IHl Pl Hl). reflexivity.
  - apply andb_prop in H. destruct H as [Hn Hd].
    assert (Hm : map (fun kx => (fst kx, jv_norm (snd kx))) d = d).
    { clear Hn. induction d as [|[k x] d IHd]; [reflexivity|]. cbn [forallb map fst snd] in *.
      apply andb_prop in Hd. destruct Hd as [Hx Hd]. inversion IH as [|kx' d' Px Pd]; subst. cbn [snd] in Px.
      rewrite (Px Hx), (IHd Pd Hd). reflexivity. }
    rewrite Hm, (dict_of_nodup d Hn). reflexivity.
Qed.

(* ---------------------------------------------------------------- the encoder law, with no hypothesis on the JSON layer *)
Hypothesis Hsp : forallb is_ws (st_sp st) = true.

Lemma encoder_law w j : tr w = Some j -> dom j = true -> nodup_keys j = true ->
  Codec.bind (json_dumps (OVal w)) json_loads = Codec.Ok (OVal w).
Proof.
  intros Ht Hd Hn. unfold json_dumps. rewrite Ht, Hd. cbn [Codec.bind]. unfold json_loads.
  rewrite (read_write st Hsp strict surr j (tr_ok w j Ht)). rewrite (jv_norm_id j Hn), (untr_tr w j Ht). reflexivity.
Qed.

Lemma encode_value fm fu T v w j : isb T = false -> mar rt E fm T v = Ok w -> tr w = Some j -> dom j = true ->
  enc fm fu T v = Codec.Ok (OBytes (json_write st j)).
Proof.
  intros Hb Hm Ht Hd. unfold enc, Codec.codec_encode, Codec.codec, mk_mar, mk_unm. cbn [Codec.bind]. rewrite Hb.
  cbn [Codec.bind]. unfold Codec.Codec_encode. cbn [Codec.marshal Codec.encoder Codec.dflt routine_of].
  rewrite Hm. cbn [lift Codec.bind]. unfold json_dumps. rewrite Ht, Hd. reflexivity.
Qed.

Lemma valid_json fm fu T v w j : isb T = false -> mar rt E fm T v = Ok w -> tr w = Some j -> dom j = true ->
  exists b, enc fm fu T v = Codec.Ok (OBytes b) /\
            (forall s' u', json_read_gen s' u' b = Some j) /\ untr j = w /\
            (known_style st -> std_loads b = Some j /\ std_utf8_branch b = true).
Proof.
  intros Hb Hm Ht Hd. exists (json_write st j). pose proof (tr_ok w j Ht) as Hok. repeat split.
  - exact (encode_value fm fu T v w j Hb Hm Ht Hd).
  - intros s' u'. exact (read_write st Hsp s' u' j Hok).
  - exact (untr_tr w j Ht).
  - exact (std_loads_write st Hsp j Hok).
  - exact (proj2 (proj2 (output_wellformed st j H Hok))).
Qed.

Lemma roundtrip lv : RoundLaws rt lv ->
  forall n fm T v w j, (fm <= n)%nat ->
  valid rt lv E n T v = true -> c01_guard rt E n T v = true -> union_unamb rt lv E n T v = true ->
  mar rt E fm T v = Ok w -> tr w = Some j -> dom j = true -> nodup_keys j = true ->
  exists m, forall fu, (fu >= m)%nat ->
    Codec.bind (enc fm fu T v) (dec fm fu T) = Codec.Ok (OVal v).
Proof.
  intros L n fm T v w j Hle Hv Hg Hu Hm Ht Hd Hn.
  destruct (TL.Props.C01.C01_roundtrip rt lv E L n fm T v w Hle Hv Hg Hu Hm) as [m Hr].
  exists m. intros fu Hfu. unfold enc, dec.
  apply (TL.Props.C02.C02_roundtrip ty obj (mk_mar fm) (mk_unm fu) isb class_of json_dumps json_loads
           T (OVal v) None None (fun o => o = OVal w)).
  - unfold Codec.marshal_fn, Codec.unmarshal_fn, mk_mar, mk_unm. cbn [Codec.bind routine_of]. rewrite Hm.
    cbn [lift Codec.bind routine_of]. rewrite (Hr fu Hfu). reflexivity.
  - intros w' H. unfold Codec.marshal_fn, mk_mar in H. cbn [Codec.bind routine_of] in H. rewrite Hm in H.
    cbn [lift] in H. inversion H. reflexivity.
  - intros w' ->. cbn [Codec.dflt]. exact (encoder_law w j Ht Hd Hn).
Qed.
End Bridge.
