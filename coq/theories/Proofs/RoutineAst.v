(* Proofs for Model/RoutineAst.v: Core's composite steps ARE the interpretation of the expected routine programs. *)
From Coq Require Import List Arith Bool PeanoNat String Lia.
Import ListNotations.
Require Import TL.Model.Core TL.Model.CoreLate TL.Proofs.CoreMono TL.Proofs.CoreHash TL.Proofs.CoreLate TL.Model.RoutineAst.

(* ------------------------------------------------------------------ decidable equality is equality *)
Lemma tlist_eqb_eq : forall a b, tlist_eqb a b = true -> a = b.
Proof.
  induction a; destruct b; simpl; intros H; try discriminate; auto.
  - f_equal; auto.
  - f_equal; auto.
  - apply andb_true_iff in H as [H1 H2]. f_equal; auto.
  - apply andb_true_iff in H as [H1 H2]. f_equal; auto.
Qed.
Lemma sub_eqb_eq : forall a b, sub_eqb a b = true -> a = b.
Proof. intros [i] [j]; simpl; intros H. apply Nat.eqb_eq in H. congruence. Qed.
Lemma subs_eqb_eq : forall a b, subs_eqb a b = true -> a = b.
Proof. intros [x] [y]; simpl; intros H. f_equal. apply tlist_eqb_eq; exact H. Qed.
Lemma ctor_eqb_eq : forall a b, ctor_eqb a b = true -> a = b.
Proof. intros [] []; simpl; intros H; try discriminate; reflexivity. Qed.
Lemma prog_eqb_eq : forall a b, prog_eqb a b = true -> a = b.
Proof.
  induction a; destruct b; simpl; intros H; try discriminate; auto;
    repeat match goal with
           | H : _ && _ = true |- _ => apply andb_true_iff in H; destruct H
           end;
    f_equal; auto using sub_eqb_eq, subs_eqb_eq, ctor_eqb_eq.
Qed.
Lemma prog_eqb_refl : forall a, prog_eqb a a = true.
Proof.
  assert (TL : forall l, tlist_eqb l l = true).
  { induction l; simpl; auto; rewrite IHl1, IHl2; reflexivity. }
  assert (SB : forall s, sub_eqb s s = true) by (intros [i]; simpl; apply Nat.eqb_refl).
  assert (SS : forall s, subs_eqb s s = true) by (intros [l]; simpl; apply TL).
  assert (CT : forall c, ctor_eqb c c = true) by (intros []; reflexivity).
  induction a; simpl; rewrite ?SB, ?SS, ?CT, ?IHa; auto.
Qed.

(* the per-run table decides the source's programs *)
Lemma agrees_src : forall tb d h, agrees tb d h = true -> src_prog tb d h = expected d h.
Proof.
  intros tb d h H. unfold agrees in H. unfold src_prog.
  destruct (lookup (class_name d h) tb) as [p|]; [|discriminate]. apply prog_eqb_eq; exact H.
Qed.
Lemma src_prog_expected_dir : forall tb d h, progs_agree_dir d tb = true -> src_prog tb d h = expected d h.
Proof.
  intros tb d h H. apply agrees_src. unfold progs_agree_dir in H. rewrite forallb_forall in H.
  apply H. destruct h; simpl; auto 10.
Qed.
Lemma src_prog_expected : forall tb d h, progs_agree tb = true -> src_prog tb d h = expected d h.
Proof.
  intros tb d h H. unfold progs_agree in H. apply andb_true_iff in H as [HU HM].
  apply src_prog_expected_dir. destruct d; assumption.
Qed.

(* ------------------------------------------------------------------ generators *)
Lemma bind_assoc : forall A B C (r : res A) (f : A -> res B) (g : B -> res C),
  bind (bind r f) g = bind r (fun a => bind (f a) g).
Proof. intros A B C [a|e| |] f g; reflexivity. Qed.

Lemma mapM_sequence : forall A B (f : A -> res B) l, mapM f l = sequence (map f l).
Proof. induction l as [|x l IH]; simpl; [reflexivity | rewrite IH; reflexivity]. Qed.

Section Hashing.
Variable rt : runtime.
Context {A : Type}.
Variable key : A -> pv.

(* the earlier order of Core (Model/CoreLate.v): convert everything, then hash *)
Definition eager (l : list (res A)) : res (list A) :=
  bind (sequence l) (fun xs => if existsb (fun a => unhashable rt (key a)) xs then Raise EType else Ok xs).

Definition is_other {X} (r : res X) : bool :=
  match r with Ok _ => false | Raise EType => false | _ => true end.
Lemma is_other_bind : forall X Y (r : res X) (f : X -> res Y), is_other r = true -> is_other (bind r f) = true.
Proof. intros X Y [a|e| |] f H; simpl in *; try discriminate; auto. Qed.
Lemma is_other_not_type : forall X (r : res X), is_other r = true -> r <> Raise EType.
Proof. intros X r H E. rewrite E in H. discriminate. Qed.

Lemma late_true_eager : forall l B (f : list A -> res B),
  late_hash rt key true l = false -> (forall xs, f xs = Raise EType) -> bind (sequence l) f = Raise EType.
Proof.
  induction l as [|r l IH]; intros B f H Hf; simpl in *.
  - apply Hf.
  - destruct r as [a|e| |]; simpl in *; try discriminate.
    + rewrite bind_assoc. simpl. apply IH; auto.
    + destruct e; simpl in *; try discriminate; reflexivity.
Qed.

Lemma late_true_other : forall l, late_hash rt key true l = true -> is_other (sequence l) = true.
Proof.
  induction l as [|r l IH]; intros H; simpl in *; try discriminate.
  destruct r as [a|e| |]; simpl in *; auto.
  apply is_other_bind. apply IH; exact H.
Qed.

(* hashing as produced = convert-then-hash, outside late_hash *)
Lemma consume_eager : forall l, late_hash rt key false l = false -> consume_hashing rt key l = eager l.
Proof.
  induction l as [|r l IH]; intros H; simpl in *; [reflexivity|].
  destruct r as [a|e| |]; simpl in *; try reflexivity.
  unfold eager. simpl. rewrite bind_assoc. simpl.
  destruct (unhashable rt (key a)) eqn:U; simpl in *.
  - symmetry. apply late_true_eager; auto.
  - rewrite (IH H). unfold eager. rewrite bind_assoc.
    destruct (sequence l) as [xs|e| |]; simpl; try reflexivity.
    destruct (existsb (fun a0 => unhashable rt (key a0)) xs); reflexivity.
Qed.

(* the generator consumed by a hashing constructor IS Core's hashing conversion of the members *)
Lemma consume_mapM : forall X (f : X -> res A) l, consume_hashing rt key (map f l) = mapM (hashing rt key f) l.
Proof.
  induction l as [|x l IH]; simpl; [reflexivity|]. unfold hashing at 1, hash_check.
  destruct (f x) as [a|e| |]; simpl; try reflexivity.
  destruct (unhashable rt (key a)); simpl; [reflexivity|]. rewrite IH. reflexivity.
Qed.

(* ... and inside late_hash the code raises TypeError while convert-then-hash reports the later failure *)
Lemma consume_late : forall l, late_hash rt key false l = true ->
  consume_hashing rt key l = Raise EType /\ is_other (eager l) = true.
Proof.
  induction l as [|r l IH]; intros H; simpl in *; try discriminate.
  destruct r as [a|e| |]; simpl in *; try discriminate.
  - destruct (unhashable rt (key a)) eqn:U; simpl in *.
    + split; [reflexivity|]. unfold eager. simpl. apply is_other_bind. apply is_other_bind.
      apply late_true_other; exact H.
    + destruct (IH H) as [H1 H2]. rewrite H1. split; [reflexivity|].
      unfold eager in *. simpl. rewrite bind_assoc. simpl.
      destruct (sequence l) as [xs|e| |]; simpl in *; auto.
      destruct (existsb (fun a0 => unhashable rt (key a0)) xs); simpl in *; discriminate.
  - destruct e; discriminate.
Qed.
End Hashing.

(* ------------------------------------------------------------------ small list facts *)
Lemma zip_trunc_firstn : forall A B (a : list A) (b : list B), zip_trunc a (firstn (List.length a) b) = zip_trunc a b.
Proof. induction a as [|x a IH]; destruct b as [|y b]; simpl; auto. rewrite IH. reflexivity. Qed.
Lemma ltb_firstn : forall A (l : list A) n, Nat.ltb (List.length (firstn n l)) n = Nat.ltb (List.length l) n.
Proof.
  intros A l n. rewrite firstn_length.
  destruct (Nat.ltb (List.length l) n) eqn:H.
  - apply Nat.ltb_lt in H. apply Nat.ltb_lt. lia.
  - apply Nat.ltb_ge in H. apply Nat.ltb_ge. lia.
Qed.

(* calling the class = the required-key check of _required_keys, then the constructor *)
Lemma construct_class_split : forall c cd kw, req_wf cd = true ->
  construct_class c cd kw =
  if forallb (fun r => has_kw r kw) (required_keys cd) then call_class c cd kw else Raise EType.
Proof.
  intros c cd kw W. unfold construct_class, call_class, required_keys, req_wf in *.
  destruct (cflavour cd); simpl; try reflexivity.
  match goal with |- (if ?a then _ else _) = (if ?b then _ else _) => assert (EQ : a = b) end; [|rewrite EQ; reflexivity].
  apply eq_true_iff_eq. rewrite !forallb_forall. rewrite forallb_forall in W. split.
  - intros H r Hr. specialize (W r Hr). apply existsb_exists in W as [g [Hg Eg]]. apply Nat.eqb_eq in Eg. subst g.
    apply in_map_iff in Hg as [fd [Ef Hfd]]. specialize (H fd Hfd). rewrite Ef in H.
    apply orb_true_iff in H as [H|H]; [|exact H].
    apply negb_true_iff in H. exfalso.
    assert (X : existsb (Nat.eqb r) (crequired cd) = true) by (apply existsb_exists; exists r; split; [exact Hr | apply Nat.eqb_refl]).
    rewrite X in H. discriminate.
  - intros H fd Hfd. destruct (existsb (Nat.eqb (fname fd)) (crequired cd)) eqn:X; simpl; [|reflexivity].
    apply existsb_exists in X as [r [Hr Er]]. apply Nat.eqb_eq in Er. rewrite Er. apply H; exact Hr.
Qed.

(* ------------------------------------------------------------------ the steps *)
Section Steps.
Variable rt : runtime.
Variable E : env.

Ltac dres r := destruct r as [?|?| |]; simpl; try reflexivity.
Tactic Notation "dresn" constr(r) ident(n) := destruct r as [n|?| |]; simpl; try reflexivity.

(* ---- unmarshal ---- *)
Lemma unm_iterable : forall n k a x,
  run rt E (unm rt E n) (TSeq k a) (expected DU HIterable) x = unm rt E (S n) (TSeq k a) x.
Proof.
  intros n k a x. unfold run. simpl.
  dresn (load rt x) d. dresn (itervalues rt d) l.
  destruct k; simpl.
  - unfold elem_conv; simpl. rewrite mapM_sequence. dres (sequence (map (unm rt E n a) l)).
  - unfold elem_conv; simpl. rewrite mapM_sequence. dres (sequence (map (unm rt E n a) l)).
  - rewrite (construct_seq_after rt KSet). rewrite (elem_conv_hashes rt KSet) by reflexivity.
    rewrite (consume_mapM rt (fun v => v)). simpl.
    dres (mapM (hashing rt (fun v => v) (unm rt E n a)) l).
  - rewrite (construct_seq_after rt KFrozenset). rewrite (elem_conv_hashes rt KFrozenset) by reflexivity.
    rewrite (consume_mapM rt (fun v => v)). simpl.
    dres (mapM (hashing rt (fun v => v) (unm rt E n a)) l).
  - unfold elem_conv; simpl. rewrite mapM_sequence. dres (sequence (map (unm rt E n a) l)).
Qed.

Lemma unm_mapping : forall n k kt vt x,
  run rt E (unm rt E n) (TMap k kt vt) (expected DU HMapping) x = unm rt E (S n) (TMap k kt vt) x.
Proof.
  intros n k kt vt x. unfold run. simpl.
  dresn (load rt x) d. dresn (iteritems rt E d) l.
  rewrite (construct_map_after rt k). rewrite (consume_mapM rt fst). unfold kv_apply.
  dres (mapM (hashing rt fst (fun kv => bind (unm rt E n kt (fst kv)) (fun k' => bind (unm rt E n vt (snd kv)) (fun v' => Ok (k', v'))))) l).
Qed.

Lemma unm_tuple : forall n ts x,
  run rt E (unm rt E n) (TTuple ts) (expected DU HTuple) x = unm rt E (S n) (TTuple ts) x.
Proof.
  intros n ts x. unfold run. simpl.
  dresn (load rt x) d. dresn (itervalues rt d) l.
  rewrite ltb_firstn. destruct (Nat.ltb (List.length l) (List.length ts)); simpl; [reflexivity|].
  rewrite zip_trunc_firstn, mapM_sequence.
  dres (sequence (map (fun tv => unm rt E n (fst tv) (snd tv)) (zip_trunc ts l))).
Qed.

Lemma unm_struct_at : forall n t c cd x, class_of E t = Some (c, cd) -> req_wf cd = true ->
  run rt E (unm rt E n) t (expected DU HStruct) x =
  bind (load rt x) (fun d => bind (iteritems rt E d) (fun kvs =>
    bind (kwargs_in rt (unm rt E n) cd kvs) (fun kw => construct_class c cd kw))).
Proof.
  intros n t c cd x C W. unfold run. simpl. rewrite C.
  dresn (load rt x) d. dresn (iteritems rt E d) l.
  dresn (kwargs_in rt (unm rt E n) cd l) l0. rewrite (construct_class_split c cd l0 W).
  destruct (forallb _ (required_keys cd)); simpl; [|reflexivity].
  dres (call_class c cd l0).
Qed.

Lemma unm_union : forall n ts x,
  run rt E (unm rt E n) (TUnion ts) (expected DU HUnion) x = unm rt E (S n) (TUnion ts) x.
Proof.
  intros n ts x. unfold run. simpl. unfold union_stack_u, none_first.
  destruct (isoptional ts); simpl.
  - dres (first_ok rt (map (unm rt E n) (filter is_none_ty ts ++ filter (fun a => negb (is_none_ty a)) ts)) x).
  - dres (first_ok rt (map (unm rt E n) ts) x).
Qed.

Theorem unm_step : forall n t x h, head_of E t = Some h -> guard_u E t = true ->
  run rt E (unm rt E n) t (expected DU h) x = unm rt E (S n) t x.
Proof.
  intros n t x h H G. destruct t; simpl in H; try discriminate; try (injection H as <-).
  - apply unm_iterable.
  - apply unm_mapping.
  - apply unm_tuple.
  - apply unm_union.
  - destruct (E n0) as [[cd|t']|] eqn:EC; try discriminate. injection H as <-.
    assert (C : class_of E (TName n0) = Some (n0, cd)) by (simpl; rewrite EC; reflexivity).
    unfold guard_u in G. rewrite C in G. rewrite (unm_struct_at n _ _ _ x C G). simpl. rewrite EC. reflexivity.
  - destruct (E n0) as [[cd|t']|] eqn:EC; try discriminate. injection H as <-.
    assert (C : class_of E (TRef n0) = Some (n0, cd)) by (simpl; rewrite EC; reflexivity).
    unfold guard_u in G. rewrite C in G. rewrite (unm_struct_at n _ _ _ x C G). simpl. rewrite EC. reflexivity.
  - destruct (E n0) as [[cd|t']|] eqn:EC; try discriminate. injection H as <-.
    assert (C : class_of E (TAliasStr i n0) = Some (n0, cd)) by (simpl; rewrite EC; reflexivity).
    unfold guard_u in G. rewrite C in G. rewrite (unm_struct_at n _ _ _ x C G). simpl. rewrite EC. reflexivity.
Qed.

(* ---- marshal ---- *)
Lemma mar_iterable : forall n k a x,
  run rt E (mar rt E n) (TSeq k a) (expected DM HIterable) x = mar rt E (S n) (TSeq k a) x.
Proof.
  intros n k a x. unfold run. simpl. dresn (itervalues rt x) l. rewrite mapM_sequence.
  dres (sequence (map (mar rt E n a) l)).
Qed.

Lemma mar_mapping : forall n k kt vt x,
  run rt E (mar rt E n) (TMap k kt vt) (expected DM HMapping) x = mar rt E (S n) (TMap k kt vt) x.
Proof.
  intros n k kt vt x. unfold run. simpl.
  dresn (iteritems rt E x) l.
  rewrite (construct_map_after rt KDict). rewrite (consume_mapM rt fst). unfold kv_apply.
  dres (mapM (hashing rt fst (fun kv => bind (mar rt E n kt (fst kv)) (fun k' => bind (mar rt E n vt (snd kv)) (fun v' => Ok (k', v'))))) l).
Qed.

Lemma mar_tuple : forall n ts x,
  run rt E (mar rt E n) (TTuple ts) (expected DM HTuple) x = mar rt E (S n) (TTuple ts) x.
Proof.
  intros n ts x. unfold run. simpl. dresn (itervalues rt x) l. rewrite mapM_sequence.
  dres (sequence (map (fun tv => mar rt E n (fst tv) (snd tv)) (zip_trunc ts l))).
Qed.

Lemma mar_struct_at : forall n t c cd x, class_of E t = Some (c, cd) ->
  run rt E (mar rt E n) t (expected DM HStruct) x =
  bind (iteritems rt E x) (fun kvs =>
    bind (kwargs_in rt (mar rt E n) cd kvs) (fun kw => Ok (PDict KDict (map (fun fv => (PKey (fst fv), snd fv)) kw)))).
Proof.
  intros n t c cd x C. unfold run. simpl. rewrite C.
  dresn (iteritems rt E x) l. dres (kwargs_in rt (mar rt E n) cd l).
Qed.

Lemma mar_union : forall n ts x,
  run rt E (mar rt E n) (TUnion ts) (expected DM HUnion) x = mar rt E (S n) (TUnion ts) x.
Proof.
  intros n ts x. unfold run. simpl.
  destruct (isoptional ts && is_none_val rt x); simpl; [reflexivity|].
  dres (first_ok rt (map (mar rt E n) ts) x).
Qed.

Theorem mar_step : forall n t x h, head_of E t = Some h ->
  run rt E (mar rt E n) t (expected DM h) x = mar rt E (S n) t x.
Proof.
  intros n t x h H. destruct t; simpl in H; try discriminate; try (injection H as <-).
  - apply mar_iterable.
  - apply mar_mapping.
  - apply mar_tuple.
  - apply mar_union.
  - destruct (E n0) as [[cd|t']|] eqn:EC; try discriminate. injection H as <-.
    assert (C : class_of E (TName n0) = Some (n0, cd)) by (simpl; rewrite EC; reflexivity).
    rewrite (mar_struct_at n _ _ _ x C). simpl. rewrite EC. reflexivity.
  - destruct (E n0) as [[cd|t']|] eqn:EC; try discriminate. injection H as <-.
    assert (C : class_of E (TRef n0) = Some (n0, cd)) by (simpl; rewrite EC; reflexivity).
    rewrite (mar_struct_at n _ _ _ x C). simpl. rewrite EC. reflexivity.
  - destruct (E n0) as [[cd|t']|] eqn:EC; try discriminate. injection H as <-.
    assert (C : class_of E (TAliasStr i n0) = Some (n0, cd)) by (simpl; rewrite EC; reflexivity).
    rewrite (mar_struct_at n _ _ _ x C). simpl. rewrite EC. reflexivity.
Qed.

Lemma unm_struct : forall n c cd x, E c = Some (NClass cd) -> req_wf cd = true ->
  run rt E (unm rt E n) (TName c) (expected DU HStruct) x = unm rt E (S n) (TName c) x.
Proof.
  intros n c cd x EC W. apply unm_step; simpl; rewrite EC; [reflexivity | exact W].
Qed.
Lemma mar_struct : forall n c cd x, E c = Some (NClass cd) ->
  run rt E (mar rt E n) (TName c) (expected DM HStruct) x = mar rt E (S n) (TName c) x.
Proof.
  intros n c cd x EC. apply mar_step; simpl; rewrite EC; reflexivity.
Qed.

(* ---- against the earlier formulation of Core (convert every member, then hash: Model/CoreLate.v): inside the region
        where the orders differ the PROGRAM (the code) raises TypeError and the earlier step did not ---- *)
Lemma unm_iterable_late_outside : forall n k a x, seq_parts rt (unm rt E n) k a x = true ->
  run rt E (unm rt E n) (TSeq k a) (expected DU HIterable) x = Raise EType /\ CoreLate.is_other (seq_late rt (unm rt E n) k a x) = true.
Proof. intros n k a x H. rewrite unm_iterable. apply unm_seq_outside_late; exact H. Qed.
Lemma unm_mapping_late_outside : forall n k kt vt x, map_parts rt E (unm rt E n) kt vt x = true ->
  run rt E (unm rt E n) (TMap k kt vt) (expected DU HMapping) x = Raise EType /\ CoreLate.is_other (map_late rt E (unm rt E n) k kt vt x) = true.
Proof. intros n k kt vt x H. rewrite unm_mapping. apply unm_map_outside_late; exact H. Qed.
Lemma mar_mapping_late_outside : forall n k kt vt x, mmap_parts rt E (mar rt E n) kt vt x = true ->
  run rt E (mar rt E n) (TMap k kt vt) (expected DM HMapping) x = Raise EType /\ CoreLate.is_other (mmap_late rt E (mar rt E n) kt vt x) = true.
Proof. intros n k kt vt x H. rewrite mar_mapping. apply mar_map_outside_late; exact H. Qed.

(* ---- the same about the programs of a translated table ---- *)
Theorem unm_step_src : forall tb, progs_agree_dir DU tb = true ->
  forall n t x h, head_of E t = Some h -> guard_u E t = true ->
  run rt E (unm rt E n) t (src_prog tb DU h) x = unm rt E (S n) t x.
Proof. intros tb A n t x h H G. rewrite (src_prog_expected_dir tb DU h A). apply unm_step; assumption. Qed.
Theorem mar_step_src : forall tb, progs_agree_dir DM tb = true ->
  forall n t x h, head_of E t = Some h ->
  run rt E (mar rt E n) t (src_prog tb DM h) x = mar rt E (S n) t x.
Proof. intros tb A n t x h H. rewrite (src_prog_expected_dir tb DM h A). apply mar_step; assumption. Qed.

End Steps.
