(* The boolean BuildTables.orders_strict_ok, decided on tables of observed node orders, implies the hypothesis
   BuildComplete.orders_strict of the completeness theorems for the lookup function of that table. *)
From Coq Require Import List Arith Bool PeanoNat.
Import ListNotations.
Require Import TL.Model.Core TL.Model.CoreTables TL.Model.Build TL.Proofs.BuildLemmas TL.Proofs.BuildComplete TL.Model.BuildTables.

Lemma lookup_ty_in {A} k (tbl : list (ty * A)) a : lookup_ty k tbl = Some a -> In (k, a) tbl.
Proof. induction tbl as [|[k' a'] r IH]; cbn [lookup_ty]; intros H; [discriminate H|].
  destruct (ty_eqb k k') eqn:Ek; [|right; exact (IH H)].
  injection H as <-. apply ty_eqb_eq in Ek. subst k'. left. reflexivity. Qed.

Lemma orders_strict_ok_sound tbl : orders_strict_ok tbl = true -> orders_strict (fun k => lookup_ty k tbl).
Proof. unfold orders_strict_ok, orders_strict. intros H t ns Hl. rewrite forallb_forall in H.
  specialize (H (t, ns) (lookup_ty_in _ _ _ Hl)). cbn [fst snd] in H.
  destruct (rev ns) as [|root l] eqn:Er; [discriminate H|].
  assert (Hns : ns = rev l ++ [root]) by (rewrite <- (rev_involutive ns), Er; reflexivity).
  apply andb_true_iff in H. destruct H as [H Hcl]. apply andb_true_iff in H. destruct H as [H Hnr].
  apply andb_true_iff in H. destruct H as [Hty Hcy].
  exists (rev l), root. split; [exact Hns|]. split; [exact (ty_eqb_eq _ _ Hty)|].
  split; [apply negb_true_iff; exact Hcy|]. split; [apply negb_true_iff; exact Hnr|exact Hcl]. Qed.
